"""Checks of the schedule / crash-point properties (C02, C06, C07, C12) and the concurrent part of C03, C04, C13:
controlled schedules on the real sync::Arena (harness `sched`) vs the Lean step machine (`driver conc`), event by event,
plus executable oracles on the implementation traces (overlap / intact bytes, hangs, happens-before races via `driver hb`,
reference-count protocol, crash recovery)."""
import json, os, re, subprocess, sys, time, glob, concurrent.futures as cf
import vlib
from vlib import VERIF, WORK, log
import builtins as _b
def open(f, mode="r", *a, **kw):
    """text files are read / written tolerantly: an implementation that has gone wrong may print arbitrary bytes"""
    if "b" not in mode and "errors" not in kw:
        kw["errors"] = "replace"
    return _b.open(f, mode, *a, **kw)


JOBS = min(14, os.cpu_count() or 4)

# profiles: (name, quick cases, thorough cases)
SPROPS = {
    "C02": dict(profiles=[("fast", 250, 20000), ("list", 350, 30000), ("aba", 150, 12000)], tags={"C02"}, corpus=True, seq=[("buf", 200, 6000)],
                what="exclusive, intact live ranges under controlled thread interleavings"),
    "C07": dict(profiles=[("list", 500, 40000), ("fast", 100, 8000), ("aba", 150, 12000)], tags={"C07"}, corpus=True,
                what="every operation finishes under fair schedules"),
    "C12": dict(profiles=[("list", 300, 25000), ("fast", 150, 10000), ("refs", 250, 20000), ("aba", 100, 8000)], tags={"C12", "C13"}, corpus=True, seq=[("buf", 200, 6000)],
                what="happens-before for recycled memory and teardown"),
}

def sites():
    try:
        s = json.load(open(os.path.join(WORK, "sites.json")))
        f = json.load(open(os.path.join(WORK, "fnlines.json")))
        return s, sorted(f, key=lambda x: x[1])
    except Exception:
        return [], []

def site_name(at, S, F):
    """'sync.rs:593' or '593' -> 'find_position#2'"""
    m = re.search(r"(\d+)$", at or "")
    if not m: return at or "?"
    line = int(m.group(1))
    for fn, idx, kind, ln in S:
        if ln == line: return f"{fn}#{idx}"
    best = "?"
    for fn, ln in F:
        if ln <= line: best = fn
    return f"{best}@{line}"

def split_cases(lines):
    out, cur = [], []
    for l in lines:
        if l.strip() == "end":
            out.append(cur); cur = []
        else:
            cur.append(l)
    if cur: out.append(cur)
    return out

def norm(l):
    return re.sub(r" (at|vref)=\S+", "", l.rstrip("\n"))

def parse_case_file(lines):
    """thread programs: {tid: [op tokens]}"""
    progs = {}
    for l in lines:
        t = l.split()
        if t[:1] == ["thread"]:
            ops = [o.split() for o in " ".join(t[2:]).split(" ; ")]
            progs[int(t[1])] = [o for o in ops if o]
    return progs

def monitor_sched(case_lines, out_lines, S, F):
    """oracles on one implementation trace; returns list of (prop, sig, msg)"""
    V = []
    if out_lines and out_lines[0].startswith("died"):
        for p_ in ("C01", "C02", "C03", "C04", "C07", "C08", "C12", "C13", "C15", "C19"):
            V.append((p_, "impl-crash", f"the implementation killed the process ({out_lines[0].strip()}: SIGSEGV / abort inside the crate) while this schedule was running"))
        return V
    progs = parse_case_file(case_lines)
    cfg = vlib.parse_cfg(next((l for l in case_lines if l.startswith("cfg ")), "cfg"))
    live, dead = {}, []      # handle -> (off, cap)
    # handles created by the set-up phase
    pre_ops = [l.split()[1:] for l in case_lines if l.startswith("pre ")]
    pre_obs = [vlib.parse_obs(l) for l in out_lines[1:1 + len(pre_ops)]]
    for op, o in zip(pre_ops, pre_obs):
        if op and op[0].startswith("alloc_") and o.get("r") == "ok" and int(o.get("cap", 0)) > 0:
            live[int(op[1])] = (int(o["off"]), int(o["cap"]))
        elif op and op[0] in ("drop", "dealloc") and op[1].isdigit():
            live.pop(int(op[1]), None)
        elif op and op[0] == "detach" and op[1].isdigit() and int(op[1]) in live:
            dead.append(live.pop(int(op[1])))
        elif op and op[0] in ("rewind", "clear"):
            live.clear(); dead.clear()      # the caller gave everything up
    nexti = {t: 0 for t in progs}
    unmounted = False
    refs_zero_by = None
    crash_pending = None
    ev_seen = 0
    marked = {}   # thread -> node offset it has marked removed and not yet unlinked / restored
    inc_total = 0
    rel_ext, rel_acc = {}, {}
    last_ld, writes, aba_inserts = {}, {}, []   # (tid, loc) -> index of the thread's last load; loc -> [(index, tid)]
    aba_unlinks = []
    last_cursor = {}   # thread -> the value its latest load of the cursor returned
    try:
        doff_ = int(vlib.parse_obs(out_lines[0]).get("doff", "0")) if out_lines else 0
    except ValueError:
        doff_ = 0
    wipes_ = any(x and x[0] in ("rewind", "clear") for ops_ in progs.values() for x in ops_)
    rewound_ = any(x and x[0] in ("rewind", "clear") for ops_ in progs.values() for x in ops_) or any(x and x[0] in ("rewind", "clear") for x in pre_ops)
    di0 = None
    try:
        last_pre = vlib.parse_obs(out_lines[len(pre_ops)]) if out_lines else {}
        if "di" in last_pre: di0 = int(last_pre["di"])
    except Exception:
        pass
    for idx, l in enumerate(out_lines[1 + len(pre_ops):]):
        t = l.split()
        if not t: continue
        kind = t[0]
        o = vlib.parse_obs(l)
        if kind in ("ev", "na") and unmounted and not (kind == "na" and o.get("src") == "unmount"):
            V.append(("C12", "use-after-unmount", f"access after the backing memory was released: {norm(l)}"))
            V.append(("C13", "use-after-unmount", f"access after the backing memory was released: {norm(l)}"))
        if kind == "ev":
            tid = int(o["t"]); ev_seen += 1
            if o.get("k") == "ld" and o.get("loc") == "alloc":
                last_cursor[tid] = int(o.get("old", "0"))
            if crash_pending is not None:
                k_, r_ = crash_pending
                sig = site_name(o.get("at"), S, F)
                if marked and r_.startswith("hang"):
                    V.append(("C06", "crash-in-mark-window:hang", f"crash point #{k_} (before {norm(l)}) while thread(s) {sorted(marked)} had marked node(s) {sorted(marked.values())} removed but not yet unlinked: recovery {r_}"))
                else:
                    V.append(("C06", f"crash-before@{sig}:{r_.split(':')[0]}", f"crash point #{k_} (before {norm(l)}): recovery {r_}"))
                crash_pending = None
            # removal windows: mark CAS (node word gets size 0) ... unlink CAS or restore CAS by the same thread
            if o.get("k") == "cas" and o.get("ok") == "1":
                loc_ = o.get("loc", "")
                new_ = int(o.get("new", "0"))
                if loc_.startswith("node@") and (new_ >> 32) == 0:
                    marked[tid] = int(loc_[5:])
                elif tid in marked:
                    del marked[tid]
            # an in-flight release gives its memory back at its first access
            ops = progs.get(tid, [])
            i = nexti.get(tid, 0)
            if i < len(ops) and ops[i][0] in ("drop", "dealloc") and ops[i][1].isdigit():
                if int(ops[i][1]) in live: rel_ext[(tid, i)] = live[int(ops[i][1])]
                live.pop(int(ops[i][1]), None)
                if o.get("ok") == "1" and ((o.get("loc") == "alloc" and o.get("k") == "cas" and int(o.get("new", 0)) < int(o.get("old", 0)))
                                            or (o.get("loc") == "disc" and o.get("k") == "faa")):
                    rel_acc[(tid, i)] = True
            if o.get("loc") == "refs" and o.get("k") == "fas" and o.get("new") == "0":
                refs_zero_by = tid
            # ABA bookkeeping: a linking CAS of a release (optimistic_dealloc#0 / pessimistic_dealloc#0) that succeeds although the
            # predecessor word was rewritten by other threads between the inserter's read of it and the CAS (A -> B -> A)
            loc_ = o.get("loc", "")
            if o.get("k") == "ld":
                last_ld[(tid, loc_)] = ev_seen
            elif o.get("ok") == "1":
                sn_ = site_name(o.get("at"), S, F)
                if o.get("k") == "cas" and sn_.split("#")[0] in ("optimistic_dealloc", "pessimistic_dealloc"):
                    since = last_ld.get((tid, loc_), -1)
                    if any(i_ > since and t_ != tid for (i_, t_) in writes.get(loc_, [])):
                        aba_inserts.append((tid, loc_, sn_))
                # ... and an UNLINK CAS of a removal (alloc_slow_path_optimistic#3 / _pessimistic#1 / discard_freelist_in#3) that
                # succeeds on a predecessor word other threads rewrote in between: the remover takes a node it marked while
                # that node was not (or no longer) where it believes, and publishes a stale `next`
                if o.get("k") == "cas" and sn_ in ("alloc_slow_path_optimistic#3", "alloc_slow_path_pessimistic#1", "discard_freelist_in#3"):
                    since = last_ld.get((tid, loc_), -1)
                    if any(i_ > since and t_ != tid for (i_, t_) in writes.get(loc_, [])):
                        aba_unlinks.append((tid, loc_, sn_))
                writes.setdefault(loc_, []).append((ev_seen, tid))
            # C20: discarded() never decreases (no clear in these programs) ...
            if o.get("loc") == "disc" and o.get("ok") == "1" and o.get("k") != "ld":
                if int(o.get("new", "0")) < int(o.get("old", "0")) and int(o.get("old", "0")) < (1 << 32) - (1 << 20):
                    V.append(("C20", "discarded-decreases", f"the discarded counter went from {o.get('old')} to {o.get('new')}: {norm(l)}"))
        elif kind == "na":
            if o.get("src") == "unmount":
                if unmounted:
                    V.append(("C13", "double-unmount", "the backing memory was released twice"))
                unmounted = True; refs_zero_by = None
        elif kind == "res":
            tid, i = int(o["t"]), int(o["i"])
            ops = progs.get(tid, [])
            op = ops[i] if i < len(ops) else ["?"]
            nexti[tid] = i + 1
            r = o.get("r", "")
            if r.startswith(("panic", "trap", "sig")) or r == "diverge":
                V.append(("C02", "panic", f"t={tid} {' '.join(op)} -> {r}"))
                if op[0] in ("rd", "rd_var"):
                    V.append(("C15", "reader-panics", f"t={tid} {' '.join(op)} -> {r}"))
                if op[0] == "checksum":
                    V.append(("C19", "checksum-panics", f"t={tid} {' '.join(op)} -> {r}"))
                if op[0] == "slices":
                    V.append(("C15", "slices-panic", f"t={tid} slices -> {r}"))
            if op[0] == "slices" and r == "ok" and o.get("val", "").count(",") == 3:
                f_ = o["val"].split(",")
                if f_[2] != cfg.get("cap"):
                    V.append(("C15", "slice-lengths", f"t={tid} memory() has {f_[2]} bytes, the capacity is {cfg.get('cap')}"))
            if op[0] in ("rd", "rd_var") and tid in last_cursor:
                # judged against the cursor value this very call observed (its own load of `allocated`)
                al_ = last_cursor[tid]; off_ = int(op[-1])
                W_ = {"u8":1,"i8":1,"u16":2,"i16":2,"u32":4,"i32":4,"u64":8,"i64":8,"u128":16,"i128":16}.get(op[1], 1) if op[0] == "rd" else int(o.get("n", 1))
                if r == "ok" and off_ + W_ > al_:
                    V.append(("C15", "reads-beyond-allocated", f"t={tid} {' '.join(op)} succeeded although the cursor it read was {al_}"))
                if r == "OutOfBounds" and ((op[0] == "rd" and off_ + W_ <= al_) or (op[0] == "rd_var" and off_ < al_)):
                    V.append(("C15", "spurious-oob", f"t={tid} {' '.join(op)} refused although the cursor it read was {al_}"))
                if r == "ok" and "ref" in o and o.get("val") != o.get("ref"):
                    V.append(("C15", "wrong-value", f"t={tid} {' '.join(op)} returned {o.get('val')}, the bytes decode to {o.get('ref')}"))
            if op[0].startswith("alloc_") and r == "ok":
                off, cap = int(o["off"]), int(o["cap"])
                if cap > 0 and off < doff_:
                    for p_ in ("C02", "C01", "C04"):
                        V.append((p_, "below-data-offset", f"t={tid} {' '.join(op)} got [{off},{off+cap}), which starts below data_offset() = {doff_} (inside the reserved prefix / the header)"))
                if cap > 0:
                    # (a thread program that clears / rewinds the arena gives up every handle of the case at some point of
                    # the schedule: no exclusivity claim then)
                    for h2, (o2, c2) in ([] if wipes_ else list(live.items()) + [(None, d) for d in dead]):
                        if off < o2 + c2 and o2 < off + cap:
                            V.append(("C02", "overlap", f"t={tid} {' '.join(op)} got [{off},{off+cap}) which overlaps the live range [{o2},{o2+c2})"))
                            # (a live range can only be handed out again if some release gave back more than its own extent)
                            V.append(("C13", "overlap", f"t={tid} {' '.join(op)} got [{off},{off+cap}), part of the live range [{o2},{o2+c2}): a release gave back what it did not own"))
                    live[int(op[1])] = (off, cap)
                if op[0].startswith("alloc_bytes") and o.get("z") == "0":
                    V.append(("C02", "nonzero", f"t={tid} {' '.join(op)} returned non-zero bytes"))
                    V.append(("C08", "nonzero", f"t={tid} {' '.join(op)} returned non-zero bytes"))
                if op[0].startswith("alloc_t") and cap > 0 and int(op[2]) > 0 and off % int(op[2]) != 0:
                    V.append(("C03", "offset-align", f"t={tid} {' '.join(op)} offset {off}"))
                if op[0].startswith("alloc_aligned") and cap > 0 and (off % int(op[2]) != 0 or cap < int(op[3]) + int(op[4])):
                    V.append(("C03", "capacity", f"t={tid} {' '.join(op)} -> off {off} cap {cap}"))
                if op[0].startswith("alloc_bytes") and cap != int(op[2]):
                    V.append(("C03", "capacity", f"t={tid} {' '.join(op)} -> cap {cap}"))
                if op[0].startswith("alloc_t") and cap != int(op[3]):
                    V.append(("C03", "capacity", f"t={tid} {' '.join(op)} -> cap {cap}"))
            elif op[0].startswith("alloc_") and r not in ("ok", "InsufficientSpace", "ReadOnly", "nohandle"):
                V.append(("C04", "bad-error", f"t={tid} {' '.join(op)} -> {r}"))
            elif op[0] in ("drop", "dealloc") and len(op) > 1 and op[1].isdigit():
                ent_ = rel_ext.pop((tid, i), None)
                live.pop(int(op[1]), None)
                if ent_ and ent_[1] > 0 and r == "ok" and not rel_acc.get((tid, i)):
                    V.append(("C20", "release-unaccounted", f"t={tid} {' '.join(op)} of [{ent_[0]},+{ent_[1]}) neither moved the cursor back nor added to discarded()"))
            elif op[0] == "detach" and len(op) > 1 and op[1].isdigit() and int(op[1]) in live:
                dead.append(live.pop(int(op[1])))
            elif op[0] == "inc_discarded" and r == "ok":
                inc_total += int(op[1])
            elif op[0] == "verify" and o.get("v") == "0":
                V.append(("C02", "bytes-changed", f"t={tid} verify {op[1]}: the bytes of a live handle were modified by someone else"))
        elif kind == "died":
            for p_ in ("C01", "C02", "C03", "C04", "C07", "C08", "C12", "C13", "C15", "C19"):
                V.append((p_, "impl-crash", f"the implementation killed the process ({l.strip()}: SIGSEGV/abort inside the crate) while this schedule was running"))
        elif kind == "hang":
            sig = site_name(o.get("at"), S, F)
            V.append(("C07", f"hang@{sig}", f"thread {o.get('t')} never finishes operation #{o.get('i')}: it keeps executing {norm(l)}"))
            try:
                hop = progs.get(int(o.get("t")), [])[int(o.get("i"))]
            except Exception:
                hop = ["?"]
            if hop and hop[0].startswith("alloc_"):
                V.append(("C04", f"hang@{sig}", f"thread {o.get('t')}: {' '.join(hop)} neither returns a handle nor an error: it keeps executing {norm(l)}"))
        elif kind == "final":
            if o.get("lv") == "0":
                V.append(("C02", "bytes-changed", "final verification: the bytes of a live handle were modified by someone else"))
            # C10: at the quiescent end the list is well formed: finite, aligned, below the cursor, no marked node, ordered by
            # the policy, disjoint from the live handles
            if "fl" in o and "al" in o:
                try:
                    fl_ = vlib.parse_fl(o.get("fl"))
                except Exception:
                    fl_ = None
                kind_ = cfg.get("freelist")
                if fl_ is not None and not rewound_ and not any(x.startswith(("hang", "died")) for x in out_lines):
                    if None in fl_:
                        V.append(("C10", "cycle", "at the quiescent end the free-list walk does not terminate"))
                    else:
                        al_ = int(o["al"])
                        for s_ in fl_:
                            if s_[0] % 8 != 0 or s_[0] + 8 + s_[1] > al_:
                                V.append(("C10", "seg-shape", f"segment {s_} is misaligned or ends above the cursor {al_}"))
                            if s_[1] == 0:
                                V.append(("C10", "seg-marked", f"segment {s_} is still marked removed on the quiescent list {fl_}"))
                            for (o2, c2) in list(live.values()) + dead:
                                if c2 > 0 and o2 < s_[0] + 8 + s_[1] and s_[0] < o2 + c2:
                                    V.append(("C10", "seg-overlaps-live", f"segment {s_} overlaps the live range [{o2},{o2+c2})"))
                        for a_, b_ in zip(fl_, fl_[1:]):
                            osig = "order:after-aba-insert" if aba_inserts else "order"
                            oexp = (f" (thread {aba_inserts[0][0]} linked its segment with a CAS at {aba_inserts[0][2]} on {aba_inserts[0][1]}, a word other threads"
                                    f" had rewritten to another value and back since it read it: its position was chosen from a stale neighbour)") if aba_inserts else ""
                            if kind_ == "opt" and a_[1] < b_[1]: V.append(("C10", osig, f"quiescent list not descending: {fl_}{oexp}"))
                            if kind_ == "pess" and a_[1] > b_[1]: V.append(("C10", osig, f"quiescent list not ascending: {fl_}{oexp}"))
                        ext_ = sorted((s_[0], s_[0] + 8 + s_[1]) for s_ in fl_)
                        for a_, b_ in zip(ext_, ext_[1:]):
                            if a_[1] > b_[0]: V.append(("C10", "seg-overlap", f"segments overlap on the quiescent list: {fl_}"))
                        if kind_ == "none" and fl_: V.append(("C10", "none-has-list", f"Freelist::None has segments {fl_}"))
            # ... and every completed increase_discarded(n) is in it (other operations only add)
            if di0 is not None and "di" in o and inc_total and int(o["di"]) < di0 + inc_total and di0 + inc_total < (1 << 32):
                V.append(("C20", "increase-lost", f"discarded() = {o['di']} at the end, but it was {di0} before the threads started and they completed increase_discarded calls worth {inc_total}"))
            if refs_zero_by is not None and not unmounted:
                V.append(("C13", "leak", f"the reference count reached 0 (thread {refs_zero_by}) but the memory was never released"))
        elif kind == "crash":
            r_ = o.get("r", "")
            if r_ not in ("ok", "gone"):
                crash_pending = (o.get("k"), r_)
                if o.get("t") == "0":
                    if marked and r_.startswith("hang"):
                        V.append(("C06", "crash-in-mark-window:hang", f"crash point #{o.get('k')} (after the last step) with marked node(s) {sorted(marked.values())}: recovery {r_}"))
                    else:
                        V.append(("C06", f"crash-after-last:{r_.split(':')[0]}", f"crash point #{o.get('k')} (after the last step): recovery {r_}"))
                    crash_pending = None
    if aba_unlinks and V:
        # everything that goes wrong in a history containing an ABA unlink is attributed to it (one signature: known finding F18)
        t_, l_, s_ = aba_unlinks[0]
        why = (f" [this history contains an ABA unlink: thread {t_}'s unlink CAS at {s_} on {l_} succeeded although other threads had rewritten that word"
               f" (to another value and back) since the thread read it; it removed a node it had marked while the node was in flight and published a stale next pointer]")
        V = [(p_, "aba-unlink", m_ + why) for (p_, sg_, m_) in V if not sg_.startswith("crash-")] + [v_ for v_ in V if v_[1].startswith("crash-")]
    return V

def hb_races(out_path):
    p = subprocess.run([vlib.DRIVER, "hb"], stdin=open(out_path), stdout=subprocess.PIPE, text=True, errors="replace")
    res, cur, k = [], [], 0
    for l in p.stdout.splitlines():
        if l.strip() == "end":
            res.append(cur); cur = []
        else:
            cur.append(l)
    return res

def sweep_variants(case_lines, impl_lines, max_k=48, napoints=False):
    """single-preemption schedules for one generated case: a victim thread is granted k steps, then every other
    thread runs to completion (in tid order, and in reverse tid order), then the victim resumes (the fair
    round-robin finishes whatever is left). Exactly the shape of a lost-update / ABA / stale-read window."""
    progs = parse_case_file(case_lines)
    tids = sorted(progs)
    if len(tids) < 2: return []
    nev = {t: 0 for t in tids}
    for l in impl_lines:
        if l.startswith("ev "):
            m = re.match(r"ev t=(\d+)", l)
            if m and int(m.group(1)) in nev: nev[int(m.group(1))] += 1
        elif napoints and l.startswith("na ") and "src=clear" in l:
            m = re.match(r"na t=(\d+)", l)
            if m and int(m.group(1)) in nev: nev[int(m.group(1))] += 1
    head = [l for l in case_lines if not l.startswith(("sched", "end", "napoints"))]
    if napoints: head = head + ["napoints"]
    out = []
    for v in tids:
        others = [t for t in tids if t != v]
        ks = list(range(0, nev[v] + 1))
        if len(ks) > max_k:
            step = len(ks) / max_k
            ks = sorted({ks[int(i * step)] for i in range(max_k)})
        orders = [others] if len(others) == 1 else [others, others[::-1]]
        for od in orders:
            for k in ks:
                sch = [str(v)] * k
                for o_ in od:
                    sch += [str(o_)] * (nev[o_] * 2 + 12)
                out.append(head + ["sched " + " ".join(sch), "end"])
    return out

def robust_run(cases_file, impl_file):
    """`sched run` on a case file; when the implementation kills the process (SIGSEGV/abort inside the crate under test)
    the journal on stderr names the case, whose block becomes the single line `died rc=<n>`, and the remaining cases are
    run one per process. Returns the list of (case index, rc) that died."""
    binp = vlib.harness_bin("sched")
    q = vlib.run([binp, "run", cases_file], timeout=7200)
    out = q.stdout
    died = []
    if q.returncode != 0:
        begun = [int(x) for x in re.findall(r"(?m)^sched-begin (\d+)", q.stderr or "")]
        done = set(int(x) for x in re.findall(r"(?m)^sched-done (\d+)", q.stderr or ""))
        pend = [b for b in begun if b not in done]
        if pend:
            n = pend[-1]
            try:
                total = len(split_cases([l for l in open(cases_file).read().splitlines() if l.strip() and not l.startswith("#")]))
            except OSError:
                total = n + 1
            # keep only the complete blocks of the cases before n
            blocks = split_cases(out.splitlines())[:n]
            out = "".join("\n".join(b) + "\nend\n" for b in blocks)
            died.append((n, q.returncode))
            out += f"died rc={q.returncode}\nend\n"
            for k in range(n + 1, total):
                q2 = vlib.run([binp, "run", cases_file, "--only", str(k)], timeout=600)
                if q2.returncode == 0:
                    out += q2.stdout if q2.stdout.rstrip().endswith("end") else q2.stdout + "end\n"
                else:
                    died.append((k, q2.returncode)); out += f"died rc={q2.returncode}\nend\n"
    open(impl_file, "w").write(out)
    return died

def run_cases(prefix, cases, model=True):
    with open(prefix + ".cases", "w") as f:
        for c in cases: f.write("\n".join(c) + "\n")
    died = robust_run(prefix + ".cases", prefix + ".impl")
    if not model:
        return (1 if died else 0), True
    try:
        with open(prefix + ".cases") as fin, open(prefix + ".model", "w") as fout:
            subprocess.run([vlib.DRIVER, "conc"], stdin=fin, stdout=fout, stderr=subprocess.PIPE, text=True, errors="replace")
    except OSError:
        return (1 if died else 0), False
    return (1 if died else 0), True

def inject_ops(case_lines, what, rnd):
    """the same case with extra operations spliced into the thread programs (kept schedule; the fair round-robin
    finishes what the schedule does not cover)"""
    out = []
    for l in case_lines:
        if l.startswith("thread "):
            head, tid, rest = l.split(" ", 2)
            ops = rest.split(" ; ")
            for _ in range(rnd.randint(1, 3)):
                w = rnd.choice(what)
                if w == "inc_discarded": op = f"inc_discarded {rnd.choice([1, 2, 3, 5, 8, 13, 100])}"
                elif w == "set_minseg": op = f"set_minseg {rnd.choice([0, 1, 8, 16, 48])}"
                else: op = w
                ops.insert(rnd.randint(0, len(ops)), op)
            l = f"{head} {tid} " + " ; ".join(ops)
        out.append(l)
    return out

def gen_shard(args):
    r = gen_shard0(args[:5])
    nsweep = args[5] if len(args) > 5 else 0
    inject = args[6] if len(args) > 6 else None
    extra = []
    if inject and not args[4]:
        import random
        prefix = args[3]
        try:
            rnd = random.Random(args[1] * 31 + 7)
            cases = split_cases(open(prefix + ".cases").read().splitlines())
            inj = []
            for cl in cases:
                cl = [l for l in cl if l.strip() and not l.startswith("#")]
                if cl: inj.append(inject_ops(cl, inject, rnd) + ["end"])
            if inj:
                run_cases(prefix + "_inj", inj)
                extra.append(prefix + "_inj")
                # sweeps below are taken from the spliced cases
                args = list(args); args[3] = prefix + "_inj"
        except OSError as e:
            log("inject", prefix, e)
    if nsweep and not args[4]:
        prefix = args[3]
        try:
            cases = split_cases(open(prefix + ".cases").read().splitlines())
            impl = split_cases(open(prefix + ".impl").read().splitlines())
            var, nav = [], []
            for k, cl in enumerate(cases[:nsweep]):
                cl = [l for l in cl if l.strip() and not l.startswith("#")]
                if k < len(impl) and cl:
                    var += sweep_variants(cl, impl[k])
                    # implementation-only search: the arena's zero-fill as a scheduling point of its own
                    if any("src=clear" in l for l in impl[k]): nav += sweep_variants(cl, impl[k], 32, True)
            if var:
                run_cases(prefix + "_sw", var)
                extra.append(prefix + "_sw")
            if nav:
                run_cases(prefix + "_na", nav, model=False)
                extra.append(prefix + "_na")
        except OSError as e:
            log("sweep", prefix, e)
    if nsweep and args[4] and len(args) > 7 and args[7]:
        # crash-point mode on single-preemption schedules with the zero-fill as a scheduling point (implementation only)
        prefix = args[3]
        try:
            cases = split_cases(open(prefix + ".cases").read().splitlines())
            impl = split_cases(open(prefix + ".impl").read().splitlines())
            var = []
            for k, cl in enumerate(cases[:nsweep]):
                cl = [l for l in cl if l.strip() and not l.startswith("#") and l != "crash"]
                if k < len(impl) and cl and len(parse_case_file(cl)) >= 2:
                    for v in sweep_variants(cl, impl[k], 12, True):
                        var.append(v[:-1] + ["crash", "end"])
            if var:
                run_cases(prefix + "_cs", var, model=False)
                extra.append(prefix + "_cs")
        except OSError as e:
            log("crash sweep", prefix, e)
    return r[0], r[1], r[2], extra

def gen_shard0(args):
    profile, seed, cases, prefix, crash = args
    binp = vlib.harness_bin("sched")
    if not crash:
        p = vlib.run([binp, "gen", "--seed", str(seed), "--cases", str(cases), "--profile", profile, "--out", prefix], timeout=7200)
    else:
        tmp = prefix + "_src"
        p = vlib.run([binp, "gen", "--seed", str(seed), "--cases", str(cases), "--profile", profile, "--out", tmp], timeout=7200)
        # crash-point mode needs a file-backed arena: rewrite the generated cases
        try:
            src = open(tmp + ".cases").read()
            src = re.sub(r"backend=(vec|anon)", "backend=file", src)
            src = re.sub(r"(?m)^end$", "crash\nend", src)
            open(prefix + ".cases", "w").write(src)
            robust_run(prefix + ".cases", prefix + ".impl")
        except OSError:
            pass
    if not crash and p.returncode != 0 and os.path.exists(prefix + ".cases"):
        # the generator runs every case it emits: it died inside the crate under test. Re-run what it wrote, case by case.
        robust_run(prefix + ".cases", prefix + ".impl")
    ok = True
    try:
        with open(prefix + ".cases") as fin, open(prefix + ".model", "w") as fout:
            subprocess.run([vlib.DRIVER, "conc"], stdin=fin, stdout=fout, stderr=subprocess.PIPE, text=True, errors="replace")
    except OSError:
        ok = False
    return prefix, p.returncode, ok

def sched_stage(prop, P, tags, tier, seed, replay, wdir, S, F):
    """run corpus + generated schedule cases on the implementation and on the step machine; returns
    (mism, mon, n_cases, n_lines, n_events, classes, samples, feat)"""
    streams = []
    binp = vlib.harness_bin("sched")
    srcs = [replay] if replay else sorted(glob.glob(os.path.join(VERIF, "corpus", "sched", "*.case")))
    for cp in srcs:
        text = "\n".join(l for l in open(cp).read().splitlines() if l.strip() and not l.startswith("#")) + "\n"
        is_crash = re.search(r"(?m)^crash$", text) is not None
        if (not replay) and (is_crash != bool(P.get("crash")) or not P.get("corpus")):
            continue
        pre = os.path.join(wdir, "corpus_" + os.path.basename(cp).replace(".case", ""))
        open(pre + ".cases", "w").write(text if text.rstrip().endswith("end") else text + "\nend\n")
        robust_run(pre + ".cases", pre + ".impl")
        with open(pre + ".cases") as fin, open(pre + ".model", "w") as fout:
            subprocess.run([vlib.DRIVER, "conc"], stdin=fin, stdout=fout, stderr=subprocess.PIPE, text=True, errors="replace")
        streams.append(pre)
    if not replay:
        jobs = []
        for (profile, q, th) in P["profiles"]:
            total = q if tier == "quick" else (min(th, q * (3 if P.get("crash") else 8)) if tier == "search" else th)
            per = max(1, total // JOBS)
            for s in range(JOBS):
                nsw = {"quick": P.get("sweep", (2, 40))[0], "search": 2 if P.get("crash") else 16}.get(tier, (4 if P.get("crash") else P.get("sweep", (2, 40))[1]))
                jobs.append((profile, seed * 100003 + s * 7919 + sum(map(ord, profile)), per, os.path.join(wdir, f"{profile}_{s}"), bool(P.get("crash")), nsw, P.get("inject"),
                             bool(P.get("crash")) and tier != "quick" and profile in ("fast", "list")))
        with cf.ThreadPoolExecutor(max_workers=JOBS) as ex:
            for prefix, rc, ok, extra in ex.map(gen_shard, jobs):
                if rc != 0 or not ok: log(f"shard {prefix}: rc={rc} model_ok={ok}")
                streams.append(prefix)
                streams += extra
    n_cases = n_lines = n_events = 0
    mism, mon = [], []
    classes = set(); samples = []
    feat = {}
    for pre in streams:
        try:
            cases = split_cases(open(pre + ".cases").read().splitlines())
            impl = split_cases(open(pre + ".impl").read().splitlines())
            # implementation-only streams: zero-fill scheduling points, crash sweeps, whole-arena operations (clear / rewind
            # are not part of the step machine)
            impl_only = pre.endswith(("_na", "_cs")) or os.path.basename(pre).startswith("crashseq")
            model = impl if impl_only else split_cases(open(pre + ".model").read().splitlines())
        except OSError as e:
            # a shard whose harness run died (no output files) is a broken correspondence, never silently skipped
            log("missing", pre, e)
            mism.append({"stream": pre, "case": -1, "line": 0, "impl": f"<the sched harness died or wrote no output: {e}>", "model": "<n/a>", "case_lines": []})
            continue
        cases = [[l for l in c if l.strip() and not l.startswith("#")] for c in cases]
        cases = [c for c in cases if c]
        races = hb_races(pre + ".impl") if (("C12" in tags or "C08" in tags) and not impl_only) else []
        for k, cl in enumerate(cases):
            il = impl[k] if k < len(impl) else []
            ml = model[k] if k < len(model) else []
            n_cases += 1; n_lines += len(il)
            n_events += sum(1 for l in il if l.startswith("ev "))
            # correspondence: event by event (crash lines are implementation-only)
            a = [norm(l) for l in il if not l.startswith("crash ")]
            b = [norm(l) for l in ml]
            if a != b and not impl_only:
                j = next((i for i in range(min(len(a), len(b))) if a[i] != b[i]), min(len(a), len(b)))
                mism.append({"stream": pre, "case": k, "line": j, "impl": a[j] if j < len(a) else "<end>", "model": b[j] if j < len(b) else "<end>", "case_lines": cl})
            for v in monitor_sched(cl, il, S, F):
                if v[0] in tags: mon.append((pre, k, cl, v))
            # the happens-before judgement presupposes a race-free client: a handle is used by one thread only
            progs_ = parse_case_file(cl)
            users = {}
            for t_, ops_ in progs_.items():
                for o_ in ops_:
                    if len(o_) > 1 and o_[1].isdigit() and o_[0] not in ("clone", "drop_arena", "set_minseg", "inc_discarded"):
                        users.setdefault(o_[1], set()).add(t_)
            shared_handles = any(len(v_) > 1 for v_ in users.values())
            if k < len(races) and not shared_handles:
                hdr = races[k][0] if races[k] else ""
                m = re.search(r"races=(\d+)", hdr)
                if m and int(m.group(1)) > 0:
                    for msg in races[k][1:3]:
                        sig = "mixed-race" if msg.startswith("mixed") else "data-race"
                        if "C12" in tags: mon.append((pre, k, cl, ("C12", sig, msg)))
                        # the arena's zero-fill itself races with the previous owner's writes: the zeroes are not guaranteed
                        if "C08" in tags and msg.startswith("race: clear"):
                            mon.append((pre, k, cl, ("C08", "zero-fill-races", msg)))
            # class signature
            kinds = set()
            for l in il:
                if l.startswith("ev "):
                    o = vlib.parse_obs(l); kinds.add((o.get("k"), o.get("loc", "").split("@")[0], o.get("ok")))
                elif l.startswith("hang"): kinds.add(("hang",))
                elif l.startswith("crash"): kinds.add(("crash", vlib.parse_obs(l).get("r", "").split(":")[0]))
            cfg = vlib.parse_cfg(next((l for l in cl if l.startswith("cfg ")), "cfg"))
            key = (cfg.get("freelist"), cfg.get("unify"), len(parse_case_file(cl)), tuple(sorted(kinds)))
            classes.add(key)
            for kk in kinds: feat[str(kk)] = feat.get(str(kk), 0) + 1
            if len(samples) < 3 and len(il) > 12:
                samples.append([l for l in cl if not l.startswith("pre ")][:6] + [norm(l) for l in il if l.startswith(("ev", "res", "hang", "crash"))][:8])
    return mism, mon, n_cases, n_lines, n_events, classes, samples, feat

def traits_stage():
    """C12, static part: which public types the compiler lets cross / be shared between threads on the current tree
    (`seq traits`). Everything that embeds or borrows the single-threaded arena (plain reference counter, plain cursor)
    and every handle that owns a payload which is not thread-safe must stay on its thread: otherwise safe code can
    race on them."""
    p = vlib.run([os.path.join(vlib.TARGET, "release", "seq"), "traits"], timeout=60)
    rows, out = {}, []
    for l in p.stdout.splitlines():
        o = vlib.parse_obs(l)
        if "type" in o: rows[o["type"]] = (o.get("send"), o.get("sync"))
    if not rows:
        return [("C12", "traits-unavailable", "`seq traits` printed nothing")], rows
    for ty, (sd, sy) in sorted(rows.items()):
        if "unsync" in ty and (sd, sy) != ("0", "0"):
            out.append(("C12", "unsync-type-crosses-threads", f"{ty} is {'Send' if sd == '1' else ''}{' Sync' if sy == '1' else ''}: a value tied to the single-threaded arena (plain counters) can be used from two threads by safe code"))
        if "local" in ty and (sd, sy) != ("0", "0"):
            out.append(("C12", "payload-crosses-threads", f"{ty} is {'Send' if sd == '1' else ''}{' Sync' if sy == '1' else ''} although its payload type is neither: safe code can race on the payload through the handle"))
    if rows.get("sync::Arena") != ("1", "1"):
        out.append(("C12", "sync-arena-not-shareable", f"sync::Arena is no longer Send + Sync: {rows.get('sync::Arena')}"))
    return out, rows

def seq_side_stage(prop, P, tier, seed, replay, wdir, chk):
    """What a handle's own (safe, single-threaded) buffer operations do to bytes OUTSIDE the handle is part of the
    concurrent properties too: those bytes belong to whoever owns the neighbouring range, on whatever thread. The `buf`
    histories are run on the implementation and on the model, and the monitors tagged with this property judge the
    implementation's answers. Returns (mismatches, violations [(sig, msg, case lines)], cases, lines)."""
    import concurrent.futures as cf
    sdir = os.path.join(wdir, "seq"); os.makedirs(sdir, exist_ok=True)
    streams = []
    if replay:
        pre = os.path.join(sdir, "replay")
        chk.run_ops_file(replay, pre)
        vlib.run_model(replay, pre + ".model")
        streams.append((replay, open(replay).read().splitlines(True), open(pre + ".impl").read().splitlines(True), open(pre + ".model").read().splitlines(True)))
    else:
        jobs = []
        for (profile, q, th) in P.get("seq", []):
            total = q if tier == "quick" else th if tier == "thorough" else 2 * q
            per = max(1, total // chk.JOBS)
            for k in range(chk.JOBS):
                jobs.append((profile, seed * 100003 + k * 7919 + 4242, per, os.path.join(sdir, f"{profile}_{k}")))
        with cf.ThreadPoolExecutor(max_workers=chk.JOBS) as ex:
            for prefix, rc, summ, ok, err in ex.map(chk.gen_shard, jobs):
                if rc != 0 or not ok:
                    log(f"shard {prefix}: rc={rc} model_ok={ok} {err}")
                try:
                    streams.append((prefix + ".ops", open(prefix + ".ops").read().splitlines(True),
                                    open(prefix + ".impl").read().splitlines(True), open(prefix + ".model").read().splitlines(True)))
                except OSError as e:
                    log("missing stream", prefix, e)
    mism, viols, n_cases, n_lines = [], [], 0, 0
    for (name, ops, impl, model) in streams:
        starts = vlib.split_cases(ops)
        n_cases += len(starts); n_lines += len(ops)
        for m in vlib.diff_streams(ops, impl, model, None):
            if not m.get("op"): continue
            mism.append({"stream": name, "case": m["case"], "line": m["line"], "impl": m["impl"], "model": m["model"],
                         "case_lines": [l.rstrip("\n") for l in vlib.case_lines(ops, m["case_start"])]})
        for k, st in enumerate(starts):
            en = starts[k + 1] if k + 1 < len(starts) else len(ops)
            cops, cobs = ops[st:en], impl[st:en]
            if len(cobs) != len(cops): continue
            for v in vlib.monitor_case(cops, cobs, {prop}):
                if v[0] == prop:
                    viols.append((v[1], v[2], [l.rstrip("\n") for l in cops]))
    return mism, viols, n_cases, n_lines

def check(prop, tier, seed, replay, t0, chk):
    P = SPROPS[prop]
    tags = P["tags"] | {prop}
    wdir = os.path.join(WORK, prop); os.makedirs(wdir, exist_ok=True)
    for f in glob.glob(os.path.join(wdir, "*")):
        try: os.remove(f)
        except OSError: pass
    rdir = os.path.join(VERIF, "replays", prop)
    if os.path.isdir(rdir) and not replay:
        for f in glob.glob(os.path.join(rdir, "*")):
            try: os.remove(f)
            except OSError: pass
    pinfo = chk.proof_stage(prop)
    S, F = sites()
    bok, bout = vlib.cargo_build()
    if not bok or not os.path.exists(vlib.DRIVER):
        rp = chk.write_replay(prop, "build", "the harness / driver does not build against the current tree:\n" + bout[-3000:] + pinfo.get("build_out", ""))
        print(f"VIOLATION property={prop} replay={rp} no-failing-input-found")
        chk.finish(prop, tier, seed, pinfo, {}, t0, 1, [], 0, 0, 0, set())
        return 1
    traits_only = bool(replay) and any(l.strip() == "traits" for l in open(replay))
    # a replay file of the sequential side stage starts (after its comments) with a `cfg` line
    seq_replay = bool(replay) and next((l for l in open(replay) if l.strip() and not l.startswith("#")), "").startswith("cfg ")
    if traits_only or seq_replay:
        mism, mon, n_cases, n_lines, n_events, classes, samples, feat = [], [], 0, 0, 0, set(), [], {}
    else:
        mism, mon, n_cases, n_lines, n_events, classes, samples, feat = sched_stage(prop, P, tags, tier, seed, replay, wdir, S, F)
    if P.get("seq") and (seq_replay or not replay):
        qm, qv, qc, ql = seq_side_stage(prop, P, tier, seed, replay if seq_replay else None, wdir, chk)
        mism += qm; n_cases += qc; n_lines += ql
        feat["sequential buffer histories (cases)"] = qc
        for (sig, msg, cl) in qv:
            mon.append(("seq", 0, cl, (prop, sig, msg)))
    if prop == "C12" and (traits_only or not replay):
        tv, trows = traits_stage()
        feat["auto-trait rows"] = len(trows)
        for v in tv:
            mon.append((None, 0, ["traits"], v))
    known = [k for k in vlib.load_known() if k["property"] == prop]
    kn = {kf["sig"] for kf in known}
    if (mism or not pinfo["proof_ok"]) and not [v for (_, _, _, v) in mon if v[1] not in kn] and tier == "quick" and not replay:
        # the property is no longer shown to hold: search harder for a concrete failing schedule before giving up
        log(f"{prop}: proof/correspondence broken and no failing input yet: escalating the schedule search")
        wdir2 = os.path.join(wdir, "search"); os.makedirs(wdir2, exist_ok=True)
        m2, mon2, c2, l2, e2, cl2, _, _ = sched_stage(prop, P, tags, "search", seed + 7, None, wdir2, S, F)
        mism += m2; mon += mon2; n_cases += c2; n_lines += l2; n_events += e2; classes |= cl2
    violations, known_lines, seen = [], [], set()
    for (pre, k, cl, v) in mon:
        p_, sig, msg = v
        if sig in seen: continue
        seen.add(sig)
        if any(kf["sig"] == sig for kf in known):
            known_lines.append(f"KNOWN-FINDING: property={prop} {sig}: {msg}")
            continue
        rp = chk.write_replay(prop, re.sub(r"[^A-Za-z0-9_.#@-]", "_", sig), f"# {prop} violated on the implementation: [{p_}/{sig}] {msg}\n# replay: ./check {prop} --replay <this file>\n", cl + ([] if pre == "seq" else ["end"]))
        violations.append(f"VIOLATION property={prop} replay={rp}")
    broken = []
    if not pinfo["proof_ok"]:
        broken.append("proof: " + ("build failed" if not pinfo["build_ok"] else "axiom audit / scan failed" if pinfo["theorems"] else "no theorems"))
    if mism:
        broken.append(f"correspondence: {len(mism)} case(s): the step machine and the implementation produce different traces under the same schedule")
    if broken and not violations:
        detail = "\n".join(broken) + "\n" + pinfo.get("build_out", "") + "\n" + json.dumps(pinfo.get("axioms", {}), indent=1) + "\n" + "\n".join(pinfo.get("scan_hits", []))
        lines = None
        for m in mism[:3]:
            detail += f"\n--- first differing line ({m['stream']} case {m['case']} line {m['line']}):\n impl : {m['impl']}\n model: {m['model']}\n"
        if mism: lines = mism[0]["case_lines"] + ["end"]
        rp = chk.write_replay(prop, "unproved", "# " + detail.replace("\n", "\n# ") + "\n", lines)
        violations.append(f"VIOLATION property={prop} replay={rp} no-failing-input-found")
    for l in known_lines: print(l)
    for l in violations: print(l)
    chk.PROPS.setdefault(prop, {"what": P["what"]})
    chk.finish(prop, tier, seed, pinfo, {"features": feat, "atomic_events_compared": n_events,
               "rule": "cases = generated thread programs + schedules (and the corpus) run on the real sync::Arena under the controlled scheduler; distinct = distinct (freelist, unify, #threads, set of (access kind, location class, success) + hang/crash outcomes) classes; every case is non-trivial (at least two threads or a crash enumeration)"},
               t0, len(violations), samples, n_cases, n_lines, len(classes), classes, mism=len(mism))
    if not violations:
        print(f"OK property={prop} tier={tier} theorems={len(pinfo['theorems'])} cases={n_cases} events={n_events} classes={len(classes)} wall={time.time()-t0:.1f}s")
    return 1 if violations else 0
