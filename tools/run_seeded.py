#!/usr/bin/env python3
"""Apply every seeded mutant to /repo, run the check of its property (quick tier), undo; print a table."""
import json, os, subprocess, sys, glob, shutil
ids = sys.argv[1:]
# evidence written while a mutant is applied must never be committed: keep the clean-tree files aside
if os.path.isdir("/verif/work/evidence.keep"): shutil.rmtree("/verif/work/evidence.keep")
shutil.copytree("/verif/evidence", "/verif/work/evidence.keep")
rows = []
for d in sorted(glob.glob("/verif/seeded/*_m*")):
    name = os.path.basename(d); pid = name.split("_")[0]
    if ids and pid not in ids and name not in ids: continue
    subprocess.run(["git", "-C", "/repo", "checkout", "--", "."], check=True)
    a = subprocess.run(["git", "-C", "/repo", "apply", d + "/patch.diff"], capture_output=True, text=True)
    if a.returncode != 0:
        rows.append((name, "patch-does-not-apply", a.stderr.strip()[:100])); continue
    p = subprocess.run(["./check", pid], cwd="/verif", capture_output=True, text=True, timeout=3600)
    subprocess.run(["git", "-C", "/repo", "checkout", "--", "."], check=True)
    lines = [l for l in p.stdout.splitlines() if l.startswith(("VIOLATION", "OK"))] + [l[:60] for l in p.stdout.splitlines() if l.startswith("KNOWN")]
    verdict = "MISSED" if p.returncode == 0 else ("caught(no-input)" if all("no-failing-input-found" in l for l in lines if l.startswith("VIOLATION")) else "caught")
    rows.append((name, verdict, "; ".join(l.replace("VIOLATION property=", "V ") for l in lines)[:160]))
    print(rows[-1], flush=True)
subprocess.run(["git", "-C", "/repo", "checkout", "--", "."], check=True)
shutil.rmtree("/verif/evidence"); shutil.copytree("/verif/work/evidence.keep", "/verif/evidence")
old = {}
try: old = {r[0]: r for r in json.load(open("/verif/work/seeded_results.json"))}
except Exception: pass
for r in rows: old[r[0]] = r
json.dump(sorted(list(v) for v in old.values()), open("/verif/work/seeded_results.json", "w"), indent=1)
