"""Shared machinery of ./check: building, running harness and model, diffing, monitors, evidence."""
import json, os, re, subprocess, sys, time, hashlib, shutil
import builtins as _b
def open(f, mode="r", *a, **kw):
    """text files are read / written tolerantly: an implementation that has gone wrong may print arbitrary bytes"""
    if "b" not in mode and "errors" not in kw:
        kw["errors"] = "replace"
    return _b.open(f, mode, *a, **kw)


VERIF = os.path.dirname(os.path.dirname(os.path.abspath(__file__)))
REPO = os.environ.get("VERIF_REPO", "/repo")
LEAN = os.path.join(VERIF, "lean")
HARNESS = os.environ.get("VERIF_HARNESS_DIR", os.path.join(VERIF, "harness"))   # (override: development only)
TARGET = os.path.join(VERIF, "target")
WORK = os.path.join(VERIF, "work")
DRIVER = os.path.join(LEAN, ".lake", "build", "bin", "driver")
RUSTFLAGS = "--cfg rarena_verif --check-cfg cfg(rarena_verif)"
ALLOWED_AXIOMS = {"propext", "Classical.choice", "Quot.sound"}

def log(*a):
    print(*a, file=sys.stderr, flush=True)

def run(cmd, cwd=None, env=None, timeout=None, check=False, stdin=None, capture=True):
    e = dict(os.environ)
    if env:
        e.update(env)
    p = subprocess.run(cmd, cwd=cwd, env=e, timeout=timeout, input=stdin,
                       stdout=subprocess.PIPE if capture else None,
                       stderr=subprocess.PIPE if capture else None, text=True, errors="replace")
    if check and p.returncode != 0:
        raise RuntimeError(f"command failed ({p.returncode}): {cmd}\n{p.stdout}\n{p.stderr}")
    return p

# ----------------------------------------------------------------------------- build steps

def extract_gen():
    """translator: regenerate lean/RarenaVerif/Gen/*.lean from the current source tree"""
    p = run([sys.executable, os.path.join(VERIF, "tools", "extract.py")], cwd=VERIF)
    info = {}
    try:
        info = json.loads(p.stdout.strip().splitlines()[-1])
    except Exception:
        info = {"error": (p.stdout + p.stderr)[-2000:]}
    return info

def lake_build(targets):
    """returns (ok, output)"""
    p = run(["lake", "build"] + targets, cwd=LEAN, timeout=3600)
    return p.returncode == 0, p.stdout + p.stderr

SCAN_RE = re.compile(r"sorry|admit|^axiom |native_decide|bv_decide|implemented_by|unsafe |maxHeartbeats 0", re.M)

def strip_comments(src):
    # remove block comments (nested not handled beyond one level) and line comments
    out, depth, i = [], 0, 0
    while i < len(src):
        if src.startswith("/-", i):
            depth += 1; i += 2; continue
        if src.startswith("-/", i) and depth > 0:
            depth -= 1; i += 2; continue
        if depth == 0:
            out.append(src[i])
        elif src[i] == "\n":
            out.append("\n")
        i += 1
    s = "".join(out)
    return re.sub(r"--.*", "", s)

def prop_modules(prop_id):
    """the property's theorem files: Props/<id>.lean and its continuation files Props/<id><Suffix>.lean"""
    import glob as _g
    fs = sorted(_g.glob(os.path.join(LEAN, "RarenaVerif", "Props", f"{prop_id}*.lean")))
    return ["RarenaVerif.Props." + os.path.basename(f)[:-5] for f in fs if re.fullmatch(prop_id + r"[A-Za-z]*", os.path.basename(f)[:-5])]

def import_closure(prop_id):
    """files (relative module paths) transitively imported by the property's theorem files inside the project"""
    seen, todo = [], list(prop_modules(prop_id))
    while todo:
        mod = todo.pop()
        if mod in seen:
            continue
        p = os.path.join(LEAN, *mod.split(".")) + ".lean"
        if not os.path.exists(p):
            continue
        seen.append(mod)
        for m in re.findall(r"^import\s+(RarenaVerif\.[A-Za-z0-9_.]+)", open(p).read(), re.M):
            todo.append(m)
    return seen

def scan_sources(prop_id):
    """forbidden tokens outside comments in every file the property's theorems depend on"""
    hits = []
    for mod in import_closure(prop_id):
        p = os.path.join(LEAN, *mod.split(".")) + ".lean"
        body = strip_comments(open(p).read())
        for m in SCAN_RE.finditer(body):
            line = body.count("\n", 0, m.start()) + 1
            hits.append(f"{os.path.relpath(p, LEAN)}:{line}:{m.group(0).strip()}")
    return hits

def theorem_names(prop_id):
    """names of the theorems stated in Props/<id>.lean (and its continuation files)"""
    out = []
    for mod in prop_modules(prop_id):
        p = os.path.join(LEAN, *mod.split(".")) + ".lean"
        src = strip_comments(open(p).read())
        ns = re.findall(r"^namespace\s+(\S+)", src, re.M)
        prefix = (ns[0] + ".") if ns else ""
        out += [prefix + n for n in re.findall(r"^theorem\s+([A-Za-z0-9_'.]+)", src, re.M)]
    return out

def axiom_audit(prop_id):
    """#print axioms for every theorem of the property file; returns (ok, {thm: [axioms]}, output)"""
    names = theorem_names(prop_id)
    if not names:
        return False, {}, "no theorems found"
    os.makedirs(WORK, exist_ok=True)
    f = os.path.join(WORK, f"Audit_{prop_id}.lean")
    with open(f, "w") as fh:
        for mod in prop_modules(prop_id):
            fh.write(f"import {mod}\n")
        for n in names:
            fh.write(f"#print axioms {n}\n")
    p = run(["lake", "env", "lean", f], cwd=LEAN, timeout=1800)
    out = p.stdout + p.stderr
    res, ok = {}, p.returncode == 0
    for m in re.finditer(r"^'([^\n]+?)' depends on axioms: \[([^\]]*)\]", out, re.S | re.M):
        axs = [a.strip() for a in m.group(2).replace("\n", " ").split(",") if a.strip()]
        res[m.group(1)] = axs
        if not set(axs) <= ALLOWED_AXIOMS:
            ok = False
    for m in re.finditer(r"^'([^\n]+?)' does not depend on any axioms", out, re.M):
        res[m.group(1)] = []
    for n in names:
        if n not in res:
            ok = False
    return ok, res, out

def cargo_build(profile="release"):
    os.makedirs(TARGET, exist_ok=True)
    lock_src = os.path.join(REPO, "Cargo.lock")
    lock_dst = os.path.join(HARNESS, "Cargo.lock")
    if os.path.exists(lock_src) and not os.path.exists(lock_dst):
        shutil.copy(lock_src, lock_dst)
    cmd = ["cargo", "build", "--offline"] + (["--release"] if profile == "release" else [])
    p = run(cmd, cwd=HARNESS, env={"RUSTFLAGS": RUSTFLAGS, "CARGO_NET_OFFLINE": "true",
                                   "CARGO_TARGET_DIR": TARGET}, timeout=3600)
    return p.returncode == 0, p.stdout + p.stderr

def harness_bin(name, profile="release"):
    return os.path.join(TARGET, profile, name)

# ----------------------------------------------------------------------------- observation streams

def parse_obs(line):
    d = {}
    for t in line.strip().split(" "):
        if "=" in t:
            k, v = t.split("=", 1)
            d[k] = v
        elif t:
            d["_raw"] = d.get("_raw", "") + t
    return d

def split_cases(ops_lines):
    """indices of cfg lines"""
    return [i for i, l in enumerate(ops_lines) if l.startswith("cfg ")]

def run_model(ops_path, out_path):
    with open(ops_path) as fin, open(out_path, "w") as fout:
        p = subprocess.run([DRIVER, "model"], stdin=fin, stdout=fout, stderr=subprocess.PIPE, text=True, errors="replace")
    return p.returncode == 0, p.stderr

def diff_streams(ops, impl, model, fields, max_report=5):
    """compare on the projection `fields` (None = all keys). returns list of mismatches"""
    mism = []
    n = min(len(impl), len(model))
    starts = split_cases(ops)
    import bisect
    bad_cases = set()
    for i in range(n):
        a, b = impl[i].rstrip("\n"), model[i].rstrip("\n")
        if a == b:
            continue
        ci = bisect.bisect_right(starts, i) - 1
        if ci in bad_cases:
            continue  # only the first divergence of a case is meaningful
        da, db = parse_obs(a), parse_obs(b)
        keys = fields if fields is not None else sorted(set(da) | set(db))
        diffk = [k for k in keys if da.get(k) != db.get(k)]
        if diffk:
            bad_cases.add(ci)
            if len(mism) < max_report:
                mism.append({"line": i, "case": ci, "case_start": starts[ci] if ci >= 0 else 0,
                             "op": ops[i].strip(), "fields": diffk, "impl": a, "model": b})
            else:
                mism.append({"line": i, "case": ci, "case_start": starts[ci] if ci >= 0 else 0})
    if len(impl) != len(model):
        mism.append({"line": n, "case": -1, "case_start": 0, "op": "<length>", "fields": ["<length>"],
                     "impl": str(len(impl)), "model": str(len(model))})
    return mism

def case_lines(ops, start):
    out = [ops[start]]
    i = start + 1
    while i < len(ops) and not ops[i].startswith("cfg "):
        out.append(ops[i]); i += 1
    return out

# ----------------------------------------------------------------------------- monitors on implementation traces

U32 = 1 << 32
BUF_OPS = ("put", "get", "put_var", "get_var", "put_varu", "get_varu", "put_slice", "set_len", "align_to", "put_aligned", "putT")

def parse_fl(s):
    if s is None or s == "[]":
        return []
    out = []
    for it in s.strip("[]").split(","):
        if it == "...":
            out.append(None)
        elif it:
            o, z = it.split(":"); out.append((int(o), int(z)))
    return out

def parse_cfg(line):
    return dict(t.split("=", 1) for t in line.split()[1:] if "=" in t)

def release_expect(kind, pal, pdi, pfl, ms_, boff_, bcap_):
    """the release rule: what dropping a non-detached handle with buffer extent [boff_, boff_+bcap_) does to
    (allocated, discarded, free list as a set); returns (al, di, sorted list)"""
    pad_ = (-boff_) % 8
    if pal == boff_ + bcap_:
        return (boff_, pdi, sorted(pfl))
    if kind == "none" or bcap_ <= pad_ + 8 or bcap_ - pad_ - 8 < ms_:
        return (pal, (pdi + bcap_) % U32, sorted(pfl))
    return (pal, (pdi + 8) % U32, sorted(pfl + [(boff_ + pad_, bcap_ - pad_ - 8)]))

def leb_len(ty, v):
    """bytes of the LEB128 encoding of v as type ty (zig-zag for the signed types)"""
    bits = int(ty[1:])
    u = (v % (1 << bits)) if ty[0] == "u" else ((2 * v) if v >= 0 else (-2 * v - 1)) % (1 << bits)
    n = 1
    while u >= 128:
        u >>= 7; n += 1
    return n


def monitor_case(ops, obs, which):
    """Evaluate the executable oracles `which` (set of property ids) on one case of an
    implementation trace. Returns list of (property, signature, message, line_index)."""
    viol = []
    cfg = parse_cfg(ops[0])
    o0 = parse_obs(obs[0])
    if o0.get("r") != "ok":
        # C16: construction fails exactly when the capacity cannot hold the prefix (or the options are invalid:
        # alignment not a power of two is refused with a panic by contract and not generated)
        try:
            res_, cap_ = int(cfg.get("reserved", "0")), int(cfg.get("cap", "0"))
            unified_ = cfg.get("unify") == "1" or cfg.get("backend") == "file"
            prefix_ = ((res_ + 7) // 8 * 8 + 32) if unified_ else res_ + 1
            if o0.get("r", "").startswith(("io:", "Insufficient")) and cap_ >= prefix_ and cap_ > 0:
                viol.append(("C16", "construction-refused", f"{ops[0].strip()} -> {o0.get('r')} although the capacity {cap_} holds the prefix ({prefix_} bytes)", 0))
        except ValueError:
            pass
        return [v for v in viol if v[0] in which]
    doff = int(o0["doff"])
    kind = cfg["freelist"]
    maxalign = int(cfg.get("maxalign", "8"))
    backend = cfg.get("backend", "vec")
    live = {}      # handle -> (off, cap, boff, bcap, owned, kind)
    dead = []      # detached extents that stay reserved: (off, cap, boff, bcap)
    clones = 0
    held = set()   # owned handles detached by `hold` and still alive: each keeps an arena value
    prev = o0
    rewound = False
    bufs = {}      # byte-buffer handle -> [off, cap, len]
    fstate = {"closed": False, "before_close": None, "mode": None, "fh_open": None, "badfile": False, "last_fh": None, "kind_ok_ro": True}
    dcount = 0
    dhandles = set()   # live handles of the drop-counting type
    lastput = None # (handle, op tokens, len before)
    def V(p, sig, msg, i):
        viol.append((p, sig, msg, i))
    for i in range(1, len(ops)):
        t = ops[i].split()
        if t and t[0] in ("wput", "wput_var"): t[0] = t[0][1:]     # the io::Write-flavoured wrappers: same contract
        if t and t[0] == "iowrite": t[0] = "put_slice"             # `std::io::Write::write`: all of the slice or an error
        o = parse_obs(obs[i])
        r = o.get("r", "")
        if r in ("nocase", "nohandle", "na") or not t:
            if "al" in o: prev = o
            continue
        if r.startswith("panic") or r.startswith("trap") or r.startswith("sig") or r == "diverge":
            # (`reserved_slice_mut` on a read-only arena panics by contract; `set_len` beyond the capacity too)
            # the `*_varint_unchecked` calls panic by contract: the put when the encoding does not fit, the get on
            # bytes that are no varint (the latter is left to the comparison with the model)
            unchecked_ok = False
            if r.startswith("panic") and t[0] == "get_varu":
                unchecked_ok = True
            if r.startswith("panic") and t[0] == "put_varu" and len(t) == 4 and t[1].isdigit() and int(t[1]) in bufs:
                _, bc_, bl_ = bufs[int(t[1])]
                if bc_ - bl_ < leb_len(t[2], int(t[3])):
                    unchecked_ok = True
                else:
                    V("C14", "unchecked-put-panics", f"{ops[i].strip()} panicked with {bc_ - bl_} bytes of room (needs {leb_len(t[2], int(t[3]))})", i)
            if not (t[0] == "set_len") and not unchecked_ok and not (t[0] == "wres" and r.startswith("panic") and fstate.get("ro_state") and not fstate["closed"]):
                V("C04", "panic", f"{ops[i].strip()} -> {r}", i)
                if t[0] in ("rd", "rd_var", "slices"):
                    V("C15", "reader-crashes", f"{ops[i].strip()} -> {r} (a reader returns the value or OutOfBounds)", i)
                if t[0] == "checksum":
                    V("C19", "checksum-crashes", f"{ops[i].strip()} -> {r}", i)
                if t[0] in BUF_OPS:
                    V("C14", "buffer-op-panics", f"{ops[i].strip()} -> {r} (a buffer operation either stores the value or fails with InsufficientBuffer)", i)
                if t[0].startswith("alloc_") and fstate.get("truncated"):
                    V("C18", "alloc-panics-after-truncate", f"{ops[i].strip()} -> {r} after a truncate (allocations succeed exactly when they fit the new capacity)", i)
            # C09: a read-only arena rejects mutating calls with an error or the documented panic of
            # `reserved_slice_mut`, never with a crash
            if fstate.get("ro_state") and not fstate["closed"] and (r.startswith("sig") or (r.startswith("panic") and t[0] != "wres")):
                V("C09", "ro-crash", f"{ops[i].strip()} on a read-only arena -> {r}", i)
            if "al" not in o:
                break
        # ---- file operations (C05 / C09)
        op = t[0]
        if op == "crashcheck" and r == "ok" and o.get("ce") == "0":
            V("C06", "boundary-crash", f"killed after {ops[i-1].strip() if i > 0 else 'creation'}: the file as it is now reopens to a different arena than the running one (open: {o.get('cr')})", i)
            V("C05", "boundary-crash", f"killed after {ops[i-1].strip() if i > 0 else 'creation'}: the file as it is now reopens to a different arena than the running one (open: {o.get('cr')})", i)
            if fstate.get("truncated"):
                V("C18", "file-lags-after-truncate", f"after a truncate of this file-backed arena the file is no longer the arena: reopening it as it is now gives a different state (open: {o.get('cr')})", i)
                V("C15", "file-lags-after-truncate", f"after a truncate of this file-backed arena the file is no longer the arena: reopening it as it is now gives a different state (open: {o.get('cr')})", i)
        if op == "crashcheck" and r == "ok" and o.get("cp", "ok") != "ok" and not fstate.get("tampered"):
            V("C06", "reopened-op-" + o["cp"], f"killed after {ops[i-1].strip() if i > 0 else 'creation'}: the file opens again, but an operation on the reopened arena (a request the free list must serve / a release / discard_freelist) ends with {o['cp']}", i)
        if op == "close" and r == "ok" and o.get("mp", "0") != "0":
            V("C13", "mapping-not-released", f"after the last arena value was dropped the process still maps the file ({o['mp']} mapping(s)): the backing memory was not (completely) released", i)
        if op == "close" and r == "ok" and "um" in o and o["um"] != "1":
            V("C13", "unmount-count", f"close released the backing memory {o['um']} times (expected exactly once)", i)
        if op == "close_last" and r == "ok":
            if o.get("mp", "0") != "0":
                V("C13", "mapping-not-released", f"after the last owner (handle {t[1]}) was dropped the process still maps the file ({o['mp']} mapping(s))", i)
            h_ = int(t[1])
            ent_ = live.get(h_)
            if h_ in dhandles:
                dhandles.discard(h_); dcount += 1      # dropped, not detached: its value is dropped
            exp_ = None
            if ent_ and fstate["mode"] in (None, "mut") and None not in parse_fl(prev.get("fl")) and not rewound:
                e_ = release_expect(kind, int(prev["al"]), int(prev["di"]), parse_fl(prev.get("fl")), int(prev.get("ms", "0")), ent_[2], ent_[3])
                exp_ = {"al": str(e_[0]), "di": str(e_[1]), "ms": prev.get("ms"), "flset": e_[2], "last_owner": ops[i].strip()}
            if h_ in live: live.pop(h_)
            op = "close"                                   # the rest is an ordinary close
            fstate["expect_after_last"] = exp_
        if op == "close" and r == "ok":
            fstate["closed"] = True
            if fstate["mode"] in (None, "mut"):   # only a shared writable session leaves its state in the file
                fstate["before_close"] = prev
                if t[0] == "close_last":
                    fstate["before_close"] = fstate.get("expect_after_last")
            # a file marked remove-on-drop disappears exactly when the last arena value goes (here: at `close`), in every mode
            if fstate.get("remove") and o.get("fh") != "none":
                V("C13", "remove-on-drop-ignored", f"close after remove_on_drop(true) in a {fstate['mode'] or 'creating'} session: the file is still there", i)
            if not fstate.get("remove") and o.get("fh") == "none":
                V("C13", "file-removed-unasked", "close removed the file although it was not marked remove-on-drop", i)
                V("C05", "file-removed-unasked", "close removed the file although remove_on_drop(false) was the last setting: nothing is left to reopen", i)
                if fstate["mode"] in ("ro", "copy_ro"):
                    V("C09", "file-removed-unasked", f"the close of a {fstate['mode']} session removed the file although remove_on_drop(false) was the last setting: a read-only arena never changes the file", i)
            if fstate["mode"] in ("ro", "copy_ro", "copy") and fstate["fh_open"] is not None and o.get("fh") != fstate["fh_open"] and not fstate.get("remove"):
                V("C09" if fstate["mode"] != "copy" else "C05", "session-changes-file",
                  f"file hash changed during a {fstate['mode']} session: {fstate['fh_open']} -> {o.get('fh')}", i)
            fstate["last_fh"] = o.get("fh")
            # handles still held at close are detached by the harness: their ranges stay reserved — except in a
            # copy-on-write session, whose allocations never reach the file
            for ent in live.values():
                if ent[1] > 0: dead.append(ent[:4])
            if fstate["mode"] == "copy":
                dead[:] = fstate.get("dead_at_open", [])
            live.clear(); bufs.clear(); clones = 0; held.clear()
            if o.get("fh") == "none":   # remove_on_drop: the file is gone, a later open starts afresh
                fstate["before_close"] = None; dead.clear()
        if op in ("delete_file", "random_file") and r == "ok":
            fstate["before_close"] = None; dead.clear()
        if op in ("mutate_file", "truncate_file", "random_file", "delete_file") and r == "ok":
            fstate["tampered"] = True   # the file was changed behind the arena's back: no claim about what a later open finds in it
            reserved = int(cfg.get("reserved", "0")) + int(cfg.get("offset", "0"))   # position in the FILE
            fdoff = doff + int(cfg.get("offset", "0"))
            if op == "mutate_file" and o.get("fh") != fstate["last_fh"]:
                I = int(t[1])
                if reserved + 1 <= I < reserved + 8:
                    fstate["badfile"] = True
                    fstate["kind_ok_ro"] = (I == reserved + 1 and int(t[2]) in (0, 1, 2))
                elif I < fdoff:
                    pass
            if op == "truncate_file" and int(t[1]) < fdoff:
                fstate["badfile"] = True; fstate["kind_ok_ro"] = False
            if op in ("random_file", "delete_file"):
                fstate["badfile"] = None   # unknown validity
                # ... except that a file shorter than the arena prefix can never be valid
                if op == "random_file" and o.get("flen", "none").isdigit() and int(o["flen"]) < fdoff:
                    fstate["badfile"] = True; fstate["kind_ok_ro"] = False
            fstate["last_fh"] = o.get("fh")
        if op == "reopen":
            kvs = dict(x.split("=", 1) for x in t[2:] if "=" in x)
            mode = t[1]
            ro_mode = mode in ("ro", "copy_ro")
            if o.get("pk") == "0" and (r.startswith("io:") or ro_mode):
                V("C09", "open-alters-file", f"{ops[i].strip()} -> {r}: bytes that were in the file changed", i)
                V("C05", "open-alters-file", f"{ops[i].strip()} -> {r}: the file no longer holds what the arena left there when it was closed", i)
            excl = kvs.get("create") in ("2", "3") and mode in ("mut", "copy")
            if excl and r == "ok" and fstate["last_fh"] not in (None, "none"):
                for p_ in ("C09", "C05"):
                    V(p_, "create-new-not-exclusive", f"{ops[i].strip()} succeeded although the file exists: an exclusive creation must be refused (AlreadyExists) and leave the file alone", i)
            if r.startswith("io:") and not excl and fstate["badfile"] is False and fstate["before_close"] is not None \
               and kvs.get("magic") == cfg.get("magic") and kvs.get("reserved") == cfg.get("reserved") \
               and (ro_mode or kvs.get("freelist") == cfg.get("freelist")) \
               and (kvs.get("cap") in ("same", "none") or (kvs.get("cap", "").isdigit() and int(kvs["cap"]) >= int(cfg.get("cap", "0")))):
                V("C05", "own-file-refused", f"{ops[i].strip()} -> {r}: a file written and closed by this very history is refused with the identification it was created with", i)
                V("C16", "own-file-refused", f"{ops[i].strip()} -> {r}: construction on the arena's own file fails although the capacity holds the prefix", i)
            if r == "ok" and kvs.get("cap", "").isdigit() and int(kvs["cap"]) < doff:
                V("C16", "accepts-small-capacity", f"{ops[i].strip()} yields an arena although the capacity {kvs['cap']} cannot hold the prefix ({doff} bytes)", i)
            if r == "ok":
                wrong_magic = kvs.get("magic") != cfg.get("magic")
                wrong_fl = (not ro_mode) and kvs.get("freelist") != cfg.get("freelist")
                if fstate["badfile"] is False and (wrong_magic or wrong_fl) and kvs.get("reserved") == cfg.get("reserved"):
                    V("C09", "accepts-mismatch", f"{ops[i].strip()} succeeded although magic/freelist differ from the file's", i)
                if fstate["badfile"] is True and not (ro_mode and fstate["kind_ok_ro"]):
                    V("C09", "accepts-bad-file", f"{ops[i].strip()} succeeded on a file with a corrupted identification / too short", i)
                b = fstate["before_close"]
                # (no claim on an arena opened with a capacity below the cursor stored in the file: DESIGN 0.4b)
                if b is not None and "flset" in b and fstate["badfile"] is False and not fstate.get("tampered") and int(o.get("al", 0)) <= int(o.get("cp", 0)) and "..." not in o.get("fl", ""):
                    # the arena ended with an owned handle as its last owner: the file must show that handle's extent released
                    got = (o.get("al"), o.get("di"), sorted(x_ for x_ in parse_fl(o.get("fl")) if x_))
                    if got != (b["al"], b["di"], b["flset"]):
                        V("C13", "last-owner-release", f"{b['last_owner']} (the owned handle outlived every arena value) should leave (al,di,fl) = {(b['al'], b['di'], b['flset'])}; the reopened file has {got}", i)
                        V("C05", "last-owner-release", f"the file does not hold the state the arena ended in: {b['last_owner']} (an owned handle as the last owner) should leave (al,di,fl) = {(b['al'], b['di'], b['flset'])}; the reopened file has {got}", i)
                    b = None
                if b is not None and "flset" in b:
                    b = None    # (expectation of a `close_last`, not judged on this degenerate arena)
                if b is not None and fstate["badfile"] is False and not fstate.get("tampered") and int(o["al"]) <= int(o["cp"]) and int(b["al"]) <= int(b["cp"]):
                    for k in ("al", "di", "ms", "fl", "ma"):
                        if o.get(k) != b.get(k):
                            V("C05", "state-differs", f"after {ops[i].strip()}: {k}={o.get(k)} but {b.get(k)} before closing", i)
                            if k == "di":
                                V("C20", "reopen-changes-discarded", f"after {ops[i].strip()}: discarded() = {o.get(k)}, it was {b.get(k)} when the arena was closed", i)
                            if k == "fl":
                                V("C10", "reopen-changes-list", f"after {ops[i].strip()}: free list {o.get(k)}, it was {b.get(k)} when the arena was closed", i)
                            break
                    if o.get("doff") != o0.get("doff") or o.get("mv") != cfg.get("magic") or o.get("fk") != cfg.get("freelist"):
                        V("C05", "identity-differs", f"after {ops[i].strip()}: doff/mv/fk = {o.get('doff')}/{o.get('mv')}/{o.get('fk')}", i)
                    if "pol" in o:
                        for p_ in ("C05", "C09"):
                            V(p_, "policy-differs-from-file", f"after {ops[i].strip()}: the file records free-list kind {o.get('fk')}, the reopened arena works with {o['pol']}", i)
                    if o.get("ro") != ("1" if ro_mode else "0"):
                        V("C09", "ro-flag", f"{ops[i].strip()}: read_only() = {o.get('ro')}", i)
                fstate["closed"] = False; fstate["mode"] = mode; fstate["fh_open"] = o.get("fh"); fstate["magic"] = kvs.get("magic"); fstate["remove"] = False; fstate["truncated"] = False
                if not ro_mode and kvs.get("freelist") in ("none", "opt", "pess"):
                    kind = kvs["freelist"]   # the policy this arena value was configured with
                fstate["dead_at_open"] = list(dead)
                fstate["ro_state"] = (o.get("al"), o.get("di"), o.get("ms"), o.get("fl"), o.get("mem")) if ro_mode else None
            fstate["last_fh"] = o.get("fh", fstate["last_fh"])
            # a refused open may leave a (new, empty or short) file behind: from now on it EXISTS and is too short to be an arena
            if r.startswith("io:") and o.get("flen", "none").isdigit() and int(o["flen"]) < doff + int(cfg.get("offset", "0")):
                fstate["badfile"] = True; fstate["kind_ok_ro"] = False
        if "al" not in o:
            continue
        al, di, rem, cp = int(o["al"]), int(o["di"]), int(o["rem"]), int(o["cp"])
        pal, pdi = int(prev["al"]), int(prev["di"])
        fl = parse_fl(o.get("fl")); pfl = parse_fl(prev.get("fl"))
        op = t[0]
        is_alloc = op.startswith("alloc_")
        # ---- the cursor of an arena nobody has tampered with never lies beyond its capacity
        if al > cp and fstate["mode"] is None and not fstate.get("tampered") and not fstate.get("truncated"):
            for p_ in ("C15", "C16", "C04"):
                V(p_, "cursor-beyond-capacity", f"after {ops[i].strip()}: allocated() = {al} > capacity() = {cp} (allocated_memory() is longer than memory())", i)
        # ---- C16: remaining = capacity - allocated
        if rem != max(cp - al, 0):
            V("C16", "remaining", f"remaining {rem} != capacity {cp} - allocated {al}", i)
            if rem > cp:
                V("C04", "arithmetic-wraps", f"remaining() = {rem} exceeds the capacity {cp} (allocated {al}): the size arithmetic wrapped around", i)
        # ---- C16 / C17: the cursor never lies below data_offset (the reserved prefix and the header stay out of reach)
        if al < doff:
            V("C16", "cursor-below-data-offset", f"after {ops[i].strip()}: allocated() = {al} < data_offset() = {doff}", i)
            V("C17", "cursor-below-data-offset", f"after {ops[i].strip()}: allocated() = {al} < data_offset() = {doff}", i)
            V("C15", "cursor-below-data-offset", f"after {ops[i].strip()}: allocated() = {al} < data_offset() = {doff}: data() has no length", i)
            V("C18", "cursor-below-data-offset", f"after {ops[i].strip()}: allocated() = {al} < data_offset() = {doff}", i)
        # ---- C16: the descriptive accessors agree with the configuration on every arena value
        if op == "info" and r == "ok" and o.get("val", "").count(",") == 12:
            f_ = o["val"].split(",")
            exp_unify = "1" if backend == "file" else cfg.get("unify", "0")
            exp_flags = {"vec": ("0", "0", "1", "0", "0"), "anon": ("1", "0", "1", "1", "0"), "file": ("1", "1", "0", "0", "1")}.get(backend)
            cur_magic = fstate.get("magic") or cfg.get("magic")
            bad = []
            if f_[0] != exp_unify: bad.append(f"unify()={f_[0]}")
            if exp_flags and tuple(f_[2:7]) != exp_flags: bad.append(f"is_map/is_ondisk/is_inmemory/is_map_anon/is_map_file={f_[2:7]}")
            if f_[8] != cur_magic: bad.append(f"magic_version()={f_[8]} (configured {cur_magic})")
            if f_[9] != "0": bad.append(f"version()={f_[9]}")
            if f_[11] != cfg.get("reserved"): bad.append(f"reserved_bytes()={f_[11]}")
            if f_[12] != str(doff): bad.append(f"data_offset()={f_[12]} (expected {doff})")
            if bad:
                V("C16", "accessors", f"info on the current arena value: {'; '.join(bad)}", i)
        if is_alloc:
            h = int(t[1])
            if r == "ok":
                off, cap, boff, bcap = int(o["off"]), int(o["cap"]), int(o["boff"]), int(o["bcap"])
                owned = op.endswith("_owned")
                # requested sizes
                if op.startswith("alloc_bytes"):
                    N = int(t[2]); A, S, need = 1, 0, N
                    if cap != N:
                        V("C03", "capacity", f"alloc_bytes({N}) returned capacity {cap}", i)
                    if o.get("z") != "1":
                        V("C08", "nonzero", f"alloc_bytes({N}) at {off} returned non-zero bytes", i)
                elif op.startswith("alloc_aligned"):
                    A, S, N = int(t[2]), int(t[3]), int(t[4]); need = S + N
                    if S + N > 0:
                        if off % A != 0:
                            V("C03", "offset-align", f"alloc_aligned<{A},{S}>({N}) offset {off}", i)
                            if fstate.get("truncated"):
                                V("C18", "misplaced-after-truncate", f"alloc_aligned<{A},{S}>({N}) after a truncate was placed at the unaligned offset {off} (it does not fit where it must start)", i)
                        if cap < S + N:
                            V("C03", "capacity", f"alloc_aligned<{A},{S}>({N}) capacity {cap}", i)
                            for p_ in ("C10", "C04"):
                                V(p_, "served-unfit", f"alloc_aligned<{A},{S}>({N}) was served with {cap} bytes at {off}: no segment and no fresh space fits the request, it had to fail", i)
                        if o.get("am", "0") != "0":
                            V("C03", "addr-align", f"alloc_aligned<{A},{S}>({N}): address misaligned by {o.get('am')} (within the alignment the arena guarantees)", i)
                            if fstate.get("truncated"):
                                V("C18", "address-misaligned-after-truncate", f"alloc_aligned<{A},{S}>({N}) after a truncate: the address is {o.get('am')} past a multiple of the alignment the arena was configured to guarantee (the moved memory lost it)", i)
                else:
                    if op.startswith("alloc_z"):
                        A, S = 1, 0
                        dcount += 1     # the zero-sized value is consumed (dropped) by `write`; its handle drops nothing later
                    elif op.startswith("alloc_d"):
                        A, S = 8, 8
                        dhandles.add(h)
                    else:
                        A, S = int(t[2]), int(t[3])
                    need = S
                    if S > 0:
                        if cap != S:
                            V("C03", "capacity", f"alloc<{A},{S}> capacity {cap}", i)
                        if off % A != 0:
                            V("C03", "offset-align", f"alloc<{A},{S}> offset {off}", i)
                        if o.get("am", "0") != "0":
                            V("C03", "addr-align", f"alloc<{A},{S}>: address misaligned by {o.get('am')} (within the alignment the arena guarantees)", i)
                            if fstate.get("truncated"):
                                V("C18", "address-misaligned-after-truncate", f"alloc<{A},{S}> after a truncate: the address is {o.get('am')} past a multiple of the alignment the arena was configured to guarantee (the moved memory lost it)", i)
                # C10: the free list is consulted only when fresh space cannot satisfy the request
                try:
                    st_ = (pal + A - 1) // A * A
                    if need > 0 and bcap > 0 and boff < pal and al == pal and st_ + need <= cp and pal <= cp and not rewound \
                       and kind in ("opt", "pess") and not op.startswith(("alloc_d", "alloc_z")):
                        V("C10", "list-used-although-fresh-fits", f"{ops[i].strip()} was carved out of the free list at {boff} although fresh space [{st_},{st_+need}) below the capacity {cp} could satisfy it (cursor {pal})", i)
                except (NameError, ZeroDivisionError):
                    pass
                if "pq" in o:
                    for p_ in ("C03", "C04", "C01"):
                        V(p_, "pointer-not-at-offset", f"{ops[i].strip()}: the handle reports offset {off} but its pointer is at arena offset {o['pq']}", i)
                # C16: the first allocation starts at the first suitably aligned offset at or after data_offset
                if pal == doff and not rewound and need > 0 and cap > 0 and not pfl:
                    exp_off = doff if op.startswith("alloc_bytes") else (doff + A - 1) // A * A
                    if off != exp_off:
                        V("C16", "first-alloc", f"{ops[i].strip()} on the untouched arena (data_offset {doff}) starts at {off}, expected {exp_off}", i)
                if need == 0 or cap == 0 and bcap == 0:
                    if (off, cap, boff, bcap) != (0, 0, 0, 0) and need == 0:
                        V("C01", "zero-size", f"zero-size request occupies {(off, cap, boff, bcap)}", i)
                    if need == 0 and al != pal:
                        V("C03", "zero-size-consumes", f"zero-size request moved the cursor {pal}->{al}", i)
                else:
                    # C01 exclusivity / bounds
                    if not (boff <= off and off + cap <= boff + bcap + 8):
                        V("C01", "outside-buffer", f"accessible range [{off},{off+cap}) sticks out of its buffer extent [{boff},{boff+bcap}) (+8 header bytes)", i)
                    if not (doff <= off and off + cap <= al and al <= cp):
                        V("C01", "bounds", f"handle [{off},{off+cap}) outside [{doff},{al}] cap {cp}", i)
                    for (k, (o2, c2, _, _, _)) in list(live.items()) + [(None, d + (False,)) for d in dead]:
                        if c2 > 0 and cap > 0 and off < o2 + c2 and o2 < off + cap:
                            V("C01", "overlap", f"handle [{off},{off+cap}) overlaps live [{o2},{o2+c2})", i)
                    for seg in fl:
                        if seg and off < seg[0] + 8 + seg[1] and seg[0] < off + cap:
                            V("C10", "seg-overlaps-live", f"segment {seg} overlaps handle [{off},{off+cap})", i)
                    # C10 policy: fresh space could not satisfy?
                    served_from_list = boff < pal and not (boff + bcap == al and al > pal)
                    if boff < pal and pfl and None not in pfl and not rewound:
                        req = need if op.startswith("alloc_bytes") else (S + A - 1 + (N if op.startswith("alloc_aligned") else 0))
                        offs = [s[0] for s in pfl]
                        if boff in offs:
                            if kind == "opt" and boff != pfl[0][0]:
                                V("C10", "policy-opt", f"served from {boff}, head was {pfl[0]}", i)
                            if kind == "pess":
                                fit = [s for s in pfl if s[1] >= req]
                                if fit and boff != fit[0][0]:
                                    V("C10", "policy-pess", f"served from {boff}, first fitting was {fit[0]} (req {req})", i)
                        elif kind == "none":
                            V("C10", "none-reuses", f"Freelist::None served [{boff},+{bcap}) below the cursor {pal}", i)
                    live[h] = (off, cap, boff, bcap, owned)
                    if not rewound and (di - pdi) % U32 not in (0, 8):
                        V("C20", "alloc-changes-discarded", f"{ops[i].strip()} succeeded and changed discarded() {pdi} -> {di} (an allocation adds nothing, or the 8 header bytes of a remainder it gives back)", i)
                if op.startswith("alloc_bytes") or op.startswith("alloc_aligned"):
                    bufs[h] = [off, cap, 0]
                if need > 0 and (cap == 0):
                    pass
                if need == 0:
                    live[h] = (0, 0, 0, 0, op.endswith("_owned") and not op.startswith("alloc_bytes") and not op.startswith("alloc_aligned"))
            else:
                if r not in ("InsufficientSpace", "ReadOnly"):
                    V("C04", "bad-error", f"{ops[i].strip()} -> {r}", i)
                if r == "ReadOnly" and not (fstate.get("ro_state") and not fstate["closed"]) and fstate["mode"] in (None, "mut", "copy"):
                    for p_ in ("C04", "C03"):
                        V(p_, "read-only-error-on-writable", f"{ops[i].strip()} -> ReadOnly on an arena that was opened writable ({fstate['mode'] or 'created'})", i)
                # allocations succeed exactly when they fit: a request the fresh space can hold must not be refused
                if r == "InsufficientSpace" and al <= cp and not (fstate.get("ro_state") and not fstate["closed"]):
                    try:
                        if op.startswith("alloc_bytes"): A_, need_ = 1, int(t[2])
                        elif op.startswith("alloc_aligned"): A_, need_ = int(t[2]), int(t[3]) + int(t[4])
                        elif op.startswith("alloc_d"): A_, need_ = 8, 8
                        elif op.startswith("alloc_z"): A_, need_ = 1, 0
                        else: A_, need_ = int(t[2]), int(t[3])
                        start_ = (pal + A_ - 1) // A_ * A_
                        if need_ > 0 and start_ + need_ <= cp:
                            V("C04", "refused-although-fits", f"{ops[i].strip()} -> InsufficientSpace although [{start_},{start_+need_}) fits below the capacity {cp} (cursor {pal})", i)
                            V("C18", "refused-although-fits", f"{ops[i].strip()} -> InsufficientSpace although [{start_},{start_+need_}) fits below the capacity {cp} (cursor {pal})", i)
                            V("C10", "refused-although-fits", f"{ops[i].strip()} -> InsufficientSpace although fresh space [{start_},{start_+need_}) can satisfy it (capacity {cp}, cursor {pal}): the free list is consulted only when fresh space cannot", i)
                    except (ValueError, IndexError):
                        pass
                if (al, di, o.get("fl")) != (pal, pdi, prev.get("fl")):
                    V("C04", "error-changes-state", f"failed {ops[i].strip()} changed (al,di,fl) {(pal,pdi,prev.get('fl'))} -> {(al,di,o.get('fl'))}", i)
                    if al == pal and di == pdi:
                        for p_ in ("C20", "C10"):
                            V(p_, "refused-request-drops-segment", f"failed {ops[i].strip()} changed the free list {prev.get('fl')} -> {o.get('fl')} with discarded() unchanged: the bytes are neither reusable nor counted", i)
                # C10: failure policy
                if r == "InsufficientSpace" and pfl and None not in pfl and not rewound and kind in ("opt", "pess"):
                    if op.startswith("alloc_bytes"):
                        req = int(t[2])
                    elif op.startswith("alloc_aligned"):
                        req = int(t[3]) + int(t[2]) - 1 + int(t[4])
                    elif op.startswith("alloc_d"):
                        req = 15
                    else:
                        req = int(t[3]) + int(t[2]) - 1
                    if req < U32 and max(s[1] for s in pfl) >= req and req > 0:
                        V("C10", "policy-fail", f"request {req} refused although segment {max(pfl, key=lambda s: s[1])} fits", i)
                        if fstate.get("truncated"):
                            V("C18", "policy-fail", f"after a truncate: request {req} refused although segment {max(pfl, key=lambda s: s[1])} fits", i)
        elif op in ("drop", "detach", "dealloc", "hold"):
            h = int(t[1])
            if op == "drop" and h not in live and r == "ok":
                held.discard(h)
            if op == "hold":
                op = "detach"       # detached now, dropped later: the later `drop` finds it gone from `live` and expects nothing
                if r == "ok" and h in live and live[h][4]:
                    held.add(h)
            if h in live:
                ent = live.pop(h)
                if op == "detach" and ent[1] > 0:
                    dead.append(ent[:4])
                # ---- release rule (C13 / C20 / C10): a non-detached drop releases exactly [boff, boff+bcap)
                boff_, bcap_ = ent[2], ent[3]
                ms_ = int(prev.get("ms", "0"))
                if cfg.get("flavour") and not rewound and None not in pfl and None not in fl:
                    if op == "detach":
                        if (al, di, o.get("fl")) != (pal, pdi, prev.get("fl")):
                            V("C13", "detached-releases", f"{ops[i].strip()} changed the allocator state", i)
                    elif bcap_ > 0:
                        pad_ = (-boff_) % 8
                        if pal == boff_ + bcap_:
                            exp = (boff_, pdi, pfl)
                        elif kind == "none":
                            exp = (pal, (pdi + bcap_) % U32, pfl)
                        elif bcap_ <= pad_ + 8 or bcap_ - pad_ - 8 < ms_:
                            exp = (pal, (pdi + bcap_) % U32, pfl)
                        else:
                            seg = (boff_ + pad_, bcap_ - pad_ - 8)
                            exp = (pal, (pdi + 8) % U32, None)
                            if sorted(fl) != sorted(pfl + [seg]):
                                V("C13", "release-extent", f"{ops[i].strip()} of [{boff_},+{bcap_}): list {pfl} -> {fl}, expected new segment {seg}", i)
                                V("C20", "release-rule", f"{ops[i].strip()} of [{boff_},+{bcap_}) with min segment {ms_}: list {pfl} -> {fl}", i)
                        if exp[2] is not None and (al, di, fl) != exp:
                            V("C13", "release-extent", f"{ops[i].strip()} of [{boff_},+{bcap_}): (al,di,fl) {(pal,pdi,pfl)} -> {(al,di,fl)}, expected {exp}", i)
                            V("C20", "release-rule", f"{ops[i].strip()} of [{boff_},+{bcap_}) with min segment {ms_}: (al,di,fl) {(pal,pdi,pfl)} -> {(al,di,fl)}, expected {exp}", i)
                        elif exp[2] is None and (al, di) != exp[:2]:
                            V("C20", "release-rule", f"{ops[i].strip()} of [{boff_},+{bcap_}): (al,di) {(pal,pdi)} -> {(al,di)}, expected {exp[:2]}", i)
            # ---- C13: a value that needs dropping is dropped exactly once, by the drop of its non-detached handle
            if r == "ok" and "dc" in o:
                if h in dhandles:
                    dhandles.discard(h)
                    if op == "drop": dcount += 1
                if int(o["dc"]) != dcount:
                    V("C13", "drop-count", f"{ops[i].strip()}: the drop counter reads {o['dc']}, expected {dcount} (values are dropped once, by the drop of their non-detached handle only)", i)
                    dcount = int(o["dc"])
        elif op == "clone":
            clones += 1
        elif op == "drop_arena":
            if r == "ok": clones -= 1
        elif op in ("clear",):
            if r == "ok":
                live.clear(); dead.clear(); rewound = False
                if al != doff or di != 0 or fl:
                    V("C17", "clear", f"after clear: allocated {al} (data_offset {doff}) discarded {di} fl {fl}", i)
                if o.get("ms") != prev.get("ms"):
                    V("C17", "clear-changes-minseg", f"clear changed minimum_segment_size() {prev.get('ms')} -> {o.get('ms')}", i)
                    for p_ in ("C20", "C10"):
                        V(p_, "minseg-not-set", f"clear changed minimum_segment_size() {prev.get('ms')} -> {o.get('ms')}: releases are judged against a minimum the user did not set", i)
                # ... and the bytes are those of a freshly created arena (same capacity, same minimum segment size, reserved
                # slice never written, never reopened): the whole-memory hash equals the one right after construction
                if not fstate.get("wres") and fstate["mode"] is None and cp == int(o0["cp"]) and o.get("ms") == o0.get("ms") \
                   and "mem" in o and "mem" in o0 and o["mem"] != o0["mem"]:
                    V("C17", "clear-not-pristine", f"after clear the memory image (hash {o['mem']}) differs from the freshly created arena's ({o0['mem']})", i)
        elif op == "rewind":
            live.clear(); dead.clear(); rewound = True
            # reference clamp
            w, v = t[1], int(t[2])
            if w == "start": tgt = v
            elif w == "end": tgt = cp - v
            else: tgt = pal + v
            exp = min(max(tgt, doff), cp)
            if al != exp:
                V("C17", "rewind", f"rewind {w} {v} from {pal}: cursor {al}, expected {exp}", i)
            if (di, o.get("fl"), o.get("ms")) != (pdi, prev.get("fl"), prev.get("ms")):
                V("C17", "rewind-other", "rewind changed something besides the cursor", i)
        elif op == "inc_discarded":
            if di != (pdi + int(t[1])) % U32 and not (fstate.get("ro_state") and not fstate["closed"]):
                V("C20", "increase", f"increase_discarded({t[1]}): {pdi} -> {di}", i)
        elif op == "discard_freelist":
            if r == "ok" and None not in pfl:
                s = sum(x[1] for x in pfl)
                if int(o["val"]) != s or di != (pdi + s) % U32 or fl:
                    V("C20", "discard-freelist", f"returned {o['val']}, sum {s}, discarded {pdi}->{di}, list after {fl}", i)
        if op in BUF_OPS and len(t) > 1 and t[1].isdigit() and int(t[1]) in bufs and r not in ("nohandle",):
            h = int(t[1]); boff_, bcap_, blen = bufs[h]
            nlen = int(o["len"]) if "len" in o else blen
            W = {"u8":1,"i8":1,"u16":2,"i16":2,"u32":4,"i32":4,"u64":8,"i64":8,"usize":8,"isize":8,"u128":16,"i128":16}
            if o.get("oo") == "0":
                V("C14", "outside-write", f"{ops[i].strip()} changed bytes outside the buffer [{boff_},{boff_+bcap_})", i)
                V("C01", "handle-writes-outside", f"{ops[i].strip()} through the handle [{boff_},{boff_+bcap_}) changed bytes outside it", i)
                for p_ in ("C02", "C12"):
                    V(p_, "handle-writes-outside", f"{ops[i].strip()} through the handle [{boff_},{boff_+bcap_}) changed bytes outside it: they belong to whoever holds the neighbouring range, on whatever thread, and nothing orders the two", i)
            if r == "InsufficientBuffer":
                if nlen != blen:
                    V("C14", "failed-put-changes-len", f"{ops[i].strip()} failed but len {blen} -> {nlen}", i)
                if op in ("put", "put_slice", "putT", "put_aligned") and o.get("mem") != prev.get("mem"):
                    V("C14", "failed-put-writes", f"{ops[i].strip()} failed but memory changed", i)
            elif r == "short":
                V("C14", "short-write", f"{ops[i].strip()} (std::io::Write::write on a buffer with {bcap_ - blen} free bytes) stored {o.get('n')} bytes and reported success: a write that does not fit must fail with InsufficientBuffer and leave len ({blen} -> {nlen}) and every byte unchanged", i)
            elif r == "IncompleteBuffer":
                if nlen != blen:
                    V("C14", "failed-get-changes-len", f"{ops[i].strip()} failed but len {blen} -> {nlen}", i)
            elif r == "ok":
                if nlen > bcap_:
                    V("C14", "len-exceeds-capacity", f"{ops[i].strip()}: len {nlen} > capacity {bcap_}", i)
                if op == "put":
                    if nlen != blen + W[t[2]]:
                        V("C14", "put-len", f"{ops[i].strip()}: len {blen} -> {nlen}", i)
                elif op == "get":
                    if nlen + W[t[2]] != blen:
                        V("C14", "get-len", f"{ops[i].strip()}: len {blen} -> {nlen}", i)
                    if lastput and lastput[0] == h and lastput[1][0] == "put" and lastput[1][2:4] == t[2:4] and lastput[3] == i - 1:
                        bits = 8 * W[t[2]]; v = int(lastput[1][4]); signed = t[2][0] == "i"
                        inr = (-(1 << (bits - 1)) <= v < (1 << (bits - 1))) if signed else (0 <= v < (1 << bits))
                        if inr and (int(o["val"]) != v or nlen != lastput[2]):
                            V("C14", "roundtrip", f"put {lastput[1][2:]} then get returned {o['val']} len {nlen} (was {lastput[2]})", i)
                elif op == "put_slice" or op == "putT":
                    n = int(t[2]) if op == "put_slice" else int(t[3])
                    if nlen != blen + n:
                        V("C14", "put-len", f"{ops[i].strip()}: len {blen} -> {nlen}", i)
                elif op in ("put_var", "put_varu"):
                    if op == "put_varu" and int(o["n"]) != leb_len(t[2], int(t[3])):
                        V("C14", "leb-length", f"{ops[i].strip()}: n={o['n']}, the encoding has {leb_len(t[2], int(t[3]))} bytes", i)
                    if nlen != blen + int(o["n"]):
                        V("C14", "put-len", f"{ops[i].strip()}: len {blen} -> {nlen} n={o['n']}", i)
                elif op in ("get_var", "get_varu"):
                    if nlen != blen:
                        V("C14", "get-len", f"{ops[i].strip()}: len {blen} -> {nlen} (the varint get does not consume)", i)
                    if lastput and lastput[0] == h and lastput[1][0] in ("put_var", "put_varu") and lastput[1][2] == t[2] and lastput[2] == 0 and lastput[3] == i - 1:
                        bits = 8 * W[t[2]]; v = int(lastput[1][3]); signed = t[2][0] == "i"
                        inr = (-(1 << (bits - 1)) <= v < (1 << (bits - 1))) if signed else (0 <= v < (1 << bits))
                        if inr and (int(o["val"]) != v or int(o["n"]) != lastput[4]):
                            V("C14", "leb-roundtrip", f"put_var {lastput[1][2:]} (n={lastput[4]}) then get_var returned n={o['n']} val={o['val']}", i)
                elif op == "set_len":
                    if nlen != int(t[2]):
                        V("C14", "set-len", f"{ops[i].strip()}: len {nlen}", i)
                    if o.get("sz") == "0":
                        V("C14", "set-len-not-zeroed", f"{ops[i].strip()} (len was {blen}): the bytes it exposes / hides are not all zero afterwards", i)
                elif op in ("align_to", "put_aligned"):
                    A_, S_ = int(t[2]), int(t[3])
                    if S_ > 0 and o.get("po") not in (None, "dangling"):
                        po = int(o["po"])
                        if po % A_ != 0 or po < boff_ + blen or po > boff_ + bcap_ or (op == "put_aligned" and po + S_ > boff_ + bcap_):
                            V("C14", "align", f"{ops[i].strip()}: pointer offset {po}, buffer [{boff_},{boff_+bcap_}) len {blen}", i)
                        # the address itself, not only the offset (the arena's base is aligned to maximum_alignment)
                        if o.get("pa", "0") != "0":
                            V("C14", "align-address", f"{ops[i].strip()}: returned address is {o['pa']} past a multiple of the alignment", i)
            if r == "ok" and op in ("put", "put_var", "put_varu"):
                lastput = (h, t, blen, i, int(o.get("n", 0)))
            bufs[h][2] = nlen
        if op == "rd" and len(t) == 4:
            Wd = {"u8":1,"i8":1,"u16":2,"i16":2,"u32":4,"i32":4,"u64":8,"i64":8,"u128":16,"i128":16}.get(t[1], 0)
            off_ = int(t[3])
            if r == "ok":
                if off_ + Wd > al:
                    V("C15", "reads-beyond-allocated", f"{ops[i].strip()} succeeded with allocated={al}", i)
                elif o.get("val") != o.get("ref"):
                    V("C15", "wrong-value", f"{ops[i].strip()} returned {o.get('val')}, bytes decode to {o.get('ref')}", i)
            elif r == "OutOfBounds" and off_ + Wd <= al:
                V("C15", "spurious-oob", f"{ops[i].strip()} refused with allocated={al}", i)
        if op == "rd_var" and len(t) == 3:
            off_ = int(t[2])
            if r == "ok" and off_ + int(o.get("n", 0)) > al:
                V("C15", "varint-beyond-allocated", f"{ops[i].strip()} consumed {o.get('n')} bytes with allocated={al}", i)
            if r in ("ok", "Varint") and off_ >= al:
                V("C15", "varint-beyond-allocated", f"{ops[i].strip()} read at/above allocated={al}", i)
            if r == "OutOfBounds" and off_ < al:
                V("C15", "spurious-oob", f"{ops[i].strip()} refused with allocated={al}", i)
            # a complete canonical encoding that lies below allocated() must be returned as it is
            rf_ = o.get("vref", "none")
            if rf_ != "none" and ":" in rf_:
                n_, v_ = rf_.split(":", 1)
                if off_ + int(n_) <= al and (r != "ok" or o.get("n") != n_ or o.get("val") != v_):
                    V("C15", "varint-wrong", f"{ops[i].strip()} -> {r} n={o.get('n')} val={o.get('val')}, but the bytes there are the canonical encoding of {v_} ({n_} bytes, below allocated={al})", i)
        if op == "slices" and r == "ok":
            if o.get("val") != f"{al},{al-doff},{cp},{cfg.get('reserved')}":
                V("C15", "slice-lengths", f"slices {o.get('val')} with allocated={al} data_offset={doff} capacity={cp}", i)
        if fstate.get("ro_state") and not fstate["closed"] and op not in ("reopen", "close") and "al" in o:
            cur = (o.get("al"), o.get("di"), o.get("ms"), o.get("fl"), o.get("mem"))
            if cur != fstate["ro_state"]:
                V("C09", "ro-state-changes", f"{ops[i].strip()} changed a read-only arena", i)
            if (is_alloc and r == "ok" and int(o.get("cap", 0)) + int(o.get("bcap", 0)) > 0) or (op in ("discard_freelist", "clear") and r == "ok"):
                V("C09", "ro-accepts-mutator", f"{ops[i].strip()} -> {r} on a read-only arena", i)
            if op == "truncate" and r == "ok":
                V("C09", "ro-truncate-accepted", f"{ops[i].strip()} -> ok on a read-only arena", i)
            if op == "discard_freelist" and r != "ReadOnly":
                V("C20", "ro-discard-freelist", f"discard_freelist -> {r} on a read-only arena (expected ReadOnly)", i)
        if op == "close":
            fstate["ro_state"] = None
            # the backing memory / mapping is released exactly once when the last arena value goes (real Memory::unmount count)
            if r == "ok" and o.get("mp", "0") != "0":
                V("C13", "mapping-not-released", f"after the last arena value was dropped the process still maps the file ({o['mp']} mapping(s)): the backing memory was not released", i)
            if r == "ok" and "um" in o and o["um"] != "1":
                V("C13", "unmount-count", f"close released the backing memory {o['um']} times (expected exactly once)", i)
        if op == "wres": fstate["wres"] = True
        # ---- C16: the reserved slice has the configured length and only the user writes it
        if op == "wres" and r == "ok":
            fstate["resb"] = int(t[1])
        if op in ("reopen", "mutate_file", "truncate_file", "random_file", "delete_file"):
            fstate["resb"] = None
        if op == "rres" and r == "ok":
            n_, s_ = (int(x) for x in o["val"].split(","))
            R_ = int(cfg.get("reserved", 0))
            if n_ != R_:
                V("C16", "reserved-length", f"reserved_slice() has {n_} bytes, configured {R_}", i)
            b_ = fstate.get("resb", 0)
            if b_ is not None and s_ != (b_ * (R_ * (R_ + 1) // 2)) % U32:
                V("C16", "reserved-written", f"the reserved bytes are no longer the {b_}s the user left there (weighted sum {s_})", i)
        if op == "truncate" and (r.startswith("panic") or r.startswith("sig")):
            V("C18", "truncate-panics", f"{ops[i].strip()} -> {r}", i)
        if op == "remove_on_drop" and r == "ok": fstate["remove"] = (t[1] == "1")
        # ---- C18 truncate
        if op == "truncate" and r == "ok" and fstate.get("ro_state") and not fstate["closed"]:
            V("C18", "ro-truncate-accepted", f"{ops[i].strip()} -> ok on a read-only arena", i)
        if op == "truncate" and r == "ok":
            fstate["truncated"] = True
            n_ = int(t[1])
            if cp != max(n_, pal) or (al, di, o.get("fl"), o.get("ms"), o.get("ma")) != (pal, pdi, prev.get("fl"), prev.get("ms"), prev.get("ma")):
                V("C18", "truncate", f"truncate {n_}: cp={cp} (expected {max(n_, pal)}), al/di/fl/ms/ma {(al, di, o.get('fl'), o.get('ms'), o.get('ma'))} vs before {(pal, pdi, prev.get('fl'), prev.get('ms'), prev.get('ma'))}", i)
        if op == "truncate" and r.startswith("io:") and not (fstate.get("ro_state") and not fstate["closed"]):
            V("C18", "truncate-refused", f"{ops[i].strip()} -> {r} on a writable arena (refs {o.get('rf')}): the capacity stays {cp}", i)
        if op == "truncate" and r.startswith("io:") and (cp, al, di, o.get("fl"), o.get("mem")) != (int(prev["cp"]), pal, pdi, prev.get("fl"), prev.get("mem")):
            V("C18", "failed-truncate-changes", f"refused truncate changed the arena", i)
        # ---- C13 drop counter
        if op in ("drop", "detach", "dealloc") and "dc" in o:
            pass
        # ---- C20 / C10: the minimum segment size in force is the one the user set last (writable arenas)
        if op == "set_minseg" and r == "ok" and "ms" in o and not (fstate.get("ro_state") and not fstate["closed"]) and t[1].isdigit() and int(o["ms"]) != int(t[1]):
            for p_ in ("C20", "C10"):
                V(p_, "minseg-not-set", f"{ops[i].strip()}: minimum_segment_size() is {o['ms']} afterwards (it was {prev.get('ms')}): releases are judged against a minimum the user did not set", i)
        # ---- C20 monotone (below 2^32)
        if op not in ("clear", "inc_discarded", "reopen") and di < pdi and pdi + 0 < U32 - (1 << 20):
            V("C20", "decrease", f"discarded decreased {pdi} -> {di} at {ops[i].strip()}", i)
        # ---- C10: nothing is on the list of a cleared arena (every segment would lie above the cursor)
        if op == "clear" and r == "ok" and None not in fl and fl:
            V("C10", "list-survives-clear", f"after clear the free list still holds {fl} (cursor {al})", i)
        # ---- C10 remainder rule: whatever is linked can hold a node plus the minimum segment size in force
        if None not in fl and None not in pfl and not rewound and al <= cp and not fstate.get("tampered") and op not in ("reopen", "set_minseg", "clear"):
            ms_ = int(o.get("ms", "0"))
            for s_ in fl:
                if s_ not in pfl and 0 < s_[1] < ms_:
                    V("C10", "seg-below-minimum", f"{ops[i].strip()} linked the segment {s_}, smaller than the minimum segment size {ms_}", i)
        # ---- C10 list shape
        if None not in fl and not rewound and al <= cp and not fstate.get("tampered"):
            for k, s in enumerate(fl):
                if s[0] % 8 != 0 or s[0] < doff or s[0] + 8 + s[1] > al:
                    V("C10", "seg-shape", f"segment {s} not aligned / outside [{doff},{al})", i)
                if s[1] == 0:
                    V("C10", "seg-marked", f"marked segment {s} on a quiescent list", i)
            for k in range(len(fl) - 1):
                if kind == "opt" and fl[k][1] < fl[k + 1][1]:
                    V("C10", "order", f"list not descending: {fl}", i)
                if kind == "pess" and fl[k][1] > fl[k + 1][1]:
                    V("C10", "order", f"list not ascending: {fl}", i)
            ext = sorted((s[0], s[0] + 8 + s[1]) for s in fl)
            for k in range(len(ext) - 1):
                if ext[k][1] > ext[k + 1][0]:
                    V("C10", "seg-overlap", f"segments overlap: {fl}", i)
            if len(set(s[0] for s in fl)) != len(fl):
                V("C10", "cycle", f"node repeated: {fl}", i)
            for (o2, c2, _, _, _) in list(live.values()) + [d + (False,) for d in dead]:
                for s in fl:
                    if c2 > 0 and o2 < s[0] + 8 + s[1] and s[0] < o2 + c2:
                        V("C10", "seg-overlaps-live", f"segment {s} overlaps live [{o2},{o2+c2})", i)
            if kind == "none" and fl:
                V("C10", "none-has-list", f"Freelist::None has segments {fl}", i)
        elif None in fl and al <= cp and not fstate.get("tampered"):
            # (an arena reopened with a capacity below its allocated() has nodes outside the mapping: no claim there)
            V("C10", "cycle", "free-list walk did not terminate", i)
        # ---- C13 refs
        if "rf" in o:
            exp = 1 + clones + sum(1 for e in live.values() if e[4] and (e[3] > 0 or e[4] is True and e[1] == 0 and e[3] == 0 and False))
            # owned non-null byte handles and every owned typed handle hold a clone
            exp = 1 + clones + sum(1 for hh, e in live.items() if e[4]) + len(held)
            if int(o["rf"]) != exp:
                V("C13", "refs", f"refs() {o['rf']} expected {exp}", i)
        if op == "checksum" and r == "ok" and o.get("val") != o.get("ref"):
            V("C19", "checksum", f"checksum {o.get('val')} != one-shot {o.get('ref')}", i)
        prev = o
    return viol

# ----------------------------------------------------------------------------- known findings

def load_known():
    res = []
    p = os.path.join(VERIF, "known_findings.txt")
    if os.path.exists(p):
        for l in open(p):
            l = l.strip()
            if l.startswith("finding:"):
                m = re.search(r"property=(\S+)\s+sig=(\S+)\s*(.*)", l)
                if m:
                    res.append({"property": m.group(1), "sig": m.group(2), "text": m.group(3)})
    return res

# ----------------------------------------------------------------------------- evidence

def write_evidence(prop_id, tier, seed, coverage, assumptions, wall, violations):
    os.makedirs(os.path.join(VERIF, "evidence"), exist_ok=True)
    ev = {"property_id": prop_id, "tier": tier, "seed": seed, "level": "proof", "coverage": coverage,
          "assumptions": assumptions, "wall_s": round(wall, 2), "violations": violations}
    with open(os.path.join(VERIF, "evidence", f"{prop_id}.json"), "w") as f:
        json.dump(ev, f, indent=1)
