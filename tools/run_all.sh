#!/bin/bash
# run every registered check on /repo's current tree (sequentially; each one uses all cores)
cd "$(dirname "$0")/.."
tier=${1:-quick}
rc=0
for id in $(python3 -c "import json;print(' '.join(c['property_id'] for c in json.load(open('MANIFEST.json'))['checks']))"); do
  ./check $id --tier $tier | grep -E "^(OK|VIOLATION|KNOWN-FINDING)" || rc=1
done
exit $rc
