#!/bin/bash
# Build the framework from files on disk only (offline): Lean models + theorems + driver, Rust harness.
set -e
cd "$(dirname "$0")/.."
python3 tools/extract.py >/dev/null
cd lean
lake build driver $(ls RarenaVerif/Props/*.lean | sed 's|/|.|g; s|\.lean$||') 2>&1 | tail -3
cd ../harness
[ -f Cargo.lock ] || cp /repo/Cargo.lock Cargo.lock
RUSTFLAGS="--cfg rarena_verif --check-cfg cfg(rarena_verif)" CARGO_NET_OFFLINE=true CARGO_TARGET_DIR="$(cd .. && pwd)/target" cargo build --release --offline 2>&1 | tail -2
