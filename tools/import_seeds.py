#!/usr/bin/env python3
"""copy the round-2 seeded changes from /tmp/seed2/<ID>/out/m<k> to /verif/seeded/<ID>_m<k>/ (not yet confirmed)"""
import os, shutil, json, glob, sys
SRC = os.environ.get("SEED_SRC", "/tmp/seed2"); ROUND = int(os.environ.get("SEED_ROUND", "2"))
ids = sys.argv[1:] or [f"C{i:02d}" for i in range(1, 21)]
for pid in ids:
    for d in sorted(glob.glob(f"{SRC}/{pid}/out/m*")):
        k = os.path.basename(d)
        if not os.path.exists(d + "/patch.diff") or not os.path.exists(d + "/demo.rs"): 
            print("incomplete", d); continue
        dst = f"/verif/seeded/{pid}_{k}"
        os.makedirs(dst, exist_ok=True)
        for f in ("patch.diff", "demo.rs", "run.txt", "meta.json"):
            if os.path.exists(f"{d}/{f}"): shutil.copy(f"{d}/{f}", f"{dst}/{f}")
        try:
            m = json.load(open(dst + "/meta.json"))
        except Exception:
            m = {"property": pid, "mutant": k, "summary": "(meta.json missing or invalid)", "needs": ""}
        m["round"] = ROUND
        rt = open(dst + "/run.txt").read() if os.path.exists(dst + "/run.txt") else ""
        m.setdefault("confirmation", {})["demo_cmd"] = ("RUSTFLAGS=\"--cfg rarena_verif --check-cfg cfg(rarena_verif)\" " if "rarena_verif" in rt + open(dst + "/demo.rs").read() else "") + f"cargo test -p rarena-allocator --features std,memmap --test demo_{k[1:]} --offline"
        json.dump(m, open(dst + "/meta.json", "w"), indent=1)
        print("imported", dst)
