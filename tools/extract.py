#!/usr/bin/env python3
"""Translator: regenerates lean/RarenaVerif/Gen/*.lean from /repo's current source.

  Gen/Orderings.lean   every atomic call of sync.rs: enclosing fn, ordinal inside it, kind, Ordering args
  Gen/Comparators.lean closures passed to find_position / find_prev_and_next, the optimistic
                       "too small" test, per flavour, translated to Lean Bool functions
  Gen/Consts.lean      layout / sentinel constants of lib.rs, sync.rs, unsync.rs

When a pattern no longer matches, the item is reported as unavailable in the JSON summary printed on the
last line of stdout and a value that cannot satisfy the proofs is NOT invented: the previous
committed text for that item is kept (so the proof still speaks about the last extracted code) and
the check relies on the dynamic correspondence for that item.
"""
import json, os, re, sys

VERIF = os.path.dirname(os.path.dirname(os.path.abspath(__file__)))
REPO = os.environ.get("VERIF_REPO", "/repo")
SRC = os.path.join(REPO, "rarena-allocator", "src")
GEN = os.path.join(VERIF, "lean", "RarenaVerif", "Gen")

def read(p):
    try:
        return open(os.path.join(SRC, p)).read()
    except OSError:
        return ""

def strip_comments(s):
    s = re.sub(r"//[^\n]*", "", s)
    return re.sub(r"/\*.*?\*/", "", s, flags=re.S)

def write_if_changed(path, text):
    old = open(path).read() if os.path.exists(path) else None
    if old != text:
        with open(path, "w") as f:
            f.write(text)
        return True
    return False

def fn_bodies(src):
    """yield (name, body) of every `fn name(...) {...}` (brace matched)"""
    for m in re.finditer(r"\bfn\s+(\w+)\s*(?:<[^>{]*>)?\s*\(", src):
        i = src.find("{", m.end())
        semi = src.find(";", m.end())
        if i < 0 or (0 <= semi < i):
            continue
        depth, j = 0, i
        while j < len(src):
            if src[j] == "{": depth += 1
            elif src[j] == "}":
                depth -= 1
                if depth == 0: break
            j += 1
        yield m.group(1), src[i:j + 1], m.start()

ORD = {"Relaxed": "relaxed", "Acquire": "acquire", "Release": "release", "AcqRel": "acqRel", "SeqCst": "seqCst"}

LOCS = {}

def classify_loc(recv, fn):
    """which atomic word a call site accesses, from the receiver expression (last field access wins)"""
    best, pos = None, -1
    for key, loc in ((".allocated", "allocated"), (".discarded", "discarded"), (".min_segment_size", "minseg"),
                     (".sentinel", "sentinel"), ("refs()", "refs"), (".size_and_next", "node")):
        k = recv.rfind(key)
        if k > pos: best, pos = loc, k
    if best is None:
        # plain variables (`current`, `next`, `head`, `prev_node`, ...) are references to node words
        best = "node"
    return best

def atomic_sites(src, with_lines=False):
    sites = []
    for name, body, start in fn_bodies(src):
        body_start = src.find("{", start)
        idx = 0
        for m in re.finditer(r"\.\s*(load|store|compare_exchange_weak|compare_exchange|fetch_add|fetch_sub)\s*\(", body):
            # match the argument list
            depth, j = 1, m.end()
            while j < len(body) and depth > 0:
                if body[j] == "(": depth += 1
                elif body[j] == ")": depth -= 1
                j += 1
            args = body[m.end():j - 1]
            ords = re.findall(r"Ordering::(\w+)", args)
            if not ords:
                continue
            # which atomic: a short description of the receiver
            recv_long = re.sub(r"\s+", "", body[max(0, m.start() - 160):m.start()]).split(";")[-1]
            recv = body[max(0, m.start() - 60):m.start()]
            recv = re.sub(r"\s+", "", recv).split(";")[-1].split("{")[-1].split("=")[-1].split("(")[-1]
            line = src.count("\n", 0, body_start + m.start()) + 1
            LOCS[(name, idx)] = classify_loc(recv_long, name)
            if with_lines:
                sites.append((name, idx, m.group(1), [ORD.get(o, "relaxed") for o in ords], recv[-40:], line))
            else:
                sites.append((name, idx, m.group(1), [ORD.get(o, "relaxed") for o in ords], recv[-40:]))
            idx += 1
    return sites

def closure_to_lean(expr):
    """`val >= next_node_size` -> Lean"""
    m = re.fullmatch(r"\s*\{?\s*(\w+)\s*(>=|<=|>|<|==)\s*(\w+)\s*\}?\s*", expr)
    if not m:
        return None
    a, op, b = m.groups()
    names = {"val": "v", "next_node_size": "n", "size": "v", "head_node_size": "n"}
    if a not in names or b not in names:
        return None
    lop = {">=": "≥", "<=": "≤", ">": ">", "<": "<", "==": "="}[op]
    return f"decide ({names[a]} {lop} {names[b]})"

def comparators(flavour, src):
    out, missing = {}, []
    bodies = {n: b for n, b, _ in fn_bodies(src)}
    def closure(fn, call, key):
        b = bodies.get(fn, "")
        m = re.search(call + r"\s*\([^|]*\|\s*val\s*,\s*next_node_size\s*\|\s*(\{[^}]*\}|[^)]*)\)", b, re.S)
        e = closure_to_lean(m.group(1)) if m else None
        if e is None:
            missing.append(f"{flavour}.{key}")
        else:
            out[key] = e
    closure("optimistic_dealloc", r"find_position", "optInsert")
    closure("pessimistic_dealloc", r"find_position", "pessInsert")
    closure("alloc_slow_path_pessimistic", r"find_prev_and_next", "pessFind")
    b = bodies.get("alloc_slow_path_optimistic", "")
    m = re.search(r"if\s+(size\s*(?:>=|<=|>|<)\s*head_node_size)\s*\{\s*return\s+Err", b)
    e = closure_to_lean(m.group(1)) if m else None
    if e is None:
        missing.append(f"{flavour}.optTooSmall")
    else:
        out["optTooSmall"] = e
    return out, missing

def const_u(src, name):
    m = re.search(r"const\s+" + name + r"\s*:\s*\w+\s*=\s*([^;]+);", src)
    if not m:
        return None
    v = m.group(1).strip()
    v = v.replace("u32::MAX", "4294967295").replace("u16::MAX", "65535")
    v = re.sub(r"mem::size_of::<Freelist>\(\)", "1", v)
    v = re.sub(r"mem::size_of::<u16>\(\)", "2", v)
    v = re.sub(r"mem::size_of::<SegmentNode>\(\)", "8", v)
    v = re.sub(r"MAGIC_TEXT\.len\(\)", "2", v)
    return v

def main():
    os.makedirs(GEN, exist_ok=True)
    info = {"unavailable": [], "changed": []}
    lib, sync, unsync = (strip_comments(read(f)) for f in ("lib.rs", "sync.rs", "unsync.rs"))

    # ---- orderings
    sites = atomic_sites(sync)
    try:
        # call-site table with source lines (comments are NOT stripped here so that line numbers are the file's);
        # used only to name hang / crash sites in reports
        raw = read("sync.rs")
        blank = re.sub(r"//[^\n]*", lambda mm: " " * len(mm.group(0)), raw)
        os.makedirs(os.path.join(VERIF, "work"), exist_ok=True)
        json.dump([[a, b, c, f] for (a, b, c, d, e, f) in atomic_sites(blank, True)], open(os.path.join(VERIF, "work", "sites.json"), "w"))
        fnl = [(src_name, blank.count("\n", 0, st) + 1) for src_name, _, st in fn_bodies(blank)]
        json.dump(fnl, open(os.path.join(VERIF, "work", "fnlines.json"), "w"))
    except Exception as e:
        info["sites_json_error"] = str(e)
    if sites:
        lines = ["/- GENERATED by tools/extract.py from rarena-allocator/src/sync.rs — do not edit -/",
                 "namespace Rarena.Gen", "",
                 "inductive Ord where", "  | relaxed | acquire | release | acqRel | seqCst",
                 "  deriving Repr, DecidableEq", "",
                 "structure Site where", "  fn : String", "  idx : Nat", "  kind : String", "  ords : List Ord",
                 "  /-- the atomic word accessed: allocated | discarded | minseg | sentinel | refs | node -/",
                 "  loc : String",
                 "  deriving Repr, DecidableEq", "", "def sites : List Site := ["]
        for k, (fn, idx, kind, ords, recv) in enumerate(sites):
            o = ", ".join("." + x for x in ords)
            comma = "," if k + 1 < len(sites) else ""
            lines.append(f'  ⟨"{fn}", {idx}, "{kind}", [{o}], "{LOCS.get((fn, idx), "node")}"⟩{comma}  -- {recv}')
        lines += ["]", "", "end Rarena.Gen", ""]
        if write_if_changed(os.path.join(GEN, "Orderings.lean"), "\n".join(lines)):
            info["changed"].append("Orderings")
        info["atomic_sites"] = len(sites)
    else:
        info["unavailable"].append("orderings")

    # ---- comparators
    cs, ms = comparators("sync", sync)
    cu, mu = comparators("unsync", unsync)
    info["unavailable"] += ms + mu
    path = os.path.join(GEN, "Comparators.lean")
    old = open(path).read() if os.path.exists(path) else ""
    def keep(name):
        m = re.search(r"def " + name + r" \(v n : Nat\) : Bool := (.*)", old)
        return m.group(1) if m else None
    lines = ["/- GENERATED by tools/extract.py from sync.rs / unsync.rs — do not edit -/",
             "namespace Rarena.Gen", ""]
    for fl, d in (("sync", cs), ("unsync", cu)):
        for key in ("optInsert", "pessInsert", "pessFind", "optTooSmall"):
            name = f"{fl}_{key}"
            e = d.get(key) or keep(name)
            if e is None:
                e = "false"
            lines.append(f"def {name} (v n : Nat) : Bool := {e}")
    lines += ["", "end Rarena.Gen", ""]
    if write_if_changed(path, "\n".join(lines)):
        info["changed"].append("Comparators")

    # ---- constants
    consts = {
        "FREELIST_OFFSET": const_u(lib, "FREELIST_OFFSET"),
        "MAGIC_TEXT_OFFSET": None, "MAGIC_VERSION_OFFSET": None, "VERSION_OFFSET": None,
        "CURRENT_VERSION": const_u(lib, "CURRENT_VERSION"),
        "SENTINEL_SEGMENT_NODE_OFFSET": const_u(lib, "SENTINEL_SEGMENT_NODE_OFFSET"),
        "SENTINEL_SEGMENT_NODE_SIZE": const_u(lib, "SENTINEL_SEGMENT_NODE_SIZE"),
        "REMOVED_SEGMENT_NODE": const_u(sync, "REMOVED_SEGMENT_NODE"),
    }
    fo = consts["FREELIST_OFFSET"]
    try:
        fo_i = int(fo)
        consts["MAGIC_TEXT_OFFSET"] = str(fo_i + 1)
        consts["MAGIC_VERSION_OFFSET"] = str(fo_i + 1 + 2)
        consts["VERSION_OFFSET"] = str(fo_i + 1 + 2 + 2)
    except Exception:
        pass
    m = re.search(r'const\s+MAGIC_TEXT\s*:\s*\[u8;\s*2\]\s*=\s*\*b"(..)"', lib)
    magic = [ord(c) for c in m.group(1)] if m else None
    path = os.path.join(GEN, "Consts.lean")
    old = open(path).read() if os.path.exists(path) else ""
    lines = ["/- GENERATED by tools/extract.py from lib.rs / sync.rs — do not edit -/",
             "namespace Rarena.Gen", ""]
    for k, v in consts.items():
        if v is None or not re.fullmatch(r"\d+", v.strip()):
            mm = re.search(r"def " + k + r" : Nat := (\d+)", old)
            info["unavailable"].append("const." + k)
            v = mm.group(1) if mm else "0"
        lines.append(f"def {k} : Nat := {v.strip()}")
    if magic is None:
        info["unavailable"].append("const.MAGIC_TEXT")
        mm = re.search(r"def MAGIC_TEXT : List Nat := (\[[^\]]*\])", old)
        lines.append(f"def MAGIC_TEXT : List Nat := {mm.group(1) if mm else '[]'}")
    else:
        lines.append(f"def MAGIC_TEXT : List Nat := {magic}")
    # header field order of both flavours
    for fl, src in (("sync", sync), ("unsync", unsync)):
        m = re.search(r"pub struct Header\s*\{(.*?)\}", src, re.S)
        fields = re.findall(r"pub\(super\)\s+(\w+)\s*:", m.group(1)) if m else []
        if not fields:
            info["unavailable"].append(f"header.{fl}")
        lines.append(f"def {fl}_header_fields : List String := {json.dumps(fields)}")
    lines += ["", "end Rarena.Gen", ""]
    if write_if_changed(path, "\n".join(lines)):
        info["changed"].append("Consts")

    print(json.dumps(info))

if __name__ == "__main__":
    main()
