#!/bin/bash
# reconfirm the given seeded changes in N parallel scratch worktrees: tools/reconfirm_par.sh N name...
N=$1; shift
names=("$@")
for ((j=0;j<N;j++)); do
  sub=()
  for ((i=j;i<${#names[@]};i+=N)); do sub+=("${names[$i]}"); done
  [ ${#sub[@]} -gt 0 ] && RECONFIRM_SLOT=$j python3 /verif/tools/reconfirm.py "${sub[@]}" > /verif/work/reconfirm_$j.log 2>&1 &
done
wait
grep -h "NOT CONFIRMED\|'confirmed': False" /verif/work/reconfirm_*.log
