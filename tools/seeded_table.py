#!/usr/bin/env python3
"""writes seeded/RESULTS.md from work/seeded_results_iso.json (tools/iso_seeded.py; falls back to work/seeded_results.json
of tools/run_seeded.py) and the meta.json files"""
import json, os, glob
src = "/verif/work/seeded_results_iso.json" if os.path.exists("/verif/work/seeded_results_iso.json") else "/verif/work/seeded_results.json"
rows = {r[0]: r for r in json.load(open(src))}
out = ["# Seeded changes: which check caught which change", "",
       "Produced by `tools/iso_seeded.py`: every change is applied to a scratch worktree of /repo's HEAD and the quick tier of",
       "`./check <ID>` (the property the change was written against) runs in an isolated copy of /verif against that worktree;",
       "`tools/run_seeded.py` does the same in place (apply to /repo, run, undo). Rows are the latest run of each change.",
       "`caught` = VIOLATION with a concrete replay (input / history / schedule / crash point) found on the implementation;",
       "`caught(no-input)` = only `no-failing-input-found` (proof or correspondence broken); `MISSED` = the check stayed quiet.", "",
       "| change | round | verdict | replay(s) | what was changed (first words of the author's summary) |", "|---|---|---|---|---|"]
cnt = {}
for d in sorted(glob.glob("/verif/seeded/*_m*"), key=lambda x: (os.path.basename(x).split("_m")[0], int(os.path.basename(x).split("_m")[1]))):
    n = os.path.basename(d)
    try: m = json.load(open(d + "/meta.json"))
    except Exception: m = {}
    r = rows.get(n, [n, "not run", ""])
    cnt[r[1]] = cnt.get(r[1], 0) + 1
    rep = "; ".join((x.split("replay=")[1].split() or ["?"])[0].replace("replays/", "") for x in r[2].split(";") if "replay=" in x)[:90]
    summ = " ".join(m.get("summary", "").split())[:150].replace("|", "/")
    out.append(f"| {n} | {m.get('round', 1)} | {r[1]} | {rep} | {summ} |")
out += ["", "Totals: " + ", ".join(f"{k}: {v}" for k, v in sorted(cnt.items()))]
open("/verif/seeded/RESULTS.md", "w").write("\n".join(out) + "\n")
print(out[-1])
