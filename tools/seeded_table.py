#!/usr/bin/env python3
"""writes seeded/RESULTS.md from work/seeded_results.json (last tools/run_seeded.py results) and the meta.json files"""
import json, os, glob
rows = {r[0]: r for r in json.load(open("/verif/work/seeded_results.json"))}
out = ["# Seeded changes: which check caught which change", "",
       "Produced by `tools/run_seeded.py` (apply the change to /repo, run `./check <ID>` quick tier, undo).",
       "`caught` = VIOLATION with a concrete replay (input / history / schedule / crash point) found on the implementation;",
       "`caught(no-input)` = only `no-failing-input-found` (proof or correspondence broken); `MISSED` = the check stayed quiet.", "",
       "| change | round | verdict | replay(s) | what was changed (first words of the author's summary) |", "|---|---|---|---|---|"]
cnt = {}
for d in sorted(glob.glob("/verif/seeded/*_m*")):
    n = os.path.basename(d)
    try: m = json.load(open(d + "/meta.json"))
    except Exception: m = {}
    r = rows.get(n, [n, "not run", ""])
    cnt[r[1]] = cnt.get(r[1], 0) + 1
    rep = "; ".join(x.split("replay=")[1].split()[0].replace("replays/", "") for x in r[2].split(";") if "replay=" in x)[:90]
    summ = " ".join(m.get("summary", "").split())[:150].replace("|", "/")
    out.append(f"| {n} | {m.get('round', 1)} | {r[1]} | {rep} | {summ} |")
out += ["", "Totals: " + ", ".join(f"{k}: {v}" for k, v in sorted(cnt.items()))]
open("/verif/seeded/RESULTS.md", "w").write("\n".join(out) + "\n")
print(out[-1])
