#!/usr/bin/env python3
"""Confirm the seeded mutants produced by the sub-agents (in /tmp/seed/<id>/out/m<k>) against /repo's HEAD in
scratch worktrees and copy the confirmed ones to /verif/seeded/<id>_m<k>/."""
import json, os, shutil, subprocess, sys, concurrent.futures as cf

SEED = "/tmp/seed"; OUT = "/verif/seeded"; SCR = "/tmp/confirm"

def sh(cmd, cwd, env=None, timeout=1800):
    e = dict(os.environ); e.update({"CARGO_NET_OFFLINE": "true"}); e.update(env or {})
    try:
        p = subprocess.run(cmd, cwd=cwd, env=e, shell=True, stdout=subprocess.PIPE, stderr=subprocess.STDOUT, text=True, timeout=timeout)
        return p.returncode, p.stdout
    except subprocess.TimeoutExpired as ex:
        return 124, (ex.stdout or "") + "\nTIMEOUT"

def confirm(pid):
    wt = f"{SCR}/{pid}/wt"; tgt = f"{SCR}/{pid}/target"
    os.makedirs(f"{SCR}/{pid}", exist_ok=True)
    if not os.path.exists(wt):
        sh(f"git -C /repo worktree add --detach {wt} HEAD -q", "/")
    res = []
    for k in (1, 2):
        d = f"{SEED}/{pid}/out/m{k}"
        if not os.path.exists(f"{d}/patch.diff"):
            continue
        r = {"property": pid, "mutant": k}
        runtxt = open(f"{d}/run.txt").read() if os.path.exists(f"{d}/run.txt") else ""
        hook = "rarena_verif" in runtxt or "rarena_verif" in open(f"{d}/demo.rs").read()
        env = {"CARGO_TARGET_DIR": tgt}
        denv = dict(env)
        if hook:
            denv["RUSTFLAGS"] = "--cfg rarena_verif --check-cfg cfg(rarena_verif)"
            denv["CARGO_TARGET_DIR"] = tgt + "_hook"
        sh("git checkout -- . && git clean -fdq rarena-allocator/tests", wt)
        rc, out = sh(f"git apply {d}/patch.diff", wt)
        r["applies"] = rc == 0
        if rc != 0:
            r["apply_out"] = out[-500:]; res.append(r); continue
        rc, out = sh("cargo nextest run --workspace --no-fail-fast --offline", wt, env)
        r["suite_passes_with_change"] = rc == 0 and "68 passed" in out
        os.makedirs(f"{wt}/rarena-allocator/tests", exist_ok=True)
        shutil.copy(f"{d}/demo.rs", f"{wt}/rarena-allocator/tests/demo_{k}.rs")
        cmd = f"cargo test -p rarena-allocator --features std,memmap --test demo_{k} --offline"
        rc, out = sh(cmd, wt, denv, timeout=1200)
        r["demo_fails_with_change"] = rc != 0 and "could not compile" not in out
        r["demo_out_with_change"] = out[-700:]
        sh("git checkout -- .", wt)
        rc, out = sh(cmd, wt, denv, timeout=1200)
        r["demo_passes_without_change"] = rc == 0
        if rc != 0: r["demo_out_without_change"] = out[-700:]
        sh("git clean -fdq rarena-allocator/tests", wt)
        r["demo_cmd"] = ("RUSTFLAGS=\"--cfg rarena_verif --check-cfg cfg(rarena_verif)\" " if hook else "") + cmd + f"   # demo.rs copied to rarena-allocator/tests/demo_{k}.rs"
        r["confirmed"] = bool(r["suite_passes_with_change"] and r["demo_fails_with_change"] and r["demo_passes_without_change"])
        dst = f"{OUT}/{pid}_m{k}"
        os.makedirs(dst, exist_ok=True)
        for f in ("patch.diff", "demo.rs", "run.txt"):
            if os.path.exists(f"{d}/{f}"): shutil.copy(f"{d}/{f}", f"{dst}/{f}")
        meta = {}
        try: meta = json.load(open(f"{d}/meta.json"))
        except Exception: pass
        meta["confirmation"] = {x: r[x] for x in r if x not in ("demo_out_with_change",)}
        meta["confirmation"]["what_ran"] = "scratch worktree of /repo HEAD: git apply patch.diff; cargo nextest run --workspace (68 tests); demo with the change; git checkout; demo without the change"
        meta["demo_failure_excerpt"] = r.get("demo_out_with_change", "")[-400:]
        json.dump(meta, open(f"{dst}/meta.json", "w"), indent=1)
        res.append(r)
    sh(f"git -C /repo worktree remove --force {wt}", "/")
    shutil.rmtree(f"{SCR}/{pid}", ignore_errors=True)
    return res

if __name__ == "__main__":
    ids = sys.argv[1:] or [f"C{i:02d}" for i in range(1, 21)]
    with cf.ThreadPoolExecutor(max_workers=4) as ex:
        for rs in ex.map(confirm, ids):
            for r in rs:
                print(json.dumps({k: v for k, v in r.items() if not k.startswith("demo_out")}), flush=True)
