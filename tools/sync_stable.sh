#!/bin/bash
# development helper: a copy of the harness whose sched sources are the committed ones (while somebody edits them)
mkdir -p /verif/work/harness_stable
rsync -a --delete --exclude src/sched.rs --exclude src/bin/sched.rs --exclude target /verif/harness/ /verif/work/harness_stable/
git -C /verif show HEAD:harness/src/sched.rs > /verif/work/harness_stable/src/sched.rs.new && cmp -s /verif/work/harness_stable/src/sched.rs.new /verif/work/harness_stable/src/sched.rs || mv /verif/work/harness_stable/src/sched.rs.new /verif/work/harness_stable/src/sched.rs
git -C /verif show HEAD:harness/src/bin/sched.rs > /verif/work/harness_stable/src/bin/sched.rs.new && cmp -s /verif/work/harness_stable/src/bin/sched.rs.new /verif/work/harness_stable/src/bin/sched.rs || mv /verif/work/harness_stable/src/bin/sched.rs.new /verif/work/harness_stable/src/bin/sched.rs
rm -f /verif/work/harness_stable/src/sched.rs.new /verif/work/harness_stable/src/bin/sched.rs.new
