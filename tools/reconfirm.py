#!/usr/bin/env python3
"""Re-confirm seeded mutants of /verif/seeded against /repo's HEAD in ONE scratch worktree (outside /repo and /verif):
patch applies, the 68-test suite passes with the change, the demo fails with it and passes without it.
usage: tools/reconfirm.py [names…]   (default: all).  Updates meta.json["reconfirmed"]. Removes the worktree at the end."""
import json, os, subprocess, sys, glob, shutil
SLOT = os.environ.get("RECONFIRM_SLOT", "")
SCR = "/tmp/reconfirm" + SLOT; WT = SCR + "/wt"
def sh(cmd, cwd, env=None, timeout=3600):
    e = dict(os.environ); e.update({"CARGO_NET_OFFLINE": "true"}); e.update(env or {})
    p = subprocess.run(cmd, cwd=cwd, env=e, shell=True, stdout=subprocess.PIPE, stderr=subprocess.STDOUT, text=True, timeout=timeout)
    return p.returncode, p.stdout
names = sys.argv[1:] or [os.path.basename(d) for d in sorted(glob.glob("/verif/seeded/*_m*"))]
os.makedirs(SCR, exist_ok=True)
sh(f"git -C /repo worktree remove --force {WT}", "/")
rc, out = sh(f"git -C /repo worktree add --detach {WT} HEAD -q", "/")
head = sh("git rev-parse --short HEAD", WT)[1].strip()
HOOK = "--cfg rarena_verif --check-cfg cfg(rarena_verif)"
bad = []
try:
    for n in names:
        d = f"/verif/seeded/{n}"; k = n.split("_m")[1]
        meta = json.load(open(d + "/meta.json"))
        hook = "rarena_verif" in (meta.get("confirmation", {}).get("demo_cmd", "") + open(d + "/demo.rs").read())
        env = {"CARGO_TARGET_DIR": SCR + "/target"}
        denv = {"CARGO_TARGET_DIR": SCR + ("/target_hook" if hook else "/target_demo")}
        if hook: denv["RUSTFLAGS"] = HOOK
        sh("git checkout -- . && git clean -fdq rarena-allocator/tests", WT)
        r = {"head": head}
        rc, out = sh(f"git apply {d}/patch.diff", WT); r["applies"] = rc == 0
        if rc == 0:
            rc, out = sh("cargo nextest run --workspace --no-fail-fast --offline", WT, env)
            r["suite_passes_with_change"] = rc == 0 and "68 passed" in out
            os.makedirs(f"{WT}/rarena-allocator/tests", exist_ok=True)
            shutil.copy(d + "/demo.rs", f"{WT}/rarena-allocator/tests/demo_{k}.rs")
            dc = f"cargo test -p rarena-allocator --features std,memmap --test demo_{k} --offline"
            rc, out = sh(dc, WT, denv); r["demo_fails_with_change"] = rc != 0 and "error: could not compile" not in out and "error[" not in out
            sh(f"git apply -R {d}/patch.diff", WT)
            rc, out = sh(dc, WT, denv); r["demo_passes_without_change"] = rc == 0
        r["confirmed"] = all(r.get(x) for x in ("applies", "suite_passes_with_change", "demo_fails_with_change", "demo_passes_without_change"))
        meta["reconfirmed"] = r
        json.dump(meta, open(d + "/meta.json", "w"), indent=1)
        print(n, r, flush=True)
        if not r["confirmed"]: bad.append(n)
finally:
    sh(f"git -C /repo worktree remove --force {WT}", "/")
    shutil.rmtree(SCR, ignore_errors=True)
    sh("git -C /repo worktree prune", "/")
print("NOT CONFIRMED:", bad)
