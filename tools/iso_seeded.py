#!/usr/bin/env python3
"""Development helper: run seeded changes against an ISOLATED copy of /verif and a scratch worktree of /repo
(both under /tmp/iso<SLOT>, removed at the end), so that nothing in /repo or /verif is touched and other runs can go
on meanwhile. The registered way (tools/run_seeded.py: apply to /repo, run ./check, undo) stays the reference; this
one only tells earlier which changes a check would miss.
usage: ISO_SLOT=1 tools/iso_seeded.py NAME… [--tier quick]      results -> /verif/work/seeded_results_iso.json"""
import json, os, subprocess, sys, shutil, re
names = [a for a in sys.argv[1:] if not a.startswith("--")]
tier = "quick"
if "--tier" in sys.argv: tier = sys.argv[sys.argv.index("--tier") + 1]
SLOT = os.environ.get("ISO_SLOT", "0")
ROOT = f"/tmp/iso{SLOT}"; V = ROOT + "/verif"; R = ROOT + "/repo"
def sh(cmd, **kw):
    return subprocess.run(cmd, shell=True, capture_output=True, text=True, **kw)
sh(f"git -C /repo worktree remove --force {R}"); shutil.rmtree(ROOT, ignore_errors=True); os.makedirs(ROOT)
sh(f"rsync -a --exclude work --exclude .git --exclude replays /verif/ {V}/")
os.makedirs(V + "/work", exist_ok=True)
p = sh(f"git -C /repo worktree add --detach {R} HEAD -q")
ct = open(V + "/harness/Cargo.toml").read().replace('"/repo/rarena-allocator"', f'"{R}/rarena-allocator"')
open(V + "/harness/Cargo.toml", "w").write(ct)
rows = []
try:
    for name in names:
        pid = name.split("_")[0]
        if ":" in name: name, pid = name.split(":")     # NAME:PROP = run another property's check on this change
        d = os.path.join(os.environ.get("ISO_DIR", "/verif/seeded"), name)
        sh(f"git -C {R} checkout -- .")
        a = sh(f"git -C {R} apply {d}/patch.diff")
        if a.returncode != 0:
            rows.append((name, "patch-does-not-apply", a.stderr.strip()[:100])); print(rows[-1], flush=True); continue
        env = dict(os.environ); env["VERIF_REPO"] = R
        try:
            p = subprocess.run(["./check", pid, "--tier", tier], cwd=V, capture_output=True, text=True, timeout=5400, env=env)
            lines = [l for l in p.stdout.splitlines() if l.startswith(("VIOLATION", "OK"))] + [l[:60] for l in p.stdout.splitlines() if l.startswith("KNOWN")]
            verdict = "MISSED" if p.returncode == 0 else ("caught(no-input)" if all("no-failing-input-found" in l for l in lines if l.startswith("VIOLATION")) else "caught")
        except subprocess.TimeoutExpired:
            lines, verdict = ["timeout"], "timeout"
        rows.append((name if pid == name.split("_")[0] else f"{name}:{pid}", verdict, "; ".join(l.replace("VIOLATION property=", "V ") for l in lines)[:200]))
        print(rows[-1], flush=True)
finally:
    if not os.environ.get("ISO_KEEP"):
        sh(f"git -C /repo worktree remove --force {R}"); sh("git -C /repo worktree prune")
        shutil.rmtree(ROOT, ignore_errors=True)
    old = {}
    RES = os.environ.get("ISO_RESULTS", "/verif/work/seeded_results_iso.json")
    try: old = {r[0]: r for r in json.load(open(RES))}
    except Exception: pass
    for r in rows: old[r[0]] = list(r)
    json.dump(sorted(old.values()), open(RES, "w"), indent=1)
