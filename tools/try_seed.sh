#!/bin/bash
# apply one seeded change to /repo, run its property's check, show the result and the head of the replay; undo
n=$1; id=${2:-${n%%_*}}
git -C /repo checkout -- . ; git -C /repo apply /verif/seeded/$n/patch.diff || exit 1
cp -r /verif/evidence /verif/work/evidence.try
(cd /verif && ./check $id 2>&1 | tail -4)
git -C /repo checkout -- .
rm -rf /verif/evidence; mv /verif/work/evidence.try /verif/evidence
for f in /verif/replays/$id/*.ops; do echo "--- $f"; grep -v '^# *"\|^# *\]\|^# *\[\|^# *[{}]' $f | head -${3:-14}; done
