//! `sched run FILE` — runs every case of FILE (PROTOCOL_SCHED.md) on the real `sync::Arena` under the
//! controlled scheduler and prints the output of each case followed by a line `end`. A journal goes to stderr:
//! `sched-begin <i>` before case `i` (index in FILE, from 0) and `sched-done <i>` after its output is flushed.
//! `sched run FILE --only K` runs only case K (same output as in the full run).
//!
//! `sched gen --seed S --cases N --profile fast|list|refs|aba|crashseq|readers --out PREFIX` — generates N cases, writes
//! PREFIX.cases (input; appended case by case BEFORE the case is run, so that the last case of the file is the
//! culprit when the crate under test kills the process) and PREFIX.impl (what `sched run PREFIX.cases` prints)
//! and a JSON summary line on stderr. Every random choice derives from one `SplitMix64` seeded with S.

use std::fmt::Write as _;
use std::io::Write as _;
use std::path::Path;

use rarena_verif_harness::sched::*;
use rarena_verif_harness::*;

fn usage() -> ! {
  eprintln!(
    "usage: sched run FILE [--only K]\n       sched gen --seed S --cases N --profile fast|list|refs|aba|crashseq|readers --out PREFIX"
  );
  std::process::exit(2)
}

fn main() {
  install_panic_hook();
  let args: Vec<String> = std::env::args().skip(1).collect();
  match args.first().map(|s| s.as_str()) {
    Some("run") if args.len() == 2 => run(&args[1], None),
    Some("run") if args.len() == 4 && args[2] == "--only" => match args[3].parse::<usize>() {
      Ok(k) => run(&args[1], Some(k)),
      Err(_) => usage(),
    },
    Some("gen") => gen(&args[1..]),
    _ => usage(),
  }
}

/// one line of the journal on stderr (unbuffered; flushed anyway): `sched-begin <i>` before case `i` (index in the
/// file, from 0) starts, `sched-done <i>` after its output has been written and flushed to stdout. When the crate
/// under test kills the process, the last `sched-begin` without `sched-done` names the case.
fn journal(what: &str, i: usize) {
  let stderr = std::io::stderr();
  let mut e = stderr.lock();
  let _ = writeln!(e, "sched-{what} {i}");
  let _ = e.flush();
}

/// `only`: run just that case of the file (same case number, hence the same output as in the full run)
fn run(file: &str, only: Option<usize>) {
  let text = std::fs::read_to_string(file).unwrap_or_else(|e| {
    eprintln!("cannot read {file}: {e}");
    std::process::exit(2)
  });
  let tmp = tempfile::tempdir().expect("tempdir");
  let stdout = std::io::stdout();
  let mut out = std::io::BufWriter::new(stdout.lock());
  let (mut hangs, mut panics) = (0, 0);
  let cases = parse_cases(&text);
  if let Some(k) = only {
    if k >= cases.len() {
      eprintln!("sched: --only {k}: the file has {} case(s)", cases.len());
      std::process::exit(2);
    }
  }
  for (i, c) in cases.iter().enumerate() {
    if only.is_some_and(|k| k != i) {
      continue;
    }
    journal("begin", i);
    match c {
      Ok(c) => {
        let r = run_case(c, tmp.path(), i as u64 + 1);
        hangs += (r.hangs > 0) as usize;
        panics += r.panics;
        out.write_all(r.out.as_bytes()).expect("stdout");
      }
      Err(e) => writeln!(out, "bad-case {e}").expect("stdout"),
    }
    writeln!(out, "end").expect("stdout");
    out.flush().expect("stdout");
    journal("done", i);
  }
  if hangs > 0 || panics > 0 {
    eprintln!("sched: {hangs} case(s) with hang lines, {panics} panic answer(s)");
  }
}

// ---------------------------------------------------------------------------------------------
// gen
// ---------------------------------------------------------------------------------------------

#[derive(Clone, Copy, PartialEq, Eq, Debug)]
enum Profile {
  Fast,
  List,
  Refs,
  Aba,
  CrashSeq,
  Readers,
}

struct Gen {
  rng: SplitMix64,
  tmp: tempfile::TempDir,
  probe_no: u64,
}

/// The probe arenas of the `crashseq` generator: `a` has the layout of the crash-point run (backend `file`), `b`
/// (when the case names another backend) the layout of the case as written. Sizes are chosen by looking at `a`;
/// `b` follows so that the generator can tell what is safe in BOTH layouts.
struct Probe2 {
  a: Box<dyn CaseApi>,
  b: Option<Box<dyn CaseApi>>,
}

impl Probe2 {
  fn arena(&self) -> ArenaInfo {
    self.a.arena()
  }
  fn arenas(&self) -> Vec<ArenaInfo> {
    std::iter::once(self.a.arena()).chain(self.b.as_ref().map(|b| b.arena())).collect()
  }
}

/// Executes `line` on the probe arenas (the answer is that of `a`). With `SCHED_GEN_TRACE=1` in the environment the
/// line is written to stderr first (the probe runs the crate under test: when it kills the generator, the last line
/// says where).
fn px(probe: &mut Probe2, line: &str) -> String {
  trace_probe(line);
  if let Some(b) = probe.b.as_mut() {
    b.exec(line);
  }
  probe.a.exec(line)
}

/// the cursor `rewind <kind> <v>` leads to (the crate's clamping rules)
fn rewind_target(info: &ArenaInfo, kind: &str, v: i64) -> i64 {
  let (al, d, cap) = (info.allocated as i64, info.data_offset as i64, info.capacity as i64);
  let clamp = |x: i64| x.max(d).min(cap);
  match kind {
    "start" => clamp(v),
    "end" => {
      if v > cap {
        d
      } else {
        clamp(cap - v)
      }
    }
    _ => clamp(al.saturating_add(v)),
  }
}

fn trace_probe(line: &str) {
  static TRACE: std::sync::OnceLock<bool> = std::sync::OnceLock::new();
  if *TRACE.get_or_init(|| std::env::var_os("SCHED_GEN_TRACE").is_some()) {
    eprintln!("probe {line}");
  }
}

/// rough number of atomic accesses of an op (only used to shape the schedules)
fn est_steps(op: &str, slow: bool) -> u64 {
  match op.split(' ').next().unwrap_or("") {
    "fill" | "verify" | "flush" => 0,
    "clone" | "refs" | "set_minseg" | "inc_discarded" | "clear" | "rd" | "rd_var" | "checksum" => 1,
    "slices" => 2,
    "drop_arena" | "rewind" => 2,
    "alloc_bytes_owned" => 4,
    o if o.starts_with("alloc") => {
      if slow {
        22
      } else {
        2
      }
    }
    "drop" | "dealloc" => {
      if slow {
        10
      } else {
        3
      }
    }
    "discard_freelist" => 12,
    _ => 1,
  }
}

impl Gen {
  fn byte(&mut self) -> u64 {
    self.rng.range(1, 255)
  }

  fn base_cfg(&mut self, freelists: &[u8], file_pct: u64) -> Cfg {
    let r = &mut self.rng;
    Cfg {
      sync: true,
      freelist: r.pick(freelists),
      backend: if r.chance(file_pct) { 2 } else { 0 },
      unify: r.chance(50),
      reserved: r.pick(&[0, 0, 0, 5, 8]),
      cap: 0,
      minseg: r.pick(&[0, 1, 8, 16]),
      maxalign: r.pick(&[8, 16, 64]),
      retries: r.pick(&[0, 1, 2, 5]),
      magic: r.below(65536) as u16,
      offset: 0,
      mm: 0,
    }
  }

  /// random schedule: each entry a random unfinished-looking tid, ~3% with the `f` suffix
  fn schedule(&mut self, est: &[(usize, u64)]) -> Vec<(usize, bool)> {
    let total: u64 = est.iter().map(|e| e.1 + 1).sum();
    // mostly proportional to the estimated number of steps (so that `skip` lines stay rare: what the
    // schedule does not cover is finished by the fair round-robin), sometimes any length
    let len = if self.rng.chance(12) {
      self.rng.range(20, 300)
    } else {
      (total * self.rng.range(40, 140) / 100).clamp(20, 300)
    };
    let mut granted = vec![0u64; est.len()];
    let mut sched = Vec::new();
    let mut last: Option<usize> = None;
    for _ in 0..len {
      let looks: Vec<usize> = (0..est.len()).filter(|i| granted[*i] < est[*i].1 * 3 / 2 + 2).collect();
      let i = match last {
        Some(l) if self.rng.chance(40) && looks.contains(&l) => l,
        _ if looks.is_empty() => self.rng.below(est.len() as u64) as usize,
        _ => self.rng.pick(&looks),
      };
      granted[i] += 1;
      last = Some(i);
      sched.push((est[i].0, self.rng.chance(3)));
    }
    sched
  }

  fn pick_ty(&mut self, max_pad: u64) -> (u64, u64) {
    for _ in 0..8 {
      let a = self.rng.pick(&[1u64, 2, 4, 8, 16]);
      let s = a * self.rng.range(1, (64 / a).min(6));
      if s + a - 1 <= max_pad {
        return (a, s);
      }
    }
    (1, 1)
  }

  // ---- fast: bump allocations only ------------------------------------------------------------
  fn case_fast(&mut self) -> SchedCase {
    let mut cfg = self.base_cfg(&[0, 1, 2], 12);
    cfg.cap = cfg.prefix() + self.rng.pick(&[1024u32, 2048, 4096]);
    let mut c = SchedCase { cfg: cfg.line(), budget: DEFAULT_BUDGET, ..Default::default() };
    let mut h = 0u32;
    // sometimes the cursor was moved back by a relative rewind before anything else happens (nothing is live then; the
    // cursor must stop at the data area)
    if self.rng.chance(12) {
      let n = self.rng.range(1, 64);
      let back = n + self.rng.range(0, 48);
      c.pre.push(format!("alloc_bytes 90 {n}"));
      c.pre.push("detach 90".to_string());
      c.pre.push(format!("rewind cur -{back}"));
    } else if self.rng.chance(10) {
      // ... or the arena was used and cleared before the threads start
      let n = self.rng.range(1, 64);
      c.pre.push(format!("alloc_bytes 91 {n}"));
      c.pre.push("detach 91".to_string());
      c.pre.push("clear".to_string());
    }
    for _ in 0..self.rng.range(0, 2) {
      let n = self.rng.range(1, 40);
      let b = self.byte();
      c.pre.push(format!("alloc_bytes {h} {n}"));
      c.pre.push(format!("fill {h} {b}"));
      h += 1;
    }
    let nt = self.rng.range(2, 4) as usize;
    let mut est = Vec::new();
    for tid in 1..=nt {
      let mut ops = Vec::new();
      let mut own: Vec<u32> = Vec::new();
      let mut id = 100 * tid as u32;
      for _ in 0..self.rng.range(1, 4) {
        if self.rng.chance(10) {
          // a value with drop glue, borrowed or owned, often released at once (the handle's own Drop arm; the cursor is
          // usually not aligned for it, so the extent starts with padding)
          let owned = if self.rng.chance(50) { "_owned" } else { "" };
          ops.push(format!("alloc_d{owned} {id}"));
          if self.rng.chance(60) {
            ops.push(format!("drop {id}"));
          } else {
            own.push(id);
          }
          id += 1;
          continue;
        }
        // borrowed or owned handle (an owned one clones the arena value its thread uses)
        let owned = if self.rng.chance(30) { "_owned" } else { "" };
        let line = match self.rng.weighted(&[50, 25, 25]) {
          0 => {
            // (zero-size requests only through the borrowed entry points: the owned ones convert a null handle, whose
            // drop makes accesses of its own that the step machine does not have)
            let n = if owned.is_empty() && self.rng.chance(6) { 0 } else { self.rng.range(1, 64) };
            format!("alloc_bytes{owned} {id} {n}")
          }
          1 => {
            let (a, s) = self.pick_ty(80);
            let s = if owned.is_empty() && self.rng.chance(15) { 0 } else { s };
            format!("alloc_aligned{owned} {id} {a} {s} {}", self.rng.range(if owned.is_empty() { 0 } else { 1 }, 24))
          }
          _ => {
            let (a, s) = self.pick_ty(80);
            format!("alloc_t{owned} {id} {a} {s}")
          }
        };
        ops.push(line);
        let b = self.byte();
        ops.push(format!("fill {id} {b}"));
        ops.push(format!("verify {id}"));
        if self.rng.chance(30) {
          ops.push(format!("drop {id}")); // on top of the arena unless another thread allocated meanwhile
        } else {
          own.push(id);
        }
        id += 1;
      }
      for o in &own {
        ops.push(format!("verify {o}"));
      }
      if !own.is_empty() && self.rng.chance(25) {
        let o = *own.last().unwrap();
        ops.push(format!("drop {o}"));
      }
      est.push((tid, ops.iter().map(|o| est_steps(o, false)).sum()));
      c.threads.push((tid, ops));
    }
    // the threads may also share ONE arena value by reference (no clones: refs() == 1 while they run)
    c.noclone = self.rng.chance(25);
    c.sched = self.schedule(&est);
    c
  }

  // ---- readers: arena-level readers racing with a cursor that moves up and down ----------------
  fn case_readers(&mut self) -> SchedCase {
    let mut cfg = self.base_cfg(&[0, 1, 2], 10);
    cfg.cap = cfg.prefix() + self.rng.pick(&[256u32, 512, 1024]);
    let prefix = cfg.prefix() as u64;
    let mut c = SchedCase { cfg: cfg.line(), budget: DEFAULT_BUDGET, ..Default::default() };
    // some filled memory below everything that follows
    let mut top = prefix;
    let mut h = 0u32;
    for _ in 0..self.rng.range(0, 2) {
      let n = self.rng.range(1, 24);
      let b = self.byte();
      c.pre.push(format!("alloc_bytes {h} {n}"));
      c.pre.push(format!("fill {h} {b}"));
      top += n;
      h += 1;
    }
    let nt = self.rng.range(2, 3) as usize;
    let mut est = Vec::new();
    // thread 1 (and sometimes 2) move the cursor: allocate on top, fill, give the top back
    let movers = if nt == 3 && self.rng.chance(50) { 2 } else { 1 };
    let mut reach = top;
    for tid in 1..=movers {
      let mut ops = Vec::new();
      let mut id = 100 * tid as u32;
      for _ in 0..self.rng.range(1, 3) {
        let n = self.rng.range(1, 20);
        let b = self.byte();
        ops.push(format!("alloc_bytes {id} {n}"));
        ops.push(format!("fill {id} {b}"));
        if self.rng.chance(70) {
          ops.push(format!("{} {id}", self.rng.pick(&["drop", "dealloc"])));
        }
        reach += n;
        id += 1;
      }
      est.push((tid, ops.iter().map(|o| est_steps(o, false)).sum()));
      c.threads.push((tid, ops));
    }
    // the other threads read at offsets around the places the cursor visits
    for tid in movers + 1..=nt {
      let mut ops = Vec::new();
      for _ in 0..self.rng.range(2, 6) {
        let mid = self.rng.range(top, reach.max(top + 1));
        let around = self.rng.pick(&[top, reach, mid]);
        let off = (around + self.rng.range(0, 4)).saturating_sub(self.rng.range(0, 6));
        if self.rng.chance(10) {
          // the lengths of allocated_memory() / data() / memory() as this call sees them
          ops.push("slices".to_string());
        } else if self.rng.chance(12) {
          // the checksum of the allocated memory as this call sees it
          ops.push(format!("checksum {}", self.rng.pick(&["crc32", "ordsum"])));
        } else if self.rng.chance(75) {
          let ty = self.rng.pick(&["u8", "u8", "i8", "u16", "u32", "u64", "i64", "u128"]);
          let ord = self.rng.pick(&["be", "le"]);
          ops.push(format!("rd {ty} {ord} {off}"));
        } else {
          let ty = self.rng.pick(&["u16", "u32", "u64", "i32", "u128"]);
          ops.push(format!("rd_var {ty} {off}"));
        }
      }
      est.push((tid, ops.iter().map(|o| est_steps(o, false)).sum()));
      c.threads.push((tid, ops));
    }
    c.noclone = self.rng.chance(25);
    c.sched = self.schedule(&est);
    c
  }

  // ---- list: races on the free list -----------------------------------------------------------
  fn case_list(&mut self) -> SchedCase {
    let mut cfg = self.base_cfg(&[1, 2], 10);
    cfg.minseg = self.rng.pick(&[0, 1, 8, 16]);
    let prefix = cfg.prefix();
    cfg.cap = (self.rng.range(256, 1024) as u32).max(prefix + 200);
    let mut c = SchedCase { cfg: cfg.line(), budget: 600, ..Default::default() };
    // probe: run the pre phase on a real arena to learn the free list it builds
    self.probe_no += 1;
    let (probe, _) = open_case(&c.cfg, None, self.tmp.path(), 1_000_000 + self.probe_no);
    let mut probe = probe.expect("probe arena");
    let mut pre: Vec<String> = Vec::new();
    let run = |pre: &mut Vec<String>, probe: &mut Box<dyn CaseApi>, line: String| -> String {
      let a = probe.exec(&line);
      pre.push(line);
      a
    };
    let mut h = 0u32;
    let nblocks = self.rng.range(3, 8);
    let mut blocks: Vec<u32> = Vec::new();
    for _ in 0..nblocks {
      let rem = probe.arena().remaining as u64;
      if rem < 40 {
        break;
      }
      let n = self.rng.range(16, 120).min(rem - 8);
      let b = self.byte();
      if run(&mut pre, &mut probe, format!("alloc_bytes {h} {n}")).starts_with("r=ok") {
        run(&mut pre, &mut probe, format!("fill {h} {b}"));
        blocks.push(h);
      }
      h += 1;
    }
    // fill the arena (sometimes leave a few bytes)
    let rem = probe.arena().remaining as u64;
    if rem > 0 {
      let leave = if self.rng.chance(20) { self.rng.range(1, 12).min(rem - 1) } else { 0 };
      if rem - leave > 0 {
        let b = self.byte();
        run(&mut pre, &mut probe, format!("alloc_bytes {h} {}", rem - leave));
        run(&mut pre, &mut probe, format!("fill {h} {b}"));
        h += 1;
      }
    }
    // drop 1-4 of the non-top blocks
    let ndrop = self.rng.range(1, 4).min(blocks.len() as u64);
    let mut kept = blocks.clone();
    for _ in 0..ndrop {
      let i = self.rng.below(kept.len() as u64) as usize;
      let id = kept.remove(i);
      run(&mut pre, &mut probe, format!("drop {id}"));
    }
    let fl: Vec<u64> = probe.arena().fl.iter().map(|n| n.1 as u64).collect();
    drop(probe);
    c.pre = pre;
    let maxseg = fl.iter().copied().max().unwrap_or(0);
    let _ = h;

    let nt = self.rng.range(2, 3) as usize;
    let mut est = Vec::new();
    // pre handles the threads may drop (mostly distinct)
    let mut droppable = kept.clone();
    for tid in 1..=nt {
      let mut ops = Vec::new();
      let mut own: Vec<u32> = Vec::new();
      let mut id = 100 * tid as u32;
      for _ in 0..self.rng.range(1, 3) {
        match self.rng.weighted(&[45, 15, 28, 7, 5]) {
          0 => {
            // a size the free list must serve
            let s = if fl.is_empty() { 16 } else { self.rng.pick(&fl) };
            let n = match self.rng.below(8) {
              0 => s,
              1 => s.saturating_sub(1),
              2 => s / 2,
              3 => s + 1,
              4 => s.saturating_sub(cfg.minseg as u64 + 8),
              5 => s.saturating_sub(cfg.minseg as u64 + 9),
              _ => self.rng.range(1, s.max(1)),
            }
            .max(1);
            ops.push(format!("alloc_bytes {id} {n}"));
            let b = self.byte();
            ops.push(format!("fill {id} {b}"));
            ops.push(format!("verify {id}"));
            own.push(id);
            id += 1;
          }
          1 => {
            let (a, s) = self.pick_ty(maxseg.max(8));
            // borrowed or owned handle (the owned one releases through the clone it embeds)
            let owned = if self.rng.chance(30) { "_owned" } else { "" };
            if self.rng.chance(12) {
              // a value with drop glue: the handle keeps it in a slot of its own (another Drop arm)
              ops.push(format!("alloc_d{owned} {id}"));
              own.push(id);
              id += 1;
              continue;
            }
            if self.rng.chance(40) {
              // the aligned-bytes entry point (its own bump loop and its own slow-path retry loop)
              let extra = self.rng.pick(&[0u64, 1, 8, 24]);
              ops.push(format!("alloc_aligned{owned} {id} {a} {s} {extra}"));
            } else {
              ops.push(format!("alloc_t{owned} {id} {a} {s}"));
            }
            let b = self.byte();
            ops.push(format!("fill {id} {b}"));
            ops.push(format!("verify {id}"));
            own.push(id);
            id += 1;
          }
          2 => {
            // drop a pre-created or an own handle
            if !own.is_empty() && self.rng.chance(40) {
              let i = self.rng.below(own.len() as u64) as usize;
              let o = own.remove(i);
              ops.push(format!("verify {o}"));
              ops.push(format!("drop {o}"));
            } else if !droppable.is_empty() {
              let i = self.rng.below(droppable.len() as u64) as usize;
              let o = if self.rng.chance(85) { droppable.remove(i) } else { droppable[i] };
              ops.push(format!("verify {o}"));
              ops.push(format!("drop {o}"));
            } else {
              ops.push("discard_freelist".to_string());
            }
          }
          3 => ops.push("discard_freelist".to_string()),
          _ => {
            if !kept.is_empty() {
              let o = self.rng.pick(&kept);
              ops.push(format!("verify {o}"));
            }
          }
        }
      }
      for o in &own {
        ops.push(format!("verify {o}"));
      }
      if ops.is_empty() {
        ops.push("discard_freelist".to_string());
      }
      est.push((tid, ops.iter().map(|o| est_steps(o, true)).sum()));
      c.threads.push((tid, ops));
    }
    // the threads may also share ONE arena value by reference (no clones: refs() == 1 while they run)
    c.noclone = self.rng.chance(25);
    c.sched = self.schedule(&est);
    c
  }


  // ---- aba: pop / pop / push-back of the same block while another thread is inside the removal ------
  fn case_aba(&mut self) -> SchedCase {
    let mut cfg = self.base_cfg(&[1, 2], 8);
    cfg.minseg = self.rng.pick(&[0, 1, 8, 16]);
    let prefix = cfg.prefix();
    let a = self.rng.range(120, 640);
    let nb = self.rng.range(0, 2);
    let mut c = SchedCase { cfg: String::new(), budget: 800, ..Default::default() };
    // blocks: [small keeper] A [keeper] [B] filler
    let mut sizes: Vec<(u32, u64, bool)> = Vec::new(); // (handle, size, released in pre)
    let mut h = 0u32;
    if self.rng.chance(50) {
      sizes.push((h, self.rng.range(8, 40), false));
      h += 1;
    }
    sizes.push((h, a, true));
    let a_id = h;
    h += 1;
    sizes.push((h, self.rng.range(8, 40), false));
    h += 1;
    for _ in 0..nb {
      sizes.push((h, self.rng.range(24, a.max(25) / 2), true));
      h += 1;
      sizes.push((h, self.rng.range(8, 24), false));
      h += 1;
    }
    let total: u64 = sizes.iter().map(|x| x.1 + 8).sum::<u64>() + 64;
    cfg.cap = prefix + total as u32 + self.rng.range(0, 64) as u32;
    c.cfg = cfg.line();
    self.probe_no += 1;
    let (probe, _) = open_case(&c.cfg, None, self.tmp.path(), 2_000_000 + self.probe_no);
    let mut probe = probe.expect("probe arena");
    let mut pre: Vec<String> = Vec::new();
    let run = |pre: &mut Vec<String>, probe: &mut Box<dyn CaseApi>, line: String| -> String {
      let a = probe.exec(&line);
      pre.push(line);
      a
    };
    let mut kept: Vec<u32> = Vec::new();
    for (id, n, _) in &sizes {
      let b = self.byte();
      if run(&mut pre, &mut probe, format!("alloc_bytes {id} {n}")).starts_with("r=ok") {
        run(&mut pre, &mut probe, format!("fill {id} {b}"));
        kept.push(*id);
      }
    }
    // exhaust the bump area so that every later allocation is served by the free list
    let rem = probe.arena().remaining as u64;
    if rem > 0 {
      let b = self.byte();
      run(&mut pre, &mut probe, format!("alloc_bytes {h} {rem}"));
      run(&mut pre, &mut probe, format!("fill {h} {b}"));
      kept.push(h);
    }
    for (id, _, rel) in &sizes {
      if *rel && kept.contains(id) {
        run(&mut pre, &mut probe, format!("drop {id}"));
        kept.retain(|x| x != id);
      }
    }
    let _ = a_id;
    // thread 2 on the probe: pop (small), pop (about the remainder), push the first one back
    let head = probe.arena().fl.iter().map(|n| n.1 as u64).max().unwrap_or(a);
    let y1 = self.rng.range(8, (head / 3).max(9));
    let mut t2: Vec<String> = Vec::new();
    let mut p2: Vec<String> = Vec::new();
    let ok1 = run(&mut p2, &mut probe, format!("alloc_bytes 200 {y1}")).starts_with("r=ok");
    t2.push(format!("alloc_bytes 200 {y1}"));
    let b = self.byte();
    t2.push(format!("fill 200 {b}"));
    let r = probe.arena().fl.iter().map(|n| n.1 as u64).max().unwrap_or(16);
    let y2 = match self.rng.below(5) {
      0 => r,
      1 => r.saturating_sub(1),
      2 => r.saturating_sub(8),
      3 => r.saturating_sub(cfg.minseg as u64 + 8),
      _ => self.rng.range(r / 2 + 1, r.max(r / 2 + 2)),
    }
    .max(1);
    run(&mut p2, &mut probe, format!("alloc_bytes 201 {y2}"));
    t2.push(format!("alloc_bytes 201 {y2}"));
    let b = self.byte();
    t2.push(format!("fill 201 {b}"));
    t2.push("verify 201".to_string());
    if ok1 {
      t2.push("verify 200".to_string());
      t2.push(if self.rng.chance(80) { "drop 200".to_string() } else { "dealloc 200".to_string() });
    }
    t2.push("verify 201".to_string());
    drop(probe);
    c.pre = pre;
    // thread 1: the victim wants (a part of) the original head
    let x = match self.rng.below(4) {
      0 => head,
      1 => head.saturating_sub(self.rng.range(1, 16)),
      _ => self.rng.range(head / 2, head.max(head / 2 + 1)),
    }
    .max(1);
    let b1 = self.byte();
    let mut t1 = vec![format!("alloc_bytes 100 {x}"), format!("fill 100 {b1}"), "verify 100".to_string()];
    if self.rng.chance(30) && !kept.is_empty() {
      let o = self.rng.pick(&kept);
      t1.push(format!("verify {o}"));
    }
    t1.push("verify 100".to_string());
    let swap = self.rng.chance(50);
    let (p1, p2) = if swap { (t2, t1) } else { (t1, t2) };
    let est = vec![(1usize, p1.iter().map(|o| est_steps(o, true)).sum()), (2usize, p2.iter().map(|o| est_steps(o, true)).sum())];
    c.threads.push((1, p1));
    c.threads.push((2, p2));
    if self.rng.chance(35) && !kept.is_empty() {
      // a bystander releasing / verifying a kept block
      let o = self.rng.pick(&kept);
      c.threads.push((3, vec![format!("verify {o}"), format!("drop {o}")]));
    }
    let mut est = est;
    if c.threads.len() == 3 {
      est.push((3, 12));
    }
    // the threads may also share ONE arena value by reference (no clones: refs() == 1 while they run)
    c.noclone = self.rng.chance(25);
    c.sched = self.schedule(&est);
    c
  }

  // ---- crashseq: whole histories of ONE worker (for crash-point mode), with clear / rewind / flush ----------
  /// a size for `alloc_bytes` that aims at the free list or at the bump area of the probe
  fn cs_size(&mut self, probe: &Probe2) -> u64 {
    let info = probe.arena();
    let rem = info.remaining as u64;
    let ms = info.minseg as u64;
    let fl: Vec<u64> = info.fl.iter().map(|n| n.1 as u64).collect();
    if !fl.is_empty() && self.rng.chance(55) {
      let s = self.rng.pick(&fl);
      match self.rng.below(8) {
        0 => s,
        1 => s.saturating_sub(1),
        2 => s / 2,
        3 => s + 1,
        4 => s.saturating_sub(ms + 8),
        5 => s.saturating_sub(ms + 9),
        _ => self.rng.range(1, s.max(1)),
      }
      .max(1)
    } else {
      match self.rng.below(7) {
        0 => rem,
        1 => rem.saturating_sub(1),
        2 => rem + 1,
        3 => rem / 2,
        4 if self.rng.chance(30) => 0,
        _ => self.rng.range(1, rem.clamp(1, 96)),
      }
    }
  }

  /// one allocation of thread 1 (+ fill, + verify), executed on the probe as well
  fn cs_alloc(&mut self, probe: &mut Probe2, ops: &mut Vec<String>, id: &mut u32, live: &mut Vec<u32>, typed: bool) {
    let line = if typed {
      let info = probe.arena();
      let maxseg = info.fl.iter().map(|n| n.1 as u64).max().unwrap_or(0);
      let (a, s) = self.pick_ty(maxseg.max((info.remaining as u64).min(64)).max(8));
      format!("alloc_t {id} {a} {s}")
    } else {
      let n = self.cs_size(probe);
      format!("alloc_bytes {id} {n}")
    };
    let ok = px(probe, &line).starts_with("r=ok");
    ops.push(line);
    if ok {
      live.push(*id);
    }
    // (a failed allocation is followed by `fill` / `verify` too now and then: they answer `r=nohandle`)
    if self.rng.chance(if ok { 85 } else { 15 }) {
      let line = format!("fill {id} {}", self.byte());
      px(probe, &line);
      ops.push(line);
      if self.rng.chance(50) {
        ops.push(format!("verify {id}"));
      }
    }
    *id += 1;
  }

  /// the arguments of a `rewind`: in range or out of range
  fn cs_rewind(&mut self, probe: &Probe2) -> (&'static str, i64) {
    let info = probe.arena();
    let (al, d, cap) = (info.allocated as i64, info.data_offset as i64, info.capacity as i64);
    let r = &mut self.rng;
    match r.below(3) {
      0 => {
        let v: i64 = match r.below(8) {
          0 => 0,
          1 => (d - 1).max(0),
          2 => d,
          3 => al,
          4 | 5 => r.range(d as u64, al as u64) as i64,
          6 => cap + r.below(3) as i64 * 7,
          _ => {
            let over = cap + 1 + r.below(100) as i64;
            r.pick(&[over, u32::MAX as i64])
          }
        };
        ("start", v)
      }
      1 => {
        let v: i64 = match r.below(8) {
          0 => 0,
          1 => cap - al,
          2 | 3 => r.range(0, (cap - d) as u64) as i64,
          4 => cap - d,
          5 => cap,
          6 => cap + 1 + r.below(50) as i64,
          _ => u32::MAX as i64,
        };
        ("end", v)
      }
      _ => {
        let v: i64 = match r.below(10) {
          0 => 0,
          1 | 2 => -(r.range(1, (al - d).max(1) as u64) as i64),
          3 => -(al - d),
          4 => -al,
          5 => -(al + 1 + r.below(100) as i64),
          6 => r.range(1, (cap - al).max(1) as u64) as i64,
          7 => cap,
          8 => i64::MIN,
          _ => i64::MAX,
        };
        ("cur", v)
      }
    }
  }

  fn case_crashseq(&mut self) -> SchedCase {
    let mut cfg = self.base_cfg(&[0, 1, 2], 30);
    if cfg.backend == 0 && self.rng.chance(25) {
      cfg.backend = 1;
    }
    cfg.minseg = self.rng.pick(&[0, 1, 8, 16]);
    // the crash-point driver rewrites the backend to `file`, which always has the unified layout: the capacity
    // is computed for, and the sizes are chosen on, that layout (with another backend a few more bytes stay free)
    let mut pcfg = cfg.clone();
    pcfg.backend = 2;
    cfg.cap = pcfg.prefix().max(cfg.prefix()) + self.rng.range(256, 1024) as u32;
    pcfg.cap = cfg.cap;
    let mut c = SchedCase { cfg: cfg.line(), budget: 600, ..Default::default() };
    self.probe_no += 1;
    trace_probe(&pcfg.line());
    let (a, _) = open_case(&pcfg.line(), None, self.tmp.path(), 3_000_000 + self.probe_no);
    let b = (pcfg != cfg).then(|| {
      self.probe_no += 1;
      open_case(&cfg.line(), None, self.tmp.path(), 3_000_000 + self.probe_no).0.expect("probe arena")
    });
    let mut probe = Probe2 { a: a.expect("probe arena"), b };
    let mut pre: Vec<String> = Vec::new();
    let run = |pre: &mut Vec<String>, probe: &mut Probe2, line: String| -> String {
      let a = px(probe, &line);
      pre.push(line);
      a
    };
    // ---- pre: filled blocks, the bump area exhausted or not, some blocks released
    let mut h = 0u32;
    let mut blocks: Vec<u32> = Vec::new();
    for _ in 0..self.rng.range(3, 8) {
      let rem = probe.arena().remaining as u64;
      if rem < 40 {
        break;
      }
      let n = self.rng.range(16, 120).min(rem - 8);
      let b = self.byte();
      if run(&mut pre, &mut probe, format!("alloc_bytes {h} {n}")).starts_with("r=ok") {
        run(&mut pre, &mut probe, format!("fill {h} {b}"));
        blocks.push(h);
      }
      h += 1;
    }
    let mut live: Vec<u32> = Vec::new();
    let rem = probe.arena().remaining as u64;
    if rem > 0 && self.rng.chance(50) {
      let leave = if self.rng.chance(30) { self.rng.range(1, 12).min(rem - 1) } else { 0 };
      if rem - leave > 0 {
        let b = self.byte();
        if run(&mut pre, &mut probe, format!("alloc_bytes {h} {}", rem - leave)).starts_with("r=ok") {
          run(&mut pre, &mut probe, format!("fill {h} {b}"));
          // the top block: releasing it moves the cursor back
          if self.rng.chance(40) {
            live.push(h);
          }
        }
        h += 1;
      }
    }
    let _ = h;
    let ndrop = self.rng.range(1, 4).min(blocks.len() as u64);
    for _ in 0..ndrop {
      let i = self.rng.below(blocks.len() as u64) as usize;
      let id = blocks.remove(i);
      run(&mut pre, &mut probe, format!("drop {id}"));
    }
    live.extend(blocks);
    c.pre = pre;

    // ---- thread 1: a sequential history (the probe follows it, so sizes and positions stay meaningful)
    let mut ops: Vec<String> = Vec::new();
    let mut id = 100u32;
    for _ in 0..self.rng.range(3, 7) {
      match self.rng.weighted(&[24, 8, 10, 16, 6, 5, 4, 12, 10, 5]) {
        0 => self.cs_alloc(&mut probe, &mut ops, &mut id, &mut live, false),
        1 => self.cs_alloc(&mut probe, &mut ops, &mut id, &mut live, true),
        2 => {
          // fill + verify of an own handle (of a pre handle when there is no own one)
          let own: Vec<u32> = live.iter().copied().filter(|x| *x >= 100).collect();
          let cand = if own.is_empty() { live.clone() } else { own };
          if cand.is_empty() {
            ops.push("flush".to_string());
          } else {
            let o = self.rng.pick(&cand);
            let line = format!("fill {o} {}", self.byte());
            px(&mut probe, &line);
            ops.push(line);
            ops.push(format!("verify {o}"));
          }
        }
        3 => {
          if live.is_empty() {
            px(&mut probe, "discard_freelist");
            ops.push("discard_freelist".to_string());
          } else {
            let i = self.rng.below(live.len() as u64) as usize;
            let o = live.remove(i);
            if self.rng.chance(50) {
              ops.push(format!("verify {o}"));
            }
            let line = if self.rng.chance(70) { format!("drop {o}") } else { format!("dealloc {o}") };
            px(&mut probe, &line);
            ops.push(line);
          }
        }
        4 => {
          px(&mut probe, "discard_freelist");
          ops.push("discard_freelist".to_string());
        }
        5 => {
          let line = format!("set_minseg {}", self.rng.pick(&[0u32, 1, 8, 16, 32, 64]));
          px(&mut probe, &line);
          ops.push(line);
        }
        6 => {
          let line = format!("inc_discarded {}", self.rng.range(1, 16));
          px(&mut probe, &line);
          ops.push(line);
        }
        k @ (7 | 8) => {
          // whole-arena op: every older handle is gone afterwards and is never named again
          let line = if k == 7 {
            "clear".to_string()
          } else {
            let (kind, v) = self.cs_rewind(&probe);
            // `rewind` keeps the free list: a segment that ends above the new cursor would be handed out a second
            // time by the bump allocator and the next `fill` would overwrite its node header (the list then leads
            // anywhere: the crate under test kills the process, generator included). The history stays inside the
            // contract: such segments (in either layout) are discarded first.
            let risky = probe
              .arenas()
              .iter()
              .any(|info| info.fl.iter().any(|n| n.0 as i64 + n.1 as i64 > rewind_target(info, kind, v)));
            if risky {
              px(&mut probe, "discard_freelist");
              ops.push("discard_freelist".to_string());
            }
            format!("rewind {kind} {v}")
          };
          px(&mut probe, &line);
          ops.push(line);
          live.clear();
          for _ in 0..self.rng.range(0, 2) {
            let typed = self.rng.chance(20);
            self.cs_alloc(&mut probe, &mut ops, &mut id, &mut live, typed);
          }
        }
        _ => ops.push("flush".to_string()),
      }
    }
    drop(probe);
    let n1: u64 = ops.iter().map(|o| est_steps(o, false)).sum();
    c.threads.push((1, ops));
    // `1` repeated generously (the fair round-robin finishes what a slow path needs beyond that)
    c.sched = vec![(1, false); (n1 * 2 + 8).min(300) as usize];
    if self.rng.chance(30) {
      // a bystander that only reads the reference counter: the case keeps a scheduler choice
      let n2 = self.rng.range(1, 3);
      c.threads.push((2, vec!["refs".to_string(); n2 as usize]));
      for _ in 0..n2 + 1 {
        let at = self.rng.below(c.sched.len() as u64 + 1) as usize;
        c.sched.insert(at, (2, false));
      }
    }
    c
  }

  // ---- refs: clones, owned handles, tear-down on any thread --------------------------------------
  fn case_refs(&mut self) -> SchedCase {
    let mut cfg = self.base_cfg(&[0, 1, 2], 30);
    cfg.cap = cfg.prefix() + self.rng.pick(&[256u32, 512, 1024]);
    let mut c = SchedCase { cfg: cfg.line(), budget: DEFAULT_BUDGET, ..Default::default() };
    let mut pre_handles: Vec<u32> = Vec::new();
    let mut pre_clones: Vec<u32> = Vec::new();
    let mut h = 0u32;
    for _ in 0..self.rng.range(0, 2) {
      let n = self.rng.range(1, 48);
      let b = self.byte();
      c.pre.push(format!("alloc_bytes_owned {h} {n}"));
      c.pre.push(format!("fill {h} {b}"));
      pre_handles.push(h);
      h += 1;
    }
    for k in 1..=self.rng.range(0, 2) as u32 {
      c.pre.push(format!("clone {k}"));
      pre_clones.push(k);
    }
    let nt = self.rng.range(2, 4) as usize;
    let drop0 = self.rng.chance(35).then(|| self.rng.range(1, nt as u64) as usize);
    // tidy: everything is released by the threads, so that the last drop unmounts on some thread
    let tidy = drop0.is_some() && self.rng.chance(60);
    let mut est = Vec::new();
    for tid in 1..=nt {
      let mut ops: Vec<String> = Vec::new();
      let mut own_h: Vec<u32> = Vec::new();
      let mut own_c: Vec<u32> = Vec::new();
      let mut id = 100 * tid as u32;
      let mut cid = 10 * tid as u32;
      for _ in 0..self.rng.range(2, 5) {
        match self.rng.weighted(&[25, 22, 28, 15, 10]) {
          0 => {
            ops.push(format!("clone {cid}"));
            own_c.push(cid);
            cid += 1;
          }
          1 => {
            // drop an own clone, a pre clone or (maybe not yet existing) clone of another thread
            let x = self.rng.below(100);
            let target = if x < 50 && !own_c.is_empty() {
              let i = self.rng.below(own_c.len() as u64) as usize;
              own_c.remove(i)
            } else if x < 80 && !pre_clones.is_empty() {
              let i = self.rng.below(pre_clones.len() as u64) as usize;
              if tidy || self.rng.chance(70) {
                pre_clones.remove(i)
              } else {
                pre_clones[i]
              }
            } else {
              10 * self.rng.range(1, nt as u64) as u32 + self.rng.below(2) as u32
            };
            ops.push(format!("drop_arena {target}"));
          }
          2 => {
            let n = self.rng.range(1, 48);
            ops.push(format!("alloc_bytes_owned {id} {n}"));
            let b = self.byte();
            ops.push(format!("fill {id} {b}"));
            ops.push(format!("verify {id}"));
            own_h.push(id);
            id += 1;
          }
          3 => {
            if !own_h.is_empty() && self.rng.chance(60) {
              let i = self.rng.below(own_h.len() as u64) as usize;
              let o = own_h.remove(i);
              ops.push(format!("verify {o}"));
              ops.push(format!("drop {o}"));
            } else if !pre_handles.is_empty() {
              let i = self.rng.below(pre_handles.len() as u64) as usize;
              let o = pre_handles.remove(i);
              ops.push(format!("verify {o}"));
              ops.push(format!("drop {o}"));
            } else {
              ops.push("refs".to_string());
            }
          }
          _ => ops.push("refs".to_string()),
        }
      }
      if drop0 == Some(tid) {
        let at = self.rng.below(ops.len() as u64 + 1) as usize;
        ops.insert(at, "drop_arena 0".to_string());
      }
      if tidy {
        for o in own_h.drain(..) {
          ops.push(format!("drop {o}"));
        }
        for o in own_c.drain(..) {
          ops.push(format!("drop_arena {o}"));
        }
        if tid == nt {
          for o in pre_handles.drain(..) {
            ops.push(format!("drop {o}"));
          }
          for o in pre_clones.drain(..) {
            ops.push(format!("drop_arena {o}"));
          }
        }
      } else {
        for o in &own_h {
          ops.push(format!("verify {o}"));
        }
      }
      est.push((tid, ops.iter().map(|o| est_steps(o, false)).sum()));
      c.threads.push((tid, ops));
    }
    c.sched = self.schedule(&est);
    c
  }
}

fn gen(args: &[String]) {
  let (mut seed, mut cases, mut profile, mut out) = (None, None, None, None);
  let mut i = 0;
  while i + 1 < args.len() {
    let v = &args[i + 1];
    match args[i].as_str() {
      "--seed" => seed = v.parse::<u64>().ok(),
      "--cases" => cases = v.parse::<u64>().ok(),
      "--out" => out = Some(v.clone()),
      "--profile" => {
        profile = Some(match v.as_str() {
          "fast" => Profile::Fast,
          "list" => Profile::List,
          "refs" => Profile::Refs,
          "aba" => Profile::Aba,
          "crashseq" => Profile::CrashSeq,
          "readers" => Profile::Readers,
          _ => usage(),
        })
      }
      _ => usage(),
    }
    i += 2;
  }
  let (Some(seed), Some(cases), Some(profile), Some(out)) = (seed, cases, profile, out) else { usage() };
  if i != args.len() {
    usage();
  }
  let mut g = Gen { rng: SplitMix64(seed), tmp: tempfile::tempdir().expect("tempdir"), probe_no: 0 };
  let run_tmp = tempfile::tempdir().expect("tempdir");
  let mut output = String::new();
  let (mut hang_cases, mut hang_lines, mut panics, mut skips, mut evs, mut gone, mut unmounts, mut lv0, mut spurious) =
    (0u64, 0u64, 0u64, 0u64, 0u64, 0u64, 0u64, 0u64, 0u64);
  let mut hang_idx: Vec<u64> = Vec::new();
  let mut results: std::collections::BTreeMap<String, u64> = Default::default();
  if let Some(dir) = Path::new(&out).parent() {
    let _ = std::fs::create_dir_all(dir);
  }
  // PREFIX.cases grows case by case, each one written BEFORE it is run: if the crate under test kills the
  // process, the last case of the file is the one that did it
  let mut cases_file = std::fs::File::create(format!("{out}.cases")).expect("write .cases");
  for n in 0..cases {
    let c = match profile {
      Profile::Fast => g.case_fast(),
      Profile::List => g.case_list(),
      Profile::Refs => g.case_refs(),
      Profile::Aba => g.case_aba(),
      Profile::CrashSeq => g.case_crashseq(),
      Profile::Readers => g.case_readers(),
    };
    cases_file.write_all(c.text().as_bytes()).expect("write .cases");
    cases_file.flush().expect("write .cases");
    // run exactly what `sched run` will parse
    let parsed = parse_cases(&c.text()).pop().expect("one case").expect("generated case parses");
    let r = run_case(&parsed, run_tmp.path(), n + 1);
    if r.hangs > 0 {
      hang_cases += 1;
      hang_idx.push(n);
    }
    hang_lines += r.hangs as u64;
    panics += r.panics as u64;
    for l in r.out.lines() {
      if l.starts_with("ev ") {
        evs += 1;
        if l.contains(" k=casw ") && l.contains(" ok=0 ") {
          spurious += 1;
        }
      } else if l.starts_with("skip ") {
        skips += 1;
      } else if l == "final gone" {
        gone += 1;
      } else if l.contains("src=unmount") {
        unmounts += 1;
      } else if l.starts_with("final ") && l.ends_with("lv=0") {
        lv0 += 1;
      } else if l.starts_with("res ") {
        if let Some(rk) = field(l, "r=") {
          *results.entry(rk.to_string()).or_default() += 1;
        } else if l.ends_with("bad-op") {
          *results.entry("bad-op".to_string()).or_default() += 1;
        }
      }
    }
    output.push_str(&r.out);
    output.push_str("end\n");
  }
  drop(cases_file);
  std::fs::write(format!("{out}.impl"), &output).expect("write .impl");
  let mut res = String::new();
  for (k, v) in &results {
    let _ = write!(res, "{}\"{k}\":{v}", if res.is_empty() { "" } else { "," });
  }
  let idx: Vec<String> = hang_idx.iter().take(40).map(|x| x.to_string()).collect();
  eprintln!(
    "{{\"profile\":\"{profile:?}\",\"seed\":{seed},\"cases\":{cases},\"ev\":{evs},\"failed_casw\":{spurious},\"skip\":{skips},\"hang_cases\":{hang_cases},\"hang_lines\":{hang_lines},\"hang_case_indices\":[{}],\"panic_answers\":{panics},\"final_gone\":{gone},\"unmount\":{unmounts},\"final_lv0\":{lv0},\"res\":{{{res}}}}}",
    idx.join(",")
  );
}
