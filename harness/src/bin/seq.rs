//! `seq run FILE [--flavour sync|unsync] [--backend vec|anon|file] [--unify 0|1]` — executes a case
//! stream on the real arena(s) and prints one observation line per input line (the options override
//! the corresponding key of every `cfg` line; `--flavour` also that of every `reopen` line).
//!
//! `seq gen --seed S --cases N --profile P --out PREFIX [--maxops K]` — generates N cases while
//! executing them (the generator looks at the live handles / the arena to pick interesting
//! arguments), writes PREFIX.ops and PREFIX.impl and prints a JSON summary line on stderr.
//!
//! Everything random derives from one `SplitMix64` seeded from `--seed`.

use std::collections::BTreeMap;
use std::io::Write;
use std::path::Path;

use rarena_verif_harness::*;

fn usage() -> ! {
  eprintln!(
    "usage: seq run FILE [--flavour sync|unsync] [--backend vec|anon|file] [--unify 0|1]\n       seq gen --seed S --cases N --profile mix|boundary|rewind|readers|trunc|buf|file|badfile --out PREFIX [--maxops K]"
  );
  std::process::exit(2)
}

fn main() {
  install_panic_hook();
  rarena_verif_harness::seq_hook::install();
  watchdog_start(60);
  let args: Vec<String> = std::env::args().skip(1).collect();
  match args.first().map(|s| s.as_str()) {
    Some("run") => run(&args[1..]),
    Some("gen") => gen(&args[1..]),
    Some("traits") => {
      for l in rarena_verif_harness::autotraits::table() {
        println!("{l}");
      }
    }
    _ => usage(),
  }
}

// ---------------------------------------------------------------------------------------------
// run
// ---------------------------------------------------------------------------------------------

fn run(args: &[String]) {
  let (mut file, mut force) = (None, None);
  let (mut backend, mut unify) = (None, None);
  let mut i = 0;
  while i < args.len() {
    match args[i].as_str() {
      "--flavour" => {
        force = match args.get(i + 1).map(|s| s.as_str()) {
          Some("sync") => Some(true),
          Some("unsync") => Some(false),
          _ => usage(),
        };
        i += 1;
      }
      "--backend" => {
        backend = match args.get(i + 1).and_then(|s| BACKENDS.iter().position(|b| b == s)) {
          Some(b) => Some(b as u8),
          None => usage(),
        };
        i += 1;
      }
      "--unify" => {
        unify = match args.get(i + 1).map(|s| s.as_str()) {
          Some("0") => Some(false),
          Some("1") => Some(true),
          _ => usage(),
        };
        i += 1;
      }
      f if file.is_none() => file = Some(f.to_string()),
      _ => usage(),
    }
    i += 1;
  }
  let file = file.unwrap_or_else(|| usage());
  let text = std::fs::read_to_string(&file).unwrap_or_else(|e| {
    eprintln!("cannot read {file}: {e}");
    std::process::exit(2)
  });
  let tmp = tempfile::tempdir().expect("tempdir");
  let stdout = std::io::stdout();
  let mut out = std::io::BufWriter::new(stdout.lock());
  let mut case: Option<Box<dyn CaseApi>> = None;
  let (mut case_no, mut ctx) = (0u64, String::new());
  for line in text.lines() {
    watchdog_begin(&ctx, line);
    let ans = if line == "cfg" || line.starts_with("cfg ") {
      drop(case.take()); // tear the previous case down first
      case_no += 1;
      ctx = line.to_string();
      let ov = Overrides { sync: force, backend, unify };
      let (c, ans) = open_session(line, &ov, tmp.path(), case_no);
      case = c;
      ans
    } else {
      match &mut case {
        Some(c) => c.exec(line),
        None => "r=nocase".to_string(),
      }
    };
    watchdog_end();
    writeln!(out, "{ans}").expect("stdout");
  }
  drop(case);
  out.flush().expect("stdout");
}

// ---------------------------------------------------------------------------------------------
// gen
// ---------------------------------------------------------------------------------------------

#[derive(Clone, Copy, PartialEq, Eq, Debug)]
enum Profile {
  Mix,
  Boundary,
  Rewind,
  Readers,
  Trunc,
  Buf,
  /// PROTOCOL_FILE.md: close / reopen cuts in a mix history
  File,
  /// PROTOCOL_FILE.md: damaged files
  BadFile,
}

#[derive(Default)]
struct Stats {
  /// `reopen`: "<MODE>:<result kind>" (file profiles only)
  reopen: BTreeMap<String, u64>,
  cases: u64,
  lines: u64,
  ops: BTreeMap<String, u64>,
  results: BTreeMap<String, u64>,
  cfg: BTreeMap<String, u64>,
  /// successful allocations / those with a non-empty buffer
  alloc_ok: u64,
  alloc_nonempty: u64,
  /// served from below the previous `al`, i.e. recycled from the free list
  alloc_recycled: u64,
  alloc_boff_ne_off: u64,
  alloc_insufficient: u64,
  /// (cfg line, op line, panic message)
  panics: Vec<(String, String, String)>,
}

fn json_map(m: &BTreeMap<String, u64>) -> String {
  let v: Vec<String> = m.iter().map(|(k, v)| format!("\"{k}\":{v}")).collect();
  format!("{{{}}}", v.join(","))
}

const INTS: [&str; 12] =
  ["u8", "i8", "u16", "u32", "u64", "u128", "usize", "i16", "i32", "i64", "i128", "isize"];
const VARS: [&str; 8] = ["u16", "u32", "u64", "u128", "i16", "i32", "i64", "i128"];
const RDS: [&str; 10] = ["u8", "i8", "u16", "u32", "u64", "u128", "i16", "i32", "i64", "i128"];

/// (bits, signed) of an integer type name
fn int_shape(ty: &str) -> (u32, bool) {
  let signed = ty.starts_with('i');
  let bits = match &ty[1..] {
    "8" => 8,
    "16" => 16,
    "32" => 32,
    "128" => 128,
    _ => 64, // 64, size
  };
  (bits, signed)
}

struct Gen {
  rng: SplitMix64,
  profile: Profile,
  maxops: usize,
  tmp: tempfile::TempDir,
  st: Stats,
  ops: String,
  obs: String,
  /// crash journal: the op line is appended (and flushed) to PREFIX.ops.part BEFORE it is executed and its answer
  /// to PREFIX.impl.part after, so that a crash of the process leaves the failing history on disk
  journal: Option<(std::fs::File, std::fs::File)>,
  // per case
  case: Option<Box<dyn CaseApi>>,
  cfg_line: String,
  next_h: u32,
  next_c: u32,
  /// operations left in the budget of the case
  left: usize,
  /// `al=` of the last observation
  al: u64,
  /// the configuration of the running case (file profiles: parameters of `reopen`)
  cfg: Option<Cfg>,
  /// `reserved=` of the next reopen lines when it is to differ from the file's (bad-file histories)
  res_ov: Option<u32>,
}

impl Gen {
  // ---- plumbing -----------------------------------------------------------------------------

  /// Executes `line`, records the line and its observation, updates the statistics.
  /// Once the budget of the case (`left`) is used up nothing more is emitted, so a multi-line
  /// sequence may be cut short; every prefix of the sequences below is safe to execute.
  fn emit(&mut self, line: String) -> String {
    let is_cfg = line.starts_with("cfg ");
    if !is_cfg && self.left == 0 {
      return String::new();
    }
    if let Some((o, _)) = &mut self.journal {
      use std::io::Write;
      let _ = writeln!(o, "{line}");
      let _ = o.flush();
    }
    watchdog_begin(&self.cfg_line, &line);
    let ans = if is_cfg {
      self.case = None;
      let (c, ans) = open_session(&line, &Overrides::default(), self.tmp.path(), self.st.cases);
      self.case = c;
      ans
    } else {
      match &mut self.case {
        Some(c) => c.exec(&line),
        None => "r=nocase".to_string(),
      }
    };
    watchdog_end();
    if let Some((_, i)) = &mut self.journal {
      use std::io::Write;
      let _ = writeln!(i, "{ans}");
      let _ = i.flush();
    }
    let op = line.split(' ').next().unwrap_or("").to_string();
    let rk = match ans.strip_prefix("r=") {
      Some(rest) => rest.split(' ').next().unwrap_or("").to_string(),
      None => ans.clone(),
    };
    if rk == "panic" {
      self.st.panics.push((self.cfg_line.clone(), line.clone(), take_last_panic().unwrap_or_default()));
    }
    if op.starts_with("alloc") {
      if rk == "ok" {
        let f = |k: &str| field(&ans, k).and_then(|v| v.parse::<u64>().ok()).unwrap_or(0);
        self.st.alloc_ok += 1;
        if f("bcap=") > 0 {
          self.st.alloc_nonempty += 1;
          self.st.alloc_recycled += (f("boff=") < self.al) as u64;
          self.st.alloc_boff_ne_off += (f("boff=") != f("off=")) as u64;
        }
      } else if rk == "InsufficientSpace" {
        self.st.alloc_insufficient += 1;
      }
    }
    if op == "reopen" {
      let mode = line.split(' ').nth(1).unwrap_or("?");
      *self.st.reopen.entry(format!("{mode}:{rk}")).or_default() += 1;
    }
    *self.st.ops.entry(op).or_default() += 1;
    *self.st.results.entry(rk).or_default() += 1;
    self.st.lines += 1;
    if let Some(al) = field(&ans, "al=").and_then(|v| v.parse().ok()) {
      self.al = al;
    }
    self.ops.push_str(&line);
    self.ops.push('\n');
    self.obs.push_str(&ans);
    self.obs.push('\n');
    if !is_cfg {
      self.left = self.left.saturating_sub(1);
    }
    ans
  }

  fn live(&self) -> Vec<HandleInfo> {
    self.case.as_ref().map(|c| c.live()).unwrap_or_default()
  }
  fn ai(&self) -> ArenaInfo {
    self.case.as_ref().map(|c| c.arena()).unwrap_or_default()
  }
  fn fresh_h(&mut self) -> u32 {
    self.next_h += 1;
    self.next_h - 1
  }
  fn byte(&mut self) -> u64 {
    self.rng.range(1, 255)
  }

  // ---- configuration ------------------------------------------------------------------------

  fn sample_cfg(&mut self) -> Cfg {
    let p = self.profile;
    let r = &mut self.rng;
    let mut cfg = Cfg {
      sync: p != Profile::Trunc && r.chance(50),
      freelist: r.weighted(&[20, 40, 40]) as u8,
      backend: r.weighted(&[80, 10, 10]) as u8,
      unify: r.chance(50),
      reserved: r.pick(&[0, 1, 5, 7, 8, 9, 64]),
      cap: 0,
      minseg: r.pick(&[0, 1, 8, 20, 48]),
      maxalign: r.pick(&[8, 16, 64]),
      retries: r.pick(&[0, 1, 2, 5]),
      magic: r.below(65536) as u16,
      offset: 0,
      mm: 0,
    };
    if matches!(p, Profile::File | Profile::BadFile) {
      cfg.backend = 2;
    }
    // growing and shrinking goes through a different code path for each backend
    if p == Profile::Trunc {
      cfg.backend = r.weighted(&[50, 20, 30]) as u8;
    }
    // a file-backed arena may start at an offset inside its file
    if cfg.backend == 2 && r.chance(if p == Profile::Trunc { 50 } else { 30 }) {
      cfg.offset = r.pick(&[64u64, 4096, 4160, 8192]); // multiples of the largest type alignment used (a mapping offset that is not one makes every typed allocation misaligned)
    }
    // mapping options that must not change any answer (lock the header pages, populate, MAP_STACK)
    if cfg.backend != 0 && r.chance(25) {
      cfg.mm = r.pick(&[1u8, 1, 2, 3, 4, 7]);
    }
    let tight = (cfg.mm & 1 != 0 && r.chance(30)) || (cfg.backend == 2 && r.chance(4));
    let prefix = cfg.prefix();
    let base: u32 = if p == Profile::Buf {
      r.pick(&[64, 96, 128, 200, 256])
    } else {
      r.pick(&[96, 128, 200, 256, 400, 512, 1024, 2048])
    };
    cfg.cap = base + prefix;
    if p == Profile::Readers && r.chance(40) {
      // capacities around page multiples, up to 3 pages + 1
      let ps = page_size() as u32;
      cfg.cap = r.pick(&[ps - 1, ps, ps + 1, 2 * ps - 1, 2 * ps, 2 * ps + 1, 3 * ps - 1, 3 * ps, 3 * ps + 1]);
      // now and then more than sixteen pages (chunked checksummers work in runs of pages)
      if r.chance(6) {
        cfg.cap = 17 * ps + r.pick(&[1u32, 700, ps - 1, ps + 5]);
      }
      // reserved prefixes around and beyond a page
      if r.chance(30) {
        cfg.reserved = r.pick(&[ps - 1, ps, ps + 3, ps + 904, 2 * ps, 2 * ps + 1]);
        cfg.cap = cfg.prefix() + r.pick(&[64, 200, ps - 7, ps, ps + 9]);
      }
    }
    if matches!(p, Profile::Mix | Profile::File) && cfg.backend != 0 && r.chance(3) {
      // a mapping of many pages: blocks of several whole pages are recycled (see `one_case`)
      cfg.cap = prefix + r.pick(&[40000u32, 66000]);
    }
    if tight {
      // with the header pages locked: capacities that just hold the prefix
      cfg.cap = prefix + r.pick(&[0u32, 1, 7, 8, 9, 16, 40]);
    }
    if r.chance(2) {
      // degenerate capacities: construction errors
      cfg.cap = r.pick(&[0, 1, cfg.reserved, prefix.saturating_sub(1), prefix, prefix + 1]);
    }
    cfg
  }

  fn begin_case(&mut self) {
    let cfg = self.sample_cfg();
    self.st.cases += 1;
    for (k, v) in [
      ("flavour", if cfg.sync { "sync" } else { "unsync" }.to_string()),
      ("freelist", FREELISTS[cfg.freelist as usize].to_string()),
      ("backend", BACKENDS[cfg.backend as usize].to_string()),
      ("unify", (cfg.unify as u8).to_string()),
      ("reserved", cfg.reserved.to_string()),
      ("minseg", cfg.minseg.to_string()),
      ("maxalign", cfg.maxalign.to_string()),
      ("retries", cfg.retries.to_string()),
      (
        "cap",
        match cfg.cap {
          0..=95 => "<96",
          96..=299 => "96-299",
          300..=999 => "300-999",
          1000..=2999 => "1000-2999",
          _ => ">=3000",
        }
        .to_string(),
      ),
    ] {
      *self.st.cfg.entry(format!("{k}={v}")).or_default() += 1;
    }
    self.cfg_line = cfg.line();
    self.cfg = Some(cfg);
    self.next_h = 0;
    self.next_c = 1;
    self.al = 0;
    let k = self.maxops.max(2) as u64;
    self.left =
      if self.rng.chance(10) { self.rng.range(1, k / 2) } else { self.rng.range(k / 2, k) } as usize;
    let line = self.cfg_line.clone();
    self.emit(line);
  }

  // ---- argument pickers ---------------------------------------------------------------------

  /// a member (A, S) of the typed-allocation table, sizes skewed small, S = 0 sometimes
  fn pick_ty(&mut self) -> (u64, u64) {
    // over-aligned types (above the 16 bytes every system allocator grants anyway) now and then
    if self.rng.chance(9) {
      let a = self.rng.pick(&[32u64, 64]);
      let s = if self.rng.chance(10) { 0 } else { a * self.rng.range(1, 128 / a) };
      return (a, s);
    }
    let a = self.rng.pick(&[1u64, 2, 4, 8, 16]);
    let n = 64 / a;
    let s = if self.rng.chance(10) { 0 } else { a * self.rng.range(0, n).min(self.rng.range(0, n)) };
    (a, s)
  }

  /// allocation size of the `mix` profile (`extra`: bytes a typed prefix needs on the slow path)
  fn size_mix(&mut self, extra: u64) -> u64 {
    let ai = self.ai();
    let (cap, rem) = (ai.capacity as u64, ai.remaining as u64);
    // free segments that can serve what the main memory cannot (sizes net of the typed overhead)
    let segs: Vec<u64> =
      ai.fl.iter().map(|n| (n.1 as u64).saturating_sub(extra)).filter(|s| *s > rem).collect();
    let x = self.rng.below(100);
    if x < 6 {
      0
    } else if x < 14 {
      self.rng.pick(&[rem.saturating_sub(1), rem, rem + 1])
    } else if !segs.is_empty() && x < 85 {
      // the main memory cannot serve this, a free segment can: more than `rem`, at most the segment
      let s = self.rng.pick(&segs);
      let lo = rem + 1;
      match self.rng.below(8) {
        0 => s,
        1 => s.saturating_sub(1).max(lo),
        2 => s + 1,
        3 => lo,
        4 => s.saturating_sub(8).max(lo),
        5 => (lo + s) / 2,
        _ => self.rng.range(lo, s),
      }
    } else {
      // small-to-medium relative to the capacity, so that the arena really fills up
      let hi = (cap.saturating_sub(ai.data_offset as u64) / 3).max(1);
      let hi = if rem >= 1 && rem < hi && self.rng.chance(70) { rem } else { hi };
      let a = self.rng.range(1, hi);
      if self.rng.chance(70) { a } else { a.min(self.rng.range(1, hi)) }
    }
  }

  /// boundary-dense allocation size (`extra`: room to leave for a typed prefix)
  fn size_boundary(&mut self, extra: u64) -> u64 {
    if self.rng.chance(40) {
      return self.size_mix(extra);
    }
    let ai = self.ai();
    let (cap, rem, al) = (ai.capacity as u64, ai.remaining as u64, ai.allocated as u64);
    let m = u32::MAX as u64;
    let c = [
      0,
      1,
      rem.saturating_sub(1),
      rem,
      rem + 1,
      cap,
      (1 << 31) - 1,
      1 << 31,
      (1 << 31) + 1,
      m - al - 1,
      m - al,
      m - al + 1,
      m - 1,
      m,
      m.saturating_sub(extra),
      m.saturating_sub(extra + 1),
      (m - al).saturating_sub(extra),
      (m - al).saturating_sub(extra + self.rng.below(17)),
      m - self.rng.below(40),
    ];
    self.rng.pick(&c).min(m)
  }

  fn size(&mut self, boundary: bool, extra: u64) -> u64 {
    if boundary {
      self.size_boundary(extra)
    } else {
      self.size_mix(extra)
    }
  }

  /// decimal value for a `put`/`put_var` of type `ty`: boundary values, patterns, random
  fn int_val(&mut self, ty: &str, varint: bool) -> String {
    let (bits, signed) = int_shape(ty);
    let mask: u128 = if bits == 128 { u128::MAX } else { (1u128 << bits) - 1 };
    let rnd = ((self.rng.next_u64() as u128) << 64) | self.rng.next_u64() as u128;
    let raw: u128 = match self.rng.below(if varint { 12 } else { 9 }) {
      0 => 0,
      1 => 1,
      2 => mask,            // -1 / MAX
      3 => 1 << (bits - 1), // MIN of the signed type
      4 => mask >> 1,       // MAX of the signed type
      5 => 0x1234_5678_9ABC_DEF0_1234_5678_9ABC_DEF0u128 >> (128 - bits),
      6 => 0x0102_0304_0506_0708_090A_0B0C_0D0E_0F10u128 >> (128 - bits),
      7 => rnd >> self.rng.below(128), // random magnitude
      9 | 10 => {
        // around the 7-bit group boundaries of LEB128
        let k = self.rng.range(1, 18) as u32;
        (1u128 << (7 * k)).wrapping_sub(self.rng.below(2) as u128)
      }
      _ => rnd,
    } & mask;
    if signed {
      (((raw << (128 - bits)) as i128) >> (128 - bits)).to_string()
    } else {
      raw.to_string()
    }
  }

  /// boundary-dense reader offset for a value of width `w`
  fn rd_off(&mut self, w: u64) -> u64 {
    let ai = self.ai();
    let (al, cap, d) = (ai.allocated as u64, ai.capacity as u64, ai.data_offset as u64);
    if self.rng.chance(35) {
      return self.rng.below(al.max(1));
    }
    let m = u64::MAX;
    let c = [
      0,
      1,
      d.saturating_sub(1),
      d,
      d + 1,
      al.saturating_sub(w + 1),
      al.saturating_sub(w),
      al.saturating_sub(w) + 1,
      al.saturating_sub(1),
      al,
      al + 1,
      cap.saturating_sub(1),
      cap,
      cap + 1,
      m,
      m - 1,
      m - w,
      m - w + 1,
      1 << 63,
      (1 << 63) - 1,
      1 << 32,
      (1 << 32) - 1,
      // beyond 32 bits, with a low half that is a valid offset
      (1 << 32) + d,
      (1 << 32) + al.saturating_sub(w),
      (7 << 32) + 1,
    ];
    self.rng.pick(&c)
  }

  // ---- operation groups ---------------------------------------------------------------------

  /// one allocation (any of the eight operations), mostly followed by a dirtying `fill`
  fn gen_alloc(&mut self, boundary: bool) {
    let k = self.rng.weighted(&[30, 12, 15, 7, 15, 8, 7, 6]);
    let h = self.fresh_h();
    let line = match k {
      0 => format!("alloc_bytes {h} {}", self.size(boundary, 0)),
      1 => format!("alloc_bytes_owned {h} {}", self.size(boundary, 0)),
      2 | 3 => {
        let (a, s) = self.pick_ty();
        let n = self.size(boundary, s + a - 1);
        format!("alloc_aligned{} {h} {a} {s} {n}", if k == 3 { "_owned" } else { "" })
      }
      4 | 5 => {
        // when only the free list can serve, prefer a type that its largest segment can hold
        let ai = self.ai();
        let best = ai.fl.iter().map(|n| n.1 as u64).max().unwrap_or(0);
        let mut ty = self.pick_ty();
        for _ in 0..4 {
          if ty.1 + ty.0 - 1 <= best.max(ai.remaining as u64) {
            break;
          }
          ty = self.pick_ty();
        }
        let (a, s) = ty;
        format!("alloc_t{} {h} {a} {s}", if k == 5 { "_owned" } else { "" })
      }
      6 => {
        if self.rng.chance(25) {
          format!("alloc_z {h}") // a zero-sized value with a destructor
        } else {
          format!("alloc_d {h}")
        }
      }
      _ => {
        if self.rng.chance(25) {
          format!("alloc_z_owned {h}")
        } else {
          format!("alloc_d_owned {h}")
        }
      }
    };
    let ans = self.emit(line);
    if ans.starts_with("r=ok") && k < 6 && self.left > 0 && self.rng.chance(85) {
      let b = self.byte();
      self.emit(format!("fill {h} {b}"));
    }
  }

  /// `alloc_bytes` + `fill`; returns the handle id if the allocation succeeded
  fn alloc_fill(&mut self, n: u64) -> Option<u32> {
    let h = self.fresh_h();
    let ok = self.emit(format!("alloc_bytes {h} {n}")).starts_with("r=ok");
    if ok {
      let b = self.byte();
      self.emit(format!("fill {h} {b}"));
    }
    ok.then_some(h)
  }

  /// drop / detach / dealloc of a live handle, preferably NOT the most recent one
  fn gen_release(&mut self) -> bool {
    let live = self.live();
    if live.is_empty() {
      return false;
    }
    // favour what creates a free-list segment: an inner block (not the one ending at the
    // cursor) that is large enough for a segment node + the minimum segment size
    let ai = self.ai();
    // now and then: release the block just below the topmost one, then the topmost one, so that a free-list
    // segment ends exactly at the cursor (a tail split off from it later is "on top" of the arena)
    if live.len() >= 2 && self.rng.chance(7) {
      let mut by_off: Vec<HandleInfo> = live.iter().filter(|h| h.bcap > 0).copied().collect();
      by_off.sort_by_key(|h| h.boff);
      if by_off.len() >= 2 {
        let (top, below) = (by_off[by_off.len() - 1], by_off[by_off.len() - 2]);
        if top.boff + top.bcap == ai.allocated && below.boff + below.bcap == top.boff {
          let op = self.rng.pick(&["drop", "dealloc"]);
          self.emit(format!("{op} {}", below.id));
          self.emit(format!("{op} {}", top.id));
          return true;
        }
      }
    }
    let good: Vec<HandleInfo> = live
      .iter()
      .filter(|h| h.bcap >= ai.minseg as usize + 16 && h.boff + h.bcap != ai.allocated)
      .copied()
      .collect();
    if !good.is_empty() && self.rng.chance(65) {
      let h = self.rng.pick(&good).id;
      let op = self.rng.pick(&["drop", "dealloc"]);
      self.emit(format!("{op} {h}"));
      return true;
    }
    let n = live.len() as u64;
    let i = if n >= 2 && self.rng.chance(75) { self.rng.below(n - 1) } else { self.rng.below(n) };
    let op = ["drop", "detach", "dealloc"][self.rng.weighted(&[50, 15, 35])];
    self.emit(format!("{op} {}", live[i as usize].id));
    true
  }

  /// releases every live handle for which `keep` is false
  fn release_all(&mut self, only_detach: bool, keep: impl Fn(&HandleInfo) -> bool) {
    for h in self.live() {
      if !keep(&h) {
        let op = if only_detach { "detach" } else { ["drop", "detach", "dealloc"][self.rng.weighted(&[45, 20, 35])] };
        self.emit(format!("{op} {}", h.id));
      }
    }
  }

  /// argument of `increase_discarded`: mostly small, sometimes at and beyond the capacity and
  /// around the 32-bit wrap
  fn big_discard(&mut self) -> u64 {
    if self.rng.chance(85) {
      return self.rng.below(9);
    }
    let cap = self.ai().capacity as u64;
    self.rng.pick(&[cap.saturating_sub(1), cap, cap + 1, 2 * cap, 1 << 31, u32::MAX as u64 - 16, u32::MAX as u64])
  }

  fn gen_rd(&mut self) {
    if self.rng.chance(35) {
      let ty = self.rng.pick(&VARS);
      let w = self.rng.range(1, 5);
      let off = self.rd_off(w);
      self.emit(format!("rd_var {ty} {off}"));
    } else {
      let ty = self.rng.pick(&RDS);
      let w = int_shape(ty).0 as u64 / 8;
      let ord = if w == 1 { "be" } else { self.rng.pick(&["be", "le"]) };
      let off = self.rd_off(w);
      self.emit(format!("rd {ty} {ord} {off}"));
    }
  }

  /// everything that is neither an allocation nor a release
  fn gen_misc(&mut self) {
    let live = self.live();
    let ai = self.ai();
    match self.rng.weighted(&[3, 4, 3, 5, 5, 4, 3, 4, 7, 3, 2, 2, 3]) {
      0 => drop(self.emit("discard_freelist".to_string())),
      1 => {
        let n = if self.rng.chance(75) { self.rng.pick(&[0, 1, 8, 9, 16, 20, 48]) } else { self.rng.below(80) };
        self.emit(format!("set_minseg {n}"));
      }
      2 => {
        let n = self.big_discard();
        self.emit(format!("inc_discarded {n}"));
      }
      3 if ai.arenas.len() < 4 => {
        let c = self.next_c;
        self.next_c += 1;
        self.emit(format!("clone {c}"));
      }
      4 => {
        // never the last arena value, never one that a borrowed handle still borrows
        let c: Vec<u32> = ai
          .arenas
          .iter()
          .copied()
          .filter(|c| ai.arenas.len() >= 2 && !live.iter().any(|h| h.kind.is_borrowed() && h.arena == *c))
          .collect();
        if c.is_empty() {
          self.emit("slices".to_string());
        } else {
          let c = self.rng.pick(&c);
          self.emit(format!("drop_arena {c}"));
        }
      }
      5 => {
        let op = self.rng.pick(&["slices", "rres"]);
        self.emit(op.to_string());
      }
      6 => drop(self.emit("info".to_string())),
      7 => {
        let b = self.rng.below(256);
        self.emit(format!("wres {b}"));
      }
      8 if !live.is_empty() => {
        let h = self.rng.pick(&live).id;
        let b = self.rng.below(256);
        self.emit(format!("fill {h} {b}"));
      }
      9 => self.gen_rd(),
      10 => {
        let k = self.rng.pick(&["crc32", "ordsum"]);
        self.emit(format!("checksum {k}"));
      }
      11 if self.next_h > 0 => {
        // a handle that does not exist (never created or already released): r=nohandle
        let dead: Vec<u32> = (0..self.next_h).filter(|i| !live.iter().any(|h| h.id == *i)).collect();
        if !dead.is_empty() {
          let h = self.rng.pick(&dead);
          let op = self.rng.pick(&["fill", "drop", "detach", "dealloc", "set_len"]);
          self.emit(match op {
            "fill" => format!("fill {h} 7"),
            "set_len" => format!("set_len {h} 0"),
            _ => format!("{op} {h}"),
          });
        } else {
          self.emit("info".to_string());
        }
      }
      12 => {
        let bufs: Vec<HandleInfo> = live.iter().filter(|h| h.kind.is_bytes()).copied().collect();
        if bufs.is_empty() {
          self.emit("slices".to_string());
        } else {
          let h = self.rng.pick(&bufs);
          self.gen_bufop(&h, false);
        }
      }
      _ => drop(self.emit("slices".to_string())),
    }
  }

  /// one step of the `mix` (or `boundary`) profile
  fn step_mix(&mut self, boundary: bool) {
    let ai = self.ai();
    let n_live = self.live().len();
    let near_full = (ai.remaining as u64) < (ai.capacity as u64 / 6).max(16);
    let w: [u32; 3] = if n_live == 0 {
      [75, 0, 25]
    } else if n_live > 14 {
      [20, 62, 18]
    } else if near_full && ai.fl.is_empty() {
      [15, 70, 15] // full and nothing to recycle: free (mostly inner) blocks
    } else if near_full {
      [50, 36, 14] // churn: free (mostly inner) blocks, re-allocate from the free list
    } else {
      [64, 12, 24] // fill the arena up first
    };
    match self.rng.weighted(&w) {
      0 => self.gen_alloc(boundary),
      1 => drop(self.gen_release()),
      _ => self.gen_misc(),
    }
  }

  fn run_mix(&mut self, n: usize, boundary: bool) {
    let stop = self.left.saturating_sub(n);
    if self.next_h == 0 && self.rng.chance(35) {
      // quick start: a few big blocks so that the arena is (nearly) full early in the history
      for _ in 0..self.rng.range(1, 3) {
        let rem = self.ai().remaining as u64;
        let n = self.rng.range(rem / 4, rem * 3 / 5).max(1);
        self.alloc_fill(n);
      }
    }
    while self.left > stop && self.case.is_some() {
      self.step_mix(boundary);
    }
  }

  // ---- buffer operations --------------------------------------------------------------------

  /// one buffer operation on the byte buffer `h`
  fn gen_bufop(&mut self, h: &HandleInfo, allow_panic: bool) {
    let (id, cap, len) = (h.id, h.cap as u64, h.len as u64);
    let room = cap.saturating_sub(len);
    match self.rng.weighted(&[22, 18, 10, 8, 5, 8, 10, 6, 6, 5, 2]) {
      0 => {
        let ty = self.rng.pick(&INTS);
        let ord = self.rng.pick(&["be", "le", "ne"]);
        let v = self.int_val(ty, false);
        let op = if !matches!(ty, "u8" | "i8") && self.rng.chance(20) { "wput" } else { "put" };
        self.emit(format!("{op} {id} {ty} {ord} {v}"));
        // often read straight back with the same type and byte order (round trip)
        if self.rng.chance(35) {
          self.emit(format!("get {id} {ty} {ord}"));
        }
      }
      1 => {
        let ty = self.rng.pick(&INTS);
        let ord = self.rng.pick(&["be", "le", "ne"]);
        self.emit(format!("get {id} {ty} {ord}"));
      }
      2 => {
        let ty = self.rng.pick(&VARS);
        let v = self.int_val(ty, true);
        // the panicking twin where it cannot panic, or where a panic is allowed
        let op = if (allow_panic || room >= 19) && self.rng.chance(25) { "put_varu" } else if self.rng.chance(20) { "wput_var" } else { "put_var" };
        self.emit(format!("{op} {id} {ty} {v}"));
      }
      3 => {
        let ty = self.rng.pick(&VARS);
        let op = if allow_panic && self.rng.chance(20) { "get_varu" } else { "get_var" };
        self.emit(format!("{op} {id} {ty}"));
      }
      4 => {
        // varint round trip on an emptied buffer (possibly decoded as another type)
        let ty = self.rng.pick(&VARS);
        let v = self.int_val(ty, true);
        // sometimes after other bytes, so that the put does not start at the beginning of the buffer
        let unchecked = (allow_panic || cap >= 27) && self.rng.chance(30);
        if unchecked && self.rng.chance(50) && cap >= 8 {
          let l = self.rng.range(1, 8);
          self.emit(format!("set_len {id} {l}"));
        } else {
          self.emit(format!("set_len {id} 0"));
        }
        let (p, g) = if unchecked { ("put_varu", "get_var") } else { ("put_var", "get_var") };
        self.emit(format!("{p} {id} {ty} {v}"));
        let ty2 = if self.rng.chance(75) { ty } else { self.rng.pick(&VARS) };
        self.emit(format!("{g} {id} {ty2}"));
      }
      5 => {
        let rnd = self.rng.range(0, room);
        let l = self.rng.pick(&[0, 1, room.saturating_sub(1), room, room + 1, cap + 1, rnd]);
        let b = self.rng.below(256);
        let op = if self.rng.chance(30) { "iowrite" } else { "put_slice" };
        self.emit(format!("{op} {id} {l} {b}"));
      }
      6 => {
        let n = if allow_panic && self.rng.chance(4) {
          cap + self.rng.pick(&[1, 2, 100, u32::MAX as u64]) // above capacity: the only expected panic
        } else {
          let rnd = self.rng.range(0, cap);
          self.rng.pick(&[0, len.saturating_sub(1), (len + 1).min(cap), cap.saturating_sub(1), cap, rnd])
        };
        self.emit(format!("set_len {id} {n}"));
      }
      7 => {
        let (a, s) = self.pick_ty();
        self.emit(format!("align_to {id} {a} {s}"));
      }
      8 => {
        let (a, s) = self.pick_ty();
        let b = self.rng.below(256);
        self.emit(format!("put_aligned {id} {a} {s} {b}"));
      }
      9 => {
        let a = self.rng.pick(&[1u64, 2, 4, 8, 16]);
        let rnd = self.rng.range(0, 64);
        let s = self.rng.pick(&[0, 1, 2, 3, 8, room.min(64), (room + 1).min(64), rnd]);
        let b = self.rng.below(256);
        self.emit(format!("putT {id} {a} {s} {b}"));
      }
      _ => {
        let b = self.rng.below(256);
        self.emit(format!("fill {id} {b}"));
      }
    }
  }

  // ---- profiles -----------------------------------------------------------------------------

  fn profile_rewind(&mut self) {
    let total = self.left;
    self.run_mix(total / 4, false);
    // no handle may outlive a rewind: detach them all, forget the free list
    self.release_all(true, |_| false);
    if self.rng.chance(18) {
      // the free list and the discarded counter are still populated when the cursor is taken all the way back and
      // the arena is cleared right away: clear must reset them too (nothing is allocated in between)
      let w = self.rng.pick(&["rewind start 0", "rewind end 4294967295", "rewind cur -4294967296"]);
      self.emit(w.to_string());
      self.emit("clear".to_string());
      self.emit("slices".to_string());
      let rest = self.left;
      self.run_mix(rest, false);
      return;
    }
    self.emit("discard_freelist".to_string());
    let stop = total / 4;
    while self.left > stop && self.case.is_some() {
      let ai = self.ai();
      let (al, cap, d) = (ai.allocated as i128, ai.capacity as i128, ai.data_offset as i128);
      let m = u32::MAX as i128;
      match self.rng.weighted(&[30, 30, 40, 22, 6, 6]) {
        k @ (0 | 1) => {
          let rnd = self.rng.below(2 * cap as u64 + 2) as i128;
          let c = [0, 1, d - 1, d, d + 1, al - 1, al, al + 1, cap - 1, cap, cap + 1, cap - al, cap - d, cap - d + 1,
            cap - d - 1, m - 1, m, rnd, self.rng.below(m as u64 + 1) as i128];
          let n = self.rng.pick(&c).clamp(0, m);
          self.emit(format!("rewind {} {n}", if k == 0 { "start" } else { "end" }));
        }
        2 => {
          let rnd = self.rng.range(0, 2 * cap as u64) as i128 - cap;
          let c = [0, 1, -1, i64::MIN as i128, i64::MAX as i128, i64::MIN as i128 + 1, -al, -al - 1, -al + 1, cap - al,
            cap - al - 1, cap - al + 1, d - al, d - al - 1, d - al + 1, m, -m, m - al, m - al + 1, rnd,
            // sums that only fit 64 bits and whose low 32 bits look like an ordinary offset
            m + 1, m + 1 + d, m + 1 - al + d + 1, m + 1 + self.rng.below(cap as u64 + 1) as i128, 2 * (m + 1), (m + 1) * 3 + 7,
            -(m + 1), -(m + 1) + cap,
            self.rng.next_u64() as i64 as i128];
          let n = self.rng.pick(&c).clamp(i64::MIN as i128, i64::MAX as i128);
          self.emit(format!("rewind cur {n}"));
        }
        3 => {
          // allocate + dirty, then detach at once so that nothing is live at the next rewind
          let n = self.size_mix(0);
          if let Some(h) = self.alloc_fill(n) {
            self.emit(format!("detach {h}"));
          }
        }
        4 => self.gen_rd(),
        _ => drop(self.emit("slices".to_string())),
      }
    }
    self.release_all(true, |_| false);
    self.emit("clear".to_string());
    // the pristine arena as the accessors and the readers see it
    self.emit("slices".to_string());
    self.emit("info".to_string());
    if self.rng.chance(50) {
      self.gen_rd();
    }
    let rest = self.left;
    self.run_mix(rest, false);
  }

  fn profile_readers(&mut self) {
    let total = self.left;
    let ai = self.ai();
    let ps = ai.page_size as u64;
    if ai.capacity as u64 >= ps - 1 {
      // fill up to around a page multiple (+-1) in chunks with different bytes
      let k = if ai.capacity as u64 > 16 * ps { 17 } else { self.rng.range(1, 3) };
      let target = (k * ps + self.rng.range(0, 2)).saturating_sub(1).min(ai.capacity as u64);
      let mut guard = 0;
      while (self.ai().allocated as u64) < target && guard < 12 {
        let want = target - self.ai().allocated as u64;
        let n = want.min(if k > 3 { self.rng.range(ps, 3 * ps) } else { self.rng.range(ps / 2, 2 * ps) });
        if self.rng.chance(25) {
          // left as the arena hands it out: whole pages of zeros inside the allocated memory
          let h = self.fresh_h();
          if !self.emit(format!("alloc_bytes {h} {n}")).starts_with("r=ok") {
            break;
          }
        } else if self.alloc_fill(n).is_none() {
          break;
        }
        guard += 1;
      }
    } else {
      self.run_mix(total / 3, false);
    }
    // real varints and integers in the memory: write through a few byte buffers
    for _ in 0..self.rng.range(0, 2) {
      let n = self.rng.range(8, 40);
      if let Some(h) = self.alloc_fill(n) {
        self.emit(format!("set_len {h} 0"));
        let base = self.live().iter().find(|x| x.id == h).map(|x| x.off as u64);
        let mut at = 0u64;
        let mut written: Vec<(&str, u64)> = Vec::new();
        for _ in 0..self.rng.range(1, 4) {
          let ty = self.rng.pick(&VARS);
          let v = self.int_val(ty, true);
          let ans = self.emit(format!("put_var {h} {ty} {v}"));
          if ans.starts_with("r=ok") {
            written.push((ty, at));
            at = field(&ans, "len=").and_then(|x| x.parse().ok()).unwrap_or(at);
          }
        }
        // read every value back through the arena-level reader at exactly the offset it was written to
        // (same type, and sometimes another one)
        if let Some(base) = base {
          for (ty, o) in written {
            let ty = if self.rng.chance(85) { ty } else { self.rng.pick(&VARS) };
            self.emit(format!("rd_var {ty} {}", base + o));
          }
        }
      }
    }
    // sometimes through a clone of the arena, and sometimes with the arena filled to the last byte
    if self.rng.chance(30) {
      let c = self.next_c;
      self.next_c += 1;
      self.emit(format!("clone {c}"));
      let k = self.rng.pick(&["crc32", "ordsum"]);
      self.emit(format!("checksum {k}"));
    }
    if self.rng.chance(25) {
      let rem = self.ai().remaining as u64;
      if rem > 0 {
        self.alloc_fill(rem);
      }
      let k = self.rng.pick(&["crc32", "ordsum"]);
      self.emit(format!("checksum {k}"));
      self.emit("slices".to_string());
    }
    while self.left > 0 && self.case.is_some() {
      match self.rng.weighted(&[70, 6, 7, 7, 5, 5]) {
        0 => self.gen_rd(),
        1 => drop(self.emit("slices".to_string())),
        2 => drop(self.emit("checksum crc32".to_string())),
        3 => drop(self.emit("checksum ordsum".to_string())),
        4 => {
          let n = self.size_mix(0);
          let rnd = self.rng.below(256);
          let b = self.rng.pick(&[0x80, 0xFF, 0x7F, 0x01, rnd]);
          let h = self.fresh_h();
          if self.emit(format!("alloc_bytes {h} {n}")).starts_with("r=ok") {
            self.emit(format!("fill {h} {b}"));
          }
        }
        _ => drop(self.gen_release()),
      }
    }
  }

  /// one `truncate` with everything it needs before and a few telling allocations after it
  fn trunc_once(&mut self) {
    // `truncate` moves the memory: only this arena value learns the new address. Owned handles
    // (they hold clones), typed handles (they cache a pointer) and the other arena values must
    // be gone before; borrowed byte buffers re-read the pointer through the arena and stay.
    // a DETACHED owned handle stays alive across the truncate too (`hold`): it holds an arena value (refs() > 1) but
    // never touches the memory again
    let kept: Vec<u32> = if self.rng.chance(25) {
      let h = self.fresh_h();
      if self.emit(format!("alloc_bytes_owned {h} 8")).starts_with("r=ok") {
        self.emit(format!("hold {h}"));
        vec![h]
      } else {
        vec![]
      }
    } else {
      vec![]
    };
    let kept2 = kept.clone();
    self.release_all(false, move |h| h.kind == HKind::BytesRef || kept2.contains(&h.id));
    let ai = self.ai();
    for c in ai.arenas.iter().skip(1) {
      self.emit(format!("drop_arena {c}"));
    }
    let (al, cap, d) = (ai.allocated as u64, ai.capacity as u64, ai.data_offset as u64);
    let c = [0, 1, d.saturating_sub(1), d, al.saturating_sub(1), al, al + 1, cap.saturating_sub(1), cap, cap + 1,
      2 * cap, 4 * cap, self.rng.range(0, 4 * cap), self.rng.range(al, 2 * cap.max(al))];
    let mut n = self.rng.pick(&c);
    // back to the capacity the arena was created with (after other truncates)
    let created = self.cfg.as_ref().map(|c| c.cap as u64).unwrap_or(cap);
    if created != cap && self.rng.chance(35) {
      n = created;
    }
    // with a mapping offset: growth up to and just beyond the offset (file length = offset + capacity)
    let moff = self.cfg.as_ref().map(|c| c.offset).unwrap_or(0);
    if moff > 0 && self.rng.chance(50) {
      let ps = page_size() as u64;
      n = self.rng.pick(&[cap + moff - 1, cap + moff, cap + moff + 1, cap + ps, cap + moff / 2, (cap + ps).next_multiple_of(ps)]);
    }
    // the user's reserved bytes move with the memory
    let mark = self.rng.chance(50);
    if mark {
      let b = self.rng.range(1, 255);
      self.emit(format!("wres {b}"));
    }
    self.emit(format!("truncate {n}"));
    if mark || self.rng.chance(30) {
      self.emit("rres".to_string());
    }
    // allocations that just fit / just do not fit the new capacity
    let rem = self.ai().remaining as u64;
    for _ in 0..self.rng.range(1, 3) {
      let rnd = self.rng.range(0, rem + 1);
      let n = self.rng.pick(&[rem, rem + 1, rem.saturating_sub(1), rem / 2, 1, rnd]);
      self.alloc_fill(n);
    }
    // a request whose end would wrap around 2^32 must still be refused after the capacity changed
    if self.rng.chance(15) {
      let h = self.fresh_h();
      let n = u32::MAX as u64 - self.rng.pick(&[0u64, 1, 7, 50, 4096]);
      let line = if self.rng.chance(50) { format!("alloc_bytes {h} {n}") } else { format!("alloc_aligned {h} 8 8 {n}") };
      self.emit(line);
    }
    // the moved memory must still honour the configured maximum alignment
    if self.rng.chance(60) {
      let a = (self.cfg.as_ref().map(|c| c.maxalign as u64).unwrap_or(8)).clamp(8, 64);
      let h = self.fresh_h();
      self.emit(format!("alloc_t {h} {a} {a}"));
    }
    // the handle kept across the truncate goes now (it was detached: nothing is released; its arena value is dropped)
    for h in kept {
      self.emit(format!("drop {h}"));
    }
  }

  fn profile_trunc(&mut self) {
    // sometimes the very first thing that happens to the (still empty) arena is a truncate
    if self.rng.chance(15) {
      self.trunc_once();
    }
    let total = self.left;
    self.run_mix(total / 3, false);
    let rounds = self.rng.range(1, 4);
    for _ in 0..rounds {
      if self.left == 0 || self.case.is_none() {
        break;
      }
      self.trunc_once();
      let n = (self.left / 2).max(1);
      self.run_mix(n, false);
    }
    let rest = self.left;
    self.run_mix(rest.saturating_sub(6), false);
    // the cursor arithmetic of `rewind` after the capacity changed (nothing is live any more; the list is dropped)
    if self.case.is_some() && self.rng.chance(50) {
      self.left = self.left.max(6);
      self.release_all(true, |_| false);
      self.emit("discard_freelist".to_string());
      for _ in 0..self.rng.range(1, 3) {
        let cap = self.ai().capacity as u64;
        let line = match self.rng.below(4) {
          0 => "rewind cur 0".to_string(),
          1 => format!("rewind end {}", self.rng.pick(&[0u64, 1, 8, cap / 2])),
          2 => format!("rewind start {}", self.rng.pick(&[cap, cap + 1, cap.saturating_sub(1), 4294967295])),
          _ => format!("rewind cur {}", self.rng.pick(&[1i64, 8, -1, -8])),
        };
        self.emit(line);
        self.emit("slices".to_string());
      }
    }
  }

  fn profile_buf(&mut self) {
    let sizes = [0u64, 1, 2, 3, 4, 7, 8, 9, 15, 16, 17, 19, 24, 31, 32, 33, 40, 64];
    // buffers of an arena whose memory was moved by a `truncate` first (nothing is live yet; the sync flavour answers
    // `r=na`): the base address must still honour the configured maximum alignment for `align_to` / `put_aligned`
    let over = self.cfg.as_ref().map(|c| c.maxalign > 16 && c.backend == 0).unwrap_or(false);
    if self.rng.chance(if over { 60 } else { 12 }) && self.cfg.as_ref().map(|c| c.backend != 2).unwrap_or(false) {
      let cap = self.ai().capacity as u64;
      let n = self.rng.pick(&[cap, cap + 8, 2 * cap, cap + 4096, cap.saturating_sub(8)]);
      self.emit(format!("truncate {n}"));
      if over {
        // and a buffer that asks for the over-aligned pointer right away
        let h = self.fresh_h();
        if self.emit(format!("alloc_bytes {h} 200")).starts_with("r=ok") {
          let a = self.rng.pick(&[32u64, 64]);
          self.emit(format!("align_to {h} {a} {a}"));
          let b = self.rng.below(256);
          self.emit(format!("put_aligned {h} {a} {a} {b}"));
        }
      }
    }
    if self.rng.chance(55) {
      // test buffers from recycled space: fill the arena, dirty it, free a middle block
      let ai = self.ai();
      let usable = (ai.remaining as u64).max(3);
      let mid = self.rng.range(24, (usable / 2).max(24));
      let first = self.rng.range(1, (usable / 4).max(1));
      self.alloc_fill(first);
      let m = self.alloc_fill(mid);
      let rem = self.ai().remaining as u64;
      let last = self.alloc_fill(rem);
      if let Some(m) = m {
        let op = self.rng.pick(&["drop", "dealloc"]);
        self.emit(format!("{op} {m}"));
      }
      if self.rng.chance(30) {
        if let Some(l) = last {
          self.emit(format!("detach {l}"));
        }
      }
    }
    for _ in 0..self.rng.range(1, 4) {
      let h = self.fresh_h();
      let fl = self.ai().fl;
      let n = if !fl.is_empty() && self.rng.chance(50) {
        (self.rng.pick(&fl).1 as u64).saturating_sub(self.rng.pick(&[0, 0, 1, 8, 16]))
      } else {
        self.rng.pick(&sizes)
      };
      let line = match self.rng.weighted(&[35, 25, 25, 15]) {
        0 => format!("alloc_bytes {h} {n}"),
        1 => format!("alloc_bytes_owned {h} {n}"),
        k => {
          let (a, s) = self.pick_ty();
          format!("alloc_aligned{} {h} {a} {s} {}", if k == 3 { "_owned" } else { "" }, n.min(48))
        }
      };
      // deliberately NOT dirtied with `fill` most of the time: `z=`/`get` see what alloc left
      if self.emit(line).starts_with("r=ok") && self.rng.chance(25) {
        let b = self.byte();
        self.emit(format!("fill {h} {b}"));
      }
    }
    while self.left > 0 && self.case.is_some() {
      let bufs: Vec<HandleInfo> = self.live().into_iter().filter(|h| h.kind.is_bytes()).collect();
      if bufs.is_empty() || self.rng.chance(3) {
        let h = self.fresh_h();
        let n = self.rng.pick(&sizes);
        self.emit(format!("alloc_bytes {h} {n}"));
        continue;
      }
      if self.rng.chance(2) {
        self.gen_release();
        continue;
      }
      let i = self.rng.below(bufs.len() as u64) as usize;
      self.gen_bufop(&bufs[i], true);
    }
  }

  // ---- file profiles (PROTOCOL_FILE.md) ------------------------------------------------------

  /// `detach` for about half of the live handles (their data must survive), `drop` for the rest,
  /// then `close`
  fn close_all(&mut self) {
    // now and then an owned handle is the last owner of the arena: it must still give its extent back
    if self.rng.chance(12) {
      let owned: Vec<HandleInfo> = self.live().into_iter().filter(|h| h.kind.is_owned() && h.bcap > 0).collect();
      if !owned.is_empty() {
        let h = self.rng.pick(&owned).id;
        if self.emit(format!("close_last {h}")).starts_with("r=ok") {
          return;
        }
      }
    }
    for h in self.live() {
      let op = if self.rng.chance(50) { "detach" } else { "drop" };
      self.emit(format!("{op} {}", h.id));
    }
    self.emit("close".to_string());
  }

  /// One `reopen` line with the identification of the cfg line unless overridden; random flavour.
  /// `cap`: `same`, `none` or a number. Returns the answer.
  fn reopen_line(&mut self, mode: &str, cap: &str, magic: Option<u16>, freelist: Option<u8>, create: bool) -> String {
    let c = self.cfg.clone().expect("cfg");
    let flavour = if self.rng.chance(50) { "sync" } else { "unsync" };
    // a read-only open must clear a truncate flag left in the caller's Options
    let trunc = if (mode == "ro" || mode == "copy_ro") && self.rng.chance(30) { " trunc=1" } else { "" };
    // every mode has a second entry point taking a path builder
    let pb = if self.rng.chance(35) { " pb=1" } else { "" };
    // a copy-on-write open needs no write access to the file
    // (only without a capacity: growing the file would need write access)

    // sometimes with the exclusive-creation flag as well (it wins: an existing file must be refused and left
    // alone), rarely with that flag alone
    // the minimum segment size in force is the one stored in the file, whatever the caller's Options say
    let minseg_tok = if self.rng.chance(20) { self.rng.pick(&[0u32, 1, 8, 48, c.minseg + 1]) } else { c.minseg };
    let create_tok: u8 = if create && self.rng.chance(12) { 3 } else if !create && self.rng.chance(4) { 2 } else { create as u8 };
    // a copy-on-write open needs no write access to the file (only without creation flags and without a capacity:
    // creating or growing the file would need it)
    let nw = if mode == "copy" && create_tok == 0 && cap == "none" && self.rng.chance(60) { " nw=1" } else { "" };
    self.emit(format!(
      "reopen {mode} cap={cap} magic={} freelist={} create={} flavour={flavour} reserved={} minseg={}{trunc}{pb}{nw}",
      magic.unwrap_or(c.magic),
      FREELISTS[freelist.unwrap_or(c.freelist) as usize],
      create_tok,
      self.res_ov.unwrap_or(c.reserved),
      minseg_tok
    ))
  }

  /// cap same 50 % / none 25 % / larger (cap + 1..4096) 25 %
  fn pick_cap(&mut self) -> String {
    let cap = self.cfg.as_ref().map(|c| c.cap as u64).unwrap_or(0);
    match self.rng.weighted(&[50, 25, 25]) {
      0 => "same".to_string(),
      1 => "none".to_string(),
      _ => (cap + self.rng.range(1, 4096)).to_string(),
    }
  }

  /// A correct `reopen` (random cap, create 30 %). Returns true iff the arena is open afterwards.
  ///
  /// A capacity below the `allocated` stored in the file (possible after an earlier larger reopen)
  /// is accepted by the crate and yields an arena with `al > cp`, whose `allocated_memory()` /
  /// `data()` extend beyond the mapping: such an arena is only looked at (`info`), closed and
  /// opened again with the whole file.
  fn reopen_good(&mut self, mode: &str) -> bool {
    // a capacity that cannot even hold the arena's prefix must be refused, whatever the mode
    if self.rng.chance(6) {
      let d = self.cfg.as_ref().map(|c| c.prefix() as u64).unwrap_or(40);
      let r = self.cfg.as_ref().map(|c| c.reserved as u64).unwrap_or(0);
      let small = self.rng.pick(&[0, 1, r, r + 1, r + 8, d.saturating_sub(8), d.saturating_sub(1), d]);
      self.reopen_line(mode, &small.to_string(), None, None, false);
      // (whatever it answered: the history continues with an ordinary reopen; `close` of a closed case is `r=closed`)
      self.emit("close".to_string());
    }
    let cap = self.pick_cap();
    let create = self.rng.chance(30);
    let ans = self.reopen_line(mode, &cap, None, None, create);
    if !ans.starts_with("r=ok") {
      return false;
    }
    let f = |k: &str| field(&ans, k).and_then(|v| v.parse::<u64>().ok()).unwrap_or(0);
    if f("al=") <= f("cp=") {
      return true;
    }
    self.emit("info".to_string());
    self.emit("close".to_string());
    self.reopen_line(mode, "none", None, None, false).starts_with("r=ok")
  }

  /// a few reader operations and refused mutators on a read-only arena (never `rewind`/`dealloc`)
  fn read_only_ops(&mut self) {
    for _ in 0..self.rng.range(2, 5) {
      match self.rng.weighted(&[40, 20, 20, 20]) {
        0 => self.gen_rd(),
        1 => drop(self.emit("slices".to_string())),
        2 => drop(self.emit("info".to_string())),
        _ => {
          let k = self.rng.pick(&["crc32", "ordsum"]);
          self.emit(format!("checksum {k}"));
        }
      }
    }
    // every mutator must be refused: most of them are tried in every read-only session, in random order
    let mut kinds: Vec<u64> = (0..10).collect();
    for i in (1..kinds.len()).rev() {
      let j = self.rng.below(i as u64 + 1) as usize;
      kinds.swap(i, j);
    }
    kinds.truncate(self.rng.range(5, 10) as usize);
    for k in kinds {
      match k {
        0 | 1 => {
          let h = self.fresh_h();
          let n = self.rng.pick(&[0, 1, 8, 100]);
          self.emit(format!("alloc_bytes {h} {n}"));
        }
        2 => {
          let h = self.fresh_h();
          let (a, s) = self.pick_ty();
          // zero-sized types too: the read-only refusal comes before every shortcut
          match self.rng.below(4) {
            0 => self.emit(format!("alloc_t {h} 1 0")),
            1 => self.emit(format!("alloc_z {h}")),
            _ => self.emit(format!("alloc_t_owned {h} {a} {s}")),
          };
        }
        3 => {
          let h = self.fresh_h();
          let (a, s) = self.pick_ty();
          self.emit(format!("alloc_aligned {h} {a} {s} 8"));
        }
        4 => drop(self.emit("discard_freelist".to_string())),
        5 => drop(self.emit("clear".to_string())),
        6 => {
          let ai = self.ai();
          let (cap, al) = (ai.capacity as u64, ai.allocated as u64);
          let n = self.rng.pick(&[0, 64, 4096, 10000, cap, cap, al, cap + 1, cap.saturating_sub(1)]);
          self.emit(format!("truncate {n}"));
        }
        7 => {
          let b = self.rng.below(256);
          self.emit(format!("wres {b}")); // panics: the only expected r=panic
        }
        8 => {
          let n = self.rng.pick(&[0, 8, 48]);
          self.emit(format!("set_minseg {n}"));
        }
        _ => {
          let n = self.big_discard();
          self.emit(format!("inc_discarded {n}"));
        }
      }
    }
  }

  /// `close` + (sometimes `filehash`) + `reopen`; after a read-only or a copy-on-write reopen the
  /// history continues on a further writable (`mut`) reopen. Returns false when the case is over.
  fn cut(&mut self) -> bool {
    if self.rng.chance(25) {
      self.emit("flush".to_string());
    }
    // now and then the file is removed at the close and re-created by a `create=1` reopen
    let remove = self.rng.chance(4);
    // (sometimes while another open description of the file holds a shared advisory lock)
    let locked = remove && self.rng.chance(50);
    if locked {
      self.emit("flock_hold".to_string());
    }
    if remove {
      self.emit("remove_on_drop 1".to_string());
    }
    // the mark set and taken back again: the file stays
    let revoked = !remove && self.rng.chance(8);
    if revoked {
      self.emit("remove_on_drop 1".to_string());
      if self.rng.chance(50) {
        self.emit("info".to_string());
      }
      self.emit("remove_on_drop 0".to_string());
    }
    self.close_all();
    if remove || revoked || self.rng.chance(50) {
      self.emit("filehash".to_string());
    }
    if locked {
      self.emit("flock_release".to_string());
    }
    if remove {
      let cap = if self.rng.chance(80) { "same".to_string() } else { self.pick_cap() };
      let mode = self.rng.pick(&["mut", "mut", "copy", "ro"]);
      if self.reopen_line(mode, &cap, None, None, true).starts_with("r=ok") {
        if mode == "mut" {
          return true;
        }
        self.emit("close".to_string());
      }
      self.emit("filehash".to_string());
      // nothing (valid) may be left: the case ends here unless a `mut` open can create the file
      return self.reopen_line("mut", "same", None, None, true).starts_with("r=ok");
    }
    let mode = ["mut", "copy", "ro", "copy_ro"][self.rng.weighted(&[50, 20, 15, 15])];
    if !self.reopen_good(mode) {
      return false;
    }
    match mode {
      "mut" => true,
      "copy" => {
        // further allocations: they must not reach the file
        for _ in 0..self.rng.range(1, 3) {
          self.gen_alloc(false);
        }
        if self.rng.chance(30) {
          self.emit("flush".to_string());
        }
        let remove = self.rng.chance(8);
        if remove {
          self.emit("remove_on_drop 1".to_string());
        }
        self.close_all();
        self.emit("filehash".to_string());
        if remove {
          return self.reopen_line("mut", "same", None, None, true).starts_with("r=ok");
        }
        self.reopen_good("mut")
      }
      _ => {
        self.read_only_ops();
        // the mark works on read-only mappings too: the file disappears with the last arena value
        let remove = self.rng.chance(10);
        if remove {
          self.emit("remove_on_drop 1".to_string());
        }
        // ... and can be taken back on them as well: the file stays
        let revoked = !remove && self.rng.chance(12);
        if revoked {
          self.emit("remove_on_drop 1".to_string());
          self.emit("remove_on_drop 0".to_string());
        }
        self.emit("close".to_string());
        if revoked {
          self.emit("filehash".to_string());
        }
        if remove {
          self.emit("filehash".to_string());
          return self.reopen_line("mut", "same", None, None, true).starts_with("r=ok");
        }
        self.reopen_good("mut")
      }
    }
  }

  fn profile_file(&mut self) {
    let cuts = self.rng.range(1, 4) as usize;
    for k in 0..cuts {
      if self.left == 0 {
        return;
      }
      let n = (self.left / (cuts - k + 1)).max(1);
      self.run_mix(n, false);
      // the process may be killed between any two operations: what is in the file now must be this very arena
      for _ in 0..self.rng.range(0, 2) {
        if self.case.is_some() {
          self.emit("crashcheck".to_string());
          let m = self.rng.range(1, 4) as usize;
          self.run_mix(m, false);
        }
      }
      // `clear` of a file-backed arena must leave a file that is still a valid (pristine) arena
      if self.rng.chance(8) && self.case.is_some() {
        self.release_all(true, |_| false);
        self.emit("clear".to_string());
        self.emit("info".to_string());
        let m = self.rng.range(0, 4) as usize;
        self.run_mix(m, false);
      }
      // a resized file-backed arena must still be the file (`truncate` exists on unsync arenas; `r=na` otherwise)
      if self.rng.chance(22) && self.case.is_some() {
        self.trunc_once();
        let m = self.rng.range(1, 6) as usize;
        self.run_mix(m, false);
        self.emit("crashcheck".to_string());
      }
      if !self.cut() {
        return;
      }
    }
    let rest = self.left;
    self.run_mix(rest, false);
  }

  fn profile_badfile(&mut self) {
    let c = self.cfg.clone().expect("cfg");
    let (reserved, prefix, cap) = (c.offset + c.reserved as u64, c.offset + c.prefix() as u64, c.cap as u64);
    // short mix prefix; the tail below has a budget of its own
    self.left = self.rng.range(2, 12) as usize;
    self.run_mix(usize::MAX, false);
    self.left = 64;
    // the identification bytes as they should be: freelist, "al", magic (LE), version (LE)
    let version: u64 = field(&self.emit("info".to_string()), "val=")
      .and_then(|v| v.split(',').nth(9).and_then(|x| x.parse().ok()))
      .unwrap_or(0);
    let ident: [u64; 7] = [
      c.freelist as u64,
      b'a' as u64,
      b'l' as u64,
      c.magic as u64 & 0xFF,
      c.magic as u64 >> 8,
      version & 0xFF,
      version >> 8,
    ];
    self.close_all();
    let (mut magic, mut freelist) = (None, None);
    match self.rng.weighted(&[34, 22, 10, 12, 12, 10, 10]) {
      6 => {
        // the caller forgets (or invents) a reserved prefix: the identification is looked for in the wrong place; the
        // open must be refused and must not have written anything before that
        let r = c.reserved;
        let other = self.rng.pick(&[0u32, 8, 16, r + 8, r.saturating_sub(8), r + 1]);
        self.res_ov = Some(if other == r { r + 8 } else { other });
      }
      0 if c.offset >= c.reserved as u64 + 8 && self.rng.chance(35) => {
        // an arena at a mapping offset whose identification is corrupted, behind a DECOY: the bytes in front of the
        // offset hold a perfectly valid identification where an arena mapped from byte 0 would have it. Every open at
        // the offset must still be refused (an open that forgets the offset finds the decoy and lets the file through)
        for k in 1..=7u64 {
          self.emit(format!("mutate_file {} {}", c.reserved as u64 + k, ident[k as usize - 1]));
        }
        self.emit(format!("mutate_file {} {}", reserved + 2, ident[1] ^ 0x20));
      }
      0 => {
        let k = self.rng.range(1, 7);
        let rnd = self.rng.below(256);
        let v = if k == 1 {
          self.rng.pick(&[0, 1, 2, 3, rnd]) // another (or the same, or no) free-list kind
        } else if self.rng.chance(20) {
          ident[k as usize - 1] // the same value: the file stays valid
        } else {
          rnd
        };
        self.emit(format!("mutate_file {} {v}", reserved + k));
      }
      1 => {
        let n = if c.offset > 0 && self.rng.chance(70) { self.rng.range(c.offset.saturating_sub(4), prefix + 8) } else { self.rng.range(0, prefix + 8) };
        self.emit(format!("truncate_file {n}"));
      }
      2 => {
        let rnd = self.rng.range(0, 2 * cap);
        let n = self.rng.pick(&[0, 1, prefix.saturating_sub(1), prefix, prefix + 8, cap, c.offset + cap, rnd]);
        let seed = self.rng.next_u64();
        self.emit(format!("random_file {seed} {n}"));
      }
      3 => {
        let rnd = self.rng.range(1, 65535) as u16;
        let d = self.rng.pick(&[1u16, 0x100, 0x8000, rnd]);
        magic = Some(c.magic.wrapping_add(d));
      }
      4 => freelist = Some((c.freelist + self.rng.range(1, 2) as u8) % 3),
      _ => drop(self.emit("delete_file".to_string())),
    }
    self.emit("filehash".to_string());
    for mode in ["mut", "copy", "ro", "copy_ro"] {
      let cap = match self.rng.weighted(&[50, 30, 10, 10]) {
        0 => "same".to_string(),
        1 => "none".to_string(),
        2 => (cap + self.rng.range(1, 4096)).to_string(),
        // an explicit capacity below the file length: a refused open must not cut the file either
        _ => self.rng.range(prefix.min(cap), cap).to_string(),
      };
      let create = self.rng.chance(15);
      let ok = self.reopen_line(mode, &cap, magic, freelist, create).starts_with("r=ok");
      self.emit("filehash".to_string());
      if ok {
        self.emit("close".to_string());
      }
    }
    self.res_ov = None;
  }

  fn one_case(&mut self) {
    self.begin_case();
    if self.case.is_none() {
      // the arena could not be built: a couple of lines answered r=nocase
      for _ in 0..self.rng.range(0, 2) {
        self.emit("slices".to_string());
      }
      return;
    }
    if self.ai().capacity >= 30000 {
      // a dirty block of several whole pages goes back to the arena and is handed out again: zero-filled, whatever
      // the backing store does with whole pages
      let ps = page_size() as u64;
      let n = 5 * ps + self.rng.range(0, ps);
      if let Some(h) = self.alloc_fill(n) {
        self.emit(format!("drop {h}"));
        let h2 = self.fresh_h();
        let n2 = n - self.rng.pick(&[0u64, 1, 100]);
        if self.emit(format!("alloc_bytes {h2} {n2}")).starts_with("r=ok") {
          self.emit(format!("drop {h2}"));
        }
      }
    }
    match self.profile {
      Profile::Mix => self.run_mix(usize::MAX, false),
      Profile::Boundary => self.run_mix(usize::MAX, true),
      Profile::Rewind => self.profile_rewind(),
      Profile::Readers => self.profile_readers(),
      Profile::Trunc => self.profile_trunc(),
      Profile::Buf => self.profile_buf(),
      Profile::File => self.profile_file(),
      Profile::BadFile => self.profile_badfile(),
    }
  }
}

fn page_size() -> usize {
  // ask the crate itself (`Allocator::page_size`)
  use rarena_allocator::{unsync::Arena, Allocator, Options};
  Options::new().with_capacity(64).alloc::<Arena>().map(|a| a.page_size()).unwrap_or(4096)
}

fn gen(args: &[String]) {
  let (mut seed, mut cases, mut profile, mut out, mut maxops) = (None, None, None, None, 60usize);
  let mut i = 0;
  while i + 1 < args.len() {
    let v = &args[i + 1];
    match args[i].as_str() {
      "--seed" => seed = v.parse::<u64>().ok(),
      "--cases" => cases = v.parse::<u64>().ok(),
      "--maxops" => maxops = v.parse().unwrap_or_else(|_| usage()),
      "--out" => out = Some(v.clone()),
      "--profile" => {
        profile = Some(match v.as_str() {
          "mix" => Profile::Mix,
          "boundary" => Profile::Boundary,
          "rewind" => Profile::Rewind,
          "readers" => Profile::Readers,
          "trunc" => Profile::Trunc,
          "buf" => Profile::Buf,
          "file" => Profile::File,
          "badfile" => Profile::BadFile,
          _ => usage(),
        })
      }
      _ => usage(),
    }
    i += 2;
  }
  let (Some(seed), Some(cases), Some(profile), Some(out)) = (seed, cases, profile, out) else { usage() };
  if i != args.len() {
    usage();
  }
  let mut g = Gen {
    rng: SplitMix64(seed),
    profile,
    maxops,
    tmp: tempfile::tempdir().expect("tempdir"),
    st: Stats::default(),
    ops: String::new(),
    obs: String::new(),
    journal: {
      if let Some(dir) = Path::new(&out).parent() {
        let _ = std::fs::create_dir_all(dir);
      }
      match (std::fs::File::create(format!("{out}.ops.part")), std::fs::File::create(format!("{out}.impl.part"))) {
        (Ok(a), Ok(b)) => Some((a, b)),
        _ => None,
      }
    },
    case: None,
    cfg_line: String::new(),
    next_h: 0,
    next_c: 1,
    left: 0,
    al: 0,
    cfg: None,
    res_ov: None,
  };
  for _ in 0..cases {
    g.one_case();
  }
  g.case = None;
  if let Some(dir) = Path::new(&out).parent() {
    let _ = std::fs::create_dir_all(dir);
  }
  std::fs::write(format!("{out}.ops"), &g.ops).expect("write .ops");
  std::fs::write(format!("{out}.impl"), &g.obs).expect("write .impl");
  g.journal = None;
  let _ = std::fs::remove_file(format!("{out}.ops.part"));
  let _ = std::fs::remove_file(format!("{out}.impl.part"));
  let st = &g.st;
  let panics: Vec<String> = st
    .panics
    .iter()
    .take(50)
    .map(|(c, o, m)| format!("{{\"cfg\":{c:?},\"op\":{o:?},\"msg\":{m:?}}}"))
    .collect();
  let pct = |a: u64, b: u64| if b == 0 { 0.0 } else { 100.0 * a as f64 / b as f64 };
  let reopen = if st.reopen.is_empty() { String::new() } else { format!("\"reopen\":{},", json_map(&st.reopen)) };
  eprintln!(
    "{{\"profile\":\"{:?}\",\"seed\":{seed},\"cases\":{},\"lines\":{},{reopen}\"ops\":{},\"results\":{},\"cfg\":{},\"alloc_ok\":{},\"alloc_nonempty\":{},\"alloc_recycled\":{},\"alloc_recycled_pct\":{:.1},\"alloc_boff_ne_off\":{},\"alloc_insufficient\":{},\"panic_count\":{},\"panics\":[{}]}}",
    profile,
    st.cases,
    st.lines,
    json_map(&st.ops),
    json_map(&st.results),
    json_map(&st.cfg),
    st.alloc_ok,
    st.alloc_nonempty,
    st.alloc_recycled,
    pct(st.alloc_recycled, st.alloc_nonempty),
    st.alloc_boff_ne_off,
    st.alloc_insufficient,
    st.panics.len(),
    panics.join(",")
  );
}
