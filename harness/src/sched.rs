//! Controlled scheduler for `sync::Arena` (see `PROTOCOL_SCHED.md`, which is authoritative).
//!
//! N logical threads (real OS threads) run small programs on clones of ONE `sync::Arena`; the
//! crate's hook `rarena_allocator::verif` parks every thread in `Hook::before` of each atomic
//! access and the controller (the thread that calls [`run_case`]) grants one step at a time.
//!
//! This is a child module of the crate root on purpose: it re-uses the private executor
//! (`Case::exec_in`, `Slot`, `Case::state`) so that answers have the same text as `seq`.
//!
//! Soundness note: the handle / arena tables are shared by the worker threads without a lock
//! ("only one thread runs at a time"). No reference into the shared tables is ever held across an
//! arena call (= a possible park): every thread op moves the slots it needs into a thread-private
//! *scratch* `Case`, runs the ordinary executor on it and moves the results back.
//!
//! Readings chosen where PROTOCOL_SCHED.md leaves room (all in one place):
//! * the clone of thread `t` is arena value `1000 + t`; it cannot be named by `clone` /
//!   `drop_arena` (`C >= 1000` is `bad-op`). Every thread op goes through the thread's own clone
//!   (`clone C` clones it). At the END of its program the thread drops its own clone (a reported
//!   `fas` on `refs`, after the last `res` line) unless a live or in-flight *borrowed* handle was
//!   allocated through it (then it stays alive until the unreported tear-down of the case). An
//!   `na … src=unmount` line is also printed when this implicit drop released the last reference;
//! * `drop_arena C` of an arena value that a live / in-flight borrowed handle borrows is `bad-op`;
//! * `drop_arena` of the last *named* value is allowed for threads (the executor of `seq` refuses
//!   it); once arena value 0 is gone `final` prints `final gone`;
//! * `na` lines are not printed for empty ranges; `src=clear` is printed for successful
//!   `alloc_bytes[_owned]`, `alloc_t[_owned]` and `alloc_d[_owned]`; `na` lines of an op come right
//!   before its `res` line (`unmount` last); `hi` is exclusive;
//! * `verify` of a `DropCounter` handle is `r=nohandle` (like `fill`);
//! * `pre` ops `verify H` / `refs` answer `r=ok v=… <STATE>` / `r=ok val=… <STATE>`;
//! * `hang … at=` always prints `<file>:<line>`; `ev … at=` prints `<line>` for `sync.rs`;
//! * any location that is neither a header word, the reference counter nor inside `memory()` is
//!   named `refs` (protocol: "`refs` is any other usize-wide location");
//! * schedule entries naming a thread without a program are `skip` too;
//! * crash-point mode: one extra crash point `t=0` is taken after the last step (all threads
//!   finished or budget exhausted); `r=gone` when no arena value is left to copy from; `hang:<op>`
//!   is decided by a step budget of the helper thread (20000 + 2*capacity atomic accesses per call) with the
//!   2 s wall clock as fallback; `<op>` is one of `open alloc_bytes(8) alloc_bytes(<cap/8>)
//!   alloc_bytes(16) drop discard_freelist`; `bad:<reason>` is `cursor`, `bytes:h<H>`,
//!   `overlap:<op>` or `panic:<op>`;
//! * whole-arena ops (`clear`, `rewind start|end|cur V`): every handle of the case is invalidated when the
//!   FIRST atomic access of the op is granted (the crash point taken before that grant still has the handles
//!   in its shadow map; every later one has none), or when the op returns if it made no access. Invalidated
//!   handles are detached and parked until the tear-down of the case (an owned one keeps its reference on the
//!   arena until then: `rf=` does not go down); a handle that is inside a running op of ANOTHER thread at that
//!   moment (an allocation that has not returned yet, a `drop` …) is invalidated when that op gives it back.
//!   The id of an invalidated handle may be re-used by a later allocation (like the id of a dropped handle).
//!   A malformed `clear` / `rewind` is `bad-op` and invalidates nothing;
//! * a malformed case prints `bad-case <reason>` and nothing else.

use super::*;
use rarena_allocator::verif::{self, Access, Decision, Hook, Kind, Outcome};
use std::cell::{Cell, RefCell};
use std::fmt::Write as _;
use std::sync::mpsc::{self, RecvTimeoutError, Sender};
use std::sync::{Condvar, MutexGuard, Once};
use std::time::Duration;

type Arena = sync::Arena;

/// arena value id of the clone of thread `tid`
pub const THREAD_ARENA_BASE: u32 = 1000;
/// default `budget`
pub const DEFAULT_BUDGET: u64 = 3000;
/// atomic accesses a single call of the recovery battery may perform (plus twice the capacity);
/// a spinning call needs about 12 us per access (`Backoff::snooze` yields), i.e. ~0.25 s
const REC_LIMIT: u64 = 20_000;
/// the controller gives up (process exit 3) when a granted thread neither parks nor finishes
const STUCK_SECS: u64 = 60;

// ---------------------------------------------------------------------------------------------
// Case files
// ---------------------------------------------------------------------------------------------

#[derive(Clone, Debug, Default)]
pub struct SchedCase {
  pub cfg: String,
  pub pre: Vec<String>,
  /// (tid, ops), sorted by tid
  pub threads: Vec<(usize, Vec<String>)>,
  /// (tid, spurious)
  pub sched: Vec<(usize, bool)>,
  pub budget: u64,
  pub crash: bool,
  /// `napoints`: the arena's zero-fill is a scheduling point of its own (search mode; such traces are not
  /// compared with the step machine, whose steps are atomic accesses)
  pub napoints: bool,
  /// `noclone`: the threads share arena value 0 BY REFERENCE (no per-thread clone, `refs()` stays what it is, nothing
  /// is dropped at the end of a thread's program)
  pub noclone: bool,
}

impl SchedCase {
  /// The text of the case (terminated by `end`).
  pub fn text(&self) -> String {
    let mut s = String::new();
    let _ = writeln!(s, "{}", self.cfg);
    for p in &self.pre {
      let _ = writeln!(s, "pre {p}");
    }
    for (tid, ops) in &self.threads {
      let _ = writeln!(s, "thread {tid} {}", ops.join(" ; "));
    }
    let e: Vec<String> =
      self.sched.iter().map(|(t, f)| format!("{t}{}", if *f { "f" } else { "" })).collect();
    let _ = writeln!(s, "sched {}", e.join(" "));
    if self.budget != DEFAULT_BUDGET {
      let _ = writeln!(s, "budget {}", self.budget);
    }
    if self.crash {
      let _ = writeln!(s, "crash");
    }
    if self.napoints {
      let _ = writeln!(s, "napoints");
    }
    if self.noclone {
      let _ = writeln!(s, "noclone");
    }
    s.push_str("end\n");
    s
  }
}

/// Splits a file into cases (each terminated by `end`; blank lines and `#` comments are ignored).
pub fn parse_cases(text: &str) -> Vec<Result<SchedCase, String>> {
  let mut res = Vec::new();
  let mut cur: Vec<&str> = Vec::new();
  for line in text.lines() {
    let l = line.trim_end();
    if l.is_empty() || l.starts_with('#') {
      continue;
    }
    if l == "end" {
      res.push(parse_one(&cur));
      cur.clear();
    } else {
      cur.push(l);
    }
  }
  if !cur.is_empty() {
    res.push(parse_one(&cur));
  }
  res
}

fn parse_one(lines: &[&str]) -> Result<SchedCase, String> {
  let mut c = SchedCase { budget: DEFAULT_BUDGET, ..Default::default() };
  let mut have_cfg = false;
  for (n, l) in lines.iter().enumerate() {
    if n == 0 {
      if !(l.starts_with("cfg ") || *l == "cfg") {
        return Err("first line is not cfg".into());
      }
      c.cfg = l.to_string();
      have_cfg = true;
    } else if let Some(op) = l.strip_prefix("pre ") {
      c.pre.push(op.to_string());
    } else if let Some(rest) = l.strip_prefix("thread ") {
      let (tid, prog) = match rest.split_once(' ') {
        Some((t, p)) => (t, p),
        None => (rest, ""),
      };
      let tid: usize = tid.parse().map_err(|_| format!("thread id {tid:?}"))?;
      if !(1..=8).contains(&tid) {
        return Err(format!("thread id {tid}"));
      }
      if c.threads.iter().any(|(t, _)| *t == tid) {
        return Err(format!("thread {tid} twice"));
      }
      let ops: Vec<String> =
        if prog.is_empty() { Vec::new() } else { prog.split(" ; ").map(|s| s.to_string()).collect() };
      c.threads.push((tid, ops));
    } else if *l == "sched" {
    } else if let Some(rest) = l.strip_prefix("sched ") {
      for e in rest.split(' ').filter(|e| !e.is_empty()) {
        let (num, f) = match e.strip_suffix('f') {
          Some(x) => (x, true),
          None => (e, false),
        };
        let tid: usize = num.parse().map_err(|_| format!("sched entry {e:?}"))?;
        if !(1..=8).contains(&tid) {
          return Err(format!("sched entry {e:?}"));
        }
        c.sched.push((tid, f));
      }
    } else if let Some(n) = l.strip_prefix("budget ") {
      c.budget = n.parse().map_err(|_| format!("budget {n:?}"))?;
    } else if *l == "crash" {
      c.crash = true;
    } else if *l == "napoints" {
      c.napoints = true;
    } else if *l == "noclone" {
      c.noclone = true;
    } else {
      return Err(format!("line {l:?}"));
    }
  }
  if !have_cfg {
    return Err("empty case".into());
  }
  c.threads.sort_by_key(|(t, _)| *t);
  Ok(c)
}

// ---------------------------------------------------------------------------------------------
// Scratch executor: the private parts of `Case` this module relies on
// ---------------------------------------------------------------------------------------------

type Parts<A> = (BTreeMap<u32, *mut A>, Vec<*mut A>, HashMap<u32, Slot<A>>);

impl<A: Flavour> Case<A> {
  /// A thread-private executor that only knows the arena value `aid` (not owned).
  fn scratch(aid: u32, p: *mut A) -> Self {
    let mut arenas = BTreeMap::new();
    arenas.insert(aid, p);
    Case { arenas, graveyard: Vec::new(), handles: HashMap::new(), dead: false, file: None }
  }

  /// Takes the scratch executor apart without dropping anything.
  fn dismantle(mut self) -> Parts<A> {
    (
      std::mem::take(&mut self.arenas),
      std::mem::take(&mut self.graveyard),
      std::mem::take(&mut self.handles),
    )
    // `self` is dropped here with empty tables and no file: nothing happens
  }

  /// The answer of `line` WITHOUT the trailing `<STATE>` (`bad-op`, `r=panic` included).
  fn body(&mut self, line: &str) -> String {
    let t: Vec<&str> = line.split(' ').collect();
    match catch_unwind(AssertUnwindSafe(|| self.exec_in(&t))) {
      Ok(None) => "bad-op".to_string(),
      Ok(Some(b)) => b,
      Err(_) => "r=panic".to_string(),
    }
  }

  fn state_or_panic(&self) -> Option<String> {
    catch_unwind(AssertUnwindSafe(|| self.state())).ok()
  }
}

/// What all threads share. Accessed without a lock: only one thread runs at a time, and never
/// across an arena call.
struct Shared {
  /// handles invalidated by `clear` / `rewind`: detached, never used again, dropped at the tear-down of the
  /// case. Declared BEFORE `case` on purpose: fields drop in declaration order, so the (detached) owned handles
  /// release their arena clones while the arena values of `case` are still alive.
  zombies: Vec<Slot<Arena>>,
  case: Case<Arena>,
  /// handle id -> byte of the last successful `fill`
  fills: HashMap<u32, u8>,
  /// arena id -> number of borrowed handles of it that are inside a running op
  busy: HashMap<u32, u32>,
  /// number of invalidations (`clear` / `rewind` ops that started) so far
  inval: u64,
}

#[derive(Clone, Copy)]
struct ShPtr(*mut Shared);
unsafe impl Send for ShPtr {}

/// `clear` / `rewind start|end|cur V` with well-formed arguments (exactly what the executor accepts): the ops
/// that invalidate every handle of the case
fn is_whole_arena_op(t: &[&str]) -> bool {
  match (t[0], t.len()) {
    ("clear", 1) => true,
    ("rewind", 3) => match t[1] {
      "start" | "end" => t[2].parse::<u32>().is_ok(),
      "cur" => t[2].parse::<i64>().is_ok(),
      _ => false,
    },
    _ => false,
  }
}

impl Shared {
  fn borrowed(&self, aid: u32) -> bool {
    self.busy.get(&aid).copied().unwrap_or(0) > 0
      || self.case.handles.values().any(|s| s.kind.is_borrowed() && s.arena == aid)
  }

  /// `verify H`: (na range, body)
  fn verify(&mut self, h: u32) -> (Option<(usize, usize)>, String) {
    let fill = self.fills.get(&h).copied();
    match self.case.handles.get_mut(&h) {
      Some(s) if !matches!(s.kind, HKind::DRef | HKind::DOwn) => {
        let [off, cap, _, _] = s.dims();
        let mut ok = true;
        if cap > 0 {
          let bytes = unsafe { std::slice::from_raw_parts(s.ptr() as *const u8, cap) };
          if let Some(b) = fill {
            ok = bytes.iter().all(|x| *x == b);
          }
        }
        ((cap > 0).then_some((off, off + cap)), format!("r=ok v={}", ok as u8))
      }
      _ => (None, "r=nohandle".to_string()),
    }
  }

  /// `clear` / `rewind` started: every handle of the case is detached and forgotten (no shadow-map entry, not
  /// verified by `lv`, later `drop H` / `dealloc H` / `fill H` / `verify H` answer `r=nohandle`).
  /// Performs no arena call (detaching only sets a flag; the slots are kept in `zombies`).
  fn invalidate_all(&mut self) {
    self.inval += 1;
    let mut ids: Vec<u32> = self.case.handles.keys().copied().collect();
    ids.sort();
    for h in ids {
      if let Some(mut slot) = self.case.handles.remove(&h) {
        slot.detach();
        self.zombies.push(slot);
      }
    }
    self.fills.clear();
  }

  /// Moves the slots a scratch executor gives back into the shared table. `gen0` is the value of `inval` when
  /// the op started: a handle that was inside a running op of ANOTHER thread while a `clear` / `rewind` started
  /// is invalidated as well.
  fn put_back(&mut self, gen0: u64, hs: HashMap<u32, Slot<Arena>>) {
    for (id, mut slot) in hs {
      if self.inval != gen0 {
        slot.detach();
        self.fills.remove(&id);
        self.zombies.push(slot);
      } else {
        self.case.handles.insert(id, slot);
      }
    }
  }

  /// `lv`: every live, filled handle still verifies
  fn all_verify(&mut self) -> bool {
    let ids: Vec<u32> = self.case.handles.keys().copied().collect();
    ids.into_iter().all(|h| !self.fills.contains_key(&h) || self.verify(h).1 != "r=ok v=0")
  }

  /// bookkeeping common to `pre` ops and thread ops
  fn note(&mut self, t: &[&str], body: &str) {
    let ok = body.starts_with("r=ok");
    let id = || t.get(1).and_then(|x| x.parse::<u32>().ok());
    match t[0] {
      "fill" if ok => {
        if let (Some(h), Some(b)) = (id(), t.get(2).and_then(|x| x.parse::<u8>().ok())) {
          self.fills.insert(h, b);
        }
      }
      "drop" | "detach" | "dealloc" if ok => {
        if let Some(h) = id() {
          self.fills.remove(&h);
        }
      }
      op if op.starts_with("alloc") && ok => {
        if let Some(h) = id() {
          self.fills.remove(&h);
        }
      }
      _ => {}
    }
  }
}

// ---------------------------------------------------------------------------------------------
// The global hook
// ---------------------------------------------------------------------------------------------

#[derive(Clone, Copy, PartialEq, Eq, Debug)]
enum St {
  Absent,
  Running,
  Parked,
  Granted(bool),
  Finished,
}

#[derive(Clone, Copy)]
struct Th {
  st: St,
  acc: Option<Access>,
  op: usize,
}

const TH0: Th = Th { st: St::Absent, acc: None, op: 0 };

#[derive(Clone, Copy, Default)]
struct Loc {
  hdr: usize,
  refs: usize,
  base: usize,
  cap: usize,
}

struct Global {
  /// case epoch: parked threads of an abandoned (hung) case never match it again
  epoch: u64,
  th: [Th; 9],
  out: String,
  loc: Loc,
  napoints: bool,
  noclone: bool,
}

static GL: Mutex<Global> = Mutex::new(Global {
  epoch: 0,
  th: [TH0; 9],
  out: String::new(),
  loc: Loc { hdr: 0, refs: 0, base: 0, cap: 0 },
  napoints: false,
  noclone: false,
});
static CV: Condvar = Condvar::new();

fn gl() -> MutexGuard<'static, Global> {
  GL.lock().unwrap_or_else(|e| e.into_inner())
}

#[derive(Clone, Copy)]
enum Role {
  /// controller, recovery-free helpers: pass through, unreported
  None,
  Worker { epoch: u64, tid: usize },
  /// recovery helper: pass through, unreported, but under a step budget
  Recovery,
}

enum Msg {
  Begin(String),
  End,
  StepLimit,
  Verdict(String),
}

thread_local! {
  static ROLE: Cell<Role> = const { Cell::new(Role::None) };
  /// a `fetch_sub` on the reference counter reached 0 during the current op
  static UNMOUNT: Cell<u32> = const { Cell::new(0) };
  /// real ranges (arena offsets) zero-filled by the arena during the current op (Hook::zero)
  static ZEROS: RefCell<Vec<(usize, usize)>> = const { RefCell::new(Vec::new()) };
  /// the arena bytes as they were when this thread's latest zero-fill was about to be written, and the index of
  /// its entry in `ZEROS`: compared with the memory at this thread's next hook call / at the end of its op (only
  /// this thread has run in between), so that the range reported is the one REALLY written, not the nominal one
  static ZSNAP: RefCell<Option<(Vec<u8>, usize)>> = const { RefCell::new(None) };
  /// a `clear` / `rewind` of this thread has not yet performed its first atomic access: the handles of the case
  /// are invalidated when that access is granted (or when the op returns without having made one)
  static INVAL: Cell<Option<ShPtr>> = const { Cell::new(None) };
  static REC_STEPS: Cell<u64> = const { Cell::new(0) };
  static REC_MAX: Cell<u64> = const { Cell::new(REC_LIMIT) };
  static REC_TX: RefCell<Option<Sender<Msg>>> = const { RefCell::new(None) };
}

/// is the calling thread a worker of a running schedule case?
pub fn is_worker() -> bool {
  matches!(ROLE.with(|r| r.get()), Role::Worker { .. })
}

fn ord_name(o: Ordering) -> &'static str {
  match o {
    Ordering::Relaxed => "rlx",
    Ordering::Acquire => "acq",
    Ordering::Release => "rel",
    Ordering::AcqRel => "acqrel",
    _ => "sc",
  }
}

fn kind_name(k: Kind) -> &'static str {
  match k {
    Kind::Load => "ld",
    Kind::Store => "st",
    Kind::Cas => "cas",
    Kind::CasWeak => "casw",
    Kind::FetchAdd => "faa",
    Kind::FetchSub => "fas",
  }
}

fn at_name(a: &Access, always_file: bool) -> String {
  let base = a.file.rsplit(['/', '\\']).next().unwrap_or(a.file);
  if base == "sync.rs" && !always_file {
    a.line.to_string()
  } else {
    format!("{base}:{}", a.line)
  }
}

fn loc_name(l: &Loc, a: &Access) -> String {
  let x = a.addr;
  if x == l.hdr {
    "sent".to_string()
  } else if x == l.hdr + 8 {
    "alloc".to_string()
  } else if x == l.hdr + 12 {
    "minseg".to_string()
  } else if x == l.hdr + 16 {
    "disc".to_string()
  } else if x == l.refs {
    "refs".to_string()
  } else if x >= l.base && x < l.base + l.cap {
    format!("node@{}", x - l.base)
  } else {
    "refs".to_string()
  }
}

struct SchedHook;
static HOOK: SchedHook = SchedHook;
static INSTALL: Once = Once::new();

/// Installs the process-global hook (idempotent).
pub fn install() {
  INSTALL.call_once(|| {
    if !verif::set_hook(&HOOK) {
      eprintln!("sched: another verif hook is already installed");
      std::process::exit(2);
    }
  });
}

impl Hook for SchedHook {
  fn before(&self, a: &Access) -> Decision {
    match ROLE.with(|r| r.get()) {
      Role::None => Decision::Proceed,
      Role::Recovery => {
        let n = REC_STEPS.with(|c| {
          c.set(c.get() + 1);
          c.get()
        });
        if n > REC_MAX.with(|c| c.get()) {
          REC_TX.with(|t| {
            if let Some(tx) = t.borrow().as_ref() {
              let _ = tx.send(Msg::StepLimit);
            }
          });
          loop {
            std::thread::park(); // leaked for ever
          }
        }
        Decision::Proceed
      }
      Role::Worker { epoch, tid } => {
        if a.width != 0 {
          settle_zsnap();
        }
        let mut g = gl();
        if g.epoch == epoch {
          g.th[tid].st = St::Parked;
          g.th[tid].acc = Some(*a);
          CV.notify_all();
        }
        loop {
          if g.epoch != epoch {
            // thread of an abandoned (hung) case: leaves the condition variable and sleeps for ever
            drop(g);
            loop {
              std::thread::park();
            }
          }
          g = CV.wait(g).unwrap_or_else(|e| e.into_inner());
          if g.epoch != epoch {
            continue;
          }
          if let St::Granted(sp) = g.th[tid].st {
            g.th[tid].st = St::Running;
            drop(g);
            // first granted access of a `clear` / `rewind`: the op starts now (this thread is the one that runs)
            invalidate_pending();
            return if sp && a.kind == Kind::CasWeak { Decision::SpuriousFail } else { Decision::Proceed };
          }
        }
      }
    }
  }

  fn unmount(&self, _base: usize, _cap: usize) {
    if let Role::Worker { .. } = ROLE.with(|r| r.get()) {
      UNMOUNT.with(|u| u.set(u.get() + 1));
    }
  }

  fn zero(&self, addr: usize, len: usize) {
    if let Role::Worker { epoch, tid } = ROLE.with(|r| r.get()) {
      let (base, np) = {
        let g = gl();
        (g.loc.base, g.napoints && g.epoch == epoch)
      };
      settle_zsnap();
      let lo = addr.wrapping_sub(base);
      if len > 0 {
        ZEROS.with(|z| z.borrow_mut().push((lo, lo + len)));
      }
      if np && len > 0 {
        // a scheduling point of its own: park like an atomic access, then report the write
        let fake = Access {
          addr,
          width: 0,
          kind: Kind::Store,
          ord: Ordering::Relaxed,
          fail_ord: None,
          operand: len as u64,
          expected: 0,
          file: "lib.rs",
          line: 0,
        };
        let _ = self.before(&fake);
        emit(epoch, &format!("ev t={tid} k=zero loc=mem lo={lo} hi={} at=lib.rs:clear\n", lo + len));
      }
      if len > 0 {
        let (b, cap, same) = {
          let g = gl();
          (g.loc.base, g.loc.cap, g.epoch == epoch)
        };
        if same && b != 0 && cap > 0 {
          // SAFETY: as in `settle_zsnap`
          let snap = unsafe { std::slice::from_raw_parts(b as *const u8, cap) }.to_vec();
          let idx = ZEROS.with(|z| z.borrow().len() - 1);
          ZSNAP.with(|z| *z.borrow_mut() = Some((snap, idx)));
        }
      }
    }
  }

  fn after(&self, a: &Access, o: &Outcome) {
    if let Role::Worker { epoch, tid } = ROLE.with(|r| r.get()) {
      let mut g = gl();
      if g.epoch != epoch {
        return;
      }
      let loc = loc_name(&g.loc, a);
      let ord = match a.fail_ord {
        Some(f) => format!("{}/{}", ord_name(a.ord), ord_name(f)),
        None => ord_name(a.ord).to_string(),
      };
      let _ = writeln!(
        g.out,
        "ev t={tid} k={} loc={loc} ord={ord} old={} new={} ok={} at={}",
        kind_name(a.kind),
        o.old,
        o.new,
        o.ok as u8,
        at_name(a, false)
      );
    }
  }
}

/// Widens the latest zero-fill range of this thread to the bytes that really changed since `Hook::zero` returned.
fn settle_zsnap() {
  let Some((snap, idx)) = ZSNAP.with(|z| z.borrow_mut().take()) else { return };
  let (base, cap) = {
    let g = gl();
    (g.loc.base, g.loc.cap)
  };
  if base == 0 || snap.len() != cap {
    return;
  }
  // SAFETY: only one thread runs at a time, and the arena of a thread that is inside an allocation is mapped
  let cur = unsafe { std::slice::from_raw_parts(base as *const u8, cap) };
  let first = (0..cap).find(|i| cur[*i] != snap[*i]);
  let last = (0..cap).rev().find(|i| cur[*i] != snap[*i]);
  if let (Some(f), Some(l)) = (first, last) {
    ZEROS.with(|z| {
      if let Some(r) = z.borrow_mut().get_mut(idx) {
        r.0 = r.0.min(f);
        r.1 = r.1.max(l + 1);
      }
    });
  }
}

/// Performs the invalidation a `clear` / `rewind` of this thread announced, if it is still pending.
fn invalidate_pending() {
  if let Some(sh) = INVAL.with(|c| c.take()) {
    // SAFETY: only one thread runs at a time (the caller was just granted a step, or is between two parks)
    unsafe { (*sh.0).invalidate_all() };
  }
}

/// appends lines to the output of the running case (worker threads and the controller)
fn emit(epoch: u64, s: &str) {
  let mut g = gl();
  if g.epoch == epoch {
    g.out.push_str(s);
  }
}

// ---------------------------------------------------------------------------------------------
// Worker threads
// ---------------------------------------------------------------------------------------------

/// Executes one op of thread `tid` (arena value `aid`): the `na` lines and the answer body.
fn thread_op(sh: ShPtr, tid: usize, aid: u32, line: &str) -> String {
  let t: Vec<&str> = line.split(' ').collect();
  let mut na = String::new();
  let parse_id = |i: usize| t.get(i).and_then(|x| x.parse::<u32>().ok());
  // SAFETY (all `&mut *sh.0` below): only one thread runs at a time; the borrow ends before any
  // arena call.
  let my_arena = unsafe { (&(*sh.0).case.arenas).get(&aid).copied() };
  let Some(my_arena) = my_arena else {
    return "bad-op".to_string();
  };
  let body = match t[0] {
    "alloc_bytes" | "alloc_bytes_owned" | "alloc_aligned" | "alloc_aligned_owned" | "alloc_t" | "alloc_t_owned"
    | "alloc_d" | "alloc_d_owned" => {
      let dup = parse_id(1).is_some_and(|h| unsafe { (&(*sh.0).case.handles).contains_key(&h) });
      if dup {
        "bad-op".to_string()
      } else {
        let gen0 = unsafe { (*sh.0).inval };
        let mut sc = Case::scratch(aid, my_arena);
        let body = sc.body(line);
        let (_, _, hs) = sc.dismantle();
        let s = unsafe { &mut *sh.0 };
        s.put_back(gen0, hs);
        // `alloc_aligned_bytes::<T>(n)` does not zero, except for a zero-sized `T` without alignment (or n = 0),
        // which the crate routes to `alloc_bytes`
        let cleared = !t[0].starts_with("alloc_aligned")
          || (t.len() >= 5 && t[3] == "0" && (t[2] == "1" || t[4] == "0"));
        // the ranges the arena REALLY zero-filled during this op (Hook::zero)
        let _ = cleared;
        settle_zsnap();
        for (lo, hi) in ZEROS.with(|z| std::mem::take(&mut *z.borrow_mut())) {
          let _ = writeln!(na, "na t={tid} k=w lo={lo} hi={hi} src=clear");
        }
        body
      }
    }
    "fill" | "drop" | "detach" | "dealloc" => {
      let gen0 = unsafe { (*sh.0).inval };
      let mut sc = Case::scratch(aid, my_arena);
      let mut range = None;
      let mut busy = None;
      if let Some(h) = parse_id(1) {
        let s = unsafe { &mut *sh.0 };
        if let Some(slot) = s.case.handles.remove(&h) {
          let [off, cap, _, _] = slot.dims();
          range = (cap > 0 && !matches!(slot.kind, HKind::DRef | HKind::DOwn)).then_some((off, off + cap));
          if slot.kind.is_borrowed() {
            *s.busy.entry(slot.arena).or_default() += 1;
            busy = Some(slot.arena);
          }
          sc.handles.insert(h, slot);
        }
      }
      let body = sc.body(line);
      let (_, _, hs) = sc.dismantle();
      let s = unsafe { &mut *sh.0 };
      s.put_back(gen0, hs);
      if let Some(a) = busy {
        if let Some(n) = s.busy.get_mut(&a) {
          *n = n.saturating_sub(1);
        }
      }
      if t[0] == "fill" && body.starts_with("r=ok") {
        if let Some((lo, hi)) = range {
          let _ = writeln!(na, "na t={tid} k=w lo={lo} hi={hi} src=fill");
        }
      }
      body
    }
    "discard_freelist" | "set_minseg" | "inc_discarded" | "flush" | "rd" | "rd_var" | "checksum" | "slices" => {
      let mut sc = Case::scratch(aid, my_arena);
      let body = sc.body(line);
      let _ = sc.dismantle();
      body
    }
    // whole-arena ops: every handle of the case is invalidated at the START of the op, i.e. when its first
    // atomic access is granted (`Hook::before`) or, if it makes none, right here
    "clear" | "rewind" => {
      if !is_whole_arena_op(&t) {
        "bad-op".to_string()
      } else {
        // `clear` of a read-only arena (never built by this binary) answers `ReadOnly` and touches nothing
        let noop = t[0] == "clear" && unsafe { (*my_arena).read_only() };
        if !noop {
          INVAL.with(|c| c.set(Some(sh)));
        }
        let mut sc = Case::scratch(aid, my_arena);
        let body = sc.body(line);
        let _ = sc.dismantle();
        invalidate_pending();
        body
      }
    }
    "clone" => {
      let c = if t.len() == 2 { parse_id(1) } else { None };
      let free = c.is_some_and(|c| {
        c != 0 && c < THREAD_ARENA_BASE && unsafe { !(&(*sh.0).case.arenas).contains_key(&c) }
      });
      if !free {
        "bad-op".to_string()
      } else {
        let mut sc = Case::scratch(aid, my_arena);
        let body = sc.body(line);
        let (ars, _, _) = sc.dismantle();
        let s = unsafe { &mut *sh.0 };
        for (id, p) in ars {
          if id != aid {
            s.case.arenas.insert(id, p);
          }
        }
        body
      }
    }
    "drop_arena" => {
      let c = if t.len() == 2 { parse_id(1) } else { None };
      match c {
        None => "bad-op".to_string(),
        Some(c) if c >= THREAD_ARENA_BASE => "bad-op".to_string(),
        Some(c) => {
          let s = unsafe { &mut *sh.0 };
          if !s.case.arenas.contains_key(&c) {
            "r=nohandle".to_string()
          } else if s.borrowed(c) {
            "bad-op".to_string()
          } else {
            let p = s.case.arenas.remove(&c).unwrap();
            let mut sc = Case::scratch(aid, my_arena);
            sc.arenas.insert(c, p);
            let body = sc.body(line);
            let (ars, grave, _) = sc.dismantle();
            let s = unsafe { &mut *sh.0 };
            for (id, p) in ars {
              if id != aid {
                s.case.arenas.insert(id, p);
              }
            }
            s.case.graveyard.extend(grave);
            body
          }
        }
      }
    }
    "verify" => match (t.len(), parse_id(1)) {
      (2, Some(h)) => {
        let s = unsafe { &mut *sh.0 };
        match catch_unwind(AssertUnwindSafe(|| s.verify(h))) {
          Ok((range, body)) => {
            if let Some((lo, hi)) = range {
              let _ = writeln!(na, "na t={tid} k=r lo={lo} hi={hi} src=verify");
            }
            body
          }
          Err(_) => "r=panic".to_string(),
        }
      }
      _ => "bad-op".to_string(),
    },
    "refs" if t.len() == 1 => {
      let a: &Arena = unsafe { &*my_arena };
      match catch_unwind(AssertUnwindSafe(|| a.refs())) {
        Ok(v) => format!("r=ok val={v}"),
        Err(_) => "r=panic".to_string(),
      }
    }
    _ => "bad-op".to_string(),
  };
  unsafe { (*sh.0).note(&t, &body) };
  na.push_str(&unmount_line(tid));
  format!("{na}{body}")
}

/// one `unmount` line per REAL release of the backing memory observed (Hook::unmount, i.e. `Memory::unmount`
/// was entered) on this thread since the last call
fn unmount_line(tid: usize) -> String {
  let n = UNMOUNT.with(|u| u.replace(0));
  if n == 0 {
    return String::new();
  }
  let cap = gl().loc.cap;
  format!("na t={tid} k=free lo=0 hi={cap} src=unmount\n").repeat(n as usize)
}

fn worker(sh: ShPtr, epoch: u64, tid: usize, ops: Vec<String>) {
  ROLE.with(|r| r.set(Role::Worker { epoch, tid }));
  UNMOUNT.with(|u| u.set(0));
  INVAL.with(|c| c.set(None));
  let noclone = gl().noclone;
  let aid = if noclone { 0 } else { THREAD_ARENA_BASE + tid as u32 };
  let cur = Cell::new(0usize);
  let r = catch_unwind(AssertUnwindSafe(|| {
    for (i, op) in ops.iter().enumerate() {
      cur.set(i);
      gl().th[tid].op = i;
      let ans = thread_op(sh, tid, aid, op);
      // `ans` = na lines (each terminated) followed by the body
      let (na, body) = match ans.rfind('\n') {
        Some(p) => ans.split_at(p + 1),
        None => ("", ans.as_str()),
      };
      emit(epoch, &format!("{na}res t={tid} i={i} {body}\n"));
    }
    cur.set(ops.len());
    gl().th[tid].op = ops.len();
    // end of the program: the thread drops its own clone (reported), unless a borrowed handle
    // still needs it
    let s = unsafe { &mut *sh.0 };
    if !noclone && !s.borrowed(aid) {
      if let Some(p) = s.case.arenas.remove(&aid) {
        s.case.graveyard.push(p);
        unsafe { std::ptr::drop_in_place(p) };
        emit(epoch, &unmount_line(tid));
      }
    }
  }));
  if r.is_err() {
    emit(epoch, &format!("res t={tid} i={} r=panic\n", cur.get()));
  }
  ROLE.with(|r| r.set(Role::None));
  let mut g = gl();
  if g.epoch == epoch {
    g.th[tid].st = St::Finished;
    CV.notify_all();
  }
}

// ---------------------------------------------------------------------------------------------
// Controller
// ---------------------------------------------------------------------------------------------

/// waits until thread `tid` is parked or finished
fn settle(tid: usize) -> St {
  let mut g = gl();
  let mut waited = 0;
  loop {
    match g.th[tid].st {
      St::Parked | St::Finished | St::Absent => return g.th[tid].st,
      _ => {}
    }
    let (g2, to) = CV.wait_timeout(g, Duration::from_secs(1)).unwrap_or_else(|e| e.into_inner());
    g = g2;
    if to.timed_out() {
      waited += 1;
      if waited >= STUCK_SECS {
        eprintln!("sched: thread {tid} neither parks nor finishes ({STUCK_SECS}s without an atomic access)");
        std::process::exit(3);
      }
    }
  }
}

fn grant(tid: usize, spurious: bool) -> St {
  {
    let mut g = gl();
    debug_assert_eq!(g.th[tid].st, St::Parked);
    g.th[tid].st = St::Granted(spurious);
    CV.notify_all();
  }
  settle(tid)
}

fn status(tid: usize) -> St {
  gl().th[tid].st
}

/// Result of running one case.
pub struct Outcome1 {
  /// the output of the case (without the closing `end` line)
  pub out: String,
  /// number of `hang` lines
  pub hangs: usize,
  /// a worker answered `r=panic`
  pub panics: usize,
}

/// Runs one case on the real arena.
pub fn run_case(sc: &SchedCase, tmp: &Path, case_no: u64) -> Outcome1 {
  install();
  let mut out = String::new();
  let done = |out: String| {
    let panics = out.lines().filter(|l| l.contains(" r=panic") || l.starts_with("r=panic")).count();
    let hangs = out.lines().filter(|l| l.starts_with("hang ")).count();
    Outcome1 { out, hangs, panics }
  };
  let Some(cfg) = Cfg::parse(&sc.cfg).filter(|c| c.sync) else {
    out.push_str("bad-op\n");
    for _ in &sc.pre {
      out.push_str("r=nocase\n");
    }
    return done(out);
  };
  let (case, ans) = Case::<Arena>::open(&cfg, tmp, case_no);
  let _ = writeln!(out, "{ans}");
  let Some(case) = case else {
    for _ in &sc.pre {
      out.push_str("r=nocase\n");
    }
    return done(out);
  };
  let sh = ShPtr(Box::into_raw(Box::new(Shared {
    zombies: Vec::new(),
    case,
    fills: HashMap::new(),
    busy: HashMap::new(),
    inval: 0,
  })));
  let shared = || unsafe { &mut *sh.0 };

  // ---- pre ops: sequential, main thread, hook not armed --------------------------------------
  for line in &sc.pre {
    let s = shared();
    let t: Vec<&str> = line.split(' ').collect();
    let ans = if s.case.dead {
      "r=nocase".to_string()
    } else {
      match (t[0], t.len()) {
        ("verify", 2) if t[1].parse::<u32>().is_ok() => {
          let body = s.verify(t[1].parse().unwrap()).1;
          match s.case.state_or_panic() {
            Some(st) => format!("{body} {st}"),
            None => "r=panic".to_string(),
          }
        }
        ("refs", 1) => {
          let v = s.case.cur().refs();
          match s.case.state_or_panic() {
            Some(st) => format!("r=ok val={v} {st}"),
            None => "r=panic".to_string(),
          }
        }
        _ => {
          // whole-arena ops: nobody observes the arena in the middle of a `pre` op, so "at the start" is "before"
          if is_whole_arena_op(&t) && !(t[0] == "clear" && s.case.cur().read_only()) {
            s.invalidate_all();
          }
          s.case.exec(line)
        }
      }
    };
    s.note(&t, &ans);
    let _ = writeln!(out, "{ans}");
  }
  if shared().case.dead {
    drop(unsafe { Box::from_raw(sh.0) });
    return done(out);
  }

  // ---- thread clones, arm the hook -----------------------------------------------------------
  let epoch;
  {
    let s = shared();
    let a0: &'static Arena = s.case.cur();
    if !sc.noclone {
      for (tid, _) in &sc.threads {
        let p = Box::into_raw(Box::new(a0.clone()));
        s.case.arenas.insert(THREAD_ARENA_BASE + *tid as u32, p);
      }
    }
    let mut g = gl();
    g.epoch += 1;
    epoch = g.epoch;
    g.th = [TH0; 9];
    g.out = std::mem::take(&mut out);
    g.napoints = sc.napoints;
    g.noclone = sc.noclone;
    g.loc = Loc {
      hdr: a0.verif_header_ptr() as usize,
      refs: a0.verif_refs_ptr() as usize,
      base: a0.raw_ptr() as usize,
      cap: a0.capacity(),
    };
    CV.notify_all();
  }

  // ---- start the threads in tid order, each up to its first park -----------------------------
  let mut joins = Vec::new();
  for (tid, ops) in &sc.threads {
    let (tid, ops) = (*tid, ops.clone());
    gl().th[tid].st = St::Running;
    let j = std::thread::Builder::new()
      .name(format!("sched-{epoch}-{tid}"))
      .spawn(move || worker(sh, epoch, tid, ops))
      .expect("spawn");
    joins.push(j);
    settle(tid);
  }

  // ---- schedule, then fair round-robin --------------------------------------------------------
  let mut crash_k = 0u64;
  let mut crash = |tid: usize| {
    if sc.crash {
      let r = crash_point(sh, &cfg, tmp, case_no, crash_k);
      emit(epoch, &format!("crash k={crash_k} t={tid} r={r}\n"));
      crash_k += 1;
    }
  };
  for (tid, sp) in &sc.sched {
    if status(*tid) == St::Parked {
      crash(*tid);
      grant(*tid, *sp);
    } else {
      emit(epoch, &format!("skip t={tid}\n"));
    }
  }
  let mut grants = 0u64;
  'rr: loop {
    let mut any = false;
    for tid in 1..=8 {
      if status(tid) == St::Parked {
        if grants >= sc.budget {
          break 'rr;
        }
        any = true;
        crash(tid);
        grant(tid, false);
        grants += 1;
      }
    }
    if !any {
      break;
    }
  }
  crash(0);

  // ---- hang lines, final -----------------------------------------------------------------------
  let mut hung = false;
  {
    let mut g = gl();
    for tid in 1..=8 {
      if g.th[tid].st == St::Parked {
        hung = true;
        let a = g.th[tid].acc.expect("parked without access");
        let line = format!(
          "hang t={tid} i={} at={} k={} loc={}\n",
          g.th[tid].op,
          at_name(&a, true),
          kind_name(a.kind),
          loc_name(&g.loc, &a)
        );
        g.out.push_str(&line);
      }
    }
  }
  let fin = {
    let s = shared();
    if s.case.arenas.contains_key(&0) {
      match s.case.state_or_panic() {
        Some(st) => {
          let lv = catch_unwind(AssertUnwindSafe(|| s.all_verify())).unwrap_or(false);
          format!("final {st} lv={}\n", lv as u8)
        }
        None => "final r=panic\n".to_string(),
      }
    } else {
      "final gone\n".to_string()
    }
  };
  emit(epoch, &fin);

  // ---- tear down ---------------------------------------------------------------------------------
  let out = {
    let mut g = gl();
    g.epoch += 1; // whatever is still parked belongs to the past now
    g.th = [TH0; 9];
    CV.notify_all();
    std::mem::take(&mut g.out)
  };
  if hung {
    // the stuck threads stay parked for ever; everything they may point to is leaked
    drop(joins);
  } else {
    for j in joins {
      let _ = j.join();
    }
    drop(unsafe { Box::from_raw(sh.0) });
  }
  done(out)
}

// ---------------------------------------------------------------------------------------------
// Crash-point mode
// ---------------------------------------------------------------------------------------------

/// Copies `memory()` to a fresh file, reopens it and runs the recovery script; returns `r=`.
fn crash_point(sh: ShPtr, cfg: &Cfg, tmp: &Path, case_no: u64, k: u64) -> String {
  let s = unsafe { &mut *sh.0 };
  let Some(a) = s.case.arenas.values().next().map(|p| unsafe { &**p }) else {
    return "gone".to_string();
  };
  let path = tmp.join(format!("crash-{case_no}-{k}.arena"));
  if let Err(e) = std::fs::write(&path, a.memory()) {
    return format!("open:{:?}", e.kind());
  }
  // shadow map: live handles that were filled
  let mut shadow: Vec<(u32, usize, usize, u8)> = Vec::new();
  for (id, slot) in s.case.handles.iter() {
    if let Some(b) = s.fills.get(id) {
      let [off, cap, _, _] = slot.dims();
      if cap > 0 && !matches!(slot.kind, HKind::DRef | HKind::DOwn) {
        shadow.push((*id, off, cap, *b));
      }
    }
  }
  shadow.sort();
  let opts = Options::new()
    .with_reserved(cfg.reserved)
    .with_magic_version(cfg.magic)
    .with_maximum_retries(cfg.retries)
    .with_freelist(match cfg.freelist {
      0 => Freelist::None,
      1 => Freelist::Optimistic,
      _ => Freelist::Pessimistic,
    })
    .with_read(true)
    .with_write(true);
  let (tx, rx) = mpsc::channel::<Msg>();
  let p2 = path.clone();
  let helper = std::thread::Builder::new()
    .name(format!("recover-{case_no}-{k}"))
    .spawn(move || {
      ROLE.with(|r| r.set(Role::Recovery));
      REC_TX.with(|t| *t.borrow_mut() = Some(tx.clone()));
      let cur = RefCell::new(String::from("open"));
      let v = catch_unwind(AssertUnwindSafe(|| recovery(&p2, opts, &shadow, &tx, &cur)));
      let v = v.unwrap_or_else(|_| format!("bad:panic:{}", cur.borrow()));
      REC_TX.with(|t| *t.borrow_mut() = None);
      let _ = tx.send(Msg::Verdict(v));
    })
    .expect("spawn");
  let mut cur = String::from("open");
  let verdict = loop {
    match rx.recv_timeout(Duration::from_secs(2)) {
      Ok(Msg::Begin(op)) => cur = op,
      Ok(Msg::End) => {}
      Ok(Msg::Verdict(v)) => break (v, true),
      Ok(Msg::StepLimit) | Err(RecvTimeoutError::Timeout) => break (format!("hang:{cur}"), false),
      Err(RecvTimeoutError::Disconnected) => break (format!("bad:panic:{cur}"), true),
    }
  };
  if verdict.1 {
    let _ = helper.join();
  } // else: the helper is leaked (parked by the hook or spinning)
  let _ = std::fs::remove_file(&path);
  verdict.0
}

/// The recovery script on the reopened arena (runs on the helper thread).
fn recovery(
  path: &Path,
  opts: Options,
  shadow: &[(u32, usize, usize, u8)],
  tx: &Sender<Msg>,
  cur: &RefCell<String>,
) -> String {
  let begin = |op: String| {
    REC_STEPS.with(|c| c.set(0));
    *cur.borrow_mut() = op.clone();
    let _ = tx.send(Msg::Begin(op));
  };
  let end = || {
    let _ = tx.send(Msg::End);
  };
  begin("open".to_string());
  let r = match unsafe { opts.map_mut::<Arena, _>(path) } {
    Ok(r) => r,
    Err(e) => return format!("open:{:?}", e.kind()),
  };
  end();
  // (1) cursor
  let (al, d, cap) = (r.allocated(), r.data_offset(), r.capacity());
  REC_MAX.with(|c| c.set(REC_LIMIT + 2 * cap as u64));
  if al < d || al > cap {
    return "bad:cursor".to_string();
  }
  // (2) kept bytes
  let m = r.memory();
  for (id, off, len, b) in shadow {
    let ok = off.checked_add(*len).filter(|e| *e <= m.len()).is_some_and(|e| m[*off..e].iter().all(|x| x == b));
    if !ok {
      return format!("bad:bytes:h{id}");
    }
  }
  // (3) battery
  let overlaps = |boff: usize, bcap: usize| {
    bcap > 0 && shadow.iter().any(|(_, off, len, _)| boff < off + len && *off < boff + bcap)
  };
  let mut kept = Vec::new();
  let mut bad = None;
  let mut sizes: Vec<(String, u32, bool)> = vec![
    ("alloc_bytes(8)".to_string(), 8, false),
    (format!("alloc_bytes({})", cap / 8), (cap / 8) as u32, false),
  ];
  for _ in 0..(cap / 16 + 4) {
    sizes.push(("alloc_bytes(16)".to_string(), 16, true));
  }
  let mut n16 = 0usize;
  for (name, n, stop_on_err) in sizes {
    begin(name.clone());
    let h = r.alloc_bytes(n);
    end();
    match h {
      Err(_) if stop_on_err => break,
      Err(_) => {}
      Ok(h) => {
        if overlaps(h.buffer_offset(), h.buffer_capacity()) {
          bad = Some(format!("bad:overlap:{name}"));
          let mut h = h;
          unsafe { h.detach() };
          break;
        }
        if stop_on_err {
          n16 += 1;
        }
        if stop_on_err && n16 % 2 == 0 {
          begin("drop".to_string());
          drop(h);
          end();
        } else {
          kept.push(h);
        }
      }
    }
  }
  if bad.is_none() {
    begin("discard_freelist".to_string());
    let _ = r.discard_freelist();
    end();
  }
  for mut h in kept {
    unsafe { h.detach() };
  }
  bad.unwrap_or_else(|| "ok".to_string())
}
