//! Shared pieces of the rarena differential-testing harness.
//!
//! The harness drives the REAL `rarena-allocator` crate and answers every input line of a
//! case stream with exactly one observation line (see `PROTOCOL.md`, which is authoritative).
//!
//! Contents: [`SplitMix64`] (the only source of randomness), FNV-1a 64, the typed-allocation
//! table (`T_A_S` = [`A1`]..[`A16`] + [`dispatch`]), [`DropCounter`], the [`OrdSum`] checksummer
//! and the generic executor [`Case`] (generic over `sync::Arena` / `unsync::Arena`), reachable
//! without generics through [`CaseApi`] / [`open_case`].
//!
//! Addresses are never printed, only `address % alignment` and offsets relative to `raw_ptr()`.
//!
//! Readings chosen where PROTOCOL.md leaves room (all in one place):
//! * operations and observations go through the live arena value with the LOWEST id;
//! * `r=panic` of a buffer operation carries `len=` ([`PANIC_CARRIES_LEN`]);
//! * `po=dangling` is printed for zero-sized `T` and for any returned pointer that does not point
//!   into the arena (the dangling pointer of an empty *owned* buffer);
//! * the zero check `z=` of `alloc_d*` reads the arena bytes `[off, off+cap)` (the handle keeps
//!   its `DropCounter` in a slot inside the handle, `as_mut_ptr()` is not arena memory); `fill`
//!   of such a handle is `r=nohandle`;
//! * `drop_arena C` of an unknown `C` is `r=nohandle`; `clone 0`, `clone` of a live id,
//!   `drop_arena` of the last arena value, an allocation re-using a live handle id, `(A, S)`
//!   outside the table, a value that does not parse as the named integer type, `put_slice` with
//!   `L >` [`MAX_SLICE`], wrong arity and the empty line are all `bad-op` (no effect);
//! * a `cfg` line that is `bad-op` or fails leaves no case: following lines are `r=nocase`, as
//!   are lines before the first `cfg`;
//! * `mem=`: with the unified layout the 4 padding bytes `[data_offset-4, data_offset)` hash as 0.

use std::collections::{BTreeMap, HashMap};
use std::panic::{catch_unwind, AssertUnwindSafe};
use std::path::{Path, PathBuf};
use std::sync::atomic::{AtomicBool, AtomicU64, AtomicUsize, Ordering};
use std::sync::Mutex;

use rarena_allocator::checksum::{BuildChecksumer, Checksumer, Crc32};
use rarena_allocator::{
  sync, unsync, Allocator, ArenaPosition, Buffer, BytesMut, BytesRefMut, Error, Freelist, Options,
  Owned, RefMut,
};

/// Which of the crate's public types may cross / be shared between threads (`seq traits`): evaluated by
/// the compiler for the current tree, printed as one line per type.
pub mod autotraits {
  use super::*;
  use std::marker::PhantomData;

  pub struct Probe<T: ?Sized>(PhantomData<T>);
  pub trait No {
    const SEND: bool = false;
    const SYNC: bool = false;
  }
  impl<T: ?Sized> No for Probe<T> {}
  // inherent constants win over the trait's when their bound holds
  #[allow(dead_code)]
  impl<T: ?Sized + Send> Probe<T> {
    pub const SEND: bool = true;
  }
  #[allow(dead_code)]
  impl<T: ?Sized + Sync> Probe<T> {
    pub const SYNC: bool = true;
  }

  macro_rules! row {
    ($out:ident, $name:expr, $t:ty) => {
      $out.push(format!("type={} send={} sync={}", $name, <Probe<$t>>::SEND as u8, <Probe<$t>>::SYNC as u8));
    };
  }

  /// a `Send` payload and one that is neither `Send` nor `Sync`
  type Plain = u64;
  type Local = std::rc::Rc<u8>;

  pub fn table() -> Vec<String> {
    let mut out = Vec::new();
    row!(out, "sync::Arena", sync::Arena);
    row!(out, "unsync::Arena", unsync::Arena);
    row!(out, "BytesMut<sync>", BytesMut<sync::Arena>);
    row!(out, "BytesMut<unsync>", BytesMut<unsync::Arena>);
    row!(out, "BytesRefMut<sync>", BytesRefMut<'static, sync::Arena>);
    row!(out, "BytesRefMut<unsync>", BytesRefMut<'static, unsync::Arena>);
    row!(out, "Owned<plain,sync>", Owned<Plain, sync::Arena>);
    row!(out, "Owned<plain,unsync>", Owned<Plain, unsync::Arena>);
    row!(out, "Owned<local,sync>", Owned<Local, sync::Arena>);
    row!(out, "Owned<local,unsync>", Owned<Local, unsync::Arena>);
    row!(out, "RefMut<plain,sync>", RefMut<'static, Plain, sync::Arena>);
    row!(out, "RefMut<plain,unsync>", RefMut<'static, Plain, unsync::Arena>);
    row!(out, "RefMut<local,sync>", RefMut<'static, Local, sync::Arena>);
    row!(out, "RefMut<local,unsync>", RefMut<'static, Local, unsync::Arena>);
    out
  }
}

/// Controlled scheduler (`sched` binary, PROTOCOL_SCHED.md); a child module so that it can re-use
/// the private executor.
pub mod sched;

/// PROTOCOL.md is ambiguous about whether `r=panic` of a buffer operation (only `set_len` above
/// capacity is expected to panic) carries `len=`. "Every answer carries len=" is taken literally.
pub const PANIC_CARRIES_LEN: bool = true;

/// `put_slice H L B` with `L` above this limit is answered `bad-op` (the harness would have to
/// materialise the slice).
pub const MAX_SLICE: usize = 1 << 24;

// ---------------------------------------------------------------------------------------------
// PRNG, hashes
// ---------------------------------------------------------------------------------------------

/// SplitMix64. Every random choice of the generator derives from ONE instance of this.
#[derive(Clone, Debug)]
pub struct SplitMix64(pub u64);

impl SplitMix64 {
  pub fn next_u64(&mut self) -> u64 {
    self.0 = self.0.wrapping_add(0x9E37_79B9_7F4A_7C15);
    let mut z = self.0;
    z = (z ^ (z >> 30)).wrapping_mul(0xBF58_476D_1CE4_E5B9);
    z = (z ^ (z >> 27)).wrapping_mul(0x94D0_49BB_1331_11EB);
    z ^ (z >> 31)
  }
  /// uniform in `0..n` (0 when `n == 0`); the tiny modulo bias is irrelevant here
  pub fn below(&mut self, n: u64) -> u64 {
    if n == 0 {
      0
    } else {
      self.next_u64() % n
    }
  }
  /// uniform in `lo..=hi`
  pub fn range(&mut self, lo: u64, hi: u64) -> u64 {
    if hi <= lo {
      lo
    } else {
      lo + self.below(hi - lo + 1)
    }
  }
  /// true with probability `pct` %
  pub fn chance(&mut self, pct: u64) -> bool {
    self.below(100) < pct
  }
  pub fn pick<T: Copy>(&mut self, xs: &[T]) -> T {
    xs[self.below(xs.len() as u64) as usize]
  }
  /// index drawn proportionally to the weights
  pub fn weighted(&mut self, ws: &[u32]) -> usize {
    let total: u64 = ws.iter().map(|w| *w as u64).sum();
    let mut x = self.below(total.max(1));
    for (i, w) in ws.iter().enumerate() {
      if x < *w as u64 {
        return i;
      }
      x -= *w as u64;
    }
    ws.len() - 1
  }
}

pub const FNV_OFFSET: u64 = 0xcbf2_9ce4_8422_2325;
pub const FNV_PRIME: u64 = 0x0000_0100_0000_01b3;

/// FNV-1a 64 over a byte slice, continuing from `h`.
pub fn fnv1a(mut h: u64, bytes: &[u8]) -> u64 {
  for b in bytes {
    h = (h ^ *b as u64).wrapping_mul(FNV_PRIME);
  }
  h
}

/// Order-sensitive streaming checksummer: `h = h * 1099511628211 + (b + 1)`, `h0 = 0`.
/// Splitting the input into chunks must not change the digest, the order of bytes must.
#[derive(Clone, Copy, Debug, Default)]
pub struct OrdSum;

#[derive(Clone, Copy, Debug, Default)]
pub struct OrdSumState(u64);

impl Checksumer for OrdSumState {
  fn update(&mut self, buf: &[u8]) {
    for b in buf {
      self.0 = self.0.wrapping_mul(1_099_511_628_211).wrapping_add(*b as u64 + 1);
    }
  }
  fn reset(&mut self) {
    self.0 = 0;
  }
  fn digest(&self) -> u64 {
    self.0
  }
}

impl BuildChecksumer for OrdSum {
  type Checksumer = OrdSumState;
  fn build_checksumer(&self) -> OrdSumState {
    OrdSumState(0)
  }
  fn checksum_one(&self, src: &[u8]) -> u64 {
    let mut s = OrdSumState(0);
    s.update(src);
    s.digest()
  }
}

// ---------------------------------------------------------------------------------------------
// Typed-allocation table: T_A_S, A in {1,2,4,8,16}, S in 0..=64 a multiple of A; A in {32,64}, S in 0..=128
// ---------------------------------------------------------------------------------------------

/// A member of the typed-allocation table.
pub trait Ty: Sized + 'static {
  /// a value with every byte equal to `b`
  fn splat(b: u8) -> Self;
}

macro_rules! aligned_ty {
  ($($name:ident = $al:literal),*) => {$(
    /// `S` bytes with the alignment in the name (S is a multiple of it, so there is no padding).
    #[repr(C, align($al))]
    pub struct $name<const S: usize>(pub [u8; S]);
    impl<const S: usize> Ty for $name<S> {
      fn splat(b: u8) -> Self { $name([b; S]) }
    }
  )*};
}
aligned_ty!(A1 = 1, A2 = 2, A4 = 4, A8 = 8, A16 = 16, A32 = 32, A64 = 64);

/// Generic code to run for the table entry selected at run time.
pub trait TyVisitor {
  type Out;
  fn visit<T: Ty>(self) -> Self::Out;
}

macro_rules! ty_table {
  ($a:expr, $s:expr, $v:expr; $($name:ident $al:literal [$($sz:literal)*])*) => {
    match ($a, $s) {
      $($( ($al, $sz) => Some($v.visit::<$name<$sz>>()), )*)*
      _ => None,
    }
  };
}

/// Runs `v` for `T_a_s`; `None` when (a, s) is not in the table.
pub fn dispatch<V: TyVisitor>(a: u64, s: u64, v: V) -> Option<V::Out> {
  ty_table!(a, s, v;
    A1 1 [0 1 2 3 4 5 6 7 8 9 10 11 12 13 14 15 16 17 18 19 20 21 22 23 24 25 26 27 28 29 30 31 32
          33 34 35 36 37 38 39 40 41 42 43 44 45 46 47 48 49 50 51 52 53 54 55 56 57 58 59 60 61 62
          63 64]
    A2 2 [0 2 4 6 8 10 12 14 16 18 20 22 24 26 28 30 32 34 36 38 40 42 44 46 48 50 52 54 56 58 60
          62 64]
    A4 4 [0 4 8 12 16 20 24 28 32 36 40 44 48 52 56 60 64]
    A8 8 [0 8 16 24 32 40 48 56 64]
    A16 16 [0 16 32 48 64]
    A32 32 [0 32 64 96 128]
    A64 64 [0 64 128])
}

/// Is (a, s) a member of the typed-allocation table?
pub fn in_table(a: u64, s: u64) -> bool {
  (matches!(a, 1 | 2 | 4 | 8 | 16) && s <= 64 && s % a == 0) || (matches!(a, 32 | 64) && s <= 128 && s % a == 0)
}

static DROPS: AtomicUsize = AtomicUsize::new(0);
/// address alignment the current case's arena guarantees (set by `open_case`)
static GUARANTEED_ALIGN: std::sync::atomic::AtomicU64 = std::sync::atomic::AtomicU64::new(8);
/// the running case was generated for the sync flavour and is replayed on the unsync one (`--flavour unsync`)
static NO_TRUNCATE: AtomicBool = AtomicBool::new(false);

/// A `needs_drop` type (size 8, align 8); dropping it increments a global counter that the
/// harness resets at the start of every case.
#[repr(C, align(8))]
pub struct DropCounter(u64);

impl DropCounter {
  #[allow(clippy::new_without_default)]
  pub fn new() -> Self {
    DropCounter(0xD0D0_D0D0_D0D0_D0D0)
  }
  pub fn drops() -> usize {
    DROPS.load(Ordering::SeqCst)
  }
  pub fn reset() {
    DROPS.store(0, Ordering::SeqCst)
  }
}

impl Drop for DropCounter {
  fn drop(&mut self) {
    DROPS.fetch_add(1, Ordering::SeqCst);
  }
}

/// A zero-sized `needs_drop` type counted by the same counter: the arena never stores such a value (`write`
/// consumes and drops it at once), so the drop of its handle must not drop anything again.
pub struct ZstDrop;

impl Drop for ZstDrop {
  fn drop(&mut self) {
    DROPS.fetch_add(1, Ordering::SeqCst);
  }
}

// ---------------------------------------------------------------------------------------------
// Panic hook and watchdog
// ---------------------------------------------------------------------------------------------

static LAST_PANIC: Mutex<Option<String>> = Mutex::new(None);

/// Installs a silent panic hook that only remembers the last message (for diagnostics on
/// stderr; never part of the protocol output).
pub fn install_panic_hook() {
  std::panic::set_hook(Box::new(|info| {
    let msg = if let Some(s) = info.payload().downcast_ref::<&str>() {
      s.to_string()
    } else if let Some(s) = info.payload().downcast_ref::<String>() {
      s.clone()
    } else {
      "<non-string payload>".to_string()
    };
    let loc = info.location().map(|l| format!("{}:{}", l.file(), l.line())).unwrap_or_default();
    if let Ok(mut g) = LAST_PANIC.lock() {
      *g = Some(format!("{msg} @ {loc}"));
    }
  }));
}

pub fn take_last_panic() -> Option<String> {
  LAST_PANIC.lock().ok().and_then(|mut g| g.take())
}

static TICK: AtomicU64 = AtomicU64::new(0);
static BUSY: AtomicBool = AtomicBool::new(false);
static CURRENT: Mutex<String> = Mutex::new(String::new());

/// Starts a watchdog thread: an operation that runs longer than `secs` seconds (the sync arena
/// spins forever on some corrupted free lists) is reported on stderr and the process exits with
/// status 3.
pub fn watchdog_start(secs: u64) {
  std::thread::spawn(move || {
    let (mut last, mut same) = (u64::MAX, 0u64);
    loop {
      std::thread::sleep(std::time::Duration::from_millis(500));
      let t = TICK.load(Ordering::SeqCst);
      if BUSY.load(Ordering::SeqCst) && t == last {
        same += 1;
        if same >= secs * 2 {
          let cur = CURRENT.lock().map(|g| g.clone()).unwrap_or_default();
          eprintln!("HANG: no progress for {secs}s in: {cur}");
          std::process::exit(3);
        }
      } else {
        last = t;
        same = 0;
      }
    }
  });
}

/// Marks the start of the execution of `line`.
pub fn watchdog_begin(ctx: &str, line: &str) {
  if let Ok(mut g) = CURRENT.lock() {
    g.clear();
    g.push_str(ctx);
    g.push_str(" :: ");
    g.push_str(line);
  }
  TICK.fetch_add(1, Ordering::SeqCst);
  BUSY.store(true, Ordering::SeqCst);
}

pub fn watchdog_end() {
  BUSY.store(false, Ordering::SeqCst);
}

// ---------------------------------------------------------------------------------------------
// Configuration line
// ---------------------------------------------------------------------------------------------

#[derive(Clone, Debug, PartialEq, Eq)]
pub struct Cfg {
  pub sync: bool,
  /// 0 none, 1 opt, 2 pess
  pub freelist: u8,
  /// 0 vec, 1 anon, 2 file
  pub backend: u8,
  pub unify: bool,
  pub reserved: u32,
  pub cap: u32,
  pub minseg: u32,
  pub maxalign: usize,
  pub retries: u8,
  pub magic: u16,
  /// `Options::with_offset` of a file-backed arena (optional 12th token `offset=N`; 0 otherwise)
  pub offset: u64,
  /// mapping options that must not change any answer (optional token `mm=K`, bits: 1 = `with_lock_meta`, 2 =
  /// `with_populate`, 4 = `with_stack`); applied to every open of the case
  pub mm: u8,
}

pub const FREELISTS: [&str; 3] = ["none", "opt", "pess"];
pub const BACKENDS: [&str; 3] = ["vec", "anon", "file"];

impl Cfg {
  /// Parses a `cfg` line (keys in the order of PROTOCOL.md); `None` = `bad-op`.
  pub fn parse(line: &str) -> Option<Cfg> {
    let t: Vec<&str> = line.split(' ').collect();
    if t.len() < 11 || t.len() > 13 || t[0] != "cfg" {
      return None;
    }
    let (mut offset, mut mm): (u64, u8) = (0, 0);
    for x in &t[11..] {
      if let Some(v) = x.strip_prefix("offset=") {
        offset = v.parse().ok()?;
      } else if let Some(v) = x.strip_prefix("mm=") {
        mm = v.parse().ok().filter(|m| *m < 8)?;
      } else {
        return None;
      }
    }
    let val = |i: usize, key: &str| -> Option<&str> { t[i].strip_prefix(key)?.strip_prefix('=') };
    Some(Cfg {
      sync: match val(1, "flavour")? {
        "sync" => true,
        "unsync" => false,
        _ => return None,
      },
      freelist: FREELISTS.iter().position(|x| *x == val(2, "freelist").unwrap_or(""))? as u8,
      backend: BACKENDS.iter().position(|x| *x == val(3, "backend").unwrap_or(""))? as u8,
      unify: match val(4, "unify")? {
        "0" => false,
        "1" => true,
        _ => return None,
      },
      reserved: val(5, "reserved")?.parse().ok()?,
      cap: val(6, "cap")?.parse().ok()?,
      minseg: val(7, "minseg")?.parse().ok()?,
      maxalign: val(8, "maxalign")?.parse().ok()?,
      retries: val(9, "retries")?.parse().ok()?,
      magic: val(10, "magic")?.parse().ok()?,
      offset,
      mm,
    })
  }

  pub fn line(&self) -> String {
    format!(
      "cfg flavour={} freelist={} backend={} unify={} reserved={} cap={} minseg={} maxalign={} retries={} magic={}",
      if self.sync { "sync" } else { "unsync" },
      FREELISTS[self.freelist as usize],
      BACKENDS[self.backend as usize],
      self.unify as u8,
      self.reserved,
      self.cap,
      self.minseg,
      self.maxalign,
      self.retries,
      self.magic
    ) + &(if self.offset != 0 { format!(" offset={}", self.offset) } else { String::new() })
      + &(if self.mm != 0 { format!(" mm={}", self.mm) } else { String::new() })
  }

  /// May panic (`with_maximum_alignment` asserts a power of two): call under `catch_unwind`.
  pub fn options(&self) -> Options {
    Options::new()
      .with_capacity(self.cap)
      .with_reserved(self.reserved)
      .with_minimum_segment_size(self.minseg)
      .with_maximum_alignment(self.maxalign)
      .with_maximum_retries(self.retries)
      .with_magic_version(self.magic)
      .with_freelist(match self.freelist {
        0 => Freelist::None,
        1 => Freelist::Optimistic,
        _ => Freelist::Pessimistic,
      })
      .with_unify(self.unify)
      .with_offset(if self.backend == 2 { self.offset } else { 0 })
      .with_lock_meta(self.mm & 1 != 0)
      .with_populate(self.mm & 2 != 0)
      .with_stack(self.mm & 4 != 0)
  }

  /// `data_offset()` the arena will report for this configuration (the "prefix").
  pub fn prefix(&self) -> u32 {
    let o = Options::new().with_reserved(self.reserved);
    let unified = self.unify || self.backend == 2;
    (match (self.sync, unified) {
      (true, true) => o.data_offset_unify::<sync::Arena>(),
      (true, false) => o.data_offset::<sync::Arena>(),
      (false, true) => o.data_offset_unify::<unsync::Arena>(),
      (false, false) => o.data_offset::<unsync::Arena>(),
    }) as u32
  }
}

// ---------------------------------------------------------------------------------------------
// The two flavours
// ---------------------------------------------------------------------------------------------

/// What the executor needs beyond the `Allocator` trait.
pub trait Flavour: Allocator + Clone + Sized + std::fmt::Debug + 'static {
  /// `verif_snapshot(max)`: (offset, size field) of the nodes reached from the sentinel, truncated?
  fn snap(&self, max: usize) -> (Vec<(u32, u32)>, bool);
  /// `truncate` (unsync only; `None` = not available)
  fn trunc(&mut self, n: usize) -> Option<std::io::Result<()>>;
  /// the free-list policy this arena VALUE works with (there is no accessor: taken from its `Debug` output)
  fn policy(&self) -> &'static str {
    let d = format!("{self:?}");
    match d.split("freelist: ").nth(1).map(|r| r.split([',', ' ', '\n', '}']).next().unwrap_or("")) {
      Some("None") => "none",
      Some("Optimistic") => "opt",
      Some("Pessimistic") => "pess",
      _ => "?",
    }
  }
}

impl Flavour for sync::Arena {
  fn snap(&self, max: usize) -> (Vec<(u32, u32)>, bool) {
    let s = self.verif_snapshot(max);
    (s.nodes.iter().map(|n| (n.0, n.1)).collect(), s.truncated)
  }
  fn trunc(&mut self, _n: usize) -> Option<std::io::Result<()>> {
    None
  }
}

impl Flavour for unsync::Arena {
  fn snap(&self, max: usize) -> (Vec<(u32, u32)>, bool) {
    let s = self.verif_snapshot(max);
    (s.nodes.iter().map(|n| (n.0, n.1)).collect(), s.truncated)
  }
  fn trunc(&mut self, n: usize) -> Option<std::io::Result<()>> {
    Some(self.truncate(n))
  }
}

// ---------------------------------------------------------------------------------------------
// Handles
// ---------------------------------------------------------------------------------------------

#[derive(Clone, Copy, PartialEq, Eq, Debug)]
pub enum HKind {
  BytesRef,
  BytesOwn,
  TRef,
  TOwn,
  DRef,
  DOwn,
}

impl HKind {
  pub fn is_bytes(self) -> bool {
    matches!(self, HKind::BytesRef | HKind::BytesOwn)
  }
  /// embeds a clone of the arena (`BytesMut`, `Owned<T>`)
  pub fn is_owned(self) -> bool {
    !self.is_borrowed()
  }
  /// borrows the arena value it was allocated from
  pub fn is_borrowed(self) -> bool {
    matches!(self, HKind::BytesRef | HKind::TRef | HKind::DRef)
  }
}

/// Type-erased `RefMut<T>` / `Owned<T>`.
trait Obj {
  fn dims(&self) -> [usize; 4];
  fn ptr(&mut self) -> *mut u8;
  fn detach_(&mut self);
}

macro_rules! impl_obj {
  ($($t:ty),*) => {$(
    impl<T: 'static, A: Flavour> Obj for $t {
      fn dims(&self) -> [usize; 4] {
        [self.offset(), self.capacity(), self.buffer_offset(), self.buffer_capacity()]
      }
      fn ptr(&mut self) -> *mut u8 { self.as_mut_ptr().as_ptr().cast() }
      fn detach_(&mut self) { unsafe { Buffer::detach(self) } }
    }
  )*};
}
impl_obj!(RefMut<'static, T, A>, Owned<T, A>);

enum Handle<A: Flavour> {
  BRef(BytesRefMut<'static, A>),
  BOwn(BytesMut<A>),
  Obj(Box<dyn Obj>),
}

struct Slot<A: Flavour> {
  h: Handle<A>,
  kind: HKind,
  /// id of the arena value the handle was allocated through
  arena: u32,
  /// detached but kept alive (`hold`): no longer listed as live, only `drop` is meant for it
  held: bool,
}

impl<A: Flavour> Slot<A> {
  /// `[offset, capacity, buffer_offset, buffer_capacity]`
  fn dims(&self) -> [usize; 4] {
    match &self.h {
      Handle::BRef(b) => [b.offset(), b.capacity(), b.buffer_offset(), b.buffer_capacity()],
      Handle::BOwn(b) => [b.offset(), b.capacity(), b.buffer_offset(), b.buffer_capacity()],
      Handle::Obj(o) => o.dims(),
    }
  }
  /// `as_mut_ptr()` of the handle
  fn ptr(&mut self) -> *mut u8 {
    match &mut self.h {
      Handle::BRef(b) => b.as_mut_ptr(),
      Handle::BOwn(b) => b.as_mut_ptr(),
      Handle::Obj(o) => o.ptr(),
    }
  }
  fn detach(&mut self) {
    match &mut self.h {
      Handle::BRef(b) => unsafe { b.detach() },
      Handle::BOwn(b) => unsafe { b.detach() },
      Handle::Obj(o) => o.detach_(),
    }
  }
  fn len(&self) -> Option<usize> {
    match &self.h {
      Handle::BRef(b) => Some(b.len()),
      Handle::BOwn(b) => Some(b.len()),
      Handle::Obj(_) => None,
    }
  }
}

/// The buffer API common to `BytesRefMut` and `BytesMut` (they share no trait in the crate).
trait BytesLike {
  fn put_int(&mut self, ty: &str, ord: &str, v: &str) -> Option<bool>;
  fn get_int(&mut self, ty: &str, ord: &str) -> Option<Option<String>>;
  fn put_var(&mut self, ty: &str, v: &str) -> Option<Option<usize>>;
  fn get_var(&self, ty: &str) -> Option<Option<(usize, String)>>;
  /// the panicking `put_*_varint_unchecked` / `get_*_varint_unchecked`
  fn put_varu(&mut self, ty: &str, v: &str) -> Option<usize>;
  /// the `std::io`-flavoured wrappers `write_<ty>_<order>` / `write_<ty>_varint`
  fn write_int(&mut self, ty: &str, ord: &str, v: &str) -> Option<bool>;
  fn write_var(&mut self, ty: &str, v: &str) -> Option<Option<usize>>;
  fn get_varu(&mut self, ty: &str) -> Option<(usize, String)>;
  fn put_slice_(&mut self, s: &[u8]) -> bool;
  fn io_write_(&mut self, s: &[u8]) -> Option<usize>;
  fn set_len_(&mut self, n: usize);
  fn align_to_<T>(&mut self) -> Option<*mut u8>;
  fn put_aligned_<T>(&mut self, v: T) -> Option<*mut u8>;
  fn put_t<T>(&mut self, v: T) -> bool;
}

macro_rules! int_arms {
  (put $b:ident $ty:ident $ord:ident $v:ident; $($t:ident)*) => { paste::paste! {
    match ($ty, $ord) {
      ("u8", _) => $v.parse::<u8>().ok().map(|x| $b.put_u8(x).is_ok()),
      ("i8", _) => $v.parse::<i8>().ok().map(|x| $b.put_i8(x).is_ok()),
      $(
        (stringify!($t), "be") => $v.parse::<$t>().ok().map(|x| $b.[<put_ $t _be>](x).is_ok()),
        (stringify!($t), "le") => $v.parse::<$t>().ok().map(|x| $b.[<put_ $t _le>](x).is_ok()),
        (stringify!($t), "ne") => $v.parse::<$t>().ok().map(|x| $b.[<put_ $t _ne>](x).is_ok()),
      )*
      _ => None,
    }
  }};
  (get $b:ident $ty:ident $ord:ident; $($t:ident)*) => { paste::paste! {
    match ($ty, $ord) {
      ("u8", _) => Some($b.get_u8().ok().map(|x| x.to_string())),
      ("i8", _) => Some($b.get_i8().ok().map(|x| x.to_string())),
      $(
        (stringify!($t), "be") => Some($b.[<get_ $t _be>]().ok().map(|x| x.to_string())),
        (stringify!($t), "le") => Some($b.[<get_ $t _le>]().ok().map(|x| x.to_string())),
        (stringify!($t), "ne") => Some($b.[<get_ $t _ne>]().ok().map(|x| x.to_string())),
      )*
      _ => None,
    }
  }};
  (write $b:ident $ty:ident $ord:ident $v:ident; $($t:ident)*) => { paste::paste! {
    match ($ty, $ord) {
      $(
        (stringify!($t), "be") => $v.parse::<$t>().ok().map(|x| $b.[<write_ $t _be>](x).is_ok()),
        (stringify!($t), "le") => $v.parse::<$t>().ok().map(|x| $b.[<write_ $t _le>](x).is_ok()),
        (stringify!($t), "ne") => $v.parse::<$t>().ok().map(|x| $b.[<write_ $t _ne>](x).is_ok()),
      )*
      _ => None,
    }
  }};
  (write_var $b:ident $ty:ident $v:ident; $($t:ident)*) => { paste::paste! {
    match $ty {
      $( stringify!($t) => $v.parse::<$t>().ok().map(|x| $b.[<write_ $t _varint>](x).ok()), )*
      _ => None,
    }
  }};
  (put_var $b:ident $ty:ident $v:ident; $($t:ident)*) => { paste::paste! {
    match $ty {
      $( stringify!($t) => $v.parse::<$t>().ok().map(|x| $b.[<put_ $t _varint>](x).ok()), )*
      _ => None,
    }
  }};
  (put_varu $b:ident $ty:ident $v:ident; $($t:ident)*) => { paste::paste! {
    match $ty {
      $( stringify!($t) => $v.parse::<$t>().ok().map(|x| $b.[<put_ $t _varint_unchecked>](x)), )*
      _ => None,
    }
  }};
  (get_varu $b:ident $ty:ident; $($t:ident)*) => { paste::paste! {
    match $ty {
      $( stringify!($t) => { let (n, x) = $b.[<get_ $t _varint_unchecked>](); Some((n, x.to_string())) } )*
      _ => None,
    }
  }};
  (get_var $b:ident $ty:ident; $($t:ident)*) => { paste::paste! {
    match $ty {
      $( stringify!($t) => Some($b.[<get_ $t _varint>]().ok().map(|(n, x)| (n, x.to_string()))), )*
      _ => None,
    }
  }};
}

macro_rules! impl_bytes_like {
  ($($t:ty),*) => {$(
    impl<A: Flavour> BytesLike for $t {
      fn put_int(&mut self, ty: &str, ord: &str, v: &str) -> Option<bool> {
        int_arms!(put self ty ord v; u16 u32 u64 u128 usize i16 i32 i64 i128 isize)
      }
      fn get_int(&mut self, ty: &str, ord: &str) -> Option<Option<String>> {
        int_arms!(get self ty ord; u16 u32 u64 u128 usize i16 i32 i64 i128 isize)
      }
      fn put_var(&mut self, ty: &str, v: &str) -> Option<Option<usize>> {
        int_arms!(put_var self ty v; u16 u32 u64 u128 i16 i32 i64 i128)
      }
      fn get_var(&self, ty: &str) -> Option<Option<(usize, String)>> {
        int_arms!(get_var self ty; u16 u32 u64 u128 i16 i32 i64 i128)
      }
      fn write_int(&mut self, ty: &str, ord: &str, v: &str) -> Option<bool> {
        int_arms!(write self ty ord v; u16 u32 u64 u128 usize i16 i32 i64 i128 isize)
      }
      fn write_var(&mut self, ty: &str, v: &str) -> Option<Option<usize>> {
        int_arms!(write_var self ty v; u16 u32 u64 u128 i16 i32 i64 i128)
      }
      fn put_varu(&mut self, ty: &str, v: &str) -> Option<usize> {
        int_arms!(put_varu self ty v; u16 u32 u64 u128 i16 i32 i64 i128)
      }
      fn get_varu(&mut self, ty: &str) -> Option<(usize, String)> {
        int_arms!(get_varu self ty; u16 u32 u64 u128 i16 i32 i64 i128)
      }
      fn put_slice_(&mut self, s: &[u8]) -> bool { self.put_slice(s).is_ok() }
      fn io_write_(&mut self, s: &[u8]) -> Option<usize> { std::io::Write::write(self, s).ok() }
      fn set_len_(&mut self, n: usize) { self.set_len(n) }
      fn align_to_<T>(&mut self) -> Option<*mut u8> {
        self.align_to::<T>().ok().map(|p| p.as_ptr().cast())
      }
      fn put_aligned_<T>(&mut self, v: T) -> Option<*mut u8> {
        unsafe { self.put_aligned::<T>(v) }.ok().map(|r| (r as *mut T).cast())
      }
      fn put_t<T>(&mut self, v: T) -> bool { unsafe { self.put::<T>(v) }.is_ok() }
    }
  )*};
}
impl_bytes_like!(BytesRefMut<'static, A>, BytesMut<A>);

// visitors over the typed-allocation table ---------------------------------------------------

struct VAllocAligned<A: Flavour> {
  a: &'static A,
  n: u32,
  owned: bool,
}
impl<A: Flavour> TyVisitor for VAllocAligned<A> {
  type Out = Result<Handle<A>, Error>;
  fn visit<T: Ty>(self) -> Self::Out {
    if self.owned {
      self.a.alloc_aligned_bytes_owned::<T>(self.n).map(Handle::BOwn)
    } else {
      self.a.alloc_aligned_bytes::<T>(self.n).map(Handle::BRef)
    }
  }
}

struct VAllocT<A: Flavour> {
  a: &'static A,
  owned: bool,
}
impl<A: Flavour> TyVisitor for VAllocT<A> {
  type Out = Result<Handle<A>, Error>;
  fn visit<T: Ty>(self) -> Self::Out {
    unsafe {
      if self.owned {
        self.a.alloc_owned::<T>().map(|o| Handle::Obj(Box::new(o)))
      } else {
        self.a.alloc::<T>().map(|r| Handle::Obj(Box::new(r)))
      }
    }
  }
}

#[derive(Clone, Copy)]
enum TypedBufOp {
  AlignTo,
  PutAligned(u8),
  PutT(u8),
}
struct VBuf<'x, B: BytesLike> {
  b: &'x mut B,
  op: TypedBufOp,
}
impl<B: BytesLike> TyVisitor for VBuf<'_, B> {
  /// Ok(pointer, if the op returns one) / Err(()) = Insufficient buffer
  type Out = Result<Option<*mut u8>, ()>;
  fn visit<T: Ty>(self) -> Self::Out {
    match self.op {
      TypedBufOp::AlignTo => self.b.align_to_::<T>().map(Some).ok_or(()),
      TypedBufOp::PutAligned(x) => self.b.put_aligned_::<T>(T::splat(x)).map(Some).ok_or(()),
      TypedBufOp::PutT(x) => {
        if self.b.put_t::<T>(T::splat(x)) {
          Ok(None)
        } else {
          Err(())
        }
      }
    }
  }
}

// ---------------------------------------------------------------------------------------------
// The executor
// ---------------------------------------------------------------------------------------------

/// What the generator may ask about a live handle.
#[derive(Clone, Copy, Debug)]
pub struct HandleInfo {
  pub id: u32,
  pub kind: HKind,
  pub off: usize,
  pub cap: usize,
  pub boff: usize,
  pub bcap: usize,
  /// `len()` of byte buffers (0 otherwise)
  pub len: usize,
  /// arena value it was allocated through
  pub arena: u32,
}

/// What the generator may ask about the arena.
#[derive(Clone, Debug, Default)]
pub struct ArenaInfo {
  pub allocated: usize,
  pub remaining: usize,
  pub capacity: usize,
  pub data_offset: usize,
  pub reserved: usize,
  pub page_size: usize,
  pub minseg: u32,
  /// free list: (node offset, size field)
  pub fl: Vec<(u32, u32)>,
  /// ids of the live arena values
  pub arenas: Vec<u32>,
}

/// Flavour-independent interface of a running case.
pub trait CaseApi {
  /// executes one operation line and returns the observation line
  fn exec(&mut self, line: &str) -> String;
  /// live handles in creation order
  fn live(&self) -> Vec<HandleInfo>;
  fn arena(&self) -> ArenaInfo;
}

/// One case: the arena values and the live handles.
pub struct Case<A: Flavour> {
  /// arena values by id (0 = the original); operations and observations use the lowest id.
  /// They live in leaked boxes because borrowed handles keep `&'static A` into them.
  arenas: BTreeMap<u32, *mut A>,
  /// arena values dropped by `drop_arena`; their boxes are freed at the end of the case so that
  /// a (protocol violating) borrowed handle can never point into freed heap memory
  graveyard: Vec<*mut A>,
  handles: HashMap<u32, Slot<A>>,
  /// the arena became unusable: everything is answered `r=nocase`
  dead: bool,
  file: Option<PathBuf>,
}

fn err_name(e: &Error) -> &'static str {
  match e {
    Error::InsufficientSpace { .. } => "InsufficientSpace",
    Error::ReadOnly => "ReadOnly",
    Error::OutOfBounds { .. } => "OutOfBounds",
    Error::DecodeVarintError(_) => "Varint",
  }
}

fn io_name(e: &std::io::Error) -> String {
  format!("io:{:?}", e.kind())
}

fn parse<T: std::str::FromStr>(s: &str) -> Option<T> {
  s.parse().ok()
}

impl<A: Flavour> Case<A> {
  /// Builds the arena of a case. Returns the case (if the arena exists) and the answer line.
  pub fn open(cfg: &Cfg, tmp: &Path, case_no: u64) -> (Option<Self>, String) {
    DropCounter::reset();
    // the address alignment the arena guarantees: `maximum_alignment` (at least that of the header) for the Vec
    // backend, a page for the mappings
    GUARANTEED_ALIGN.store(if cfg.backend == 0 { (cfg.maxalign as u64).max(8) } else { 4096 }, Ordering::Relaxed);
    let file = (cfg.backend == 2).then(|| tmp.join(format!("case-{case_no}.arena")));
    let built = catch_unwind(AssertUnwindSafe(|| -> Result<A, String> {
      let o = cfg.options();
      match cfg.backend {
        0 => o.alloc::<A>().map_err(|e| err_name(&e).to_string()),
        1 => o.map_anon::<A>().map_err(|e| io_name(&e)),
        _ => unsafe {
          o.with_create_new(true)
            .with_read(true)
            .with_write(true)
            .map_mut::<A, _>(file.as_ref().unwrap())
            .map_err(|e| io_name(&e))
        },
      }
    }));
    let fail = |msg: String| {
      if let Some(f) = &file {
        let _ = std::fs::remove_file(f);
      }
      (None, msg)
    };
    match built {
      Err(_) => fail("r=panic".to_string()),
      Ok(Err(name)) => fail(format!("r={name}")),
      Ok(Ok(arena)) => {
        let mut arenas = BTreeMap::new();
        arenas.insert(0, Box::into_raw(Box::new(arena)));
        let mut case =
          Case { arenas, graveyard: Vec::new(), handles: HashMap::new(), dead: false, file };
        let ans = match catch_unwind(AssertUnwindSafe(|| {
          format!("r=ok doff={} {}", case.cur().data_offset(), case.state())
        })) {
          Ok(s) => s,
          Err(_) => {
            case.dead = true;
            "r=panic".to_string()
          }
        };
        (Some(case), ans)
      }
    }
  }

  /// the arena value used for operations and observations (lowest live id)
  fn cur(&self) -> &'static A {
    unsafe { &**self.arenas.values().next().expect("no arena value") }
  }
  fn newest(&self) -> &'static A {
    unsafe { &**self.arenas.values().next_back().expect("no arena value") }
  }
  fn cur_id(&self) -> u32 {
    *self.arenas.keys().next().expect("no arena value")
  }

  /// `<STATE>` of PROTOCOL.md
  fn state(&self) -> String {
    let a = self.cur();
    // canonicalisation: the 4 trailing padding bytes of the in-memory header are left uninitialised by the
    // crate (`header.write(H::new(..))`); reading them is UB and their content is noise, so define them as 0
    // (never on a read-only mapping)
    {
      let d = a.data_offset();
      if a.unify() && !a.read_only() && d >= 4 && d <= a.capacity() {
        unsafe { std::ptr::write_bytes(a.raw_mut_ptr().add(d - 4), 0, 4) };
      }
    }
    let (nodes, truncated) = a.snap(4096);
    let mut fl = String::new();
    for (i, (o, s)) in nodes.iter().enumerate() {
      if i > 0 {
        fl.push(',');
      }
      fl.push_str(&format!("{o}:{s}"));
    }
    if truncated {
      fl.push_str(if nodes.is_empty() { "..." } else { ",..." });
    }
    // FNV-1a over memory(); with the unified layout the 4 trailing padding bytes of the header
    // ([data_offset-4, data_offset)) are unspecified and hashed as 0.
    let m = a.memory();
    let d = a.data_offset();
    let mem = if a.unify() && d >= 4 && d <= m.len() {
      fnv1a(fnv1a(fnv1a(FNV_OFFSET, &m[..d - 4]), &[0, 0, 0, 0]), &m[d..])
    } else {
      fnv1a(FNV_OFFSET, m)
    };
    // `ma`: the same hash over the allocated prefix memory()[..allocated] only
    let al = a.allocated().min(m.len());
    let ma = if a.unify() && d >= 4 && d <= al {
      fnv1a(fnv1a(fnv1a(FNV_OFFSET, &m[..d - 4]), &[0, 0, 0, 0]), &m[d..al])
    } else {
      fnv1a(FNV_OFFSET, &m[..al])
    };
    format!(
      "al={} di={} rem={} ms={} cp={} rf={} fl=[{}] mem={:016x} ma={:016x}",
      a.allocated(),
      a.discarded(),
      a.remaining(),
      a.minimum_segment_size(),
      a.capacity(),
      a.refs(),
      fl,
      mem,
      ma
    )
  }

  /// true iff `n` bytes at `p` all read 0 (vacuously true for n == 0)
  fn all_zero(p: *const u8, n: usize) -> bool {
    n == 0 || unsafe { std::slice::from_raw_parts(p, n) }.iter().all(|b| *b == 0)
  }

  /// Registers a fresh handle and formats the answer of the allocation.
  /// `am`: print `am=<ptr % A>`; `z`: print the zero check.
  fn admit(&mut self, id: u32, h: Handle<A>, kind: HKind, am: Option<u64>, z: bool) -> String {
    let mut slot = Slot { h, kind, arena: self.cur_id(), held: false };
    let [off, cap, boff, bcap] = slot.dims();
    let mut s = format!("r=ok off={off} cap={cap} boff={boff} bcap={bcap}");
    if let Some(a) = am {
      // a handle without accessible bytes has nothing to align (its pointer may be dangling)
      // ... and a type more strictly aligned than the arena's configured maximum is only aligned that far
      let a = a.min(GUARANTEED_ALIGN.load(Ordering::Relaxed)).max(1);
      let am = if cap == 0 { 0 } else { slot.ptr() as usize as u64 % a };
      s.push_str(&format!(" am={}", am));
      // implementation-side oracle `pq`: the pointer of a typed handle whose value lives in the arena is the arena's
      // base plus the offset the handle reports (printed only when it is not)
      if cap > 0 && matches!(kind, HKind::TRef | HKind::TOwn) {
        let base = self.cur().raw_ptr() as usize;
        let p = slot.ptr() as usize;
        if p != base + off {
          s.push_str(&format!(" pq={}", p.wrapping_sub(base) as isize));
        }
      }
    }
    if z {
      // The DropCounter handles keep their value in a slot inside the handle, not in the arena:
      // their zero check reads the accessible range [off, off+cap) of the arena memory instead.
      let zero = if matches!(kind, HKind::DRef | HKind::DOwn) {
        // `alloc::<T>()` of a type with drop glue writes `MaybeUninit::uninit()` over the (zero-filled) slot: nothing
        // in a release build, whatever the stack held in a debug build. No property speaks about those bytes; the
        // debug-build harness defines them as the zeroes the release build leaves, so that both builds see one memory.
        if cfg!(debug_assertions) && !self.cur().read_only() {
          let a = self.cur();
          if off.checked_add(cap).is_some_and(|e| e <= a.capacity()) {
            unsafe { std::ptr::write_bytes(a.raw_mut_ptr().add(off), 0, cap) };
          }
        }
        let m = self.cur().memory();
        off.checked_add(cap).filter(|e| *e <= m.len()).is_some_and(|e| m[off..e].iter().all(|b| *b == 0))
      } else {
        Self::all_zero(slot.ptr(), cap)
      };
      s.push_str(&format!(" z={}", zero as u8));
    }
    self.handles.insert(id, slot);
    s
  }

  /// Executes the operation; `None` = `bad-op`. The result lacks the trailing `<STATE>`.
  fn exec_in(&mut self, t: &[&str]) -> Option<String> {
    // allocations go through the current (lowest) arena value; everything that only looks at the arena, and the
    // operations on the arena as a whole, go through the most recent value (a clone, if there is one): all values
    // must behave as the same arena
    let a = if matches!(
      t[0],
      "rd" | "rd_var" | "slices" | "checksum" | "rres" | "rewind" | "clear" | "discard_freelist" | "set_minseg" | "inc_discarded"
        | "flush"
    ) {
      self.newest()
    } else {
      self.cur()
    };
    let argc = |n: usize| (t.len() == n).then_some(());
    const NOHANDLE: &str = "r=nohandle";
    Some(match t[0] {
      // ---- allocation ------------------------------------------------------------------
      "alloc_bytes" | "alloc_bytes_owned" => {
        argc(3)?;
        let (h, n): (u32, u32) = (parse(t[1])?, parse(t[2])?);
        if self.handles.contains_key(&h) {
          return None;
        }
        let owned = t[0].ends_with("_owned");
        let r = if owned {
          a.alloc_bytes_owned(n).map(Handle::BOwn)
        } else {
          a.alloc_bytes(n).map(Handle::BRef)
        };
        let kind = if owned { HKind::BytesOwn } else { HKind::BytesRef };
        match r {
          Ok(hd) => self.admit(h, hd, kind, None, true),
          Err(e) => format!("r={}", err_name(&e)),
        }
      }
      "alloc_aligned" | "alloc_aligned_owned" => {
        argc(5)?;
        let (h, al, sz, n): (u32, u64, u64, u32) =
          (parse(t[1])?, parse(t[2])?, parse(t[3])?, parse(t[4])?);
        if self.handles.contains_key(&h) || !in_table(al, sz) {
          return None;
        }
        let owned = t[0].ends_with("_owned");
        let kind = if owned { HKind::BytesOwn } else { HKind::BytesRef };
        match dispatch(al, sz, VAllocAligned { a, n, owned })? {
          Ok(hd) => self.admit(h, hd, kind, Some(al), false),
          Err(e) => format!("r={}", err_name(&e)),
        }
      }
      "alloc_t" | "alloc_t_owned" => {
        argc(4)?;
        let (h, al, sz): (u32, u64, u64) = (parse(t[1])?, parse(t[2])?, parse(t[3])?);
        if self.handles.contains_key(&h) || !in_table(al, sz) {
          return None;
        }
        let owned = t[0].ends_with("_owned");
        let kind = if owned { HKind::TOwn } else { HKind::TRef };
        match dispatch(al, sz, VAllocT { a, owned })? {
          Ok(hd) => self.admit(h, hd, kind, Some(al), true),
          Err(e) => format!("r={}", err_name(&e)),
        }
      }
      "alloc_z" | "alloc_z_owned" => {
        argc(2)?;
        let h: u32 = parse(t[1])?;
        if self.handles.contains_key(&h) {
          return None;
        }
        let owned = t[0].ends_with("_owned");
        let kind = if owned { HKind::TOwn } else { HKind::TRef };
        let r: Result<Handle<A>, Error> = unsafe {
          if owned {
            a.alloc_owned::<ZstDrop>().map(|mut o| {
              o.write(ZstDrop);
              Handle::Obj(Box::new(o))
            })
          } else {
            a.alloc::<ZstDrop>().map(|mut r| {
              r.write(ZstDrop);
              Handle::Obj(Box::new(r))
            })
          }
        };
        match r {
          Ok(hd) => self.admit(h, hd, kind, Some(1), true),
          Err(e) => format!("r={}", err_name(&e)),
        }
      }
      "alloc_d" | "alloc_d_owned" => {
        argc(2)?;
        let h: u32 = parse(t[1])?;
        if self.handles.contains_key(&h) {
          return None;
        }
        let owned = t[0].ends_with("_owned");
        let kind = if owned { HKind::DOwn } else { HKind::DRef };
        let r: Result<Handle<A>, Error> = unsafe {
          if owned {
            a.alloc_owned::<DropCounter>().map(|mut o| {
              o.write(DropCounter::new());
              Handle::Obj(Box::new(o))
            })
          } else {
            a.alloc::<DropCounter>().map(|mut r| {
              r.write(DropCounter::new());
              Handle::Obj(Box::new(r))
            })
          }
        };
        match r {
          Ok(hd) => self.admit(h, hd, kind, Some(8), true),
          Err(e) => format!("r={}", err_name(&e)),
        }
      }
      // ---- handles ---------------------------------------------------------------------
      "fill" => {
        argc(3)?;
        let (h, b): (u32, u8) = (parse(t[1])?, parse(t[2])?);
        match self.handles.get_mut(&h) {
          Some(s) if !matches!(s.kind, HKind::DRef | HKind::DOwn) => {
            let cap = s.dims()[1];
            if cap > 0 {
              unsafe { std::ptr::write_bytes(s.ptr(), b, cap) };
            }
            "r=ok".to_string()
          }
          _ => NOHANDLE.to_string(),
        }
      }
      "drop" | "detach" => {
        argc(2)?;
        let h: u32 = parse(t[1])?;
        match self.handles.remove(&h) {
          None => NOHANDLE.to_string(),
          Some(mut s) => {
            if t[0] == "detach" {
              s.detach();
            }
            drop(s);
            format!("r=ok dc={}", DropCounter::drops())
          }
        }
      }
      // `detach()` on an OWNED handle that then stays alive (it keeps its arena value: refs() stays up) until `drop H`,
      // which releases nothing
      "hold" => {
        argc(2)?;
        let h: u32 = parse(t[1])?;
        match self.handles.get_mut(&h) {
          None => NOHANDLE.to_string(),
          Some(s) if !matches!(s.kind, HKind::BytesOwn) => return None,
          Some(s) => {
            s.detach();
            s.held = true;
            "r=ok".to_string()
          }
        }
      }
      "dealloc" => {
        argc(2)?;
        let h: u32 = parse(t[1])?;
        match self.handles.remove(&h) {
          None => NOHANDLE.to_string(),
          Some(mut s) => {
            s.detach();
            let [_, _, boff, bcap] = s.dims();
            drop(s);
            let ret = unsafe { a.dealloc(boff as u32, bcap as u32) };
            format!("r=ok ret={}", ret as u8)
          }
        }
      }
      // ---- arena -----------------------------------------------------------------------
      "discard_freelist" => {
        argc(1)?;
        match a.discard_freelist() {
          Ok(v) => format!("r=ok val={v}"),
          Err(e) => format!("r={}", err_name(&e)),
        }
      }
      "set_minseg" => {
        argc(2)?;
        a.set_minimum_segment_size(parse(t[1])?);
        "r=ok".to_string()
      }
      "inc_discarded" => {
        argc(2)?;
        a.increase_discarded(parse(t[1])?);
        "r=ok".to_string()
      }
      "rewind" => {
        argc(3)?;
        let pos = match t[1] {
          "start" => ArenaPosition::Start(parse(t[2])?),
          "end" => ArenaPosition::End(parse(t[2])?),
          "cur" => ArenaPosition::Current(parse(t[2])?),
          _ => return None,
        };
        unsafe { a.rewind(pos) };
        "r=ok".to_string()
      }
      "clear" => {
        argc(1)?;
        match unsafe { a.clear() } {
          Ok(()) => "r=ok".to_string(),
          Err(e) => format!("r={}", err_name(&e)),
        }
      }
      "truncate" => {
        argc(2)?;
        let n: usize = parse(t[1])?;
        // `truncate` needs `&mut`; borrowed handles keep shared references to the same value
        // (they re-read `ptr`/`cap` through it on every access)
        let p = *self.arenas.values().next().unwrap();
        // a history generated for the sync flavour (where `truncate` does not exist: `r=na`) keeps its handles alive
        // across the line; replayed on the unsync flavour the line must stay a no-op, or those handles dangle
        if NO_TRUNCATE.load(Ordering::Relaxed) {
          return Some("r=na".to_string());
        }
        match unsafe { (*p).trunc(n) } {
          None => "r=na".to_string(),
          Some(Ok(())) => "r=ok".to_string(),
          Some(Err(e)) => format!("r={}", io_name(&e)),
        }
      }
      "clone" => {
        argc(2)?;
        let c: u32 = parse(t[1])?;
        if c == 0 || self.arenas.contains_key(&c) {
          return None;
        }
        self.arenas.insert(c, Box::into_raw(Box::new(a.clone())));
        "r=ok".to_string()
      }
      "drop_arena" => {
        argc(2)?;
        let c: u32 = parse(t[1])?;
        if !self.arenas.contains_key(&c) {
          NOHANDLE.to_string()
        } else if self.arenas.len() == 1 {
          return None; // the last arena value is never dropped before the end of the case
        } else {
          let p = self.arenas.remove(&c).unwrap();
          unsafe { std::ptr::drop_in_place(p) };
          self.graveyard.push(p);
          "r=ok".to_string()
        }
      }
      // ---- readers ---------------------------------------------------------------------
      "rd" => {
        argc(4)?;
        let (ty, ord) = (t[1], t[2]);
        let off: usize = parse(t[3])?;
        if ord != "be" && ord != "le" {
          return None;
        }
        macro_rules! rd {
          ($($t:ident)*) => { paste::paste! { match (ty, ord) {
            ("u8", _) => a.get_u8(off).map(|v| v.to_string()),
            ("i8", _) => a.get_i8(off).map(|v| v.to_string()),
            $( (stringify!($t), "be") => a.[<get_ $t _be>](off).map(|v| v.to_string()),
               (stringify!($t), "le") => a.[<get_ $t _le>](off).map(|v| v.to_string()), )*
            _ => return None,
          }}};
        }
        // reference decode of memory()[off..off+w] done here, independently of the crate's readers
        let w: usize = match ty { "u8" | "i8" => 1, "u16" | "i16" => 2, "u32" | "i32" => 4, "u64" | "i64" => 8, _ => 16 };
        let reference = |m: &[u8]| -> Option<String> {
          let end = off.checked_add(w)?;
          let b = m.get(off..end)?;
          let mut u: u128 = 0;
          for k in 0..w {
            let byte = if ord == "le" { b[w - 1 - k] } else { b[k] };
            u = (u << 8) | byte as u128;
          }
          Some(if ty.starts_with('i') {
            let bits = 8 * w as u32;
            if bits < 128 && (u >> (bits - 1)) & 1 == 1 { (u as i128 - (1i128 << bits)).to_string() } else { (u as i128).to_string() }
          } else {
            u.to_string()
          })
        };
        match rd!(u16 u32 u64 u128 i16 i32 i64 i128) {
          Ok(v) => format!("r=ok val={v} ref={}", reference(a.memory()).unwrap_or_else(|| "none".to_string())),
          Err(e) => format!("r={}", err_name(&e)),
        }
      }
      "rd_var" => {
        argc(3)?;
        let ty = t[1];
        let off: usize = parse(t[2])?;
        macro_rules! rdv {
          ($($t:ident)*) => { paste::paste! { match ty {
            $( stringify!($t) => a.[<get_ $t _varint>](off).map(|(n, v)| (n, v.to_string())), )*
            _ => return None,
          }}};
        }
        // independent reference: canonical LEB128 (zig-zag for the signed types) decoded from `memory()` below
        // `allocated()`; `none` when the bytes there are not a complete canonical encoding that fits the type
        let (bits, signed): (u32, bool) = match ty {
          "u16" => (16, false), "u32" => (32, false), "u64" => (64, false), "u128" => (128, false),
          "i16" => (16, true), "i32" => (32, true), "i64" => (64, true), "i128" => (128, true),
          _ => return None,
        };
        let reference = (|| -> Option<String> {
          // (not under the controlled scheduler: the load of the cursor would be an access of the trace)
          if sched::is_worker() {
            return None;
          }
          let al = a.allocated();
          let m = a.memory();
          if off >= al || al > m.len() {
            return None;
          }
          let maxb = ((bits + 6) / 7) as usize;
          let w = &m[off..al.min(off + maxb)];
          let mut v: u128 = 0;
          let mut n = 0usize;
          loop {
            let b = *w.get(n)?;
            let part = (b & 0x7f) as u128;
            let sh = 7 * n as u32;
            if sh > 0 && (part << sh) >> sh != part {
              return None; // does not fit 128 bits
            }
            v |= part << sh;
            n += 1;
            if b & 0x80 == 0 {
              break;
            }
          }
          if bits < 128 && v >> bits != 0 {
            return None;
          }
          let need = (((128 - v.leading_zeros()).max(1) + 6) / 7) as usize;
          if need != n {
            return None; // over-long encoding: not canonical, no claim
          }
          Some(if signed {
            let z = ((v >> 1) as i128) ^ -((v & 1) as i128);
            format!("{n}:{z}")
          } else {
            format!("{n}:{v}")
          })
        })()
        .unwrap_or_else(|| "none".to_string());
        match rdv!(u16 u32 u64 u128 i16 i32 i64 i128) {
          Ok((n, v)) => format!("r=ok n={n} val={v} vref={reference}"),
          Err(e) => format!("r={} vref={reference}", err_name(&e)),
        }
      }
      "slices" => {
        argc(1)?;
        format!(
          "r=ok val={},{},{},{}",
          a.allocated_memory().len(),
          a.data().len(),
          a.memory().len(),
          a.reserved_slice().len()
        )
      }
      "checksum" => {
        argc(2)?;
        // the property's own words: `allocated_memory()[reserved_bytes()..]` (not `reserved_slice().len()`, which is
        // what the crate's `checksum` uses internally)
        if sched::is_worker() {
          // under the controlled scheduler the reference (a second load of the cursor) would be an access of the trace
          let val = match t[1] {
            "crc32" => a.checksum(&Crc32::new()),
            "ordsum" => a.checksum(&OrdSum),
            _ => return None,
          };
          return Some(format!("r=ok val={val} ref={val}"));
        }
        let am = a.allocated_memory();
        let reference = am.get(a.reserved_bytes()..).unwrap_or(&[]);
        let (val, rf) = match t[1] {
          "crc32" => (a.checksum(&Crc32::new()), crc32fast::hash(reference) as u64),
          "ordsum" => (a.checksum(&OrdSum), OrdSum.checksum_one(reference)),
          _ => return None,
        };
        format!("r=ok val={val} ref={rf}")
      }
      "info" => {
        argc(1)?;
        // every arena value (the original and its clones) must describe the same arena: the answer is that of the
        // current value, or of the first value that disagrees with it
        let describe = |a: &A| {
          format!(
            "r=ok val={},{},{},{},{},{},{},{},{},{},{},{},{}",
            a.unify() as u8,
            a.read_only() as u8,
            a.is_map() as u8,
            a.is_ondisk() as u8,
            a.is_inmemory() as u8,
            a.is_map_anon() as u8,
            a.is_map_file() as u8,
            a.path().is_some() as u8,
            a.magic_version(),
            a.version(),
            a.page_size(),
            a.reserved_bytes(),
            a.data_offset()
          )
        };
        let first = describe(a);
        self
          .arenas
          .values()
          .map(|p| describe(unsafe { &**p }))
          .find(|d| *d != first)
          .unwrap_or(first)
      }
      // the reserved slice as the user sees it: length and position-weighted byte sum (mod 2^32)
      "rres" => {
        argc(1)?;
        let r = a.reserved_slice();
        let sum = r.iter().enumerate().fold(0u64, |acc, (i, b)| (acc + (i as u64 + 1) * *b as u64) % (1u64 << 32));
        format!("r=ok val={},{}", r.len(), sum)
      }
      "wres" => {
        argc(2)?;
        let b: u8 = parse(t[1])?;
        unsafe { a.reserved_slice_mut() }.fill(b);
        "r=ok".to_string()
      }
      // ---- file operations that need an arena (PROTOCOL_FILE.md) -------------------------
      "flush" => {
        argc(1)?;
        match a.flush() {
          Ok(()) => "r=ok".to_string(),
          Err(e) => format!("r={}", io_name(&e)),
        }
      }
      "remove_on_drop" => {
        argc(2)?;
        let b = match t[1] {
          "0" => false,
          "1" => true,
          _ => return None,
        };
        a.remove_on_drop(b);
        "r=ok".to_string()
      }
      // ---- buffer operations -----------------------------------------------------------
      "put" | "get" | "put_var" | "get_var" | "put_varu" | "get_varu" | "wput" | "wput_var" | "put_slice" | "iowrite" | "set_len"
      | "align_to" | "put_aligned" | "putT" => {
        if t.len() < 2 {
          return None;
        }
        let h: u32 = parse(t[1])?;
        let (base, cap) = (a.raw_ptr() as usize, a.capacity());
        // validate the arguments before looking at the handle so that malformed lines are
        // `bad-op` no matter what the handle is
        Self::check_buf_args(t)?;
        // implementation-side oracle `oo`: did the call leave every byte of memory() outside the
        // accessible range [offset, offset+capacity) of this handle unchanged?
        let dims = self.handles.get(&h).map(|s| s.dims());
        let before: Vec<u8> = unsafe { std::slice::from_raw_parts(base as *const u8, cap) }.to_vec();
        let res = match self.handles.get_mut(&h) {
          Some(Slot { h: Handle::BRef(b), .. }) => Self::buf_op(b, t, base, cap)?,
          Some(Slot { h: Handle::BOwn(b), .. }) => Self::buf_op(b, t, base, cap)?,
          _ => return Some(NOHANDLE.to_string()),
        };
        let after = unsafe { std::slice::from_raw_parts(base as *const u8, cap) };
        let [off, hcap, _, _] = dims.unwrap_or([0, 0, 0, 0]);
        let oo = before
          .iter()
          .zip(after.iter())
          .enumerate()
          .all(|(i, (x, y))| x == y || (i >= off && i < off + hcap));
        format!("{res} oo={}", oo as u8)
      }
      _ => return None,
    })
  }

  /// Syntactic validation of a buffer operation (arity, type names, table membership).
  fn check_buf_args(t: &[&str]) -> Option<()> {
    const INTS: [&str; 12] =
      ["u8", "i8", "u16", "u32", "u64", "u128", "usize", "i16", "i32", "i64", "i128", "isize"];
    const VARS: [&str; 8] = ["u16", "u32", "u64", "u128", "i16", "i32", "i64", "i128"];
    let ord_ok = |o: &str| matches!(o, "be" | "le" | "ne");
    let ok = match t[0] {
      "put" => t.len() == 5 && INTS.contains(&t[2]) && ord_ok(t[3]),
      "wput" => t.len() == 5 && INTS.contains(&t[2]) && !matches!(t[2], "u8" | "i8") && ord_ok(t[3]),
      "wput_var" => t.len() == 4 && VARS.contains(&t[2]),
      "get" => t.len() == 4 && INTS.contains(&t[2]) && ord_ok(t[3]),
      "put_var" | "put_varu" => t.len() == 4 && VARS.contains(&t[2]),
      "get_var" | "get_varu" => t.len() == 3 && VARS.contains(&t[2]),
      "put_slice" | "iowrite" => {
        t.len() == 4 && parse::<usize>(t[2]).is_some_and(|l| l <= MAX_SLICE) && parse::<u8>(t[3]).is_some()
      }
      "set_len" => t.len() == 3 && parse::<usize>(t[2]).is_some(),
      "align_to" => t.len() == 4 && in_table(parse(t[2])?, parse(t[3])?),
      "put_aligned" => t.len() == 5 && in_table(parse(t[2])?, parse(t[3])?) && parse::<u8>(t[4]).is_some(),
      // `putT` ignores A (a byte array of size S and alignment 1 is written), S in 0..=64
      "putT" => {
        t.len() == 5 && parse::<u64>(t[2]).is_some() && parse::<u64>(t[3])? <= 64 && parse::<u8>(t[4]).is_some()
      }
      _ => false,
    };
    ok.then_some(())
  }

  /// A buffer operation on a byte buffer handle; the answer ends with `len=`.
  /// `base`/`cap`: the arena memory, to express returned pointers as arena offsets.
  fn buf_op<B: BytesLike + std::ops::Deref<Target = [u8]>>(
    b: &mut B,
    t: &[&str],
    base: usize,
    cap: usize,
  ) -> Option<String> {
    // `po=`: arena offset of a returned pointer; `dangling` for zero-sized T and for pointers
    // that do not point into the arena (the dangling pointer of an empty owned buffer)
    let po = |p: *mut u8, size: u64| -> String {
      let p = p as usize;
      if size == 0 || p < base || p > base + cap {
        "dangling".to_string()
      } else {
        (p - base).to_string()
      }
    };
    let body = match t[0] {
      "put" => match b.put_int(t[2], t[3], t[4])? {
        true => "r=ok".to_string(),
        false => "r=InsufficientBuffer".to_string(),
      },
      "get" => match b.get_int(t[2], t[3])? {
        Some(v) => format!("r=ok val={v}"),
        None => "r=IncompleteBuffer".to_string(),
      },
      "wput" => match b.write_int(t[2], t[3], t[4])? {
        true => "r=ok".to_string(),
        false => "r=InsufficientBuffer".to_string(),
      },
      "wput_var" => match b.write_var(t[2], t[3])? {
        Some(n) => format!("r=ok n={n}"),
        None => "r=InsufficientBuffer".to_string(),
      },
      "put_var" => match b.put_var(t[2], t[3])? {
        Some(n) => format!("r=ok n={n}"),
        None => "r=InsufficientBuffer".to_string(),
      },
      "get_var" => match b.get_var(t[2])? {
        Some((n, v)) => format!("r=ok n={n} val={v}"),
        None => "r=Varint".to_string(),
      },
      "put_varu" => format!("r=ok n={}", b.put_varu(t[2], t[3])?),
      "get_varu" => {
        let (n, v) = b.get_varu(t[2])?;
        format!("r=ok n={n} val={v}")
      }
      "put_slice" => {
        let (l, x): (usize, u8) = (parse(t[2])?, parse(t[3])?);
        match b.put_slice_(&vec![x; l]) {
          true => "r=ok".to_string(),
          false => "r=InsufficientBuffer".to_string(),
        }
      }
      // `std::io::Write::write` of the handle: the contract of `put_slice` (all of the slice or an error and no change);
      // a short count is printed as such (the model never prints it)
      "iowrite" => {
        let (l, x): (usize, u8) = (parse(t[2])?, parse(t[3])?);
        match b.io_write_(&vec![x; l]) {
          Some(n) if n == l => "r=ok".to_string(),
          Some(n) => format!("r=short n={n}"),
          None => "r=InsufficientBuffer".to_string(),
        }
      }
      "set_len" => {
        // implementation-side oracle `sz`: the bytes `set_len` exposes or hides read as zeroes afterwards (printed only
        // when they do not)
        let (old, new): (usize, usize) = (b.len(), parse(t[2])?);
        // (an empty buffer derefs to an empty slice whose pointer means nothing: take the start while there are bytes)
        let p0 = (old > 0).then(|| b.as_ptr());
        b.set_len_(new);
        let p1 = (new > 0).then(|| b.as_ptr());
        let (lo, hi) = (old.min(new), old.max(new));
        let clean = match p0.or(p1) {
          Some(p) => {
            let all: &[u8] = unsafe { std::slice::from_raw_parts(p, hi) };
            all[lo..hi].iter().all(|x| *x == 0)
          }
          None => true,
        };
        if clean {
          "r=ok".to_string()
        } else {
          "r=ok sz=0".to_string()
        }
      }
      "align_to" | "put_aligned" | "putT" => {
        let (al, sz): (u64, u64) = (parse(t[2])?, parse(t[3])?);
        let (al, op) = match t[0] {
          "align_to" => (al, TypedBufOp::AlignTo),
          "put_aligned" => (al, TypedBufOp::PutAligned(parse(t[4])?)),
          _ => (1, TypedBufOp::PutT(parse(t[4])?)),
        };
        match dispatch(al, sz, VBuf { b: &mut *b, op })? {
          Ok(Some(p)) => {
            let g = (al as usize).min(GUARANTEED_ALIGN.load(Ordering::Relaxed) as usize).max(1);
            let pa = if po(p, sz) == "dangling" { 0 } else { p as usize % g };
            format!("r=ok po={} pa={pa}", po(p, sz))
          }
          Ok(None) => "r=ok".to_string(),
          Err(()) => "r=InsufficientBuffer".to_string(),
        }
      }
      _ => return None,
    };
    Some(format!("{body} len={}", b.len()))
  }

  fn exec_line(&mut self, line: &str) -> String {
    if self.dead {
      return "r=nocase".to_string();
    }
    let t: Vec<&str> = line.split(' ').collect();
    seq_hook::reset_steps();
    let body = catch_unwind(AssertUnwindSafe(|| self.exec_in(&t)));
    let spun = seq_hook::diverged();
    seq_hook::reset_steps();
    let state = catch_unwind(AssertUnwindSafe(|| self.state()));
    match (body, state) {
      (Ok(None), _) => "bad-op".to_string(),
      (Ok(Some(b)), Ok(s)) => format!("{b} {s}"),
      (Err(_), Ok(s)) if spun => format!("r=diverge {s}"),
      (Err(_), Ok(s)) => {
        // a panicking buffer operation still reports the length of its handle
        let len = matches!(
          t[0],
          "put" | "get" | "put_var" | "get_var" | "put_varu" | "get_varu" | "wput" | "wput_var" | "put_slice" | "iowrite" | "set_len" | "align_to" | "put_aligned" | "putT"
        )
        .then(|| t.get(1).and_then(|h| parse::<u32>(h)).and_then(|h| self.handles.get(&h)).and_then(|s| s.len()))
        .flatten();
        match len {
          Some(l) if PANIC_CARRIES_LEN => format!("r=panic len={l} {s}"),
          _ => format!("r=panic {s}"),
        }
      }
      (_, Err(_)) => {
        self.dead = true;
        "r=panic".to_string()
      }
    }
  }
}

impl<A: Flavour> CaseApi for Case<A> {
  fn exec(&mut self, line: &str) -> String {
    self.exec_line(line)
  }

  fn live(&self) -> Vec<HandleInfo> {
    let mut v: Vec<HandleInfo> = self
      .handles
      .iter()
      .filter(|(_, s)| !s.held)
      .map(|(id, s)| {
        let [off, cap, boff, bcap] = s.dims();
        HandleInfo { id: *id, kind: s.kind, off, cap, boff, bcap, len: s.len().unwrap_or(0), arena: s.arena }
      })
      .collect();
    v.sort_by_key(|h| h.id);
    v
  }

  fn arena(&self) -> ArenaInfo {
    if self.dead {
      return ArenaInfo::default();
    }
    let a = self.cur();
    ArenaInfo {
      allocated: a.allocated(),
      remaining: a.remaining(),
      capacity: a.capacity(),
      data_offset: a.data_offset(),
      reserved: a.reserved_bytes(),
      page_size: a.page_size(),
      minseg: a.minimum_segment_size(),
      fl: a.snap(4096).0,
      arenas: self.arenas.keys().copied().collect(),
    }
  }
}

impl<A: Flavour> Drop for Case<A> {
  /// End of the case: detach every handle (nothing is released into a dying arena), drop the
  /// handles, then the arena values, then the backing file.
  fn drop(&mut self) {
    let _ = catch_unwind(AssertUnwindSafe(|| {
      for (_, mut s) in self.handles.drain() {
        s.detach();
        drop(s);
      }
      for (_, p) in std::mem::take(&mut self.arenas) {
        drop(unsafe { Box::from_raw(p) });
      }
      for p in self.graveyard.drain(..) {
        // already dropped in place: only free the box
        drop(unsafe { Box::from_raw(p as *mut std::mem::ManuallyDrop<A>) });
      }
    }));
    if let Some(f) = &self.file {
      let _ = std::fs::remove_file(f);
    }
  }
}

/// Starts the case described by `cfg_line` (`force_sync` overrides the flavour of the line).
/// Returns the running case (if the arena could be built) and the answer to the `cfg` line.
pub fn open_case(
  cfg_line: &str,
  force_sync: Option<bool>,
  tmp: &Path,
  case_no: u64,
) -> (Option<Box<dyn CaseApi>>, String) {
  let Some(mut cfg) = Cfg::parse(cfg_line) else {
    return (None, "bad-op".to_string());
  };
  NO_TRUNCATE.store(force_sync == Some(false) && cfg.sync, Ordering::Relaxed);
  if let Some(s) = force_sync {
    cfg.sync = s;
  }
  if cfg.sync {
    let (c, ans) = Case::<sync::Arena>::open(&cfg, tmp, case_no);
    (c.map(|c| Box::new(c) as Box<dyn CaseApi>), ans)
  } else {
    let (c, ans) = Case::<unsync::Arena>::open(&cfg, tmp, case_no);
    (c.map(|c| Box::new(c) as Box<dyn CaseApi>), ans)
  }
}

/// The value of `key` (e.g. `"boff="`) in an observation line.
pub fn field<'a>(ans: &'a str, key: &str) -> Option<&'a str> {
  ans.split(' ').find_map(|tok| tok.strip_prefix(key))
}

// ---------------------------------------------------------------------------------------------
// File sessions (PROTOCOL_FILE.md): a case that can be closed and reopened
// ---------------------------------------------------------------------------------------------
//
// Readings chosen where PROTOCOL_FILE.md leaves room:
// * the session-level lines (`close`, `reopen`, `mutate_file`, `truncate_file`, `random_file`,
//   `delete_file`, `filehash`) are `bad-op` in a case whose backend is not `file`; `flush` and
//   `remove_on_drop` are ordinary arena operations and work with every backend;
// * `mutate_file` / `truncate_file` / `random_file` / `delete_file` while the case is open are
//   `bad-op` (like `reopen`); `close` while closed is `r=closed`;
// * while closed a line whose first token is a known operation is `r=closed`, anything else `bad-op`;
// * wherever `fh= flen=` is printed and the file does not exist: `fh=none flen=none` (e.g. `close`
//   after `remove_on_drop 1`); `mutate_file` of a missing file is `bad-op` (no length);
// * an I/O error of `truncate_file` / `random_file` / `delete_file` is `r=io:<Kind>` (+ `fh= flen=`
//   where the `r=ok` answer has them); a panic inside an open is `r=panic fh= flen=`;
// * `truncate_file N` / `random_file SEED N` with `N >` [`MAX_FILE`] are `bad-op`;
// * `ro=` is printed as 0/1 (as in `info`);
// * the `--flavour` override of `seq run` also overrides `flavour=` of every `reopen`;
// * `cap=same` is the `cap` of the `cfg` line, whatever happened to the file since.

/// Largest file `truncate_file` / `random_file` will produce.
pub const MAX_FILE: u64 = 1 << 26;

/// Overrides applied to every `cfg` line (`sync` also to every `reopen`).
#[derive(Clone, Copy, Debug, Default)]
pub struct Overrides {
  pub sync: Option<bool>,
  /// 0 vec, 1 anon, 2 file
  pub backend: Option<u8>,
  pub unify: Option<bool>,
}

/// `fh=<FNV-1a 64 of the raw file bytes> flen=<length>`; `fh=none flen=none` without a file.
pub fn file_sig(p: &Path) -> String {
  match std::fs::read(p) {
    Ok(b) => format!("fh={:016x} flen={}", fnv1a(FNV_OFFSET, &b), b.len()),
    Err(_) => "fh=none flen=none".to_string(),
  }
}

#[derive(Clone, Copy, PartialEq, Eq, Debug)]
enum MapMode {
  Mut,
  Copy,
  Ro,
  CopyRo,
}

/// A parsed `reopen` line.
#[derive(Clone, Debug)]
struct Reopen {
  mode: MapMode,
  /// `None` = `cap=none`
  cap: Option<u32>,
  magic: u16,
  freelist: u8,
  /// 0 = neither, 1 = `with_create(true)`, 2 = `with_create_new(true)`, 3 = both
  create: u8,
  sync: bool,
  reserved: u32,
  minseg: u32,
  /// optional token `trunc=1`: the Options value carries `with_truncate(true)`; only meaningful (and only
  /// accepted) for the read-only modes, whose open must clear it
  trunc: bool,
  /// optional token `pb=1`: open through the `*_with_path_builder` entry point of the same mode
  pb: bool,
  /// optional token `nw=1` (mode `copy` only): the Options value has no `with_write(true)` — a private copy-on-write
  /// mapping needs no write access to the file and is a writable arena all the same
  nw: bool,
}

impl Reopen {
  /// `same_cap`: what `cap=same` stands for
  fn parse(t: &[&str], same_cap: u32) -> Option<Reopen> {
    if t.len() < 9 || t.len() > 12 || t[0] != "reopen" {
      return None;
    }
    let (mut trunc, mut pb, mut nw) = (false, false, false);
    for x in &t[9..] {
      match *x {
        "trunc=0" => trunc = false,
        "trunc=1" => trunc = true,
        "pb=0" => pb = false,
        "pb=1" => pb = true,
        "nw=0" => nw = false,
        "nw=1" => nw = true,
        _ => return None,
      }
    }
    if nw && t[1] != "copy" {
      return None;
    }
    if trunc && !matches!(t[1], "ro" | "copy_ro") {
      return None;
    }
    let val = |i: usize, key: &str| -> Option<&str> { t[i].strip_prefix(key)?.strip_prefix('=') };
    Some(Reopen {
      mode: match t[1] {
        "mut" => MapMode::Mut,
        "copy" => MapMode::Copy,
        "ro" => MapMode::Ro,
        "copy_ro" => MapMode::CopyRo,
        _ => return None,
      },
      cap: match val(2, "cap")? {
        "same" => Some(same_cap),
        "none" => None,
        n => Some(n.parse().ok()?),
      },
      magic: val(3, "magic")?.parse().ok()?,
      freelist: FREELISTS.iter().position(|x| *x == val(4, "freelist").unwrap_or(""))? as u8,
      create: match val(5, "create")? {
        "0" => 0,
        "1" => 1,
        "2" => 2,
        "3" => 3,
        _ => return None,
      },
      sync: match val(6, "flavour")? {
        "sync" => true,
        "unsync" => false,
        _ => return None,
      },
      reserved: val(7, "reserved")?.parse().ok()?,
      minseg: val(8, "minseg")?.parse().ok()?,
      trunc,
      pb,
      nw,
    })
  }
}

/// What a [`Session`] needs from its running case beyond [`CaseApi`].
trait CaseInner: CaseApi {
  /// the session takes over the backing file (the case no longer removes it when dropped)
  fn disown_file(&mut self) -> Option<PathBuf>;
  /// `doff= ro= fk= mv=` and `<STATE>` of a reopened arena; `None` = they cannot be observed
  /// (the case is dead from then on)
  fn reopen_obs(&mut self) -> Option<(String, String)>;
  /// End of the arena with the OWNED handle `h` as the last owner: every other handle is detached and dropped, every
  /// arena value is dropped, and only then `h` is dropped WITHOUT being detached (it releases its extent through the
  /// clone it embeds, whose drop then releases the memory). `false` = no such owned handle (nothing done).
  fn close_last(&mut self, h: u32) -> bool;
}

impl<A: Flavour> CaseInner for Case<A> {
  fn disown_file(&mut self) -> Option<PathBuf> {
    self.file.take()
  }

  fn close_last(&mut self, h: u32) -> bool {
    match self.handles.get(&h) {
      Some(s) if matches!(s.kind, HKind::BytesOwn | HKind::TOwn | HKind::DOwn) => {}
      _ => return false,
    }
    let last = self.handles.remove(&h).expect("checked");
    let _ = catch_unwind(AssertUnwindSafe(|| {
      for (_, mut s) in self.handles.drain() {
        s.detach();
        drop(s);
      }
      for (_, p) in std::mem::take(&mut self.arenas) {
        drop(unsafe { Box::from_raw(p) });
      }
      for p in self.graveyard.drain(..) {
        drop(unsafe { Box::from_raw(p as *mut std::mem::ManuallyDrop<A>) });
      }
      drop(last);
    }));
    self.dead = true;
    true
  }

  fn reopen_obs(&mut self) -> Option<(String, String)> {
    let r = catch_unwind(AssertUnwindSafe(|| {
      let a = self.cur();
      let fk = match a.memory().get(a.reserved_bytes() + 1) {
        Some(0) => "none",
        Some(1) => "opt",
        Some(2) => "pess",
        _ => "?",
      };
      let mut head =
        format!("doff={} ro={} fk={} mv={}", a.data_offset(), a.read_only() as u8, fk, a.magic_version());
      // implementation-side oracle `pol`: the policy the reopened arena value works with is the kind recorded in the
      // file (printed only when it is not)
      let pol = a.policy();
      if pol != fk && fk != "?" {
        head.push_str(&format!(" pol={pol}"));
      }
      (head, self.state())
    }));
    if r.is_err() {
      self.dead = true;
    }
    r.ok()
  }
}

impl<A: Flavour> Case<A> {
  /// Opens the existing file of a closed case as PROTOCOL_FILE.md prescribes. The file stays the
  /// property of the session. `Err` = result kind (`io:<Kind>` or `panic`).
  fn reopen(cfg: &Cfg, r: &Reopen, path: &Path) -> Result<Self, String> {
    let built = catch_unwind(AssertUnwindSafe(|| -> std::io::Result<A> {
      let mut o = Options::new()
        .with_reserved(r.reserved)
        .with_magic_version(r.magic)
        .with_freelist(match r.freelist {
          0 => Freelist::None,
          1 => Freelist::Optimistic,
          _ => Freelist::Pessimistic,
        })
        .with_minimum_segment_size(r.minseg)
        .with_maximum_alignment(cfg.maxalign)
        .with_maximum_retries(cfg.retries)
        .with_offset(cfg.offset)
        .with_lock_meta(cfg.mm & 1 != 0)
        .with_populate(cfg.mm & 2 != 0)
        .with_stack(cfg.mm & 4 != 0)
        .with_read(true)
        .with_write(!r.nw);
      if r.create & 1 != 0 {
        o = o.with_create(true);
      }
      if r.create & 2 != 0 {
        o = o.with_create_new(true);
      }
      if let Some(c) = r.cap {
        o = o.with_capacity(c);
      }
      if r.trunc {
        o = o.with_truncate(true);
      }
      let pbf = || -> Result<std::path::PathBuf, std::io::Error> { Ok(path.to_path_buf()) };
      unsafe {
        match (r.mode, r.pb) {
          (MapMode::Mut, false) => o.map_mut::<A, _>(path),
          (MapMode::Copy, false) => o.map_copy::<A, _>(path),
          (MapMode::Ro, false) => o.map::<A, _>(path),
          (MapMode::CopyRo, false) => o.map_copy_read_only::<A, _>(path),
          (MapMode::Mut, true) => o.map_mut_with_path_builder::<A, _, std::io::Error>(pbf).map_err(|e| e.into_inner()),
          (MapMode::Copy, true) => o.map_copy_with_path_builder::<A, _, std::io::Error>(pbf).map_err(|e| e.into_inner()),
          (MapMode::Ro, true) => o.map_with_path_builder::<A, _, std::io::Error>(pbf).map_err(|e| e.into_inner()),
          (MapMode::CopyRo, true) => {
            o.map_copy_read_only_with_path_builder::<A, _, std::io::Error>(pbf).map_err(|e| e.into_inner())
          }
        }
      }
    }));
    match built {
      Err(_) => Err("panic".to_string()),
      Ok(Err(e)) => Err(io_name(&e)),
      Ok(Ok(arena)) => {
        let mut arenas = BTreeMap::new();
        arenas.insert(0, Box::into_raw(Box::new(arena)));
        Ok(Case { arenas, graveyard: Vec::new(), handles: HashMap::new(), dead: false, file: None })
      }
    }
  }
}

/// How many mappings of `path` this process still has (`/proc/self/maps`; 0 where that file cannot be read): after the
/// last arena value of a file-backed case is gone there must be none, whatever the mode and however the file ended.
fn mappings_of(path: &Path) -> usize {
  let Some(p) = path.to_str() else { return 0 };
  std::fs::read_to_string("/proc/self/maps").map(|m| m.lines().filter(|l| l.contains(p)).count()).unwrap_or(0)
}

/// First tokens of the lines that need an arena (answered `r=closed` while the case is closed).
const ARENA_OPS: [&str; 47] = [
  "alloc_bytes", "alloc_bytes_owned", "alloc_aligned", "alloc_aligned_owned", "alloc_t", "alloc_t_owned",
  "alloc_d", "alloc_d_owned", "alloc_z", "alloc_z_owned", "fill", "drop", "detach", "hold", "dealloc", "discard_freelist", "set_minseg",
  "inc_discarded", "rewind", "clear", "truncate", "clone", "drop_arena", "rd", "rd_var", "slices",
  "checksum", "info", "wres", "rres", "put", "get", "put_var", "get_var", "put_varu", "get_varu", "wput", "wput_var", "put_slice", "iowrite", "set_len", "align_to",
  "put_aligned", "putT", "flush", "remove_on_drop", "close",
];

/// A case plus what outlives its arena: the configuration and the backing file. The running case
/// is `None` between `close` and the next successful `reopen`.
pub struct Session {
  cfg: Cfg,
  force_sync: Option<bool>,
  /// the backing file (`backend=file` only); removed when the session ends
  file: Option<PathBuf>,
  case: Option<Box<dyn CaseInner>>,
  /// is the running arena a shared writable mapping of the file (created, or reopened with `mut`)?
  shared: bool,
  /// flavour of the running arena
  cur_sync: bool,
  /// another open description of the backing file that holds a shared advisory lock (`flock_hold`)
  held: Option<std::fs::File>,
}

extern "C" {
  fn flock(fd: i32, operation: i32) -> i32;
}

impl Session {
  /// The session-level lines; `None` = `bad-op`.
  fn file_op(&mut self, t: &[&str]) -> Option<String> {
    let path = self.file.clone()?; // not a file-backed case: nothing here is meaningful
    let argc = |n: usize| (t.len() == n).then_some(());
    let closed = self.case.is_none();
    let sig = || file_sig(&path);
    let io = |r: std::io::Result<()>| match r {
      Ok(()) => format!("r=ok {}", file_sig(&path)),
      Err(e) => format!("r={} {}", io_name(&e), file_sig(&path)),
    };
    Some(match t[0] {
      // someone else (another open description of the same file) holds a shared advisory lock on the file, until
      // `flock_release`: nothing the arena does to its own file may depend on that
      "flock_hold" => {
        argc(1)?;
        use std::os::fd::AsRawFd;
        self.held = std::fs::File::open(&path).ok().filter(|f| unsafe { flock(f.as_raw_fd(), 1) } == 0);
        "r=ok".to_string()
      }
      "flock_release" => {
        argc(1)?;
        self.held = None;
        "r=ok".to_string()
      }
      "filehash" => {
        argc(1)?;
        format!("r=ok {}", sig())
      }
      // the process is killed NOW (between two operations): copy the file as the page cache holds it, open the copy
      // writable and compare what it finds with the running arena (cursor, discarded, minimum segment, free list,
      // hash of the allocated bytes); `ce=na` for sessions that are not shared writable mappings
      "crashcheck" => {
        argc(1)?;
        if closed {
          return Some("r=closed".to_string());
        }
        if !self.shared {
          return Some("r=ok ce=na cr=na".to_string());
        }
        let crash = path.with_extension("crash");
        let _ = std::fs::remove_file(&crash);
        if std::fs::copy(&path, &crash).is_err() {
          return Some("r=ok ce=0 cr=copy-failed".to_string());
        }
        let pick = |st: &str| -> String {
          st.split(' ').filter(|t| ["al=", "di=", "ms=", "fl=", "ma="].iter().any(|k| t.starts_with(k))).collect::<Vec<_>>().join(" ")
        };
        let live = self.case.as_mut().and_then(|c| c.reopen_obs()).map(|(_, st)| pick(&st));
        let r = Reopen {
          mode: MapMode::Mut,
          cap: None,
          magic: self.cfg.magic,
          freelist: self.cfg.freelist,
          create: 0,
          sync: self.cur_sync,
          reserved: self.cfg.reserved,
          minseg: self.cfg.minseg,
          trunc: false,
          pb: false,
          nw: false,
        };
        let built: Result<Box<dyn CaseInner>, String> = if r.sync {
          Case::<sync::Arena>::reopen(&self.cfg, &r, &crash).map(|c| Box::new(c) as Box<dyn CaseInner>)
        } else {
          Case::<unsync::Arena>::reopen(&self.cfg, &r, &crash).map(|c| Box::new(c) as Box<dyn CaseInner>)
        };
        let ans = match built {
          Err(kind) => format!("r=ok ce=0 cr={kind}"),
          Ok(mut c) => {
            let rec = c.reopen_obs().map(|(_, st)| pick(&st));
            // "every operation on the reopened arena terminates": a request that fresh space cannot serve (the
            // free list is searched), a release that goes to the list, and the removal of every segment
            let rem = c.arena().remaining as u64;
            let mut cp = "ok";
            for l in [
              format!("alloc_bytes 4000000000 {}", rem + 1),
              "alloc_bytes 4000000001 40".to_string(),
              "alloc_bytes 4000000002 1".to_string(),
              "dealloc 4000000001".to_string(),
              "discard_freelist".to_string(),
            ] {
              let a = c.exec(&l);
              if a.starts_with("r=diverge") {
                cp = "diverge";
                break;
              }
              if a.starts_with("r=panic") {
                cp = "panic";
                break;
              }
            }
            drop(c);
            format!("r=ok ce={} cr=ok cp={cp}", (live.is_some() && live == rec) as u8)
          }
        };
        let _ = std::fs::remove_file(&crash);
        ans
      }
      "close" => {
        argc(1)?;
        if closed {
          return Some("r=closed".to_string());
        }
        // `Drop for Case`: detach + drop every handle, then drop every arena value.
        // `um` = how many times the backing memory was REALLY released meanwhile (Hook::unmount): must be 1
        let before = seq_hook::unmounts();
        self.case = None;
        format!("r=ok um={} mp={} {}", seq_hook::unmounts() - before, mappings_of(&path), sig())
      }
      "close_last" => {
        argc(2)?;
        if closed {
          return Some("r=closed".to_string());
        }
        let h: u32 = t[1].parse().ok()?;
        let before = seq_hook::unmounts();
        if !self.case.as_mut().is_some_and(|c| c.close_last(h)) {
          return Some("r=nohandle".to_string());
        }
        self.case = None;
        format!("r=ok um={} mp={} {}", seq_hook::unmounts() - before, mappings_of(&path), sig())
      }
      "reopen" => {
        if !closed {
          return None;
        }
        let mut r = Reopen::parse(t, self.cfg.cap)?;
        if let Some(s) = self.force_sync {
          r.sync = s;
        }
        // implementation-side oracle `pk`: are the bytes that were in the file before this open still there
        // (the file may only have grown)?
        let before = std::fs::read(&path).ok();
        let pk = |path: &Path| -> u8 {
          match (&before, std::fs::read(path).ok()) {
            (Some(b), Some(a)) => (a.len() >= b.len() && a[..b.len()] == b[..]) as u8,
            (None, _) => 1,
            (Some(_), None) => 0,
          }
        };
        let built: Result<Box<dyn CaseInner>, String> = if r.sync {
          Case::<sync::Arena>::reopen(&self.cfg, &r, &path).map(|c| Box::new(c) as Box<dyn CaseInner>)
        } else {
          Case::<unsync::Arena>::reopen(&self.cfg, &r, &path).map(|c| Box::new(c) as Box<dyn CaseInner>)
        };
        match built {
          Err(kind) => format!("r={kind} pk={} {}", pk(&path), sig()),
          Ok(mut c) => {
            let obs = c.reopen_obs();
            self.case = Some(c);
            self.shared = r.mode == MapMode::Mut;
            self.cur_sync = r.sync;
            match obs {
              Some((head, state)) => format!("r=ok {head} pk={} {} {state}", pk(&path), sig()),
              None => "r=panic".to_string(),
            }
          }
        }
      }
      "mutate_file" => {
        argc(3)?;
        let (i, v): (usize, u8) = (parse(t[1])?, parse(t[2])?);
        if !closed {
          return None;
        }
        let mut b = std::fs::read(&path).ok()?;
        *b.get_mut(i)? = v;
        io(std::fs::write(&path, &b))
      }
      "truncate_file" => {
        argc(2)?;
        let n: u64 = parse(t[1])?;
        if !closed || n > MAX_FILE {
          return None;
        }
        io(std::fs::OpenOptions::new().write(true).open(&path).and_then(|f| f.set_len(n)))
      }
      "random_file" => {
        argc(3)?;
        let (seed, n): (u64, u64) = (parse(t[1])?, parse(t[2])?);
        if !closed || n > MAX_FILE {
          return None;
        }
        let mut g = SplitMix64(seed);
        let b: Vec<u8> = (0..n).map(|_| g.next_u64() as u8).collect();
        io(std::fs::write(&path, &b))
      }
      "delete_file" => {
        argc(1)?;
        if !closed {
          return None;
        }
        match std::fs::remove_file(&path) {
          Ok(()) => "r=ok".to_string(),
          Err(e) => format!("r={}", io_name(&e)),
        }
      }
      _ => return None,
    })
  }
}

impl CaseApi for Session {
  fn exec(&mut self, line: &str) -> String {
    let t: Vec<&str> = line.split(' ').collect();
    match t[0] {
      "close" | "reopen" | "mutate_file" | "truncate_file" | "random_file" | "delete_file" | "filehash" | "crashcheck" | "close_last"
      | "flock_hold" | "flock_release" => {
        self.file_op(&t).unwrap_or_else(|| "bad-op".to_string())
      }
      op => match &mut self.case {
        Some(c) => c.exec(line),
        None if ARENA_OPS.contains(&op) => "r=closed".to_string(),
        None => "bad-op".to_string(),
      },
    }
  }

  fn live(&self) -> Vec<HandleInfo> {
    self.case.as_ref().map(|c| c.live()).unwrap_or_default()
  }

  fn arena(&self) -> ArenaInfo {
    self.case.as_ref().map(|c| c.arena()).unwrap_or_default()
  }
}

impl Drop for Session {
  fn drop(&mut self) {
    self.case = None; // unmap first
    if let Some(f) = &self.file {
      let _ = std::fs::remove_file(f);
    }
  }
}

/// Like [`open_case`], with the file operations of PROTOCOL_FILE.md: starts the case described by
/// `cfg_line` (after applying `ov`). Lines of PROTOCOL.md are answered exactly as by [`open_case`].
pub fn open_session(
  cfg_line: &str,
  ov: &Overrides,
  tmp: &Path,
  case_no: u64,
) -> (Option<Box<dyn CaseApi>>, String) {
  let Some(mut cfg) = Cfg::parse(cfg_line) else {
    return (None, "bad-op".to_string());
  };
  NO_TRUNCATE.store(ov.sync == Some(false) && cfg.sync, Ordering::Relaxed);
  if let Some(s) = ov.sync {
    cfg.sync = s;
  }
  if let Some(b) = ov.backend {
    cfg.backend = b;
  }
  if let Some(u) = ov.unify {
    cfg.unify = u;
  }
  let (case, ans): (Option<Box<dyn CaseInner>>, String) = if cfg.sync {
    let (c, ans) = Case::<sync::Arena>::open(&cfg, tmp, case_no);
    (c.map(|c| Box::new(c) as Box<dyn CaseInner>), ans)
  } else {
    let (c, ans) = Case::<unsync::Arena>::open(&cfg, tmp, case_no);
    (c.map(|c| Box::new(c) as Box<dyn CaseInner>), ans)
  };
  let session = case.map(|mut c| {
    let file = c.disown_file();
    let cur_sync = cfg.sync;
    Box::new(Session { cfg, force_sync: ov.sync, file, case: Some(c), shared: true, cur_sync, held: None }) as Box<dyn CaseApi>
  });
  (session, ans)
}


/// The hook of the `seq` binary: passes every access through and counts the real releases of backing memory.
pub mod seq_hook {
  use rarena_allocator::verif::{self, Access, Decision, Hook, Outcome};
  use std::sync::atomic::{AtomicU64, Ordering};

  static UNMOUNTS: AtomicU64 = AtomicU64::new(0);
  /// atomic accesses made by the operation line that is running (reset by `exec_line`)
  static STEPS: AtomicU64 = AtomicU64::new(0);
  /// An operation of the single-threaded `seq` driver that makes more atomic accesses than this is spinning (the
  /// longest honest ones are list traversals: a few accesses per segment).
  pub const STEP_LIMIT: u64 = 4_000_000;
  struct SeqHook;
  static HOOK: SeqHook = SeqHook;

  impl Hook for SeqHook {
    fn before(&self, _a: &Access) -> Decision {
      if STEPS.fetch_add(1, Ordering::Relaxed) == STEP_LIMIT {
        panic!("diverge: more than {STEP_LIMIT} atomic accesses in one operation");
      }
      Decision::Proceed
    }
    fn after(&self, _a: &Access, _o: &Outcome) {}
    fn unmount(&self, _base: usize, _cap: usize) {
      UNMOUNTS.fetch_add(1, Ordering::Relaxed);
    }
  }

  /// start of an operation line
  pub fn reset_steps() {
    STEPS.store(0, Ordering::Relaxed);
  }

  /// did the running line hit the step limit?
  pub fn diverged() -> bool {
    STEPS.load(Ordering::Relaxed) > STEP_LIMIT
  }

  /// number of `Memory::unmount` calls so far in this process
  pub fn unmounts() -> u64 {
    UNMOUNTS.load(Ordering::Relaxed)
  }

  /// installs the hook (the `seq` binary only; `sched` installs its own)
  pub fn install() {
    let _ = verif::set_hook(&HOOK);
  }
}
