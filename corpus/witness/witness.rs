// Witnesses of the defects F1..F17 of DESIGN.md section 8: each test fails on the
// pinned tree and passes on the repaired one.
use rarena_allocator::{sync, unsync, Allocator, ArenaPosition, Buffer, Freelist, Options};

fn opts(cap: u32) -> Options {
  Options::new().with_capacity(cap).with_unify(true)
}

macro_rules! both {
  ($name:ident, $body:expr) => {
    mod $name {
      use super::*;
      #[test]
      fn sync_() {
        let f: fn(sync::Arena) = $body;
        f(opts(1024).alloc::<sync::Arena>().unwrap());
      }
      #[test]
      fn unsync_() {
        let f: fn(unsync::Arena) = $body;
        f(opts(1024).alloc::<unsync::Arena>().unwrap());
      }
    }
  };
}

// F1: size arithmetic wraps
#[test]
fn f1_alloc_bytes_max_sync() {
  let a = opts(1024).alloc::<sync::Arena>().unwrap();
  let before = a.allocated();
  assert!(a.alloc_bytes(u32::MAX).is_err());
  assert!(a.alloc_bytes(u32::MAX - 10).is_err());
  assert!(a.alloc_aligned_bytes::<u64>(u32::MAX - 3).is_err());
  assert!(a.alloc_aligned_bytes::<u64>(u32::MAX - 14).is_err());
  assert_eq!(a.allocated(), before);
}
#[test]
fn f1_alloc_bytes_max_unsync() {
  let a = opts(1024).alloc::<unsync::Arena>().unwrap();
  let before = a.allocated();
  assert!(a.alloc_bytes(u32::MAX).is_err());
  assert!(a.alloc_bytes(u32::MAX - 10).is_err());
  assert!(a.alloc_aligned_bytes::<u64>(u32::MAX - 3).is_err());
  assert!(a.alloc_aligned_bytes::<u64>(u32::MAX - 14).is_err());
  assert_eq!(a.allocated(), before);
}

// F2: get_*_le decodes big endian
#[test]
fn f2_le_roundtrip() {
  let a = opts(1024).alloc::<unsync::Arena>().unwrap();
  let mut b = a.alloc_bytes(16).unwrap();
  b.put_u16_le(0x1234).unwrap();
  assert_eq!(b.get_u16_le().unwrap(), 0x1234);
  b.put_u32_ne(0x1234_5678).unwrap();
  assert_eq!(b.get_u32_ne().unwrap(), 0x1234_5678);
  b.put_u64_be(0x1234_5678).unwrap();
  assert_eq!(b.get_u64_be().unwrap(), 0x1234_5678);
}

// F3: align_to aligns relative to memory_offset instead of the buffer's own offset
#[test]
fn f3_align_to() {
  let a = Options::new().with_capacity(1024).alloc::<unsync::Arena>().unwrap(); // data_offset 1
  let mut b = a.alloc_aligned_bytes::<u64>(16).unwrap();
  assert_eq!(b.offset() % 8, 0);
  b.put_u8(1).unwrap();
  let base = b.as_mut_ptr() as usize;
  let p = b.align_to::<u32>().unwrap();
  let off = p.as_ptr() as usize - base + b.offset();
  assert_eq!(off % 4, 0, "pointer offset {off}");
  assert!(off + 4 <= b.offset() + b.capacity());
}

// F4: put_aligned has no capacity check
#[test]
fn f4_put_aligned() {
  let a = opts(1024).alloc::<unsync::Arena>().unwrap();
  let mut b = a.alloc_bytes(4).unwrap();
  let mut c = a.alloc_bytes(16).unwrap();
  c.put_slice(&[0xAA; 16]).unwrap();
  let r = unsafe { b.put_aligned::<u64>(u64::MAX).is_err() };
  assert!(r, "put_aligned of 8 bytes into a 4 byte buffer must fail");
  assert_eq!(&c[..], &[0xAA; 16]);
}

// F5: reader guard overflows
#[test]
fn f5_reader_guard() {
  let a = opts(1024).alloc::<unsync::Arena>().unwrap();
  assert!(a.get_u32_le(usize::MAX - 1).is_err());
  assert!(a.get_u16_be(usize::MAX).is_err());
  assert!(a.get_u128_le(usize::MAX - 15).is_err());
}

// F6: rewind(Current(huge)) overflows
both!(f6_rewind_overflow, |a| {
  let _ = a.alloc_bytes(100).map(|mut b| unsafe { b.detach() });
  unsafe { a.rewind(ArenaPosition::Current(i64::MAX)) };
  assert_eq!(a.allocated(), a.capacity());
  unsafe { a.rewind(ArenaPosition::Current(i64::MIN)) };
  assert_eq!(a.allocated(), a.data_offset());
});

// F17: rewind(Current(-allocated)) leaves the cursor
both!(f17_rewind_zero, |a| {
  let _ = a.alloc_bytes(100).map(|mut b| unsafe { b.detach() });
  let al = a.allocated() as i64;
  unsafe { a.rewind(ArenaPosition::Current(-al)) };
  assert_eq!(a.allocated(), a.data_offset());
});

// F7: refused writable open modifies the file
#[test]
fn f7_refused_open_preserves() {
  let dir = tempfile::tempdir().unwrap();
  let p = dir.path().join("a.arena");
  {
    let a = unsafe {
      Options::new()
        .with_capacity(1024)
        .with_create_new(true)
        .with_read(true)
        .with_write(true)
        .map_mut::<sync::Arena, _>(&p)
        .unwrap()
    };
    let mut b = a.alloc_bytes(100).unwrap();
    b.put_slice(&[7u8; 100]).unwrap();
    // released on top: cursor goes back, bytes stay
  }
  let before = std::fs::read(&p).unwrap();
  let r = unsafe {
    Options::new()
      .with_capacity(1024)
      .with_read(true)
      .with_write(true)
      .with_magic_version(9)
      .map_mut::<sync::Arena, _>(&p)
  };
  assert!(r.is_err());
  let after = std::fs::read(&p).unwrap();
  assert!(before == after, "refused open changed the file");
}

// F10: alloc_aligned_bytes for zero sized T with alignment
macro_rules! f10 { ($n:ident, $m:ident) => {
#[test]
fn $n() {
  let a = Options::new().with_capacity(1024).alloc::<$m::Arena>().unwrap(); // data_offset 1
  let b = a.alloc_aligned_bytes::<[u64; 0]>(5).unwrap();
  assert_eq!(b.offset() % 8, 0, "offset {}", b.offset());
  assert!(b.capacity() >= 5);
  let before = a.allocated();
  let z = a.alloc_aligned_bytes::<[u64; 0]>(0).unwrap();
  assert_eq!(z.capacity(), 0);
  assert_eq!(a.allocated(), before);
}
}}
f10!(f10_zst_aligned_sync, sync);
f10!(f10_zst_aligned_unsync, unsync);

// F12: discarded overflow differs between flavours
#[test]
fn f12_discarded_wrap() {
  let a = opts(1024).alloc::<sync::Arena>().unwrap();
  let b = opts(1024).alloc::<unsync::Arena>().unwrap();
  a.increase_discarded(u32::MAX);
  a.increase_discarded(5);
  b.increase_discarded(u32::MAX);
  b.increase_discarded(5);
  assert_eq!(a.discarded(), b.discarded());
}

// F13: map with offset beyond the file and a capacity
#[test]
fn f13_map_offset_beyond() {
  let dir = tempfile::tempdir().unwrap();
  let p = dir.path().join("a.arena");
  std::fs::write(&p, vec![0u8; 100]).unwrap();
  let r = unsafe {
    Options::new()
      .with_capacity(64)
      .with_offset(4096)
      .with_read(true)
      .map::<sync::Arena, _>(&p)
  };
  assert!(r.is_err());
}

// F14: mutators on a read-only arena
#[test]
fn f14_ro_mutators() {
  let dir = tempfile::tempdir().unwrap();
  let p = dir.path().join("a.arena");
  {
    let a = unsafe {
      Options::new()
        .with_capacity(1024)
        .with_create_new(true)
        .with_read(true)
        .with_write(true)
        .map_mut::<sync::Arena, _>(&p)
        .unwrap()
    };
    let mut b = a.alloc_bytes(100).unwrap();
    unsafe { b.detach() };
  }
  let before = std::fs::read(&p).unwrap();
  {
    let a = unsafe { Options::new().with_read(true).map::<sync::Arena, _>(&p).unwrap() };
    a.increase_discarded(1);
    a.set_minimum_segment_size(1);
    assert!(a.alloc_bytes(1).is_err());
    let u = unsafe { Options::new().with_read(true).map::<unsync::Arena, _>(&p).unwrap() };
    u.increase_discarded(1);
    u.set_minimum_segment_size(1);
  }
  assert!(before == std::fs::read(&p).unwrap());
}

#[allow(dead_code)]
fn unused(_: Freelist) {}

// F12b: discard_freelist after the counter is close to u32::MAX
#[test]
fn f12b_discard_freelist_wrap() {
  fn run<A: Allocator>(a: A) -> (u32, u32) {
    let b1 = a.alloc_bytes(100).unwrap();
    let mut b2 = a.alloc_bytes(100).unwrap();
    unsafe { b2.detach() };
    drop(b1); // becomes a segment
    a.increase_discarded(u32::MAX - 50);
    let r = a.discard_freelist().unwrap();
    (r, a.discarded())
  }
  let s = run(opts(1024).alloc::<sync::Arena>().unwrap());
  let u = run(opts(1024).alloc::<unsync::Arena>().unwrap());
  assert_eq!(s, u);
}
