// F21 witness. `Owned<Rc<u8>, sync::Arena>` is `Send`, so a clone of an `Rc` can be moved to another
// thread inside the handle; the two threads then update the (non-atomic) reference count of the same `Rc` without
// any synchronisation: a data race (Miri reports it; natively the count can be torn).
use rarena_allocator::{sync::Arena, Allocator, Options};
use std::rc::Rc;

fn main() {
  let arena: Arena = Options::new().with_capacity(1024).alloc().unwrap();
  let rc = Rc::new(7u8);
  // (`alloc_owned` is `unsafe` only for its leak / recoverability contract, which is respected here: the value is
  // written and the handle is dropped, not detached)
  let mut owned = unsafe { arena.alloc_owned::<Rc<u8>>() }.unwrap();
  owned.write(rc.clone());
  let t = std::thread::spawn(move || {
    // dropping the handle drops the Rc it owns: a non-atomic decrement of the shared count on this thread
    drop(owned);
  });
  for _ in 0..1000 {
    let c = rc.clone();
    drop(c);
  }
  t.join().unwrap();
  println!("strong count at the end: {}", Rc::strong_count(&rc));
}
