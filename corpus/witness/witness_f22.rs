// F22 witness: an anonymous-map arena in the plain (non-unified) layout keeps its header outside the mapping, yet
// `with_lock_meta(true)` tried to mlock header-sized bytes of the mapping at the header's would-be offset and refused
// every capacity below that range with InvalidInput, although the capacity holds the prefix (and is accepted without
// the option).
use rarena_allocator::{unsync, sync, Allocator, Options};

fn build<A: Allocator>(lock: bool) -> std::io::Result<A> {
  Options::new().with_reserved(7).with_capacity(8).with_unify(false).with_lock_meta(lock).map_anon::<A>()
}

#[test]
fn lock_meta_does_not_change_which_capacities_are_accepted() {
  assert!(build::<unsync::Arena>(false).is_ok());
  assert!(build::<sync::Arena>(false).is_ok());
  let a = build::<unsync::Arena>(true).expect("capacity 8 holds the prefix (reserved 7 + 1)");
  assert_eq!(a.data_offset(), 8);
  assert_eq!(a.remaining(), 0);
  build::<sync::Arena>(true).expect("capacity 8 holds the prefix (reserved 7 + 1)");
}
