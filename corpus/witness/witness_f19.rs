// F19 witness: remove_on_drop closed the file descriptor twice (debug builds abort: "IO Safety violation")
use rarena_allocator::{sync, unsync, Allocator, Options};
#[test]
fn remove_on_drop_closes_the_file_once() {
  let dir = tempfile::tempdir().unwrap();
  for k in 0..2 {
    let p = dir.path().join(format!("f19_{k}"));
    {
      let a = unsafe { Options::new().with_capacity(4096).with_create_new(true).with_read(true).with_write(true).map_mut::<sync::Arena, _>(&p).unwrap() };
      a.remove_on_drop(true);
    }
    assert!(!p.exists());
    let p2 = dir.path().join(format!("f19_u{k}"));
    {
      let a = unsafe { Options::new().with_capacity(4096).with_create_new(true).with_read(true).with_write(true).map_mut::<unsync::Arena, _>(&p2).unwrap() };
      a.remove_on_drop(true);
    }
    assert!(!p2.exists());
  }
}
