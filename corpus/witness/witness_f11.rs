// F11 witness: with_maximum_retries(0) made a failing slow-path allocation panic ("attempt to subtract with overflow") in debug builds
use rarena_allocator::{sync, Allocator, Freelist, Options};
#[test]
fn zero_retries_answers_insufficient_space() {
  for fl in [Freelist::Optimistic, Freelist::Pessimistic] {
    let a = Options::new().with_capacity(200).with_maximum_retries(0).with_freelist(fl).alloc::<sync::Arena>().unwrap();
    let x = a.alloc_bytes(64).unwrap();
    let _y = a.alloc_bytes(64).unwrap();
    drop(x);
    // larger than the remaining space and than the only free segment: the slow path fails
    assert!(a.alloc_bytes(150).is_err());
    assert!(a.alloc_aligned_bytes::<u64>(150).is_err());
    assert!(unsafe { a.alloc::<[u64; 20]>() }.is_err());
    // a request the free segment can serve still succeeds
    assert!(a.alloc_bytes(16).is_ok());
  }
}
