-- This module serves as the root of the `RarenaVerif` library.
-- Import modules here that should be built as part of the library.
import RarenaVerif.Basic
