import RarenaVerif.Model.Basic
import RarenaVerif.Model.Core
import RarenaVerif.Model.Layout
import RarenaVerif.Model.Handle
import RarenaVerif.Model.Bytes
import RarenaVerif.Model.Spec
import RarenaVerif.Model.Inv
import RarenaVerif.Proofs.Mem
