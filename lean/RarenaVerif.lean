import RarenaVerif.Model.Basic
import RarenaVerif.Model.Core
import RarenaVerif.Model.Layout
import RarenaVerif.Model.Handle
import RarenaVerif.Model.Bytes
