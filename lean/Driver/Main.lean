/-
  Driver — line protocol front end of the model (see harness/PROTOCOL.md).
  `driver model < case.ops` prints one observation line per input line.
-/
import RarenaVerif.Model.Basic
import RarenaVerif.Model.Core
import RarenaVerif.Model.Layout
import RarenaVerif.Model.Handle
import RarenaVerif.Model.Bytes
import RarenaVerif.Model.File
import RarenaVerif.Model.Conc
import RarenaVerif.Model.HB

open Rarena

namespace Driver

def hexDigit (n : Nat) : Char := if n < 10 then Char.ofNat (48 + n) else Char.ofNat (87 + n)

def hex16 (v : UInt64) : String :=
  String.ofList ((List.range 16).map (fun i => hexDigit ((v.toNat / 16 ^ (15 - i)) % 16)))

def kv (toks : List String) (key : String) : Option String :=
  toks.findSome? (fun t => match t.splitOn "=" with
    | [k, v] => if k == key then some v else none
    | _ => none)

def kvNat (toks : List String) (key : String) : Option Nat := (kv toks key).bind String.toNat?

/-- outcome of one protocol line -/
structure Step where
  sess : Option Sess
  out : String

def flStr (s : St) : String :=
  let (l, trunc) := s.walk 4096
  let items := l.map (fun (o, sz) => s!"{o}:{sz}")
  let items := if trunc then items ++ ["..."] else items
  "[" ++ ",".intercalate items ++ "]"

def stateStr (x : Sess) : String :=
  let s := x.st
  let rem := s.cap - s.allocated
  let img := s.image x.cfg
  s!"al={s.allocated} di={s.discarded} rem={rem} ms={s.minSeg} cp={s.cap} rf={x.refs} fl={flStr s} mem={hex16 (fnv1a img)} ma={hex16 (fnv1a (img.extract 0 s.allocated))}"

def failStr : Fail → String
  | .trap site => s!"trap:{site}"
  | .diverge => "diverge"

def errStr : Err → String
  | .insufficient => "InsufficientSpace"
  | .readOnly => "ReadOnly"

def parseKind : String → Option Kind
  | "none" => some .none | "opt" => some .opt | "pess" => some .pess | _ => none

def parseCfg (toks : List String) : Option Opts := do
  let flavour ← kv toks "flavour"
  let fl ← (kv toks "freelist").bind parseKind
  let backend ← kv toks "backend"
  let unify ← kvNat toks "unify"
  let reserved ← kvNat toks "reserved"
  let cap ← kvNat toks "cap"
  let minseg ← kvNat toks "minseg"
  let retries ← kvNat toks "retries"
  let magic ← kvNat toks "magic"
  if flavour != "sync" && flavour != "unsync" then none
  if backend != "vec" && backend != "anon" && backend != "file" then none
  pure { sync := flavour == "sync", kind := fl, unify := unify == 1, file := backend == "file",
         anon := backend == "anon",
         reserved := reserved, cap := cap, minSeg := minseg, retries := retries, magic := magic }

def parseTy : String → Option IntTy
  | "u8" => some ⟨1, false⟩ | "i8" => some ⟨1, true⟩
  | "u16" => some ⟨2, false⟩ | "i16" => some ⟨2, true⟩
  | "u32" => some ⟨4, false⟩ | "i32" => some ⟨4, true⟩
  | "u64" => some ⟨8, false⟩ | "i64" => some ⟨8, true⟩
  | "usize" => some ⟨8, false⟩ | "isize" => some ⟨8, true⟩
  | "u128" => some ⟨16, false⟩ | "i128" => some ⟨16, true⟩
  | _ => none

def parseOrder : String → Option Order
  | "be" => some .be | "le" => some .le | "ne" => some .le | _ => none

def okAlign (a s : Nat) : Bool :=
  ((a == 1 || a == 2 || a == 4 || a == 8 || a == 16) && s ≤ 64 && s % a == 0) || ((a == 32 || a == 64) && s ≤ 128 && s % a == 0)

/-- answer for an allocation result; `kind`: 0 = bytes, 1 = aligned bytes, 2 = typed -/
def allocAnswer (x : Sess) (id : Nat) (r : M (AllocOut × St)) (hk : HKind) (owned : Bool)
    (mode : Nat) (talign : Nat) : Step :=
  match r with
  | .error f => { sess := none, out := s!"r={failStr f}" }
  | .ok (.error e, st) =>
    let x := { x with st := st }
    { sess := some x, out := s!"r={errStr e} {stateStr x}" }
  | .ok (.ok m?, st) =>
    let x := { x with st := st }
    let x := x.addHandle id m? hk owned
    let m := m?.getD Meta.null
    let z := if st.mem.allZero m.ptrOff m.ptrSize then 1 else 0
    let am := if m?.isNone then 0 else m.ptrOff % talign
    let extra := match mode with
      | 0 => s!" z={z}"
      | 1 => s!" am={am}"
      | _ => s!" am={am} z={z}"
    { sess := some x,
      out := s!"r=ok off={m.ptrOff} cap={m.ptrSize} boff={m.memOff} bcap={m.memSize}{extra} {stateStr x}" }

def nohandle (x : Sess) : Step := { sess := some x, out := s!"r=nohandle {stateStr x}" }

def bufErrStr : BufErr → String
  | .insufficient => "InsufficientBuffer" | .incomplete => "IncompleteBuffer"
  | .varint => "Varint" | .panic => "panic"


def fileStr (fs : FileSys) : String :=
  match fs with
  | none => "fh=none flen=none"
  | some f => s!"fh={hex16 (fnv1a f)} flen={f.size}"

def ioStr : IoKind → String
  | .notFound => "NotFound" | .alreadyExists => "AlreadyExists" | .invalidInput => "InvalidInput"
  | .invalidData => "InvalidData" | .permissionDenied => "PermissionDenied"

def kindStr : Kind → String
  | .none => "none" | .opt => "opt" | .pess => "pess"

def splitmix (seed : UInt64) (n : Nat) : Mem := Id.run do
  let mut st := seed
  let mut out : Mem := Array.mkEmpty n
  for _ in [0:n] do
    st := st + 0x9E3779B97F4A7C15
    let mut z := st
    z := (z ^^^ (z >>> 30)) * 0xBF58476D1CE4E5B9
    z := (z ^^^ (z >>> 27)) * 0x94D049BB133111EB
    z := z ^^^ (z >>> 31)
    out := out.push z.toUInt8
  return out

def parseMode : String → Option OpenMode
  | "mut" => some .mut | "copy" => some .copy | "ro" => some .ro | "copy_ro" => some .copyRo | _ => none

/-- file operations that are legal while the case is closed -/
def closedStep (x : Sess) (toks : List String) : Step :=
  match toks with
  | ["filehash"] => { sess := some x, out := s!"r=ok {fileStr x.whole}" }
  -- a shared advisory lock held by someone else on the backing file: no effect on anything the arena does
  | ["flock_hold"] | ["flock_release"] => { sess := some x, out := if x.opts.file then "r=ok" else "bad-op" }
  | ["mutate_file", i, v] =>
    match i.toNat?, v.toNat?, x.whole with
    | some i, some v, some f =>
      if i < f.size ∧ v < 256 then
        let x := x.setWhole (some (f.update i (i + 1) (fun _ => UInt8.ofNat v)))
        { sess := some x, out := s!"r=ok {fileStr x.whole}" }
      else { sess := some x, out := "bad-op" }
    | _, _, _ => { sess := some x, out := "bad-op" }
  | ["truncate_file", n] =>
    match n.toNat?, x.whole with
    | some n, some f =>
      let f' := if n ≤ f.size then f.extract 0 n else extendTo f n
      let x := x.setWhole (some f')
      { sess := some x, out := s!"r=ok {fileStr x.whole}" }
    | _, _ => { sess := some x, out := "bad-op" }
  | ["random_file", seed, n] =>
    match seed.toNat?, n.toNat? with
    | some seed, some n =>
      let x := x.setWhole (some (splitmix (UInt64.ofNat seed) n))
      { sess := some x, out := s!"r=ok {fileStr x.whole}" }
    | _, _ => { sess := some x, out := "bad-op" }
  | ["delete_file"] => { sess := some (x.setWhole none), out := "r=ok" }
  | "reopen" :: mode :: rest =>
    match parseMode mode, kv rest "cap", kvNat rest "magic", (kv rest "freelist").bind parseKind,
          kvNat rest "create", kv rest "flavour", kvNat rest "reserved", kvNat rest "minseg" with
    | some m, some capS, some magic, some k, some create, some fl, some reserved, some minseg =>
      let cap : Option (Option Nat) :=
        if capS == "same" then some (some x.opts.cap) else if capS == "none" then some none else capS.toNat?.map some
      -- optional `trunc=1`: the caller's Options carries `with_truncate(true)`. `map_in` clears the flag for the
      -- read-only modes (modelled: no effect); the writable modes with it are not modelled (the harness refuses too)
      let truncBad := (kvNat rest "trunc").getD 0 != 0 && !(mode == "ro" || mode == "copy_ro")
      match (if truncBad then none else cap) with
      | none => { sess := some x, out := "bad-op" }
      | some cap =>
        let oo : OpenOpts := { sync := fl == "sync", kind := k, reserved := reserved, cap := cap, minSeg := minseg,
                               retries := x.opts.retries, magic := magic, create := create == 1 || create == 3,
                               createNew := (create == 2 || create == 3) && (mode == "mut" || mode == "copy") }
        let pkOf (before after : FileSys) : Nat :=
          match before, after with
          | some b, some a => if a.size ≥ b.size ∧ a.extract 0 b.size == b then 1 else 0
          | none, _ => 1
          | some _, none => 0
        -- a file created by this very open without a capacity has length 0, which is below a non-zero mapping offset:
        -- the map itself is refused by the OS layer (`InvalidData`), the empty file stays
        if x.foff > 0 && cap.isNone && x.fs.isNone && create != 0 && (mode == "mut" || mode == "copy") then
          let x := { x with fs := some #[], fpre := #[] }
          { sess := some x, out := s!"r=io:InvalidData pk=1 {fileStr x.whole}" }
        else
        match openFile m oo x.fs with
        | (.error e, fs') =>
          let before := x.whole
          let x := Sess.padPre { x with fs := fs' }
          { sess := some x, out := s!"r=io:{ioStr e} pk={pkOf before x.whole} {fileStr x.whole}" }
        | (.ok r, fs') =>
          let opts : Opts := { sync := oo.sync, kind := r.cfg.kind, unify := true, file := true, anon := false,
                               reserved := reserved, cap := x.opts.cap, minSeg := minseg, retries := x.opts.retries,
                               magic := magic }
          let before := x.whole
          let x := Sess.padPre { x with opts := opts, cfg := r.cfg, st := r.st, handles := [], arenas := [0], refs := 1,
                                        fs := fs', mapping := r.mapping, closed := false, removeOnDrop := false }
          { sess := some x,
            out := s!"r=ok doff={r.cfg.dataOffset} ro={if r.cfg.ro then 1 else 0} fk={kindStr r.cfg.kind} mv={magic} pk={pkOf before x.whole} {fileStr x.whole} {stateStr x}" }
    | _, _, _, _, _, _, _, _ => { sess := some x, out := "bad-op" }
  | ["flush"] | ["remove_on_drop", _] => { sess := some x, out := "bad-op" }
  | _ => { sess := some x, out := "r=closed" }   -- (this includes `close` of a closed case)

/-- the typed allocations are in bounds for the model when the type is a valid one of the table -/
def step (x : Sess) (toks : List String) : Step :=
  let fuel := x.fuel
  let c := x.cfg
  let simple (x : Sess) (pre : String) : Step := { sess := some x, out := s!"{pre} {stateStr x}" }
  let failed (f : Fail) : Step := { sess := none, out := s!"r={failStr f}" }
  let withBuf (h : String) (k : Nat → Handle → Step) : Step :=
    match h.toNat? with
    | none => { sess := some x, out := "bad-op" }
    | some id =>
      match x.find id with
      | some hd => if hd.kind == .bytes then k id hd else nohandle x
      | none => nohandle x
  match toks with
  | ["alloc_bytes", h, n] | ["alloc_bytes_owned", h, n] =>
    match h.toNat?, n.toNat? with
    | some id, some n =>
      allocAnswer x id (allocBytes c x.st n fuel) .bytes (toks.head! == "alloc_bytes_owned") 0 1
    | _, _ => { sess := some x, out := "bad-op" }
  | ["alloc_aligned", h, a, s, n] | ["alloc_aligned_owned", h, a, s, n] =>
    match h.toNat?, a.toNat?, s.toNat?, n.toNat? with
    | some id, some a, some s, some n =>
      if !okAlign a s then { sess := some x, out := "bad-op" }
      else allocAnswer x id (allocAligned c x.st s a n fuel) .bytes (toks.head! == "alloc_aligned_owned") 1 a
    | _, _, _, _ => { sess := some x, out := "bad-op" }
  | ["alloc_t", h, a, s] | ["alloc_t_owned", h, a, s] =>
    match h.toNat?, a.toNat?, s.toNat? with
    | some id, some a, some s =>
      if !okAlign a s then { sess := some x, out := "bad-op" }
      -- `Allocator::alloc::<T>` answers zero-sized `T` itself (`RefMut::new_zst`), before `alloc_in` (and its
      -- read-only guard) is reached
      else if s == 0 then allocAnswer x id (.ok (.ok none, x.st)) .obj (toks.head! == "alloc_t_owned") 2 a
      else allocAnswer x id (allocT c x.st s a fuel) .obj (toks.head! == "alloc_t_owned") 2 a
    | _, _, _ => { sess := some x, out := "bad-op" }
  | ["alloc_d", h] | ["alloc_d_owned", h] =>
    match h.toNat? with
    | some id => allocAnswer x id (allocT c x.st 8 8 fuel) .slot (toks.head! == "alloc_d_owned") 2 8
    | none => { sess := some x, out := "bad-op" }
  | ["alloc_z", h] | ["alloc_z_owned", h] =>
    -- a zero-sized `needs_drop` value: the handle is the null one (`Kind::Dangling`); the harness's `write` consumes and
    -- drops the value at once (one drop, counted here), the drop of the handle drops nothing
    match h.toNat? with
    | some id => allocAnswer { x with dropCount := x.dropCount + 1 } id (.ok (.ok none, x.st)) .obj (toks.head! == "alloc_z_owned") 2 1
    | none => { sess := some x, out := "bad-op" }
  | ["fill", h, b] =>
    match h.toNat?, b.toNat? with
    | some id, some b =>
      match x.find id with
      | some hd =>
        if hd.kind == .slot then nohandle x
        else
          let st := { x.st with mem := x.st.mem.fill hd.mt.ptrOff hd.mt.ptrSize (UInt8.ofNat b) }
          simple { x with st := st } "r=ok"
      | none => nohandle x
    | _, _ => { sess := some x, out := "bad-op" }
  | ["drop", h] | ["detach", h] =>
    match h.toNat? with
    | some id =>
      match x.find id with
      | none => nohandle x
      | some _ =>
        match x.dropHandle id (toks.head! == "detach") with
        | .error f => failed f
        | .ok x' => simple x' s!"r=ok dc={x'.dropCount}"
    | none => { sess := some x, out := "bad-op" }
  -- `detach()` on an owned byte buffer that stays alive until its `drop`: from now on it behaves like the handle of
  -- a zero-size owned object (it holds an arena value, its drop releases nothing and drops no value)
  | ["hold", h] =>
    match h.toNat? with
    | some id =>
      match x.find id with
      | none => nohandle x
      | some hd =>
        if hd.kind == .bytes && hd.owned && !hd.null then simple (x.hold id) "r=ok"
        else { sess := some x, out := "bad-op" }
    | none => { sess := some x, out := "bad-op" }
  | ["dealloc", h] =>
    match h.toNat? with
    | some id =>
      match x.find id with
      | none => nohandle x
      | some hd =>
        match x.dropHandle id true with
        | .error f => failed f
        | .ok x' =>
          match dealloc c x'.st hd.mt.memOff hd.mt.memSize fuel with
          | .error f => failed f
          | .ok (ret, st) => simple { x' with st := st } s!"r=ok ret={if ret then 1 else 0}"
    | none => { sess := some x, out := "bad-op" }
  | ["close"] =>
    if !x.opts.file then { sess := some x, out := "bad-op" }
    else
      let fs := if x.removeOnDrop then none else x.file
      -- every handle is detached/dropped and every arena value dropped: the memory is released exactly once
      let um := if x.arenas.isEmpty then 0 else 1
      let x := { x with fs := fs, handles := [], arenas := [], closed := true, fpre := if x.removeOnDrop then #[] else x.fpre }
      { sess := some x, out := s!"r=ok um={um} mp=0 {fileStr x.whole}" }
  | ["close_last", h] =>
    -- every other handle detached, every arena value dropped, then the owned handle `h` dropped as the last owner
    if !x.opts.file then { sess := some x, out := "bad-op" }
    else match h.toNat? with
      | none => { sess := some x, out := "bad-op" }
      | some id =>
        match x.find id with
        | some hd =>
          if !hd.holdsArena then { sess := some x, out := "r=nohandle" }
          else
            let x1 := { x with handles := x.handles.filter (·.1 == id), arenas := [], refs := 1 }
            match x1.dropHandle id false with
            | .error f => failed f
            | .ok x2 =>
              let fs := if x2.removeOnDrop then none else x2.file
              let x3 := { x2 with fs := fs, handles := [], arenas := [], closed := true, fpre := if x2.removeOnDrop then #[] else x2.fpre }
              { sess := some x3, out := s!"r=ok um={x3.released - x.released} mp=0 {fileStr x3.whole}" }
        | none => { sess := some x, out := "r=nohandle" }
  | ["flush"] => simple x "r=ok"
  | ["filehash"] => { sess := some x, out := s!"r=ok {fileStr x.whole}" }
  -- a shared advisory lock held by someone else on the backing file: no effect on anything the arena does
  | ["flock_hold"] | ["flock_release"] => { sess := some x, out := if x.opts.file then "r=ok" else "bad-op" }
  | ["crashcheck"] =>
    -- kill the process between two operations: open the file as it is now and compare with the running arena
    -- (by `C06.boundary` the answer is `ce=1`; it is computed, not assumed)
    if !x.opts.file then { sess := some x, out := "bad-op" }
    else if x.mapping != .shared then { sess := some x, out := "r=ok ce=na cr=na" }
    else
      let oo : OpenOpts := { sync := c.sync, kind := x.opts.kind, reserved := x.opts.reserved, cap := none, minSeg := x.opts.minSeg,
                             retries := x.opts.retries, magic := x.opts.magic, create := false, createNew := false }
      match openFile .mut oo x.file with
      | (.error e, _) => { sess := some x, out := s!"r=ok ce=0 cr=io:{ioStr e}" }
      | (.ok r, _) =>
        let same := r.st.allocated == x.st.allocated && r.st.discarded == x.st.discarded && r.st.minSeg == x.st.minSeg &&
          flStr r.st == flStr x.st &&
          fnv1a ((r.st.image r.cfg).extract 0 r.st.allocated) == fnv1a ((x.st.image x.cfg).extract 0 x.st.allocated)
        -- `cp`: the probe operations on the reopened arena return (`C06.later_ops_terminate`)
        { sess := some x, out := s!"r=ok ce={if same then 1 else 0} cr=ok cp=ok" }
  | ["remove_on_drop", b] =>
    if !x.opts.file then { sess := some x, out := "bad-op" }
    else simple { x with removeOnDrop := b == "1" } "r=ok"
  | "reopen" :: _ | ["mutate_file", _, _] | ["truncate_file", _] | ["random_file", _, _] | ["delete_file"] =>
    { sess := some x, out := "bad-op" }
  | ["discard_freelist"] =>
    match discardFreelist c x.st fuel with
    | .error f => failed f
    | .ok (.error e, st) => simple { x with st := st } s!"r={errStr e}"
    | .ok (.ok n, st) => simple { x with st := st } s!"r=ok val={n}"
  | ["set_minseg", n] =>
    match n.toNat? with
    | some n => simple { x with st := setMinSeg c x.st n } "r=ok"
    | none => { sess := some x, out := "bad-op" }
  | ["inc_discarded", n] =>
    match n.toNat? with
    | some n => simple { x with st := x.st.incDiscarded c n } "r=ok"
    | none => { sess := some x, out := "bad-op" }
  | ["rewind", w, v] =>
    let p : Option Pos := match w with
      | "start" => v.toNat?.map Pos.start
      | "end" => v.toNat?.map Pos.end
      | "cur" => v.toInt?.map Pos.cur
      | _ => none
    match p with
    | some p => simple { x with st := rewind c x.st p } "r=ok"
    | none => { sess := some x, out := "bad-op" }
  | ["clear"] =>
    match clear c x.st with
    | .error e => simple x s!"r={errStr e}"
    | .ok st => simple { x with st := st } "r=ok"
  | ["truncate", n] =>
    match n.toNat? with
    | some n =>
      if c.sync then simple x "r=na"
      else if x.opts.file && x.mapping == .shared && !c.ro then
        -- `Memory::truncate` of a shared file mapping: the file is only ever extended (with zeros), never cut, and the
        -- first `size` bytes of it are mapped again. (`Core.truncate` with `fileBacked` is the part of this the property
        -- speaks about: capacity, and the bytes below `allocated()`.)
        let size := if x.st.allocated ≥ n then x.st.allocated else n
        let f : Mem := (x.file).getD #[]
        let f' : Mem := if f.size < size then f ++ Array.replicate (size - f.size) 0 else f
        let st := { x.st with mem := f'.extract 0 size }
        simple { x with st := st, fs := some f' } "r=ok"
      else match truncate c x.st n with
        | .error _ => simple x "r=io:PermissionDenied"
        | .ok st => simple { x with st := st } "r=ok"
    | none => { sess := some x, out := "bad-op" }
  | ["clone", a] =>
    match a.toNat? with
    | some a => simple (x.cloneArena a) "r=ok"
    | none => { sess := some x, out := "bad-op" }
  | ["drop_arena", a] =>
    match a.toNat? with
    | some a =>
      if x.arenas.contains a then simple (x.dropArena a) "r=ok"
      else nohandle x
    | none => { sess := some x, out := "bad-op" }
  | ["rd", ty, ord, off] =>
    match parseTy ty, parseOrder ord, off.toNat? with
    | some t, some o, some off =>
      match rdFixed (x.st.image c) x.st.allocated off t o with
      | .ok v => simple x s!"r=ok val={v} ref={v}"
      | .error _ => simple x "r=OutOfBounds"
    | _, _, _ => { sess := some x, out := "bad-op" }
  | ["rd_var", ty, off] =>
    match parseTy ty, off.toNat? with
    | some t, some off =>
      match rdVarint (x.st.image c) x.st.allocated off t with
      | .ok (n, v) => simple x s!"r=ok n={n} val={v}"
      | .error .outOfBounds => simple x "r=OutOfBounds"
      | .error .varint => simple x "r=Varint"
    | _, _ => { sess := some x, out := "bad-op" }
  | ["slices"] =>
    let s := x.st
    simple x s!"r=ok val={s.allocated},{s.allocated - c.dataOffset},{s.cap},{c.reserved}"
  | ["checksum", which] =>
    let data := checksumData (x.st.image c) c.reserved x.st.allocated
    match which with
    | "crc32" => simple x s!"r=ok val={crc32.chunked 4096 data} ref={crc32.oneShot data}"
    | "ordsum" => simple x s!"r=ok val={ordSum.chunked 4096 data} ref={ordSum.oneShot data}"
    | _ => { sess := some x, out := "bad-op" }
  | ["info"] =>
    let o := x.opts
    let b := fun (v : Bool) => if v then 1 else 0
    let isMap := o.file || o.anon
    simple x s!"r=ok val={b c.unify},{b c.ro},{b isMap},{b o.file},{b (!o.file)},{b o.anon},{b o.file},{b o.file},{o.magic},0,4096,{c.reserved},{c.dataOffset}"
  | ["rres"] =>
    let sum := (List.range c.reserved).foldl (fun acc i => (acc + (i + 1) * x.st.mem.rd i) % 4294967296) 0
    simple x s!"r=ok val={c.reserved},{sum}"
  | ["wres", b] =>
    match b.toNat? with
    | some b =>
      if c.ro ∧ c.reserved ≠ 0 then simple x "r=panic"
      else
        let st := { x.st with mem := x.st.mem.fill 0 c.reserved (UInt8.ofNat b) }
        simple { x with st := st } "r=ok"
    | none => { sess := some x, out := "bad-op" }
  -- buffer operations
  | ["put", h, ty, ord, v] =>
    withBuf h fun id hd =>
      match parseTy ty, parseOrder ord, v.toInt? with
      | some t, some o, some v =>
        match bufPut x.st.mem hd t o v with
        | .error e => simple x s!"r={bufErrStr e} len={hd.len} oo=1"
        | .ok (mem, hd') => simple ({ x with st := { x.st with mem := mem } }.put id hd') s!"r=ok len={hd'.len} oo=1"
      | _, _, _ => { sess := some x, out := "bad-op" }
  | ["get", h, ty, ord] =>
    withBuf h fun id hd =>
      match parseTy ty, parseOrder ord with
      | some t, some o =>
        match bufGet x.st.mem hd t o with
        | .error e => simple x s!"r={bufErrStr e} len={hd.len} oo=1"
        | .ok (v, hd') => simple (x.put id hd') s!"r=ok val={v} len={hd'.len} oo=1"
      | _, _ => { sess := some x, out := "bad-op" }
  | ["put_var", h, ty, v] =>
    withBuf h fun id hd =>
      match parseTy ty, v.toInt? with
      | some t, some v =>
        let (mem, r) := bufPutVarint x.st.mem hd t v
        let x := { x with st := { x.st with mem := mem } }
        match r with
        | .error e => simple x s!"r={bufErrStr e} len={hd.len} oo=1"
        | .ok (n, hd') => simple (x.put id hd') s!"r=ok n={n} len={hd'.len} oo=1"
      | _, _ => { sess := some x, out := "bad-op" }
  | ["put_varu", h, ty, v] =>
    -- the panicking twin of `put_var`: same encoder, failure is a panic
    withBuf h fun id hd =>
      match parseTy ty, v.toInt? with
      | some t, some v =>
        let (mem, r) := bufPutVarint x.st.mem hd t v
        let x := { x with st := { x.st with mem := mem } }
        match r with
        | .error _ => simple x s!"r=panic len={hd.len}"
        | .ok (n, hd') => simple (x.put id hd') s!"r=ok n={n} len={hd'.len} oo=1"
      | _, _ => { sess := some x, out := "bad-op" }
  | ["get_varu", h, ty] =>
    withBuf h fun _ hd =>
      match parseTy ty with
      | some t =>
        match bufGetVarint x.st.mem hd t with
        | .error _ => simple x s!"r=panic len={hd.len}"
        | .ok (n, v) => simple x s!"r=ok n={n} val={v} len={hd.len} oo=1"
      | none => { sess := some x, out := "bad-op" }
  | ["get_var", h, ty] =>
    withBuf h fun _ hd =>
      match parseTy ty with
      | some t =>
        match bufGetVarint x.st.mem hd t with
        | .error e => simple x s!"r={bufErrStr e} len={hd.len} oo=1"
        | .ok (n, v) => simple x s!"r=ok n={n} val={v} len={hd.len} oo=1"
      | none => { sess := some x, out := "bad-op" }
  | ["put_slice", h, l, b] =>
    withBuf h fun id hd =>
      match l.toNat?, b.toNat? with
      | some l, some b =>
        match bufPutSlice x.st.mem hd l (UInt8.ofNat b) with
        | .error e => simple x s!"r={bufErrStr e} len={hd.len} oo=1"
        | .ok (mem, hd') => simple ({ x with st := { x.st with mem := mem } }.put id hd') s!"r=ok len={hd'.len} oo=1"
      | _, _ => { sess := some x, out := "bad-op" }
  | ["set_len", h, n] =>
    withBuf h fun id hd =>
      match n.toNat? with
      | some n =>
        match bufSetLen x.st.mem hd n with
        | .error e => simple x s!"r={bufErrStr e} len={hd.len}"
        | .ok (mem, hd') => simple ({ x with st := { x.st with mem := mem } }.put id hd') s!"r=ok len={hd'.len} oo=1"
      | none => { sess := some x, out := "bad-op" }
  | ["align_to", h, a, s] =>
    withBuf h fun id hd =>
      match a.toNat?, s.toNat? with
      | some a, some s =>
        if !okAlign a s then { sess := some x, out := "bad-op" }
        else match bufAlignTo hd a s with
          | .error f => failed f
          | .ok (.error e) => simple x s!"r={bufErrStr e} len={hd.len} oo=1"
          | .ok (.ok (po, hd')) =>
            -- the pointer of an empty owned buffer is `NonNull::dangling()`, not an arena address
            let pos := match po with | some p => (if hd.null && hd.owned then "dangling" else toString p) | none => "dangling"
            simple (x.put id hd') s!"r=ok po={pos} pa=0 len={hd'.len} oo=1"
      | _, _ => { sess := some x, out := "bad-op" }
  | ["put_aligned", h, a, s, b] =>
    withBuf h fun id hd =>
      match a.toNat?, s.toNat?, b.toNat? with
      | some a, some s, some b =>
        if !okAlign a s then { sess := some x, out := "bad-op" }
        else match bufPutAligned x.st.mem hd a s (UInt8.ofNat b) with
          | .error f => failed f
          | .ok (.error e) => simple x s!"r={bufErrStr e} len={hd.len} oo=1"
          | .ok (.ok (po, mem, hd')) =>
            let pos := match po with | some p => (if hd.null && hd.owned then "dangling" else toString p) | none => "dangling"
            simple ({ x with st := { x.st with mem := mem } }.put id hd') s!"r=ok po={pos} pa=0 len={hd'.len} oo=1"
      | _, _, _ => { sess := some x, out := "bad-op" }
  | ["putT", h, _a, s, b] =>
    withBuf h fun id hd =>
      match s.toNat?, b.toNat? with
      | some s, some b =>
        match bufPutT x.st.mem hd s (UInt8.ofNat b) with
        | .error e => simple x s!"r={bufErrStr e} len={hd.len} oo=1"
        | .ok (mem, hd') => simple ({ x with st := { x.st with mem := mem } }.put id hd') s!"r=ok len={hd'.len} oo=1"
      | _, _ => { sess := some x, out := "bad-op" }
  | _ => { sess := some x, out := "bad-op" }

partial def loop (h : IO.FS.Stream) (out : IO.FS.Stream) (sess : Option Sess) : IO Unit := do
  let line ← h.getLine
  if line.isEmpty then return ()
  let toks := (line.trimAscii.toString.splitOn " ").filter (· != "")
  -- the `std::io`-flavoured wrappers `write_<ty>_<order>` / `write_<ty>_varint` are the puts with another error type
  let toks := match toks with
    | "wput" :: h' :: ty :: rest => if ty == "u8" || ty == "i8" then ["bad-op-wput"] else "put" :: h' :: ty :: rest
    | "wput_var" :: rest => "put_var" :: rest
    -- `std::io::Write::write` of a handle is `put_slice` with another error type
    | "iowrite" :: rest => "put_slice" :: rest
    | t => t
  match toks with
  | [] => loop h out sess
  | "cfg" :: rest =>
    match parseCfg rest with
    | none => out.putStrLn "bad-op"; loop h out none
    | some o =>
      match Sess.init o with
      | none =>
        -- `Options::alloc` reports `Error::InsufficientSpace`, the map constructors wrap it into `InvalidInput`
        out.putStrLn (if o.file || o.anon then "r=io:InvalidInput" else "r=InsufficientSpace"); loop h out none
      | some x =>
        -- optional `offset=N`: the file-backed arena is mapped at offset N of its (fresh, zero-filled) file
        let off := if o.file then (kvNat rest "offset").getD 0 else 0
        let x := { x with foff := off, fpre := Array.replicate off 0 }
        out.putStrLn s!"r=ok doff={x.cfg.dataOffset} {stateStr x}"; loop h out (some x)
  | _ =>
    match sess with
    | none => out.putStrLn "r=nocase"; loop h out none
    | some x =>
      let r := if x.closed then closedStep x toks else step x toks
      out.putStrLn r.out
      loop h out r.sess

end Driver

/-! ## `driver conc`: controlled schedules on the step machine (harness/PROTOCOL_SCHED.md) -/

namespace Driver.ConcD

open Rarena Rarena.Conc

/-- result of a thread operation, as printed on a `res` line (without `r=`-less prefix) plus table effects -/
inductive OpOut where
  | text (s : String)
  /-- end of the thread's program: its own arena clone was dropped (no `res` line) -/
  | exit
  | alloc (id : Nat) (r : Except Err (Option Meta)) (hk : HKind) (owned : Bool) (mode : Nat) (talign : Nat)
  | dropped (id : Nat) (h : Handle) (detached : Bool) (extra : String)

structure Thread where
  tid : Nat
  ops : List (List String)
  idx : Nat := 0
  cur : Option (Prog OpOut) := none
  finished : Bool := false
  exiting : Bool := false
  /-- `na` lines of the running operation, printed right before its `res` line (as the harness does) -/
  pend : Array String := #[]

structure CS where
  sess : Sess           -- tables (handles, arenas, dropCount, opts, cfg); `sess.st`/`sess.refs` mirror `sh`
  sh : Shared
  fills : List (Nat × UInt8)   -- last fill byte per handle
  via : List (Nat × Nat) := []  -- borrowed handle → thread through whose arena clone it was allocated
  threads : List Thread
  out : Array String := #[]
  fuel : Nat
  /-- the threads share arena value 0 by reference: no clone to drop at the end of a program -/
  noclone : Bool := false

def ordStr : Gen.Ord → String
  | .relaxed => "rlx" | .acquire => "acq" | .release => "rel" | .acqRel => "acqrel" | .seqCst => "sc"

def locStr : ALoc → String
  | .sent => "sent" | .alloc => "alloc" | .minseg => "minseg" | .disc => "disc" | .refs => "refs"
  | .node off => s!"node@{off}"

def kindStrA : AKind → String
  | .ld => "ld" | .st => "st" | .cas => "cas" | .casw => "casw" | .faa => "faa" | .fas => "fas"

def evStr (tid : Nat) (e : Event) : String :=
  let ords := "/".intercalate (e.site.ords.map ordStr)
  s!"ev t={tid} k={kindStrA e.kind} loc={locStr e.loc} ord={ords} old={e.old} new={e.new} ok={if e.ok then 1 else 0} at=0"

def naStr (tid : Nat) (cap : Nat) : NA → String
  | .zero off len => s!"na t={tid} k=w lo={off} hi={off + len} src=clear"
  | .fill off len _ => s!"na t={tid} k=w lo={off} hi={off + len} src=fill"
  | .verify off len => s!"na t={tid} k=r lo={off} hi={off + len} src=verify"
  | .unmount => s!"na t={tid} k=free lo=0 hi={cap} src=unmount"

def syncSess (x : CS) : Sess := { x.sess with st := x.sh.st, refs := x.sh.refs }

/-- the program of one operation, built when the operation starts -/
def mkOp (x : CS) (toks : List String) : Prog OpOut :=
  let c := x.sess.cfg
  let cap := x.sh.st.cap
  let fuel := x.fuel
  let s := x.sess
  let allocP (id : Nat) (p : Prog (Except Err (Option Meta))) (hk : HKind) (owned : Bool) (mode talign : Nat) : Prog OpOut := do
    let r ← p
    match r with
    | .ok m? =>
      -- `to_owned`: non-null byte handles and every typed handle clone the arena
      if owned ∧ !(hk == .bytes ∧ m?.isNone) then do cloneC; pure (.alloc id r hk owned mode talign)
      else pure (.alloc id r hk owned mode talign)
    | .error _ => pure (.alloc id r hk owned mode talign)
  let dropP (id : Nat) (detached : Bool) (explicit : Bool) : Prog OpOut :=
    match s.find id with
    | none => pure (.text "r=nohandle")
    | some h => do
      let dd := if detached then none else h.dropDealloc
      match dd with
      | some (off, size) => do let _ ← deallocC c off size fuel; pure ()
      | none => pure ()
      if h.holdsArena then dropArenaC else pure ()
      if explicit then do
        let ret ← deallocC c h.mt.memOff h.mt.memSize fuel
        pure (.dropped id h true s!"r=ok ret={if ret then 1 else 0}")
      else pure (.dropped id h detached "")
  match toks with
  | ["alloc_bytes", h, n] | ["alloc_bytes_owned", h, n] =>
    match h.toNat?, n.toNat? with
    | some id, some n => allocP id (allocBytesC c cap n fuel) .bytes (toks.head! == "alloc_bytes_owned") 0 1
    | _, _ => pure (.text "bad-op")
  | ["alloc_aligned", h, a, sz, n] | ["alloc_aligned_owned", h, a, sz, n] =>
    match h.toNat?, a.toNat?, sz.toNat?, n.toNat? with
    | some id, some a, some sz, some n =>
      allocP id (allocAlignedC c cap sz a n fuel) .bytes (toks.head! == "alloc_aligned_owned") 1 a
    | _, _, _, _ => pure (.text "bad-op")
  | ["alloc_t", h, a, sz] | ["alloc_t_owned", h, a, sz] =>
    match h.toNat?, a.toNat?, sz.toNat? with
    | some id, some a, some sz =>
      allocP id (if sz == 0 then pure (.ok none) else allocTC c cap sz a fuel) .obj (toks.head! == "alloc_t_owned") 2 a
    | _, _, _ => pure (.text "bad-op")
  | ["alloc_d", h] | ["alloc_d_owned", h] =>
    match h.toNat? with
    | some id => allocP id (allocTC c cap 8 8 fuel) .slot (toks.head! == "alloc_d_owned") 2 8
    | none => pure (.text "bad-op")
  | ["fill", h, b] =>
    match h.toNat?, b.toNat? with
    | some id, some b =>
      match s.find id with
      | some hd => if hd.kind == .slot then pure (.text "r=nohandle") else do
          na (.fill hd.mt.ptrOff hd.mt.ptrSize (UInt8.ofNat b)); pure (.text s!"r=ok fillrec {id} {b}")
      | none => pure (.text "r=nohandle")
    | _, _ => pure (.text "bad-op")
  | ["verify", h] =>
    match h.toNat? with
    | some id =>
      match s.find id with
      | some hd => if hd.kind == .slot then pure (.text "r=nohandle") else do
          na (.verify hd.mt.ptrOff hd.mt.ptrSize); pure (.text s!"verify {id}")
      | none => pure (.text "r=nohandle")
    | none => pure (.text "bad-op")
  | ["drop", h] => match h.toNat? with | some id => dropP id false false | none => pure (.text "bad-op")
  | ["detach", h] => match h.toNat? with | some id => dropP id true false | none => pure (.text "bad-op")
  | ["dealloc", h] => match h.toNat? with | some id => dropP id true true | none => pure (.text "bad-op")
  | ["discard_freelist"] => do
    let r ← discardFreelistC c fuel
    match r with
    | .ok n => pure (.text s!"r=ok val={n}")
    | .error e => pure (.text s!"r={errStr e}")
  | ["set_minseg", n] =>
    match n.toNat? with
    | some n => if c.ro then pure (.text "r=ok") else do store .minseg n "set_minimum_segment_size" 0; pure (.text "r=ok")
    | none => pure (.text "bad-op")
  | ["inc_discarded", n] =>
    match n.toNat? with
    | some n => do incDiscardedC c n; pure (.text "r=ok")
    | none => pure (.text "bad-op")
  | ["clone", a] =>
    match a.toNat? with
    | some a => do cloneC; pure (.text s!"r=ok clonerec {a}")
    | none => pure (.text "bad-op")
  | ["drop_arena", a] =>
    match a.toNat? with
    | some a => if s.arenas.contains a then do dropArenaC; pure (.text s!"r=ok droparenarec {a}") else pure (.text "r=nohandle")
    | none => pure (.text "bad-op")
  | ["refs"] => do let v ← load .refs "refs" 0; pure (.text s!"r=ok val={v}")
  -- arena-level readers: ONE load of the cursor, then the bounds check and the read against that value
  | ["rd", ty, ord, off] =>
    match parseTy ty, parseOrder ord, off.toNat? with
    | some _, some _, some _ => do let al ← load .alloc "allocated" 0; pure (.text s!"rdrec {ty} {ord} {off} {al}")
    | _, _, _ => pure (.text "bad-op")
  | ["rd_var", ty, off] =>
    match parseTy ty, off.toNat? with
    | some _, some _ => do let al ← load .alloc "allocated" 0; pure (.text s!"rdvrec {ty} {off} {al}")
    | _, _ => pure (.text "bad-op")
  | ["checksum", which] =>
    if which == "crc32" || which == "ordsum" then do
      let al ← load .alloc "allocated" 0; pure (.text s!"cksrec {which} {al}")
    else pure (.text "bad-op")
  -- `allocated_memory()` and `data()` each load the cursor once; `memory()` and `reserved_slice()` do not
  | ["slices"] => do
    let a1 ← load .alloc "allocated" 0
    let a2 ← load .alloc "allocated" 0
    pure (.text s!"r=ok val={a1},{a2 - c.dataOffset},{cap},{c.reserved}")
  | _ => pure (.text "bad-op")

/-- apply the table effects of a completed operation and produce its `res` text -/
def finishOp (x : CS) (o : OpOut) : CS × String :=
  match o with
  | .exit => (x, "")
  | .text t =>
    match t.splitOn " " with
    | ["r=ok", "fillrec", id, b] =>
      let id := id.toNat!; let b := UInt8.ofNat b.toNat!
      ({ x with fills := (id, b) :: x.fills.filter (·.1 != id) }, "r=ok")
    | ["verify", id] =>
      let id := id.toNat!
      match x.sess.find id, x.fills.find? (·.1 == id) with
      | some hd, some (_, b) =>
        let ok := (List.range hd.mt.ptrSize).all (fun k => x.sh.st.mem.rd (hd.mt.ptrOff + k) == b.toNat)
        (x, s!"r=ok v={if ok then 1 else 0}")
      | _, _ => (x, "r=ok v=1")
    | ["rdrec", ty, ord, off, al] =>
      match parseTy ty, parseOrder ord with
      | some t, some o =>
        match rdFixed (x.sh.st.image x.sess.cfg) al.toNat! off.toNat! t o with
        | .ok v => (x, s!"r=ok val={v} ref={v}")
        | .error _ => (x, "r=OutOfBounds")
      | _, _ => (x, "bad-op")
    | ["rdvrec", ty, off, al] =>
      match parseTy ty with
      | some t =>
        match rdVarint (x.sh.st.image x.sess.cfg) al.toNat! off.toNat! t with
        | .ok (n, v) => (x, s!"r=ok n={n} val={v}")
        | .error .outOfBounds => (x, "r=OutOfBounds")
        | .error .varint => (x, "r=Varint")
      | none => (x, "bad-op")
    | ["cksrec", which, al] =>
      let c := x.sess.cfg
      let data := checksumData (x.sh.st.image c) c.reserved al.toNat!
      if which == "crc32" then (x, s!"r=ok val={crc32.chunked 4096 data} ref={crc32.chunked 4096 data}")
      else (x, s!"r=ok val={ordSum.chunked 4096 data} ref={ordSum.chunked 4096 data}")
    | ["r=ok", "clonerec", a] => ({ x with sess := { x.sess with arenas := a.toNat! :: x.sess.arenas } }, "r=ok")
    | ["r=ok", "droparenarec", a] => ({ x with sess := { x.sess with arenas := x.sess.arenas.erase a.toNat! } }, "r=ok")
    | _ => (x, t)
  | .alloc id r hk owned mode talign =>
    match r with
    | .error e => (x, s!"r={errStr e}")
    | .ok m? =>
      let m := m?.getD Meta.null
      let h : Handle := { mt := m, kind := hk, owned := owned, null := m?.isNone }
      let sess := x.sess.put id h
      let z := if x.sh.st.mem.allZero m.ptrOff m.ptrSize then 1 else 0
      let am := if m.ptrSize == 0 then 0 else m.ptrOff % talign
      let extra := match mode with
        | 0 => s!" z={z}"
        | 1 => s!" am={am}"
        | _ => s!" am={am} z={z}"
      ({ x with sess := sess }, s!"r=ok off={m.ptrOff} cap={m.ptrSize} boff={m.memOff} bcap={m.memSize}{extra}")
  | .dropped id h detached extra =>
    -- the handle left the shared table when the operation started
    let sess := x.sess
    let x := { x with sess := sess, fills := x.fills.filter (·.1 != id) }
    (x, if extra == "" then s!"r=ok dc={sess.dropCount}" else extra)

def setThread (x : CS) (t : Thread) : CS := { x with threads := x.threads.map (fun u => if u.tid == t.tid then t else u) }

/-- let thread `t` run its non-atomic code: complete operations that need no further access, start the next
    operation, until it is blocked at an atomic access or finished -/
partial def advance (x : CS) (t : Thread) : CS :=
  match t.cur with
  | none =>
    match t.ops with
    | [] =>
      -- the thread drops its own clone of the arena, unless a live borrowed handle was allocated through it
      let borrows := x.via.any (fun (h, tid) => tid == t.tid && (x.sess.find h).isSome)
      if t.exiting || borrows || x.noclone then setThread x { t with finished := true }
      else advance x { t with cur := some (do dropArenaC; pure OpOut.exit), exiting := true }
    | op :: rest =>
      let p := mkOp x op
      -- a release takes its handle out of the shared table for the duration of the operation
      -- (the value a dropped handle owns is dropped FIRST, before the release makes its first atomic access: the drop
      -- counter moves when the operation starts)
      let x := match op with
        | ["drop", h] =>
          (match h.toNat? with
           | some id => (match x.sess.find id with
             | some hd => if hd.dropsValue false then { x with sess := { x.sess with dropCount := x.sess.dropCount + 1 } } else x
             | none => x)
           | none => x)
        | _ => x
      let x := match op with
        | [o, h] => if o == "drop" || o == "detach" || o == "dealloc" then
            (match h.toNat? with | some id => { x with sess := x.sess.erase id } | none => x)
          else if o == "drop_arena" then
            (match h.toNat? with | some a => { x with sess := { x.sess with arenas := x.sess.arenas.erase a } } | none => x)
          else x
        | _ => x
      advance x { t with cur := some p, ops := rest }
  | some p =>
    let (sh', r, nas) := settle 100000 x.sh p []
    let nonEmpty : NA → Bool := fun e => match e with
      | .zero _ len => len != 0 | .fill _ len _ => len != 0 | .verify _ len => len != 0 | .unmount => true
    let x := { x with sh := sh' }
    let t := { t with pend := t.pend ++ ((nas.filter nonEmpty).map (naStr t.tid sh'.st.cap)).toArray }
    match r with
    | .blocked p' => setThread x { t with cur := some p' }
    | .failed f =>
      let x := { x with out := (x.out ++ t.pend).push s!"res t={t.tid} i={t.idx} r={failStr f}" }
      setThread x { t with cur := none, ops := [], finished := true }
    | .done .exit => setThread { x with out := x.out ++ t.pend } { t with cur := none, finished := true, pend := #[] }
    | .done o =>
      let (x, txt) := finishOp x o
      let x := match o with
        | .alloc id (.ok _) _ false _ _ => { x with via := (id, t.tid) :: x.via }
        | _ => x
      -- the harness reports the ranges the arena really zero-filled (Hook::zero); so does the step machine
      let pend := t.pend
      let x := { x with out := (x.out ++ pend).push s!"res t={t.tid} i={t.idx} {txt}" }
      advance x { t with cur := none, idx := t.idx + 1, pend := #[] }

/-- grant one step to thread `tid` -/
def grant (x : CS) (tid : Nat) (spurious : Bool) : CS :=
  match x.threads.find? (·.tid == tid) with
  | none => { x with out := x.out.push s!"skip t={tid}" }
  | some t =>
    if t.finished then { x with out := x.out.push s!"skip t={tid}" }
    else match t.cur with
      | none => x
      | some p =>
        match stepAccess x.sh p spurious with
        | .error f =>
          let x := { x with out := x.out.push s!"res t={t.tid} i={t.idx} r={failStr f}" }
          setThread x { t with cur := none, ops := [], finished := true }
        | .ok (sh', p', e) =>
          let x := { x with sh := sh', out := x.out.push (evStr tid e) }
          advance x { t with cur := some p' }

def allDone (x : CS) : Bool := x.threads.all (·.finished)

partial def roundRobin (x : CS) (budget : Nat) : CS :=
  if budget == 0 || allDone x then x
  else
    let (x, b) := x.threads.foldl (fun (acc : CS × Nat) t =>
      let (x, b) := acc
      match x.threads.find? (·.tid == t.tid) with
      | some t' => if t'.finished || b == 0 then (x, b) else (grant x t'.tid false, b - 1)
      | none => (x, b)) (x, budget)
    roundRobin x b

def pendingStr {α : Type} : Prog α → String
  | .load l _ _ => s!"k=ld loc={locStr l}"
  | .store l _ _ _ => s!"k=st loc={locStr l}"
  | .cas l _ _ w _ _ => s!"k={if w then "casw" else "cas"} loc={locStr l}"
  | .rmw l _ sub _ _ => s!"k={if sub then "fas" else "faa"} loc={locStr l}"
  | _ => "k=? loc=?"

end Driver.ConcD


namespace Driver.ConcD

open Rarena Rarena.Conc

/-- one case of a `.cases` file (lines up to `end`) -/
def runCase (lines : List String) : Array String := Id.run do
  let mut out : Array String := #[]
  let mut sess : Option Sess := none
  let mut threads : List Thread := []
  let mut sched : List (Nat × Bool) := []
  let mut budget := 3000
  let mut noclone := false
  let mut bad := false
  for line in lines do
    let toks := (line.trimAscii.toString.splitOn " ").filter (· != "")
    match toks with
    | [] => pure ()
    | "cfg" :: rest =>
      match parseCfg rest with
      | none => out := out.push "bad-op"; bad := true
      | some o =>
        match Sess.init o with
        | none => out := out.push (if o.file || o.anon then "r=io:InvalidInput" else "r=InsufficientSpace"); bad := true
        | some x => out := out.push s!"r=ok doff={x.cfg.dataOffset} {stateStr x}"; sess := some x
    | "pre" :: op =>
      match sess with
      | none => out := out.push "r=nocase"
      | some x =>
        let r := step x op
        out := out.push r.out
        sess := r.sess
    | "thread" :: tid :: rest =>
      match tid.toNat? with
      | none => bad := true
      | some tid =>
        let ops := (" ".intercalate rest).splitOn " ; " |>.map (fun s => (s.splitOn " ").filter (· != ""))
        threads := threads ++ [{ tid := tid, ops := ops.filter (· != []) }]
    | "sched" :: es =>
      sched := sched ++ es.filterMap (fun e =>
        if e.endsWith "f" then (e.dropEnd 1).toString.toNat?.map (·, true) else e.toNat?.map (·, false))
    | ["budget", n] => budget := n.toNat?.getD 3000
    | ["crash"] => pure ()
    | ["noclone"] => noclone := true
    | _ => out := out.push "bad-op"
  match sess with
  | none => return out
  | some s =>
    if bad then return out
    let thrs := threads.mergeSort (fun a b => a.tid ≤ b.tid)
    -- every thread holds its own clone of the arena, taken before the hook is armed
    -- (with `noclone` they share arena value 0 by reference instead)
    let sh : Shared := { st := s.st, refs := s.refs + (if noclone then 0 else thrs.length) }
    let mut x : CS := { sess := s, sh := sh, fills := [], threads := thrs, out := out, fuel := 4000, noclone := noclone }
    for t in thrs do
      x := advance x t
    for (tid, sp) in sched do
      x := grant x tid sp
    x := roundRobin x budget
    for t in x.threads do
      if !t.finished then
        match t.cur with
        | some p => x := { x with out := x.out.push s!"hang t={t.tid} i={t.idx} at=0 {pendingStr p}" }
        | none => pure ()
    let fs := syncSess x
    let lv := fs.handles.all (fun (id, hd) =>
      match x.fills.find? (·.1 == id) with
      | some (_, b) => (List.range hd.mt.ptrSize).all (fun k => x.sh.st.mem.rd (hd.mt.ptrOff + k) == b.toNat)
      | none => true)
    let fin := if x.sh.released > 0 || !(x.sess.arenas.contains 0) then "final gone" else s!"final {stateStr fs} lv={if lv then 1 else 0}"
    return x.out.push fin

partial def readAll (h : IO.FS.Stream) (acc : Array String) : IO (Array String) := do
  let line ← h.getLine
  if line.isEmpty then return acc else readAll h (acc.push line)

def runFile (lines : Array String) : Array String := Id.run do
  let mut out : Array String := #[]
  let mut cur : List String := []
  for l in lines do
    if l.trimAscii.toString == "end" then
      out := out ++ runCase cur.reverse
      out := out.push "end"
      cur := []
    else cur := l :: cur
  return out

end Driver.ConcD

namespace Driver.HBD

open Rarena Rarena.HB

def parseOrd : String → Gen.Ord
  | "acq" => .acquire | "rel" => .release | "acqrel" => .acqRel | "sc" => .seqCst | _ => .relaxed

def locKey (s : String) : Nat × Option (Nat × Nat) :=
  match s with
  | "sent" => (1, none) | "alloc" => (2, none) | "minseg" => (3, none) | "disc" => (4, none) | "refs" => (5, none)
  | _ =>
    match s.splitOn "@" with
    | ["node", off] => let o := off.toNat?.getD 0; (1000 + o, some (o, o + 8))
    | _ => (6, none)

/-- one trace line → access -/
def parseAcc (toks : List String) : Option Acc :=
  match toks with
  | "ev" :: rest =>
    match Driver.kvNat rest "t", Driver.kv rest "k", Driver.kv rest "loc", Driver.kv rest "ord", Driver.kvNat rest "ok" with
    | some t, some k, some loc, some ord, some ok =>
      let (key, bytes) := locKey loc
      let ords := ord.splitOn "/"
      let o1 := parseOrd (ords.getD 0 "rlx")
      let o2 := parseOrd (ords.getD 1 "rlx")
      match k with
      | "ld" => some (.atomic t .load key bytes o1)
      | "st" => some (.atomic t .store key bytes o1)
      | "cas" | "casw" => if ok == 1 then some (.atomic t .rmw key bytes o1) else some (.atomic t .casFail key bytes o2)
      | "faa" | "fas" => some (.atomic t .rmw key bytes o1)
      | _ => none
    | _, _, _, _, _ => none
  | "na" :: rest =>
    match Driver.kvNat rest "t", Driver.kv rest "k", Driver.kvNat rest "lo", Driver.kvNat rest "hi", Driver.kv rest "src" with
    | some t, some k, some lo, some hi, some src => some (.plain t (k != "r") lo hi src)
    | _, _, _, _, _ => none
  | _ => none

def runCase (lines : List String) : Array String :=
  let toksL := lines.map (fun l => (l.trimAscii.toString.splitOn " ").filter (· != ""))
  let cap := (toksL.findSome? (fun t => Driver.kvNat t "cp")).getD 0
  let accs := toksL.filterMap parseAcc
  let threads := (accs.map (fun a => match a with | .atomic t .. => t | .plain t .. => t)).eraseDups
  let st := check cap threads accs
  #[s!"hb races={st.races.length} events={accs.length}"] ++ st.races.eraseDups.toArray

def runFile (lines : Array String) : Array String := Id.run do
  let mut out : Array String := #[]
  let mut cur : List String := []
  for l in lines do
    if l.trimAscii.toString == "end" then
      out := out ++ runCase cur.reverse
      out := out.push "end"
      cur := []
    else cur := l :: cur
  return out

end Driver.HBD

def main (args : List String) : IO UInt32 := do
  let stdin ← IO.getStdin
  let stdout ← IO.getStdout
  match args with
  | ["model"] | [] => Driver.loop stdin stdout none; return 0
  | ["conc"] =>
    let lines ← Driver.ConcD.readAll stdin #[]
    for l in Driver.ConcD.runFile lines do stdout.putStrLn l
    return 0
  | ["hb"] =>
    let lines ← Driver.ConcD.readAll stdin #[]
    for l in Driver.HBD.runFile lines do stdout.putStrLn l
    return 0
  | _ => IO.eprintln "usage: driver model | conc | hb"; return 2
