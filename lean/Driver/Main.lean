/-
  Driver — line protocol front end of the model (see harness/PROTOCOL.md).
  `driver model < case.ops` prints one observation line per input line.
-/
import RarenaVerif.Model.Basic
import RarenaVerif.Model.Core
import RarenaVerif.Model.Layout
import RarenaVerif.Model.Handle
import RarenaVerif.Model.Bytes
import RarenaVerif.Model.File

open Rarena

namespace Driver

def hexDigit (n : Nat) : Char := if n < 10 then Char.ofNat (48 + n) else Char.ofNat (87 + n)

def hex16 (v : UInt64) : String :=
  String.ofList ((List.range 16).map (fun i => hexDigit ((v.toNat / 16 ^ (15 - i)) % 16)))

def kv (toks : List String) (key : String) : Option String :=
  toks.findSome? (fun t => match t.splitOn "=" with
    | [k, v] => if k == key then some v else none
    | _ => none)

def kvNat (toks : List String) (key : String) : Option Nat := (kv toks key).bind String.toNat?

/-- outcome of one protocol line -/
structure Step where
  sess : Option Sess
  out : String

def flStr (s : St) : String :=
  let (l, trunc) := s.walk 4096
  let items := l.map (fun (o, sz) => s!"{o}:{sz}")
  let items := if trunc then items ++ ["..."] else items
  "[" ++ ",".intercalate items ++ "]"

def stateStr (x : Sess) : String :=
  let s := x.st
  let rem := s.cap - s.allocated
  let img := s.image x.cfg
  s!"al={s.allocated} di={s.discarded} rem={rem} ms={s.minSeg} cp={s.cap} rf={x.refs} fl={flStr s} mem={hex16 (fnv1a img)} ma={hex16 (fnv1a (img.extract 0 s.allocated))}"

def failStr : Fail → String
  | .trap site => s!"trap:{site}"
  | .diverge => "diverge"

def errStr : Err → String
  | .insufficient => "InsufficientSpace"
  | .readOnly => "ReadOnly"

def parseKind : String → Option Kind
  | "none" => some .none | "opt" => some .opt | "pess" => some .pess | _ => none

def parseCfg (toks : List String) : Option Opts := do
  let flavour ← kv toks "flavour"
  let fl ← (kv toks "freelist").bind parseKind
  let backend ← kv toks "backend"
  let unify ← kvNat toks "unify"
  let reserved ← kvNat toks "reserved"
  let cap ← kvNat toks "cap"
  let minseg ← kvNat toks "minseg"
  let retries ← kvNat toks "retries"
  let magic ← kvNat toks "magic"
  if flavour != "sync" && flavour != "unsync" then none
  if backend != "vec" && backend != "anon" && backend != "file" then none
  pure { sync := flavour == "sync", kind := fl, unify := unify == 1, file := backend == "file",
         anon := backend == "anon",
         reserved := reserved, cap := cap, minSeg := minseg, retries := retries, magic := magic }

def parseTy : String → Option IntTy
  | "u8" => some ⟨1, false⟩ | "i8" => some ⟨1, true⟩
  | "u16" => some ⟨2, false⟩ | "i16" => some ⟨2, true⟩
  | "u32" => some ⟨4, false⟩ | "i32" => some ⟨4, true⟩
  | "u64" => some ⟨8, false⟩ | "i64" => some ⟨8, true⟩
  | "usize" => some ⟨8, false⟩ | "isize" => some ⟨8, true⟩
  | "u128" => some ⟨16, false⟩ | "i128" => some ⟨16, true⟩
  | _ => none

def parseOrder : String → Option Order
  | "be" => some .be | "le" => some .le | "ne" => some .le | _ => none

def okAlign (a s : Nat) : Bool := (a == 1 || a == 2 || a == 4 || a == 8 || a == 16) && s ≤ 64 && s % a == 0

/-- answer for an allocation result; `kind`: 0 = bytes, 1 = aligned bytes, 2 = typed -/
def allocAnswer (x : Sess) (id : Nat) (r : M (AllocOut × St)) (hk : HKind) (owned : Bool)
    (mode : Nat) (talign : Nat) : Step :=
  match r with
  | .error f => { sess := none, out := s!"r={failStr f}" }
  | .ok (.error e, st) =>
    let x := { x with st := st }
    { sess := some x, out := s!"r={errStr e} {stateStr x}" }
  | .ok (.ok m?, st) =>
    let x := { x with st := st }
    let x := x.addHandle id m? hk owned
    let m := m?.getD Meta.null
    let z := if st.mem.allZero m.ptrOff m.ptrSize then 1 else 0
    let am := if m?.isNone then 0 else m.ptrOff % talign
    let extra := match mode with
      | 0 => s!" z={z}"
      | 1 => s!" am={am}"
      | _ => s!" am={am} z={z}"
    { sess := some x,
      out := s!"r=ok off={m.ptrOff} cap={m.ptrSize} boff={m.memOff} bcap={m.memSize}{extra} {stateStr x}" }

def nohandle (x : Sess) : Step := { sess := some x, out := s!"r=nohandle {stateStr x}" }

def bufErrStr : BufErr → String
  | .insufficient => "InsufficientBuffer" | .incomplete => "IncompleteBuffer"
  | .varint => "Varint" | .panic => "panic"


def fileStr (fs : FileSys) : String :=
  match fs with
  | none => "fh=none flen=none"
  | some f => s!"fh={hex16 (fnv1a f)} flen={f.size}"

def ioStr : IoKind → String
  | .notFound => "NotFound" | .alreadyExists => "AlreadyExists" | .invalidInput => "InvalidInput"
  | .invalidData => "InvalidData" | .permissionDenied => "PermissionDenied"

def kindStr : Kind → String
  | .none => "none" | .opt => "opt" | .pess => "pess"

def splitmix (seed : UInt64) (n : Nat) : Mem := Id.run do
  let mut st := seed
  let mut out : Mem := Array.mkEmpty n
  for _ in [0:n] do
    st := st + 0x9E3779B97F4A7C15
    let mut z := st
    z := (z ^^^ (z >>> 30)) * 0xBF58476D1CE4E5B9
    z := (z ^^^ (z >>> 27)) * 0x94D049BB133111EB
    z := z ^^^ (z >>> 31)
    out := out.push z.toUInt8
  return out

def parseMode : String → Option OpenMode
  | "mut" => some .mut | "copy" => some .copy | "ro" => some .ro | "copy_ro" => some .copyRo | _ => none

/-- file operations that are legal while the case is closed -/
def closedStep (x : Sess) (toks : List String) : Step :=
  match toks with
  | ["filehash"] => { sess := some x, out := s!"r=ok {fileStr x.file}" }
  | ["mutate_file", i, v] =>
    match i.toNat?, v.toNat?, x.fs with
    | some i, some v, some f =>
      if i < f.size ∧ v < 256 then
        let x := { x with fs := some (f.update i (i + 1) (fun _ => UInt8.ofNat v)) }
        { sess := some x, out := s!"r=ok {fileStr x.fs}" }
      else { sess := some x, out := "bad-op" }
    | _, _, _ => { sess := some x, out := "bad-op" }
  | ["truncate_file", n] =>
    match n.toNat?, x.fs with
    | some n, some f =>
      let f' := if n ≤ f.size then f.extract 0 n else extendTo f n
      let x := { x with fs := some f' }
      { sess := some x, out := s!"r=ok {fileStr x.fs}" }
    | _, _ => { sess := some x, out := "bad-op" }
  | ["random_file", seed, n] =>
    match seed.toNat?, n.toNat? with
    | some seed, some n =>
      let x := { x with fs := some (splitmix (UInt64.ofNat seed) n) }
      { sess := some x, out := s!"r=ok {fileStr x.fs}" }
    | _, _ => { sess := some x, out := "bad-op" }
  | ["delete_file"] => { sess := some { x with fs := none }, out := "r=ok" }
  | "reopen" :: mode :: rest =>
    match parseMode mode, kv rest "cap", kvNat rest "magic", (kv rest "freelist").bind parseKind,
          kvNat rest "create", kv rest "flavour", kvNat rest "reserved", kvNat rest "minseg" with
    | some m, some capS, some magic, some k, some create, some fl, some reserved, some minseg =>
      let cap : Option (Option Nat) :=
        if capS == "same" then some (some x.opts.cap) else if capS == "none" then some none else capS.toNat?.map some
      match cap with
      | none => { sess := some x, out := "bad-op" }
      | some cap =>
        let oo : OpenOpts := { sync := fl == "sync", kind := k, reserved := reserved, cap := cap, minSeg := minseg,
                               retries := x.opts.retries, magic := magic, create := create == 1, createNew := false }
        match openFile m oo x.fs with
        | (.error e, fs') =>
          let x := { x with fs := fs' }
          { sess := some x, out := s!"r=io:{ioStr e} {fileStr fs'}" }
        | (.ok r, fs') =>
          let opts : Opts := { sync := oo.sync, kind := r.cfg.kind, unify := true, file := true, anon := false,
                               reserved := reserved, cap := x.opts.cap, minSeg := minseg, retries := x.opts.retries,
                               magic := magic }
          let x := { x with opts := opts, cfg := r.cfg, st := r.st, handles := [], arenas := [0], refs := 1,
                            fs := fs', mapping := r.mapping, closed := false, removeOnDrop := false }
          { sess := some x,
            out := s!"r=ok doff={r.cfg.dataOffset} ro={if r.cfg.ro then 1 else 0} fk={kindStr r.cfg.kind} mv={magic} {fileStr x.file} {stateStr x}" }
    | _, _, _, _, _, _, _, _ => { sess := some x, out := "bad-op" }
  | ["close"] | ["flush"] | ["remove_on_drop", _] => { sess := some x, out := "bad-op" }
  | _ => { sess := some x, out := "r=closed" }

/-- the typed allocations are in bounds for the model when the type is a valid one of the table -/
def step (x : Sess) (toks : List String) : Step :=
  let fuel := x.fuel
  let c := x.cfg
  let simple (x : Sess) (pre : String) : Step := { sess := some x, out := s!"{pre} {stateStr x}" }
  let failed (f : Fail) : Step := { sess := none, out := s!"r={failStr f}" }
  let withBuf (h : String) (k : Nat → Handle → Step) : Step :=
    match h.toNat? with
    | none => { sess := some x, out := "bad-op" }
    | some id =>
      match x.find id with
      | some hd => if hd.kind == .bytes then k id hd else nohandle x
      | none => nohandle x
  match toks with
  | ["alloc_bytes", h, n] | ["alloc_bytes_owned", h, n] =>
    match h.toNat?, n.toNat? with
    | some id, some n =>
      allocAnswer x id (allocBytes c x.st n fuel) .bytes (toks.head! == "alloc_bytes_owned") 0 1
    | _, _ => { sess := some x, out := "bad-op" }
  | ["alloc_aligned", h, a, s, n] | ["alloc_aligned_owned", h, a, s, n] =>
    match h.toNat?, a.toNat?, s.toNat?, n.toNat? with
    | some id, some a, some s, some n =>
      if !okAlign a s then { sess := some x, out := "bad-op" }
      else allocAnswer x id (allocAligned c x.st s a n fuel) .bytes (toks.head! == "alloc_aligned_owned") 1 a
    | _, _, _, _ => { sess := some x, out := "bad-op" }
  | ["alloc_t", h, a, s] | ["alloc_t_owned", h, a, s] =>
    match h.toNat?, a.toNat?, s.toNat? with
    | some id, some a, some s =>
      if !okAlign a s then { sess := some x, out := "bad-op" }
      else allocAnswer x id (allocT c x.st s a fuel) .obj (toks.head! == "alloc_t_owned") 2 a
    | _, _, _ => { sess := some x, out := "bad-op" }
  | ["alloc_d", h] | ["alloc_d_owned", h] =>
    match h.toNat? with
    | some id => allocAnswer x id (allocT c x.st 8 8 fuel) .slot (toks.head! == "alloc_d_owned") 2 8
    | none => { sess := some x, out := "bad-op" }
  | ["fill", h, b] =>
    match h.toNat?, b.toNat? with
    | some id, some b =>
      match x.find id with
      | some hd =>
        if hd.kind == .slot then nohandle x
        else
          let st := { x.st with mem := x.st.mem.fill hd.mt.ptrOff hd.mt.ptrSize (UInt8.ofNat b) }
          simple { x with st := st } "r=ok"
      | none => nohandle x
    | _, _ => { sess := some x, out := "bad-op" }
  | ["drop", h] | ["detach", h] =>
    match h.toNat? with
    | some id =>
      match x.find id with
      | none => nohandle x
      | some _ =>
        match x.dropHandle id (toks.head! == "detach") with
        | .error f => failed f
        | .ok x' => simple x' s!"r=ok dc={x'.dropCount}"
    | none => { sess := some x, out := "bad-op" }
  | ["dealloc", h] =>
    match h.toNat? with
    | some id =>
      match x.find id with
      | none => nohandle x
      | some hd =>
        match x.dropHandle id true with
        | .error f => failed f
        | .ok x' =>
          match dealloc c x'.st hd.mt.memOff hd.mt.memSize fuel with
          | .error f => failed f
          | .ok (ret, st) => simple { x' with st := st } s!"r=ok ret={if ret then 1 else 0}"
    | none => { sess := some x, out := "bad-op" }
  | ["close"] =>
    if !x.opts.file then { sess := some x, out := "bad-op" }
    else
      let fs := if x.removeOnDrop then none else x.file
      let x := { x with fs := fs, handles := [], arenas := [], closed := true }
      { sess := some x, out := s!"r=ok {fileStr x.fs}" }
  | ["flush"] => simple x "r=ok"
  | ["filehash"] => { sess := some x, out := s!"r=ok {fileStr x.file}" }
  | ["remove_on_drop", b] =>
    if !x.opts.file then { sess := some x, out := "bad-op" }
    else simple { x with removeOnDrop := b == "1" } "r=ok"
  | "reopen" :: _ | ["mutate_file", _, _] | ["truncate_file", _] | ["random_file", _, _] | ["delete_file"] =>
    { sess := some x, out := "bad-op" }
  | ["discard_freelist"] =>
    match discardFreelist c x.st fuel with
    | .error f => failed f
    | .ok (.error e, st) => simple { x with st := st } s!"r={errStr e}"
    | .ok (.ok n, st) => simple { x with st := st } s!"r=ok val={n}"
  | ["set_minseg", n] =>
    match n.toNat? with
    | some n => simple { x with st := setMinSeg c x.st n } "r=ok"
    | none => { sess := some x, out := "bad-op" }
  | ["inc_discarded", n] =>
    match n.toNat? with
    | some n => simple { x with st := x.st.incDiscarded c n } "r=ok"
    | none => { sess := some x, out := "bad-op" }
  | ["rewind", w, v] =>
    let p : Option Pos := match w with
      | "start" => v.toNat?.map Pos.start
      | "end" => v.toNat?.map Pos.end
      | "cur" => v.toInt?.map Pos.cur
      | _ => none
    match p with
    | some p => simple { x with st := rewind c x.st p } "r=ok"
    | none => { sess := some x, out := "bad-op" }
  | ["clear"] =>
    match clear c x.st with
    | .error e => simple x s!"r={errStr e}"
    | .ok st => simple { x with st := st } "r=ok"
  | ["truncate", n] =>
    match n.toNat? with
    | some n =>
      if c.sync then simple x "r=na"
      else match truncate c x.st n with
        | .error _ => simple x "r=io:PermissionDenied"
        | .ok st => simple { x with st := st } "r=ok"
    | none => { sess := some x, out := "bad-op" }
  | ["clone", a] =>
    match a.toNat? with
    | some a => simple { x with arenas := a :: x.arenas, refs := x.refs + 1 } "r=ok"
    | none => { sess := some x, out := "bad-op" }
  | ["drop_arena", a] =>
    match a.toNat? with
    | some a =>
      if x.arenas.contains a then simple { x with arenas := x.arenas.erase a, refs := x.refs - 1 } "r=ok"
      else nohandle x
    | none => { sess := some x, out := "bad-op" }
  | ["rd", ty, ord, off] =>
    match parseTy ty, parseOrder ord, off.toNat? with
    | some t, some o, some off =>
      match rdFixed (x.st.image c) x.st.allocated off t o with
      | .ok v => simple x s!"r=ok val={v} ref={v}"
      | .error _ => simple x "r=OutOfBounds"
    | _, _, _ => { sess := some x, out := "bad-op" }
  | ["rd_var", ty, off] =>
    match parseTy ty, off.toNat? with
    | some t, some off =>
      match rdVarint (x.st.image c) x.st.allocated off t with
      | .ok (n, v) => simple x s!"r=ok n={n} val={v}"
      | .error .outOfBounds => simple x "r=OutOfBounds"
      | .error .varint => simple x "r=Varint"
    | _, _ => { sess := some x, out := "bad-op" }
  | ["slices"] =>
    let s := x.st
    simple x s!"r=ok val={s.allocated},{s.allocated - c.dataOffset},{s.cap},{c.reserved}"
  | ["checksum", which] =>
    let data := checksumData (x.st.image c) c.reserved x.st.allocated
    match which with
    | "crc32" => simple x s!"r=ok val={crc32.chunked 4096 data} ref={crc32.oneShot data}"
    | "ordsum" => simple x s!"r=ok val={ordSum.chunked 4096 data} ref={ordSum.oneShot data}"
    | _ => { sess := some x, out := "bad-op" }
  | ["info"] =>
    let o := x.opts
    let b := fun (v : Bool) => if v then 1 else 0
    let isMap := o.file || o.anon
    simple x s!"r=ok val={b c.unify},{b c.ro},{b isMap},{b o.file},{b (!o.file)},{b o.anon},{b o.file},{b o.file},{o.magic},0,4096,{c.reserved},{c.dataOffset}"
  | ["wres", b] =>
    match b.toNat? with
    | some b =>
      if c.ro ∧ c.reserved ≠ 0 then simple x "r=panic"
      else
        let st := { x.st with mem := x.st.mem.fill 0 c.reserved (UInt8.ofNat b) }
        simple { x with st := st } "r=ok"
    | none => { sess := some x, out := "bad-op" }
  -- buffer operations
  | ["put", h, ty, ord, v] =>
    withBuf h fun id hd =>
      match parseTy ty, parseOrder ord, v.toInt? with
      | some t, some o, some v =>
        match bufPut x.st.mem hd t o v with
        | .error e => simple x s!"r={bufErrStr e} len={hd.len} oo=1"
        | .ok (mem, hd') => simple ({ x with st := { x.st with mem := mem } }.put id hd') s!"r=ok len={hd'.len} oo=1"
      | _, _, _ => { sess := some x, out := "bad-op" }
  | ["get", h, ty, ord] =>
    withBuf h fun id hd =>
      match parseTy ty, parseOrder ord with
      | some t, some o =>
        match bufGet x.st.mem hd t o with
        | .error e => simple x s!"r={bufErrStr e} len={hd.len} oo=1"
        | .ok (v, hd') => simple (x.put id hd') s!"r=ok val={v} len={hd'.len} oo=1"
      | _, _ => { sess := some x, out := "bad-op" }
  | ["put_var", h, ty, v] =>
    withBuf h fun id hd =>
      match parseTy ty, v.toInt? with
      | some t, some v =>
        let (mem, r) := bufPutVarint x.st.mem hd t v
        let x := { x with st := { x.st with mem := mem } }
        match r with
        | .error e => simple x s!"r={bufErrStr e} len={hd.len} oo=1"
        | .ok (n, hd') => simple (x.put id hd') s!"r=ok n={n} len={hd'.len} oo=1"
      | _, _ => { sess := some x, out := "bad-op" }
  | ["get_var", h, ty] =>
    withBuf h fun _ hd =>
      match parseTy ty with
      | some t =>
        match bufGetVarint x.st.mem hd t with
        | .error e => simple x s!"r={bufErrStr e} len={hd.len} oo=1"
        | .ok (n, v) => simple x s!"r=ok n={n} val={v} len={hd.len} oo=1"
      | none => { sess := some x, out := "bad-op" }
  | ["put_slice", h, l, b] =>
    withBuf h fun id hd =>
      match l.toNat?, b.toNat? with
      | some l, some b =>
        match bufPutSlice x.st.mem hd l (UInt8.ofNat b) with
        | .error e => simple x s!"r={bufErrStr e} len={hd.len} oo=1"
        | .ok (mem, hd') => simple ({ x with st := { x.st with mem := mem } }.put id hd') s!"r=ok len={hd'.len} oo=1"
      | _, _ => { sess := some x, out := "bad-op" }
  | ["set_len", h, n] =>
    withBuf h fun id hd =>
      match n.toNat? with
      | some n =>
        match bufSetLen x.st.mem hd n with
        | .error e => simple x s!"r={bufErrStr e} len={hd.len}"
        | .ok (mem, hd') => simple ({ x with st := { x.st with mem := mem } }.put id hd') s!"r=ok len={hd'.len} oo=1"
      | none => { sess := some x, out := "bad-op" }
  | ["align_to", h, a, s] =>
    withBuf h fun id hd =>
      match a.toNat?, s.toNat? with
      | some a, some s =>
        if !okAlign a s then { sess := some x, out := "bad-op" }
        else match bufAlignTo hd a s with
          | .error f => failed f
          | .ok (.error e) => simple x s!"r={bufErrStr e} len={hd.len} oo=1"
          | .ok (.ok (po, hd')) =>
            -- the pointer of an empty owned buffer is `NonNull::dangling()`, not an arena address
            let pos := match po with | some p => (if hd.null && hd.owned then "dangling" else toString p) | none => "dangling"
            simple (x.put id hd') s!"r=ok po={pos} len={hd'.len} oo=1"
      | _, _ => { sess := some x, out := "bad-op" }
  | ["put_aligned", h, a, s, b] =>
    withBuf h fun id hd =>
      match a.toNat?, s.toNat?, b.toNat? with
      | some a, some s, some b =>
        if !okAlign a s then { sess := some x, out := "bad-op" }
        else match bufPutAligned x.st.mem hd a s (UInt8.ofNat b) with
          | .error f => failed f
          | .ok (.error e) => simple x s!"r={bufErrStr e} len={hd.len} oo=1"
          | .ok (.ok (po, mem, hd')) =>
            let pos := match po with | some p => (if hd.null && hd.owned then "dangling" else toString p) | none => "dangling"
            simple ({ x with st := { x.st with mem := mem } }.put id hd') s!"r=ok po={pos} len={hd'.len} oo=1"
      | _, _, _ => { sess := some x, out := "bad-op" }
  | ["putT", h, _a, s, b] =>
    withBuf h fun id hd =>
      match s.toNat?, b.toNat? with
      | some s, some b =>
        match bufPutT x.st.mem hd s (UInt8.ofNat b) with
        | .error e => simple x s!"r={bufErrStr e} len={hd.len} oo=1"
        | .ok (mem, hd') => simple ({ x with st := { x.st with mem := mem } }.put id hd') s!"r=ok len={hd'.len} oo=1"
      | _, _ => { sess := some x, out := "bad-op" }
  | _ => { sess := some x, out := "bad-op" }

partial def loop (h : IO.FS.Stream) (out : IO.FS.Stream) (sess : Option Sess) : IO Unit := do
  let line ← h.getLine
  if line.isEmpty then return ()
  let toks := (line.trimAscii.toString.splitOn " ").filter (· != "")
  match toks with
  | [] => loop h out sess
  | "cfg" :: rest =>
    match parseCfg rest with
    | none => out.putStrLn "bad-op"; loop h out none
    | some o =>
      match Sess.init o with
      | none =>
        -- `Options::alloc` reports `Error::InsufficientSpace`, the map constructors wrap it into `InvalidInput`
        out.putStrLn (if o.file || o.anon then "r=io:InvalidInput" else "r=InsufficientSpace"); loop h out none
      | some x => out.putStrLn s!"r=ok doff={x.cfg.dataOffset} {stateStr x}"; loop h out (some x)
  | _ =>
    match sess with
    | none => out.putStrLn "r=nocase"; loop h out none
    | some x =>
      let r := if x.closed then closedStep x toks else step x toks
      out.putStrLn r.out
      loop h out r.sess

end Driver

def main (args : List String) : IO UInt32 := do
  let stdin ← IO.getStdin
  let stdout ← IO.getStdout
  match args with
  | ["model"] | [] => Driver.loop stdin stdout none; return 0
  | _ => IO.eprintln "usage: driver model"; return 2
