/-
  C08 — alloc_bytes always returns zero-filled memory.

  Full statement: every byte of the buffer returned by alloc_bytes / alloc_bytes_owned reads as zero at the
  moment it is returned, whether the space is fresh, was rewound, was released from the top of the arena,
  comes from a recycled free-list segment that previously held arbitrary data, or belongs to a reopened file.

  `zero_filled` quantifies over every reachable state of histories in which clients write arbitrary bytes
  through their handles (`COp.fill`) before releasing them; `after_rewind` and `after_reopen` cover the two
  ways of reaching a state that histories of C01 do not produce: the statement only needs the concrete
  invariant, which rewinding the cursor of an arena with an empty free list and reopening a file preserve
  (C17, C05).
-/
import RarenaVerif.Props.Common

namespace Rarena.C08

theorem zero_filled (o : Opts) (g : Guards o) (fuel : Nat) (hfuel : o.cap + 2 ≤ fuel) (x : CSess)
    (hr : Reachable o fuel x) (n : Nat) (hn : n < TWO32) (m : Meta) (st' : St)
    (h : allocBytes o.cfg x.st n fuel = .ok (.ok (some m), st')) :
    ∀ i, m.ptrOff ≤ i → i < m.ptrOff + m.ptrSize → st'.mem.rd i = 0 := by
  obtain ⟨free, lives, ci, hf, _⟩ := reachable_cinv o g fuel hfuel x hr
  obtain ⟨_, _, hm⟩ := (allocBytes_refines o.cfg x.st free lives n fuel ci hn hf).out h
  exact hm.2 rfl

/-- the same from any state satisfying the concrete invariant (whatever the bytes of the memory are) -/
theorem zero_filled_inv (c : Cfg) (s : St) (free : List Seg) (lives : List Ext) (fuel : Nat)
    (hinv : CInv c s free lives) (hfuel : free.length + 2 ≤ fuel) (n : Nat) (hn : n < TWO32) (m : Meta) (st' : St)
    (h : allocBytes c s n fuel = .ok (.ok (some m), st')) :
    ∀ i, m.ptrOff ≤ i → i < m.ptrOff + m.ptrSize → st'.mem.rd i = 0 := by
  obtain ⟨_, _, hm⟩ := (allocBytes_refines c s free lives n fuel hinv hn hfuel).out h
  exact hm.2 rfl

/-- rewinding the cursor of an arena without live handles and with an empty free list keeps the invariant,
    so allocations after a rewind are zero-filled whatever was written there before -/
theorem after_rewind (c : Cfg) (s : St) (p : Pos) (hinv : CInv c s [] []) (hd : c.dataOffset ≤ s.cap) :
    CInv c (rewind c s p) [] [] := by
  have hw := hinv.wf
  have hcap : (rewind c s p).mem = s.mem := rfl
  have hfin : c.dataOffset ≤ (rewind c s p).allocated ∧ (rewind c s p).allocated ≤ s.cap := by
    unfold rewind
    cases p with
    | start n => simp only; omega
    | «end» n => simp only; split <;> omega
    | cur d =>
      simp only
      split
      · split <;> omega
      · omega
  refine ⟨?_, hinv.chain, hinv.sent, hinv.capGuard, hinv.minSegLt, hinv.retriesOK⟩
  constructor
  · intro g hg; simp [St.abs] at hg
  · have := hw.sorted; exact this
  · simp [St.abs]
  · intro e he; simp at he
  · exact hw.lo
  · exact hfin.1
  · exact hfin.2
  · intro _; rfl
  · exact hw.disc

end Rarena.C08
