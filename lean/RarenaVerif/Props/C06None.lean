/-
  C06 (continued) — a crash at ANY point of ANY multi-thread run, complete for arenas with `Freelist::None`.

  Proved in `Proofs/CrashNone.lean` on the atomic-step machine `Model/Conc.lean`: take a file-backed `Freelist::None` arena
  satisfying the concrete invariant (it may already hold live allocations `lives0`), ANY number of threads running ANY
  programs of `alloc_bytes` / `alloc_aligned_bytes::<T>` / `alloc::<T>` and releases of own handles, ANY schedule, and
  kill the process in ANY global state `g` the machine reaches (every point between two atomic accesses of any thread).
  Then
    * the memory image satisfies `CInv` for the empty free list and the live set `lives0 ++ (extents held by the threads)`
      (`none_crash_cinv`), its identification bytes and reserved prefix are intact (`none_crash_wellformed`), and every
      byte below the initial cursor — in particular every allocation that was live before — is unchanged
      (`none_crash_live_intact`);
    * a step changes bytes only inside the extent it reserves (`none_step_below_cursor_intact`), and the statements
      hold for ARBITRARY contents of the data area (`none_crash_any_bytes`): torn zero-fills and client writes, which the
      machine does not expose as states, cannot matter;
    * the file reopens writable with the same cursor, the same bytes below it, and `CInv` for the same live set
      (`none_crash_reopens`, `none_crash_reopens_cap`), and every later `alloc_bytes` on the crashed or the reopened
      arena terminates without re-issuing a live range (`none_crash_later_ops`, `none_crash_reopened_later_ops`).
  The Optimistic / Pessimistic kinds under concurrency are NOT covered (and a crash between the mark and the unlink CAS of
  a removal is the known finding F15); for them see `Props/C06Mid.lean` (solo release) and the crash-point enumeration on
  the real code.
-/
import RarenaVerif.Proofs.CrashNone

namespace Rarena.C06None
open Rarena Rarena.Conc Rarena.Conc.NoneFL

theorem none_crash_cinv (c : Cfg) (hk : c.kind = .none) (hro : c.ro = false) (sh : Shared) (lives0 : List Ext)
    (hinv : CInv c sh.st [] lives0) (fuel : Nat)
    (progs : List (List NOp)) (hok : ∀ ops ∈ progs, ∀ op ∈ ops, op.ok) (sched : List (Nat × Bool)) :
    let g0 : Global (List Meta) := { sh := sh, threads := progs.map (fun ops => noneProg c sh.st.cap fuel ops []) }
    let g := (g0.run sched).1
    ∃ ghs, NInv sh.st.cap sh.st.allocated sh.st.discarded g ghs ∧ CInv c g.sh.st [] (lives0 ++ owns ghs) :=
  NoneFL.none_crash_cinv c hk hro sh lives0 hinv fuel progs hok sched

theorem none_crash_wellformed (c : Cfg) (hk : c.kind = .none) (hro : c.ro = false) (sh : Shared) (lives0 : List Ext)
    (hinv : CInv c sh.st [] lives0) (fuel : Nat)
    (progs : List (List NOp)) (hok : ∀ ops ∈ progs, ∀ op ∈ ops, op.ok) (sched : List (Nat × Bool))
    (magic : Nat) (hwf : C05.WellFormedFile c sh.st magic) :
    let g0 : Global (List Meta) := { sh := sh, threads := progs.map (fun ops => noneProg c sh.st.cap fuel ops []) }
    let g := (g0.run sched).1
    C05.WellFormedFile c g.sh.st magic ∧ PrefixIntact c sh.st g.sh.st :=
  NoneFL.none_crash_wellformed c hk hro sh lives0 hinv fuel progs hok sched magic hwf

theorem none_crash_live_intact (c : Cfg) (hk : c.kind = .none) (hro : c.ro = false) (sh : Shared) (lives0 : List Ext)
    (hinv : CInv c sh.st [] lives0) (fuel : Nat)
    (progs : List (List NOp)) (hok : ∀ ops ∈ progs, ∀ op ∈ ops, op.ok) (sched : List (Nat × Bool)) :
    let g0 : Global (List Meta) := { sh := sh, threads := progs.map (fun ops => noneProg c sh.st.cap fuel ops []) }
    let g := (g0.run sched).1
    LiveIntact sh.st g.sh.st lives0 ∧ (∀ i, i < sh.st.allocated → g.sh.st.mem.rd i = sh.st.mem.rd i) ∧
      g.sh.st.mem.size = sh.st.mem.size :=
  NoneFL.none_crash_live_intact c hk hro sh lives0 hinv fuel progs hok sched

theorem none_step_below_cursor_intact (c : Cfg) (hk : c.kind = .none) (hro : c.ro = false) (sh : Shared)
    (lives0 : List Ext) (hinv : CInv c sh.st [] lives0) (fuel : Nat)
    (progs : List (List NOp)) (hok : ∀ ops ∈ progs, ∀ op ∈ ops, op.ok) (sched : List (Nat × Bool))
    (tid : Nat) (sp : Bool) :
    let g0 : Global (List Meta) := { sh := sh, threads := progs.map (fun ops => noneProg c sh.st.cap fuel ops []) }
    let g := (g0.run sched).1
    ∃ ghs, NInv sh.st.cap sh.st.allocated sh.st.discarded g ghs ∧
      (∀ i, i < g.sh.st.allocated → (g.step tid sp).1.sh.st.mem.rd i = g.sh.st.mem.rd i) ∧
      LiveIntact g.sh.st (g.step tid sp).1.sh.st (lives0 ++ owns ghs) :=
  NoneFL.none_step_below_cursor_intact c hk hro sh lives0 hinv fuel progs hok sched tid sp

theorem none_crash_any_bytes (c : Cfg) (hk : c.kind = .none) (hro : c.ro = false) (sh : Shared) (lives0 : List Ext)
    (hinv : CInv c sh.st [] lives0) (fuel : Nat)
    (progs : List (List NOp)) (hok : ∀ ops ∈ progs, ∀ op ∈ ops, op.ok) (sched : List (Nat × Bool))
    (magic : Nat) (hwf : C05.WellFormedFile c sh.st magic) (mem' : Mem) :
    let g0 : Global (List Meta) := { sh := sh, threads := progs.map (fun ops => noneProg c sh.st.cap fuel ops []) }
    let g := (g0.run sched).1
    mem'.size = g.sh.st.mem.size → (∀ i, i < c.dataOffset → mem'.rd i = g.sh.st.mem.rd i) →
    ∃ ghs, NInv sh.st.cap sh.st.allocated sh.st.discarded g ghs ∧
      CInv c { g.sh.st with mem := mem' } [] (lives0 ++ owns ghs) ∧
      C05.WellFormedFile c { g.sh.st with mem := mem' } magic :=
  NoneFL.none_crash_any_bytes c hk hro sh lives0 hinv fuel progs hok sched magic hwf mem'

theorem none_crash_reopens (c : Cfg) (hk : c.kind = .none) (hro : c.ro = false) (sh : Shared) (lives0 : List Ext)
    (hinv : CInv c sh.st [] lives0) (fuel : Nat)
    (progs : List (List NOp)) (hok : ∀ ops ∈ progs, ∀ op ∈ ops, op.ok) (sched : List (Nat × Bool))
    (magic : Nat) (o : OpenOpts) (tail : Mem)
    (hwf : C05.WellFormedFile c sh.st magic) (ho : C05.Matches o c magic)
    (hr : o.sync = true → o.retries ≤ 255) :
    let g0 : Global (List Meta) := { sh := sh, threads := progs.map (fun ops => noneProg c sh.st.cap fuel ops []) }
    let g := (g0.run sched).1
    (match o.cap with
      | some n => g.sh.st.allocated ≤ n ∧ n + 8192 ≤ TWO32
      | none => (sh.st.cap + tail.size) + 8192 ≤ TWO32) →
    ∃ ghs r fs', NInv sh.st.cap sh.st.allocated sh.st.discarded g ghs ∧
      openWritable o false (some (C06.crashImage c g.sh.st tail)) = (.ok r, fs') ∧
      r.st.allocated = g.sh.st.allocated ∧ r.cfg.dataOffset ≤ r.st.allocated ∧ r.st.allocated ≤ r.st.cap ∧
      (∀ i, i < g.sh.st.allocated → r.st.mem.rd i = (g.sh.st.image c).rd i) ∧
      CInv r.cfg r.st [] (lives0 ++ owns ghs) ∧
      (∀ i, c.dataOffset ≤ i → i < g.sh.st.allocated → r.st.mem.rd i = g.sh.st.mem.rd i) ∧
      (∀ e ∈ lives0, ∀ i, e.1 ≤ i → i < e.2 → r.st.mem.rd i = sh.st.mem.rd i) :=
  NoneFL.none_crash_reopens c hk hro sh lives0 hinv fuel progs hok sched magic o tail hwf ho hr

theorem none_crash_reopens_cap (c : Cfg) (hk : c.kind = .none) (hro : c.ro = false) (sh : Shared) (lives0 : List Ext)
    (hinv : CInv c sh.st [] lives0) (fuel : Nat)
    (progs : List (List NOp)) (hok : ∀ ops ∈ progs, ∀ op ∈ ops, op.ok) (sched : List (Nat × Bool))
    (magic : Nat) (o : OpenOpts) (tail : Mem)
    (hwf : C05.WellFormedFile c sh.st magic) (ho : C05.Matches o c magic)
    (hcap : match o.cap with
      | some n => sh.st.cap ≤ n ∧ n + 8192 ≤ TWO32
      | none => (sh.st.cap + tail.size) + 8192 ≤ TWO32)
    (hr : o.sync = true → o.retries ≤ 255) :
    let g0 : Global (List Meta) := { sh := sh, threads := progs.map (fun ops => noneProg c sh.st.cap fuel ops []) }
    let g := (g0.run sched).1
    ∃ ghs r fs', NInv sh.st.cap sh.st.allocated sh.st.discarded g ghs ∧
      openWritable o false (some (C06.crashImage c g.sh.st tail)) = (.ok r, fs') ∧
      r.st.allocated = g.sh.st.allocated ∧ r.cfg.dataOffset ≤ r.st.allocated ∧ r.st.allocated ≤ r.st.cap ∧
      (∀ i, i < g.sh.st.allocated → r.st.mem.rd i = (g.sh.st.image c).rd i) ∧
      CInv r.cfg r.st [] (lives0 ++ owns ghs) ∧
      (∀ i, c.dataOffset ≤ i → i < g.sh.st.allocated → r.st.mem.rd i = g.sh.st.mem.rd i) ∧
      (∀ e ∈ lives0, ∀ i, e.1 ≤ i → i < e.2 → r.st.mem.rd i = sh.st.mem.rd i) :=
  NoneFL.none_crash_reopens_cap c hk hro sh lives0 hinv fuel progs hok sched magic o tail hwf ho hcap hr

theorem none_crash_later_ops (c : Cfg) (hk : c.kind = .none) (hro : c.ro = false) (sh : Shared) (lives0 : List Ext)
    (hinv : CInv c sh.st [] lives0) (fuel : Nat)
    (progs : List (List NOp)) (hok : ∀ ops ∈ progs, ∀ op ∈ ops, op.ok) (sched : List (Nat × Bool))
    (n fuel' : Nat) (hn : n < TWO32) (hfuel' : 2 ≤ fuel') :
    let g0 : Global (List Meta) := { sh := sh, threads := progs.map (fun ops => noneProg c sh.st.cap fuel ops []) }
    let g := (g0.run sched).1
    ∃ ghs res s', NInv sh.st.cap sh.st.allocated sh.st.discarded g ghs ∧
      allocBytes c g.sh.st n fuel' = .ok (res, s') ∧
      match res with
      | .ok (some m) => CInv c s' ((g.sh.st.abs []).allocBytes c n).2.free (m.owned :: (lives0 ++ owns ghs))
      | _ => s' = g.sh.st :=
  NoneFL.none_crash_later_ops c hk hro sh lives0 hinv fuel progs hok sched n fuel' hn hfuel'

theorem none_crash_reopened_later_ops (c : Cfg) (hk : c.kind = .none) (hro : c.ro = false) (sh : Shared)
    (lives0 : List Ext) (hinv : CInv c sh.st [] lives0) (fuel : Nat)
    (progs : List (List NOp)) (hok : ∀ ops ∈ progs, ∀ op ∈ ops, op.ok) (sched : List (Nat × Bool))
    (magic : Nat) (o : OpenOpts) (tail : Mem)
    (hwf : C05.WellFormedFile c sh.st magic) (ho : C05.Matches o c magic)
    (hr : o.sync = true → o.retries ≤ 255)
    (n fuel' : Nat) (hn : n < TWO32) (hfuel' : 2 ≤ fuel') :
    let g0 : Global (List Meta) := { sh := sh, threads := progs.map (fun ops => noneProg c sh.st.cap fuel ops []) }
    let g := (g0.run sched).1
    (match o.cap with
      | some n => g.sh.st.allocated ≤ n ∧ n + 8192 ≤ TWO32
      | none => (sh.st.cap + tail.size) + 8192 ≤ TWO32) →
    ∃ ghs r fs' res s', NInv sh.st.cap sh.st.allocated sh.st.discarded g ghs ∧
      openWritable o false (some (C06.crashImage c g.sh.st tail)) = (.ok r, fs') ∧
      CInv r.cfg r.st [] (lives0 ++ owns ghs) ∧
      allocBytes r.cfg r.st n fuel' = .ok (res, s') ∧
      match res with
      | .ok (some m) => CInv r.cfg s' ((r.st.abs []).allocBytes r.cfg n).2.free (m.owned :: (lives0 ++ owns ghs))
      | _ => s' = r.st :=
  NoneFL.none_crash_reopened_later_ops c hk hro sh lives0 hinv fuel progs hok sched magic o tail hwf ho hr n fuel' hn hfuel'

end Rarena.C06None
