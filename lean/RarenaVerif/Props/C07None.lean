/-
  C07 (continued) — every operation finishes: complete, with an explicit bound, for arenas with `Freelist::None`.

  `Props/C07.lean` proves obstruction freedom for every free-list kind. This file adds (proved in
  `Proofs/ConcNoneTerm.lean` on the atomic-step machine `Model/Conc.lean`), for ANY number of threads, ANY programs of
  `alloc_bytes` / `alloc_aligned_bytes::<T>` / `alloc::<T>` and releases of own handles on a `Freelist::None` arena and
  ANY schedule (no fairness assumption needed — the statement is about every finite prefix):
    * the total number of atomic accesses ever executed is at most (T+1)·N + (number of spurious weak-CAS failures the
      schedule injects), T = number of threads, N = total number of operations (`none_steps_bounded'`, `none_progress`):
      an allocation costs a load and a weak CAS, a release a CAS and at most one `fetch_add`, and every failed weak CAS is
      either spurious or caused by another thread's successful cursor write, each of which makes each other thread fail
      at most once;
    * per thread: accesses ≤ 2·(own ops) + (cursor writes of the others) + (spurious hits) (`none_thread_steps`), and a
      thread running alone needs at most 2 accesses per op from any reachable state, +1 (`none_obstruction_free`);
    * hence a thread that is granted more steps than that HAS finished all its operations (`none_thread_finishes`), and
      if every thread is, all have (`none_all_finish`) — no call can wait for an event that never happens;
    * no program diverges (model fuel) or traps (`none_no_diverge`, `none_no_trap`), so every operation RETURNS
      (`none_thread_returns_ok`, `none_all_return`).
  Optimistic / Pessimistic lists: not proved (hangs found there on the pinned tree were repaired: F8, F8b).
-/
import RarenaVerif.Proofs.ConcNoneTerm

namespace Rarena.C07None
open Rarena Rarena.Conc Rarena.Conc.NoneFL Rarena.Conc.NoneTerm

theorem none_steps_bounded' (c : Cfg) (hk : c.kind = .none) (hro : c.ro = false) (sh : Shared) (fuel : Nat)
    (progs : List (List NOp)) (sched : List (Nat × Bool)) :
    ((initG c sh fuel progs).run sched).2.length ≤ (progs.length + 1) * nops progs + spc sched :=
  NoneTerm.none_steps_bounded' c hk hro sh fuel progs sched

theorem none_progress (c : Cfg) (hk : c.kind = .none) (hro : c.ro = false) (sh : Shared) (fuel : Nat)
    (progs : List (List NOp)) (sched : List (Nat × Bool)) :
    let g0 : Global (List Meta) := { sh := sh, threads := progs.map (fun ops => noneProg c sh.st.cap fuel ops []) }
    (g0.run sched).2.length ≤ (progs.length + 1) * (progs.map List.length).sum + (sched.filter (fun x => x.2)).length :=
  NoneTerm.none_progress c hk hro sh fuel progs sched

theorem none_thread_steps (c : Cfg) (hk : c.kind = .none) (hro : c.ro = false) (sh : Shared) (fuel : Nat)
    (progs : List (List NOp)) (sched : List (Nat × Bool)) (t : Nat) (ops : List NOp) (ht : progs[t]? = some ops) :
    evc t ((initG c sh fuel progs).run sched).2 ≤
      2 * ops.length + interf t (initG c sh fuel progs) sched + hitsOf t (initG c sh fuel progs) sched ∧
    interf t (initG c sh fuel progs) sched + ops.length ≤ nops progs :=
  NoneTerm.none_thread_steps c hk hro sh fuel progs sched t ops ht

theorem none_obstruction_free (c : Cfg) (hk : c.kind = .none) (hro : c.ro = false) (sh : Shared) (fuel : Nat)
    (progs : List (List NOp)) (pre solo : List (Nat × Bool)) (t : Nat) (ops : List NOp) (ht : progs[t]? = some ops)
    (hsolo : ∀ x ∈ solo, x = (t, false)) :
    evc t ((((initG c sh fuel progs).run pre).1).run solo).2 ≤ 2 * ops.length + 1 :=
  NoneTerm.none_obstruction_free c hk hro sh fuel progs pre solo t ops ht hsolo

theorem none_no_diverge (c : Cfg) (hk : c.kind = .none) (hro : c.ro = false) (sh : Shared) (fuel : Nat)
    (progs : List (List NOp)) (sched : List (Nat × Bool)) (hfuel : nops progs + spc sched + 1 ≤ fuel) :
    ∀ p ∈ ((initG c sh fuel progs).run sched).1.threads, p ≠ .diverge :=
  NoneTerm.none_no_diverge c hk hro sh fuel progs sched hfuel

theorem none_thread_finishes (c : Cfg) (hk : c.kind = .none) (hro : c.ro = false) (sh : Shared) (fuel : Nat)
    (progs : List (List NOp)) (sched : List (Nat × Bool)) (t : Nat) (ops : List NOp) (ht : progs[t]? = some ops)
    (hgr : 2 * ops.length + (nops progs - ops.length) + spc sched < grants t sched) :
    ∃ p, ((initG c sh fuel progs).run sched).1.threads[t]? = some p ∧ isFin p = true :=
  NoneTerm.none_thread_finishes c hk hro sh fuel progs sched t ops ht hgr

theorem none_all_finish (c : Cfg) (hk : c.kind = .none) (hro : c.ro = false) (sh : Shared) (fuel : Nat)
    (progs : List (List NOp)) (sched : List (Nat × Bool))
    (hgr : ∀ t ops, progs[t]? = some ops → 2 * ops.length + (nops progs - ops.length) + spc sched < grants t sched) :
    (∀ p ∈ ((initG c sh fuel progs).run sched).1.threads, isFin p = true) ∧
    (nops progs + spc sched + 1 ≤ fuel →
      ∀ p ∈ ((initG c sh fuel progs).run sched).1.threads, (∃ r, p = .ret r) ∨ (∃ s, p = .trap s)) :=
  NoneTerm.none_all_finish c hk hro sh fuel progs sched hgr

theorem none_no_trap (c : Cfg) (hk : c.kind = .none) (hro : c.ro = false) (sh : Shared) (fuel : Nat)
    (hcap : sh.st.cap < TWO32) (hhi : sh.st.allocated ≤ sh.st.cap)
    (progs : List (List NOp)) (hfit : ∀ ops ∈ progs, ∀ op ∈ ops, Fits sh.st.cap op) (sched : List (Nat × Bool)) :
    ∀ p ∈ ((initG c sh fuel progs).run sched).1.threads, ∀ s, p ≠ .trap s :=
  NoneTerm.none_no_trap c hk hro sh fuel hcap hhi progs hfit sched

theorem none_thread_returns_ok (c : Cfg) (hk : c.kind = .none) (hro : c.ro = false) (sh : Shared) (fuel : Nat)
    (hcap : sh.st.cap < TWO32) (hhi : sh.st.allocated ≤ sh.st.cap)
    (progs : List (List NOp)) (hfit : ∀ ops ∈ progs, ∀ op ∈ ops, Fits sh.st.cap op) (sched : List (Nat × Bool))
    (t : Nat) (ops : List NOp) (ht : progs[t]? = some ops)
    (hfuel : nops progs + spc sched + 1 ≤ fuel)
    (hgr : 2 * ops.length + (nops progs - ops.length) + spc sched < grants t sched) :
    ∃ r, ((initG c sh fuel progs).run sched).1.threads[t]? = some (.ret r) :=
  NoneTerm.none_thread_returns_ok c hk hro sh fuel hcap hhi progs hfit sched t ops ht hfuel hgr

theorem none_all_return (c : Cfg) (hk : c.kind = .none) (hro : c.ro = false) (sh : Shared) (fuel : Nat)
    (hcap : sh.st.cap < TWO32) (hhi : sh.st.allocated ≤ sh.st.cap)
    (progs : List (List NOp)) (hfit : ∀ ops ∈ progs, ∀ op ∈ ops, Fits sh.st.cap op) (sched : List (Nat × Bool))
    (hfuel : nops progs + spc sched + 1 ≤ fuel)
    (hgr : ∀ t ops, progs[t]? = some ops → 2 * ops.length + (nops progs - ops.length) + spc sched < grants t sched) :
    ∀ p ∈ ((initG c sh fuel progs).run sched).1.threads, ∃ r, p = .ret r :=
  NoneTerm.none_all_return c hk hro sh fuel hcap hhi progs hfit sched hfuel hgr

end Rarena.C07None
