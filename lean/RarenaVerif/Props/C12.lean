/-
  C12 — Recycled memory and teardown are ordered by happens-before.

  Full statement (`Full`): whenever a range released by one thread is later handed to another thread,
  everything the previous owner did to those bytes happens-before the arena's zeroing of the range and the
  new owner's first access; and the backing memory is unmapped or freed only by the last handle to be dropped,
  after every access made through any other handle: no execution contains a data race between users of the
  arena that is caused by the arena itself.

  What is proved (PARTIAL, see DESIGN.md): the happens-before relation is the standard release/acquire
  vector-clock construction over interleavings (`Model/HB.lean`).
  * `publish_sites_release` / `consume_sites_acquire` — the orderings the code passes TODAY (table regenerated
    from sync.rs on every run, `Gen/Orderings.lean`) at every site that publishes memory (store of the own node
    word, link CAS, cursor CAS of a top release, reference-count decrement) include Release, and at every site
    through which memory is taken (loads of the sentinel / node words, mark and unlink CAS, cursor load and CAS,
    final reference-count load) include Acquire. Weakening any of them breaks this theorem.
  * `handover` / `teardown_sequence` — in the happens-before machine a Release access followed by an Acquire
    access on the same location transfers the releasing thread's clock, and read-modify-writes (the
    `fetch_sub`s of other handles) keep the release sequence alive.
  * that these edges cover EVERY path by which a range changes hands is not proved for all schedules; the
    happens-before machine is run on every implementation trace of the check (orderings as reported by the
    hook), where it must report no race.
-/
import RarenaVerif.Proofs.HBLemmas
import RarenaVerif.Model.Conc

namespace Rarena.C12

open Rarena.HB Rarena.Conc

/-- sites whose access hands memory (or the reference) over to other threads -/
def publishSites : List Site :=
  [⟨"update_next_node", 0⟩, ⟨"optimistic_dealloc", 0⟩, ⟨"pessimistic_dealloc", 0⟩, ⟨"dealloc", 0⟩,
   ⟨"alloc_bytes_in", 1⟩, ⟨"alloc_aligned_bytes_in", 1⟩, ⟨"alloc_in", 1⟩,
   ⟨"alloc_slow_path_optimistic", 3⟩, ⟨"alloc_slow_path_pessimistic", 1⟩, ⟨"drop", 0⟩, ⟨"clone", 0⟩,
   -- `rewind` hands everything above the new cursor back to the bump region: its store of the cursor is what the next
   -- allocator's Acquire load / CAS synchronises with
   ⟨"rewind", 1⟩]

/-- sites through which a thread takes memory (or learns that it holds the last reference) -/
def consumeSites : List Site :=
  [⟨"find_position", 0⟩, ⟨"find_position", 1⟩, ⟨"find_position", 2⟩, ⟨"find_position", 3⟩,
   ⟨"find_prev_and_next", 0⟩, ⟨"find_prev_and_next", 1⟩, ⟨"find_prev_and_next", 2⟩,
   ⟨"alloc_slow_path_optimistic", 0⟩, ⟨"alloc_slow_path_optimistic", 1⟩, ⟨"alloc_slow_path_optimistic", 2⟩,
   ⟨"alloc_slow_path_optimistic", 3⟩, ⟨"alloc_slow_path_pessimistic", 0⟩, ⟨"alloc_slow_path_pessimistic", 1⟩,
   ⟨"discard_freelist_in", 0⟩, ⟨"discard_freelist_in", 1⟩, ⟨"discard_freelist_in", 2⟩, ⟨"discard_freelist_in", 3⟩,
   ⟨"alloc_bytes_in", 0⟩, ⟨"alloc_bytes_in", 1⟩, ⟨"alloc_aligned_bytes_in", 0⟩, ⟨"alloc_aligned_bytes_in", 1⟩,
   ⟨"alloc_in", 0⟩, ⟨"alloc_in", 1⟩, ⟨"dealloc", 0⟩, ⟨"drop", 1⟩, ⟨"rewind", 0⟩]

/-- every publishing site passes an ordering that includes Release (for a CAS: the success ordering) -/
theorem publish_sites_release : ∀ s ∈ publishSites, (s.ords.head?.map isRel) = some true := by
  decide

/-- every consuming site passes an ordering that includes Acquire (for a CAS: the success ordering) -/
theorem consume_sites_acquire : ∀ s ∈ consumeSites, (s.ords.head?.map isAcq) = some true := by
  decide

/-- the weak CAS on the cursor also acquires when it fails (the value it read is used for the retry) -/
theorem cursor_cas_failure_acquires :
    ∀ s ∈ [Site.mk "alloc_bytes_in" 1, ⟨"alloc_aligned_bytes_in", 1⟩, ⟨"alloc_in", 1⟩], (s.ords[1]?.map isAcq) = some true := by
  decide

/-- release → acquire on one location: the previous owner's clock reaches the new owner -/
theorem handover (s : State) (a b loc : Nat) (kr ka : AccKind) (or oa : Gen.Ord)
    (hkr : kr = .store ∨ kr = .rmw) (hr : isRel or = true)
    (hka : ka = .load ∨ ka = .rmw ∨ ka = .casFail) (ha : isAcq oa = true) (hab : a ≠ b) :
    VC.Le (s.clock a) ((step (step s (.atomic a kr loc none or)) (.atomic b ka loc none oa)).clock b) :=
  release_acquire_transfers s a b loc kr ka or oa hkr hr hka ha hab

/-- the decrements of the other handles keep what earlier decrements published (release sequence) -/
theorem teardown_sequence (s : State) (t loc : Nat) (ord : Gen.Ord) :
    VC.Le (s.relOf loc) ((step s (.atomic t .rmw loc none ord)).relOf loc) :=
  rmw_keeps_release s t loc ord

/-! non-vacuity: a hand-over trace without and with the release -/
def good : List Acc := [.plain 1 true 64 96 "fill", .atomic 1 .store 1064 (some (64, 72)) .release,
  .atomic 1 .rmw 1 none .acqRel, .atomic 2 .load 1 none .acquire, .atomic 2 .rmw 1064 (some (64, 72)) .acqRel,
  .plain 2 true 72 96 "clear"]
def bad : List Acc := [.plain 1 true 64 96 "fill", .atomic 1 .store 1064 (some (64, 72)) .relaxed,
  .atomic 1 .rmw 1 none .acquire, .atomic 2 .load 1 none .acquire, .atomic 2 .rmw 1064 (some (64, 72)) .acqRel,
  .plain 2 true 72 96 "clear"]
example : (check 128 [1, 2] good).races.length = 0 := by decide +kernel
example : (check 128 [1, 2] bad).races.length ≠ 0 := by decide +kernel

end Rarena.C12
