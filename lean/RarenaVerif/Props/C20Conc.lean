/-
  C20 (continued) — the `discarded` counter under every interleaving.

  `Props/C20.lean` proves the accounting for sequential histories of both flavours. This file adds the concurrent
  statement, proved in `Proofs/ConcDisc.lean` on the atomic-step machine `Model/Conc.lean`, for EVERY free-list kind
  (None / Optimistic / Pessimistic), ANY number of threads, ANY schedule (spurious weak-CAS failures included) and
  threads that run ANY sequence of the operations the machine has (the three allocation entry points, `dealloc`,
  `discard_freelist`, `increase_discarded`, `clone`, `drop`, client fills) — fixed lists (`discProg`) or adaptive
  clients whose next operation depends on the results so far (`clientProg`):
    * the only accesses `sync.rs` ever makes to `Header::discarded` are `fetch_add`s (`ops_only_fetch_add`: the
      syntactic predicate `DiscFaaOnly` holds of every operation program, for every configuration and fuel);
    * one step of the machine either leaves the counter alone or is such a `fetch_add`, which reads the current value
      and writes `(old + v) % 2^32` (`one_step`, `increment_is_the_argument`);
    * after any run the counter is the initial value plus the sum of the increments of the executed `fetch_add`s,
      mod 2^32: no increase is lost and nothing else changes it (`accounting_ops`, `accounting_clients`,
      `accounting_exact`);
    * as long as that sum does not wrap, the counter never decreases along the run (`prefix_monotone`).
  `clear()` (the only operation allowed to lower the counter) takes `&mut`-like exclusive access by contract and is
  not an operation of the concurrent machine.
  Modelled, not verified: that the operation programs perform the accesses of `sync.rs` in its order (event-level
  correspondence on every run; the call-site table is regenerated, `C20.discarded_only_fetch_add`).
-/
import RarenaVerif.Proofs.ConcDisc

namespace Rarena.C20Conc
open Rarena Rarena.Conc Rarena.Conc.Disc

theorem ops_only_fetch_add (c : Cfg) (cap fuel : Nat) (op : DOp) : DiscFaaOnly (op.run c cap fuel) :=
  Disc.dfo_op c cap fuel op

theorem one_step {α : Type} (g : Global α) (tid : Nat) (sp : Bool) (h : AllDfo g.threads) :
    AllDfo (g.step tid sp).1.threads ∧
    StepDisc g.sh.st.discarded (g.step tid sp).1.sh.st.discarded (g.step tid sp).2 :=
  Disc.step_dfo g tid sp h

theorem increment_is_the_argument {α : Type} (g : Global α) (tid : Nat) (sp : Bool) (e : Event)
    (he : (g.step tid sp).2 = some e) (hl : e.loc = .disc) (hk : e.kind = .faa) :
    ∃ p sh1 v s k nas, g.threads[tid]? = some p ∧
      settle 100000 g.sh p [] = (sh1, .blocked (.rmw .disc v false s k), nas) ∧
      e.old = g.sh.st.discarded ∧ e.new = (g.sh.st.discarded + v) % TWO32 ∧
      (g.step tid sp).1.sh.st.discarded = e.new :=
  Disc.step_faa_arg g tid sp e he hl hk

theorem accounting_ops (c : Cfg) (cap fuel : Nat) (sh : Shared) (progs : List (List DOp))
    (sched : List (Nat × Bool)) :
    let r := Global.run ⟨sh, progs.map (discProg c cap fuel)⟩ sched
    r.1.sh.st.discarded % TWO32 = (sh.st.discarded + discSum r.2) % TWO32 ∧
    (∀ x ∈ r.2, x.2.loc = .disc → x.2.kind = .faa ∨ x.2.kind = .ld) ∧
    (∀ x ∈ r.2, x.2.loc = .disc → x.2.kind = .faa → ∃ v, x.2.new = (x.2.old + v) % TWO32) :=
  Disc.discarded_accounting_ops c cap fuel sh progs sched

theorem accounting_clients (c : Cfg) (cap fuel : Nat) (sh : Shared)
    (clients : List ((List DRes → Option DOp) × Nat)) (sched : List (Nat × Bool)) :
    let r := Global.run ⟨sh, clients.map (fun cl => clientProg c cap fuel cl.1 cl.2 [])⟩ sched
    r.1.sh.st.discarded % TWO32 = (sh.st.discarded + discSum r.2) % TWO32 ∧
    (∀ x ∈ r.2, x.2.loc = .disc → x.2.kind = .faa ∨ x.2.kind = .ld) ∧
    (∀ x ∈ r.2, x.2.loc = .disc → x.2.kind = .faa → ∃ v, x.2.new = (x.2.old + v) % TWO32) :=
  Disc.discarded_accounting_clients c cap fuel sh clients sched

theorem accounting_exact {α : Type} (g : Global α) (hall : AllDfo g.threads) (hlt : g.sh.st.discarded < TWO32)
    (sched : List (Nat × Bool)) :
    (g.run sched).1.sh.st.discarded < TWO32 ∧
    (g.run sched).1.sh.st.discarded = (g.sh.st.discarded + discSum (g.run sched).2) % TWO32 :=
  Disc.discarded_exact g hall hlt sched

theorem prefix_monotone {α : Type} (g : Global α) (hall : AllDfo g.threads) (hlt : g.sh.st.discarded < TWO32)
    (s1 s2 : List (Nat × Bool)) (hnw : g.sh.st.discarded + discSum (g.run (s1 ++ s2)).2 < TWO32) :
    g.sh.st.discarded ≤ (g.run s1).1.sh.st.discarded ∧
    (g.run s1).1.sh.st.discarded ≤ (g.run (s1 ++ s2)).1.sh.st.discarded ∧
    (g.run s1).1.sh.st.discarded = g.sh.st.discarded + discSum (g.run s1).2 ∧
    (g.run (s1 ++ s2)).1.sh.st.discarded = (g.run s1).1.sh.st.discarded + discSum ((g.run s1).1.run s2).2 :=
  Disc.discarded_prefix_mono g hall hlt s1 s2 hnw

/-- the hypotheses are satisfiable: the operation-list threads are `AllDfo` for every configuration -/
theorem ops_threads_alldfo (c : Cfg) (cap fuel : Nat) (progs : List (List DOp)) :
    AllDfo (progs.map (discProg c cap fuel)) := by
  intro p hp
  obtain ⟨ops, _, rfl⟩ := List.mem_map.mp hp
  exact Disc.dfo_discProg c cap fuel ops

end Rarena.C20Conc
