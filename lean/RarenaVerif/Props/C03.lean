/-
  C03 — Allocations have the requested capacity and alignment.

  Full statement: alloc_bytes(n) returns capacity exactly n; alloc::<T>() returns capacity size_of::<T>()
  whose offset (and address, when align_of::<T>() does not exceed the configured maximum alignment) is a
  multiple of align_of::<T>(); alloc_aligned_bytes::<T>(n) returns an aligned offset and capacity at
  least size_of::<T>() + n — from fresh space or from a recycled segment; zero-size requests succeed on
  any writable arena, even a full one, without consuming space.

  The address claim is arithmetic on top of the offset claim: the backing store's base address is a multiple of
  max(maximum_alignment, 8) (Vec: `AlignedVec::new`) or of the page size (mmap) — an assumption about the
  allocator / OS recorded in the trusted base; `address_aligned` is the step from offsets to addresses.
-/
import RarenaVerif.Props.Common

namespace Rarena.C03

theorem alloc_bytes_capacity (o : Opts) (g : Guards o) (fuel : Nat) (hfuel : o.cap + 2 ≤ fuel) (x : CSess)
    (hr : Reachable o fuel x) (n : Nat) (hn : n < TWO32) (m : Meta) (st' : St)
    (h : allocBytes o.cfg x.st n fuel = .ok (.ok (some m), st')) : m.ptrSize = n := by
  obtain ⟨free, lives, ci, hf, _⟩ := reachable_cinv o g fuel hfuel x hr
  obtain ⟨e, _, _⟩ := (allocBytes_refines o.cfg x.st free lives n fuel ci hn hf).out h
  exact (allocBytes_ok _ _ _ lives n m ci.wf e).2

theorem alloc_typed (o : Opts) (g : Guards o) (fuel : Nat) (hfuel : o.cap + 2 ≤ fuel) (x : CSess)
    (hr : Reachable o fuel x) (ts ta : Nat) (ht : TyOK ts ta) (m : Meta) (st' : St)
    (h : allocT o.cfg x.st ts ta fuel = .ok (.ok (some m), st')) : m.ptrSize = ts ∧ m.ptrOff % ta = 0 := by
  obtain ⟨free, lives, ci, hf, _⟩ := reachable_cinv o g fuel hfuel x hr
  obtain ⟨e, _, _⟩ := (allocT_refines o.cfg x.st free lives ts ta fuel ci ht hf).out h
  have := (allocT_ok _ _ _ lives ts ta m ci.wf ⟨ht.1, ht.2.1⟩ e).2
  exact ⟨this.2, this.1⟩

theorem alloc_aligned_bytes (o : Opts) (g : Guards o) (fuel : Nat) (hfuel : o.cap + 2 ≤ fuel) (x : CSess)
    (hr : Reachable o fuel x) (ts ta ex : Nat) (ht : TyOK ts ta) (he : ex < TWO32) (m : Meta) (st' : St)
    (h : allocAligned o.cfg x.st ts ta ex fuel = .ok (.ok (some m), st')) : m.ptrOff % ta = 0 ∧ ts + ex ≤ m.ptrSize := by
  obtain ⟨free, lives, ci, hf, _⟩ := reachable_cinv o g fuel hfuel x hr
  obtain ⟨e, _, _⟩ := (allocAligned_refines o.cfg x.st free lives ts ta ex fuel ci ht he hf).out h
  exact (allocAligned_ok _ _ _ lives ts ta ex m ci.wf ⟨ht.1, ht.2.1⟩ e).2

set_option linter.unusedVariables false in
/-- zero-size requests succeed in every reachable state (even with `allocated = capacity`) and consume nothing -/
theorem zero_size_ok (o : Opts) (g : Guards o) (fuel : Nat) (hfuel : o.cap + 2 ≤ fuel) (x : CSess)
    (hr : Reachable o fuel x) :
    allocBytes o.cfg x.st 0 fuel = .ok (.ok none, x.st) ∧
    (∀ ta, allocT o.cfg x.st 0 ta fuel = .ok (.ok none, x.st)) ∧
    (∀ ta, allocAligned o.cfg x.st 0 ta 0 fuel = .ok (.ok none, x.st)) := by
  have hb : allocBytes o.cfg x.st 0 fuel = .ok (.ok none, x.st) := by
    simp only [allocBytes, o.cfg_ro, Bool.false_eq_true, if_false, if_true, pure, Except.pure]
  refine ⟨hb, fun ta => ?_, fun ta => ?_⟩
  · simp only [allocT, o.cfg_ro, Bool.false_eq_true, if_false, if_true, pure, Except.pure]
  · rw [← hb]
    simp only [allocAligned, o.cfg_ro, Bool.false_eq_true, if_false, true_or, and_self, if_true]

/-- from offsets to addresses -/
theorem address_aligned (base off ta : Nat) (hb : base % ta = 0) (ho : off % ta = 0) : (base + off) % ta = 0 := by
  rw [Nat.add_mod, hb, ho]; simp

end Rarena.C03
