/-
  C17 — rewind clamps into the data area and clear restores the pristine arena.

  Full statement: rewind(pos) sets the cursor to the position denoted by pos (Start(n) = n,
  End(n) = capacity - n, Current(d) = allocated + d, computed without overflow) clamped into
  [data_offset, capacity], and changes nothing else. clear() makes the arena indistinguishable from a
  freshly created one with the same options and the minimum segment size currently in force.

  `rewind` (Model/Core.lean) follows the code including `i64::saturating_add`; the target is computed in ℤ
  here. `clear`: see `clear_fresh` (from the refinement layer): the cleared state satisfies the concrete
  invariant with the abstract state `A.fresh`, its data area is zero and its prefix untouched; since every
  later answer is a function of the abstract state (refinement theorems) the cleared arena and a fresh
  one give equal answers to every later history. `clear` is also a call of the universally quantified
  histories (`HOp.clear`: every held and detached handle is forgotten, as the contract of the API
  demands): `clear_in_history`.
-/
import RarenaVerif.Props.Common

namespace Rarena.C17

/-- the position denoted by `pos`, in ℤ -/
def target (s : St) : Pos → Int
  | .start n => n
  | .end n => (s.cap : Int) - n
  | .cur d => (s.allocated : Int) + d

/-- clamp into `[lo, hi]` -/
def clamp (t : Int) (lo hi : Nat) : Nat :=
  if t ≤ lo then lo else if t ≥ hi then hi else t.toNat

theorem satAdd_cases (a d : Int) (ha : 0 ≤ a) (ha2 : a < 4294967296) (hd : I64MIN ≤ d ∧ d ≤ I64MAX) :
    (satAddI64 a d = a + d ∧ a + d ≤ I64MAX) ∨ (satAddI64 a d = I64MAX ∧ a + d > I64MAX) := by
  unfold satAddI64 I64MAX I64MIN at *
  simp only
  split
  · right; omega
  · split
    · omega
    · left; omega

/-- `rewind` sets the cursor to the clamped target, for the full `u32` / `i64` argument ranges -/
theorem rewind_spec (c : Cfg) (s : St) (p : Pos) (hd : c.dataOffset ≤ s.cap) (hcap : s.cap < TWO32)
    (hal : s.allocated < TWO32)
    (hp : match p with | .cur d => I64MIN ≤ d ∧ d ≤ I64MAX | _ => True) :
    (rewind c s p).allocated = clamp (target s p) c.dataOffset s.cap := by
  unfold rewind clamp target
  cases p with
  | start n => simp only [Nat.min_def, Nat.max_def]; (repeat' split) <;> omega
  | «end» n => simp only [Nat.min_def, Nat.max_def]; (repeat' split) <;> omega
  | cur d =>
    have hc := satAdd_cases (Int.ofNat s.allocated) d (by simp) (by unfold TWO32 at hal; simp; omega) hp
    simp only [Nat.min_def, Nat.max_def]
    generalize satAddI64 (Int.ofNat s.allocated) d = t at *
    simp only [Int.ofNat_eq_natCast] at *
    unfold TWO32 I64MAX at *
    have e1 : (t.toNat : Int) = if t ≤ 0 then 0 else t := by omega
    rcases hc with ⟨h1, h2⟩ | ⟨h1, h2⟩ <;> (repeat' split) <;> omega

/-- ... and changes nothing else -/
theorem rewind_frame (c : Cfg) (s : St) (p : Pos) :
    (rewind c s p).mem = s.mem ∧ (rewind c s p).sentinel = s.sentinel ∧ (rewind c s p).minSeg = s.minSeg ∧
    (rewind c s p).discarded = s.discarded := by
  unfold rewind; exact ⟨rfl, rfl, rfl, rfl⟩

/-- the result always lies in `[data_offset, capacity]` -/
theorem rewind_in_range (c : Cfg) (s : St) (p : Pos) (hd : c.dataOffset ≤ s.cap) :
    c.dataOffset ≤ (rewind c s p).allocated ∧ (rewind c s p).allocated ≤ s.cap := by
  unfold rewind
  cases p with
  | start n => simp only [Nat.min_def, Nat.max_def]; (repeat' split) <;> omega
  | «end» n => simp only [Nat.min_def, Nat.max_def]; (repeat' split) <;> omega
  | cur d => simp only [Nat.min_def, Nat.max_def]; (repeat' split) <;> omega

/-- `clear` makes the arena pristine: it represents the abstract state of a fresh arena with the minimum
    segment size in force, its data area is zero, the reserved prefix and header area are untouched -/
theorem clear_fresh (c : Cfg) (s : St) (free : List Seg) (lives : List Ext) (h : CInv c s free lives)
    (hro : c.ro = false) :
    ∃ s', clear c s = .ok s' ∧ CInv c s' [] [] ∧ s'.abs [] = A.fresh s.cap c.dataOffset s.minSeg ∧
      PrefixIntact c s s' ∧ s'.mem.size = s.mem.size ∧ (∀ i, c.dataOffset ≤ i → s'.mem.rd i = 0) :=
  clear_refines c s free lives h hro

theorem clear_read_only (c : Cfg) (s : St) (hro : c.ro = true) : clear c s = .error .readOnly :=
  clear_ro c s hro

/-- `clear` as a call of a history (`HOp.clear`): from every reachable state it completes, forgets every held and
    detached handle, and reaches a state — itself reachable, so every property of reachable states holds for
    whatever is done next — that represents the fresh abstract allocator with the same capacity and the minimum
    segment size in force, with a zero data area and an untouched prefix -/
theorem clear_in_history (o : Opts) (g : Guards o) (fuel : Nat) (hfuel : o.cap + 2 ≤ fuel) (x : CSess)
    (hr : Reachable o fuel x) :
    ∃ x', cstep o.cfg fuel x (.op .clear) = .ok x' ∧ Reachable o fuel x' ∧ x'.held = [] ∧ x'.detached = [] ∧
      CInv o.cfg x'.st [] [] ∧ x'.st.abs [] = A.fresh x.st.cap o.cfg.dataOffset x.st.minSeg ∧
      PrefixIntact o.cfg x.st x'.st ∧ (∀ i, o.cfg.dataOffset ≤ i → x'.st.mem.rd i = 0) := by
  obtain ⟨free, lives, ci, _, _⟩ := reachable_cinv o g fuel hfuel x hr
  obtain ⟨s', e1, hc, habs, hpre, _, hz⟩ := clear_refines o.cfg x.st free lives ci o.cfg_ro
  obtain ⟨x', e, hr'⟩ := reachable_step o g fuel hfuel x hr (.op .clear) trivial trivial
  have hx : x' = { st := s', held := [], detached := [] } := by
    simp only [cstep, e1, pure, Except.pure, Except.ok.injEq] at e
    exact e.symm
  subst hx
  exact ⟨_, e, hr', rfl, rfl, hc, habs, hpre, hz⟩

/-! non-vacuity -/
def exS : St := { mem := Array.replicate 200 0, sentinel := SENTINEL_WORD, allocated := 100, minSeg := 20, discarded := 0 }
def exC : Cfg := { sync := true, kind := .opt, ro := false, retries := 5, dataOffset := 40, reserved := 0, unify := true }
example : (rewind exC exS (.cur I64MAX)).allocated = 200 := by decide +kernel
example : (rewind exC exS (.cur (-100))).allocated = 40 := by decide +kernel
example : (rewind exC exS (.end 30)).allocated = 170 := by decide +kernel
example : (rewind exC exS (.start 7)).allocated = 40 := by decide +kernel

end Rarena.C17
