/-
  C18 — truncate changes the capacity and nothing else.

  Full statement: unsync::Arena::truncate(n) sets capacity() to max(n, allocated()), keeps allocated(),
  discarded(), the free list and every byte below allocated() unchanged on all three backends, and afterwards
  allocations succeed exactly when they fit the new capacity; on a read-only arena it fails without effect.

  `truncate` (Model/Core.lean): Vec / anonymous maps copy the first `allocated` bytes into a fresh zeroed
  backing, a file-backed arena re-maps the (possibly extended) file — the model keeps the in-file bytes above
  the cursor for it (bytes of a file that was longer than the old mapping are an approximation, see
  DESIGN.md); the theorem speaks only of bytes below `allocated`, as the property does.
  "Afterwards allocations succeed exactly when they fit the new capacity": the truncated state satisfies the
  concrete invariant with the new capacity, so every per-call theorem (C03, C04, C10) applies to it.
  `truncate n` is also a call of the universally quantified histories of the unsync flavour (`HOp.truncate`,
  guards `n + 8192 ≤ 2^32` and `COp.fits`): `truncate_in_history`; the truncated state is `Reachable`, so every
  theorem about reachable states applies to it and to everything done afterwards.
-/
import RarenaVerif.Props.Common

namespace Rarena.C18

theorem slow_nil (c : Cfg) (a : A) (n : Nat) (hro : c.ro = false) (hf : a.free = []) :
    a.slow c n = (.error .insufficient, a) := by
  unfold A.slow
  cases hk : c.kind <;> simp [hro, hf, takeFirst]

theorem truncate_spec (c : Cfg) (s : St) (free : List Seg) (lives : List Ext) (n : Nat)
    (h : CInv c s free lives) (hro : c.ro = false) (hn : max n s.allocated + 8192 ≤ TWO32) :
    ∃ s', truncate c s n = .ok s' ∧ s'.cap = max n s.allocated ∧
      s'.allocated = s.allocated ∧ s'.discarded = s.discarded ∧ s'.minSeg = s.minSeg ∧ s'.sentinel = s.sentinel ∧
      CInv c s' free lives ∧ (∀ i, i < s.allocated → s'.mem.rd i = s.mem.rd i) := by
  obtain ⟨s', e1, hcap, habs, hc, hb⟩ := truncate_refines c s free lives n h hro hn
  refine ⟨s', e1, hcap, ?_, ?_, ?_, ?_, hc, hb⟩
  · exact congrArg A.allocated habs
  · exact congrArg A.discarded habs
  · exact congrArg A.minSeg habs
  · rw [hc.sent, h.sent]

/-- `truncate n` as a call of a history (`HOp.truncate`, unsync flavour): from every reachable state it completes and
    reaches a state — itself reachable, so every property of reachable states (C01 … C20) holds for whatever is done
    next with the new capacity — with the same handles, capacity `max n allocated`, and everything else unchanged -/
theorem truncate_in_history (o : Opts) (g : Guards o) (fuel : Nat) (hfuel : o.cap + 2 ≤ fuel) (x : CSess)
    (hr : Reachable o fuel x) (n : Nat) (hsync : o.sync = false) (hn : n + 8192 ≤ TWO32) (hf : n + 2 ≤ fuel) :
    ∃ x', cstep o.cfg fuel x (.op (.truncate n)) = .ok x' ∧ Reachable o fuel x' ∧
      x'.held = x.held ∧ x'.detached = x.detached ∧ x'.st.cap = max n x.st.allocated ∧
      x'.st.allocated = x.st.allocated ∧ x'.st.discarded = x.st.discarded ∧ x'.st.minSeg = x.st.minSeg ∧
      x'.st.sentinel = x.st.sentinel ∧ (∀ i, i < x.st.allocated → x'.st.mem.rd i = x.st.mem.rd i) := by
  obtain ⟨free, lives, ci, _, _⟩ := reachable_cinv o g fuel hfuel x hr
  have hn' : max n x.st.allocated + 8192 ≤ TWO32 := by
    have h1 := ci.capGuard
    have h2 : x.st.allocated ≤ x.st.cap := ci.wf.hi
    omega
  obtain ⟨s', e1, hcap, h1, h2, h3, h4, _, hb⟩ := truncate_spec o.cfg x.st free lives n ci o.cfg_ro hn'
  obtain ⟨x', e, hr'⟩ := reachable_step o g fuel hfuel x hr (.op (.truncate n)) hn ⟨hsync, hf⟩
  have hx : x' = { x with st := s' } := by
    simp only [cstep, e1, pure, Except.pure, Except.ok.injEq] at e
    exact e.symm
  subst hx
  exact ⟨_, e, hr', rfl, rfl, hcap, h1, h2, h3, h4, hb⟩

theorem truncate_read_only (c : Cfg) (s : St) (n : Nat) (hro : c.ro = true) : truncate c s n = .error .readOnly :=
  truncate_ro c s n hro

/-- after the truncation a bump allocation succeeds iff it fits the new capacity (when the free list cannot help) -/
theorem alloc_after_truncate (c : Cfg) (s s' : St) (lives : List Ext) (n k fuel : Nat)
    (h : CInv c s [] lives) (hro : c.ro = false) (hn : max n s.allocated + 8192 ≤ TWO32)
    (ht : truncate c s n = .ok s') (hk : 0 < k ∧ k < TWO32) (hfuel : 2 ≤ fuel) :
    (∃ m st', allocBytes c s' k fuel = .ok (.ok (some m), st')) ↔ s.allocated + k ≤ max n s.allocated := by
  obtain ⟨s'', e1, hcap, hal, _, _, _, hc, _⟩ := truncate_spec c s [] lives n h hro hn
  rw [ht] at e1
  cases e1
  have href := allocBytes_refines c s' [] lives k fuel hc hk.2 (by simpa using hfuel)
  obtain ⟨st, e2, _, _⟩ := href
  by_cases hfit : s.allocated + k ≤ max n s.allocated
  · have habs : (s'.abs []).allocBytes c k =
        (.ok (some (Meta.new s'.allocated k)), { s'.abs [] with allocated := s'.allocated + k }) := by
      unfold A.allocBytes
      rw [if_neg (by simp [hro]), if_neg (by omega), if_pos (by simp only [St.abs]; omega)]
      rfl
    rw [habs] at e2
    exact ⟨fun _ => hfit, fun _ => ⟨_, _, e2⟩⟩
  · have habs : (s'.abs []).allocBytes c k = (.error .insufficient, s'.abs []) := by
      unfold A.allocBytes
      rw [if_neg (by simp [hro]), if_neg (by omega), if_neg (by simp only [St.abs]; omega)]
      simp only [A.slowEntry, slow_nil c (s'.abs []) k hro rfl]
    rw [habs] at e2
    refine ⟨fun ⟨m, st', hm⟩ => ?_, fun hh => absurd hh hfit⟩
    rw [e2] at hm
    simp at hm

end Rarena.C18
