/-
  C05 — A file-backed arena reopens to exactly the state it was closed in.

  Full statement: after a file-backed arena is dropped and the file is opened again — writable,
  copy-on-write or read-only — allocated(), discarded(), data_offset(), minimum segment size, freelist
  kind and magic version equal the values before closing, every byte of the reserved prefix and of all
  handed-out ranges is unchanged, and in a writable reopen new allocations never overlap ranges that were
  live before closing while ranges that had been freed remain reusable; the same for any number of
  close/reopen cycles interleaved with allocation histories.

  The file left by an arena in state `s` is its rendered image (`St.image`: memory with the header record at
  its offset) followed by whatever the file held beyond the mapping. `reopen_*` show that opening that file
  yields a state with the same scalars, the same bytes below the cursor, and — for the same abstract free
  list and the same live extents — the concrete invariant again; every theorem about states satisfying the
  invariant (no overlap with live ranges: C01, reuse of freed ranges: C10, …) therefore applies after the
  reopen, and the argument repeats for any number of cycles (`cycles`).
-/
import RarenaVerif.Props.Common
import RarenaVerif.Model.File

namespace Rarena.C05

/-! byte-array helper lemmas -/

theorem rd_extract (a : Mem) (n i : Nat) : Mem.rd (a.extract 0 n) i = if i < n then a.rd i else 0 := by
  unfold Mem.rd
  rw [Array.getElem?_extract]
  by_cases h : i < n
  · by_cases h2 : i < a.size
    · rw [if_pos (by omega), if_pos h]; simp
    · rw [if_neg (by omega), if_pos h]
      have : a[i]? = none := by simp; omega
      simp [this]
  · rw [if_neg (by omega), if_neg h]; rfl

theorem rd_append (a b : Mem) (i : Nat) : (a ++ b).rd i = if i < a.size then a.rd i else b.rd (i - a.size) := by
  unfold Mem.rd
  rw [Array.getElem?_append]
  split <;> rfl

theorem rd_replicate (n i : Nat) : Mem.rd (Array.replicate n (0 : UInt8)) i = 0 := by
  unfold Mem.rd
  rw [Array.getElem?_replicate]
  split <;> rfl

theorem rd_extendTo (f : Mem) (n i : Nat) : (extendTo f n).rd i = f.rd i := by
  unfold extendTo
  split
  · rw [rd_append]
    split
    · rfl
    · rw [rd_replicate, Mem.rd_oob]; omega
  · rfl

theorem size_extendTo (f : Mem) (n : Nat) : (extendTo f n).size = max f.size n := by
  unfold extendTo
  split
  · simp; omega
  · omega

/-! the image -/

theorem size_image (c : Cfg) (s : St) : (s.image c).size = s.mem.size := by
  unfold St.image; split <;> simp

theorem image_rd_header (c : Cfg) (s : St) (hu : c.unify = true) (k : Nat) (hk : k < HEADER_SIZE)
    (hsz : headerOffset c.reserved + HEADER_SIZE ≤ s.mem.size) :
    (s.image c).rd (headerOffset c.reserved + k) = (s.headerByte k).toNat := by
  unfold St.image
  rw [if_pos hu]
  simp only []
  rw [Mem.rd_update, if_pos (by omega), Nat.add_sub_cancel_left]

theorem image_rd_out (c : Cfg) (s : St) (i : Nat)
    (h : i < headerOffset c.reserved ∨ headerOffset c.reserved + HEADER_SIZE ≤ i) :
    (s.image c).rd i = s.mem.rd i := by
  unfold St.image
  split
  · exact Mem.rd_update_out _ _ _ _ _ h
  · rfl

theorem sanityCheck_congr (m m' : Mem) (r : Nat) (e : Option Kind) (magic : Nat)
    (h : ∀ i, r + 1 ≤ i → i < r + 8 → m.rd i = m'.rd i) :
    sanityCheck m r e magic = sanityCheck m' r e magic := by
  unfold sanityCheck
  rw [h (r + 1) (by omega) (by omega), h (r + 2) (by omega) (by omega), h (r + 3) (by omega) (by omega),
    Mem.readLE_congr m m' (r + 4) 2 (fun i h1 h2 => h i (by omega) (by omega)),
    Mem.readLE_congr m m' (r + 6) 2 (fun i h1 h2 => h i (by omega) (by omega))]

theorem parseHeader_congr (m m' : Mem) (r : Nat)
    (h : ∀ i, headerOffset r ≤ i → i < headerOffset r + 20 → m.rd i = m'.rd i) :
    parseHeader m r = parseHeader m' r := by
  unfold parseHeader
  simp only []
  rw [Mem.readLE_congr m m' (headerOffset r) 8 (fun i h1 h2 => h i (by omega) (by omega)),
    Mem.readLE_congr m m' (headerOffset r + 8) 4 (fun i h1 h2 => h i (by omega) (by omega)),
    Mem.readLE_congr m m' (headerOffset r + 12) 4 (fun i h1 h2 => h i (by omega) (by omega)),
    Mem.readLE_congr m m' (headerOffset r + 16) 4 (fun i h1 h2 => h i (by omega) (by omega))]

/-- header round trip: the header record rendered into the image is read back by `parseHeader` -/
theorem header_roundtrip (c : Cfg) (s : St) (hu : c.unify = true) (hs : s.sentinel < TWO64)
    (ha : s.allocated < TWO32) (hm : s.minSeg < TWO32) (hd : s.discarded < TWO32)
    (hsz : headerOffset c.reserved + HEADER_SIZE ≤ s.mem.size) :
    parseHeader (s.image c) c.reserved = (s.sentinel, s.allocated, s.minSeg, s.discarded) := by
  unfold parseHeader
  simp only []
  have e1 : (s.image c).readLE (headerOffset c.reserved) 8 = s.sentinel := by
    rw [Mem.readLE_of_bytes _ _ _ s.sentinel]
    · apply Nat.mod_eq_of_lt; unfold TWO64 at hs; omega
    · intro k hk
      rw [image_rd_header c s hu k (by unfold HEADER_SIZE; omega) hsz]
      unfold St.headerByte
      rw [if_pos hk, Mem.byteLE_toNat]
  have e2 : (s.image c).readLE (headerOffset c.reserved + 8) 4 = s.allocated := by
    rw [Mem.readLE_of_bytes _ _ _ s.allocated]
    · apply Nat.mod_eq_of_lt; unfold TWO32 at ha; omega
    · intro k hk
      rw [Nat.add_assoc, image_rd_header c s hu (8 + k) (by unfold HEADER_SIZE; omega) hsz]
      unfold St.headerByte
      rw [if_neg (by omega), if_pos (by omega), Mem.byteLE_toNat, Nat.add_sub_cancel_left]
  have e3 : (s.image c).readLE (headerOffset c.reserved + 12) 4 = s.minSeg := by
    rw [Mem.readLE_of_bytes _ _ _ s.minSeg]
    · apply Nat.mod_eq_of_lt; unfold TWO32 at hm; omega
    · intro k hk
      rw [Nat.add_assoc, image_rd_header c s hu (12 + k) (by unfold HEADER_SIZE; omega) hsz]
      unfold St.headerByte
      rw [if_neg (by omega), if_neg (by omega), if_pos (by omega), Mem.byteLE_toNat, Nat.add_sub_cancel_left]
  have e4 : (s.image c).readLE (headerOffset c.reserved + 16) 4 = s.discarded := by
    rw [Mem.readLE_of_bytes _ _ _ s.discarded]
    · apply Nat.mod_eq_of_lt; unfold TWO32 at hd; omega
    · intro k hk
      rw [Nat.add_assoc, image_rd_header c s hu (16 + k) (by unfold HEADER_SIZE; omega) hsz]
      unfold St.headerByte
      rw [if_neg (by omega), if_neg (by omega), if_neg (by omega), if_pos (by omega), Mem.byteLE_toNat,
        Nat.add_sub_cancel_left]
  rw [e1, e2, e3, e4]


/-- options of a reopen that match the arena that wrote the file -/
def Matches (o : OpenOpts) (c : Cfg) (magic : Nat) : Prop :=
  o.kind = c.kind ∧ o.reserved = c.reserved ∧ o.magic = magic ∧ o.createNew = false

/-- the file written by a unified arena `(c, s)` created with magic version `magic` -/
def WellFormedFile (c : Cfg) (s : St) (magic : Nat) : Prop :=
  c.unify = true ∧ c.dataOffset = dataOffsetUnify c.reserved ∧
  sanityCheck s.mem c.reserved (some c.kind) magic = .ok c.kind

/-- the part of `openWritable` after the file `f1` (already extended) has been obtained, for an existing file -/
def existingTail (o : OpenOpts) (priv : Bool) (f1 : Mem) (mapLen : Nat) : Except IoKind Opened × FileSys :=
  if mapLen = 0 then (.error .invalidInput, some f1)
  else if prefixSize o.reserved > mapLen then (.error .invalidInput, some f1)
  else
    let view : Mem := f1.extract 0 mapLen
    let cfg : Cfg := { sync := o.sync, kind := o.kind, ro := false, retries := o.retries,
                       dataOffset := dataOffsetUnify o.reserved, reserved := o.reserved, unify := true,
                       fileBacked := true }
    match sanityCheck view o.reserved (some o.kind) o.magic with
    | .error e => (.error e, some f1)
    | .ok _ =>
      let hd := parseHeader view o.reserved
      let mem := if mapLen > hd.2.1 then view.zero hd.2.1 (mapLen - hd.2.1) else view
      let st : St := { mem := mem, sentinel := hd.1, allocated := hd.2.1, minSeg := hd.2.2.1,
                       discarded := hd.2.2.2 }
      (.ok { cfg := cfg, st := st, mapping := if priv then .priv else .shared },
       some (if priv then f1 else (st.image cfg) ++ f1.extract mapLen f1.size))

theorem openWritable_existing (o : OpenOpts) (priv : Bool) (f : Mem) (hnew : o.createNew = false) :
    openWritable o priv (some f) =
      if f.size < prefixSize o.reserved then (.error .invalidInput, some f)
      else match o.cap with
        | some c => existingTail o priv (extendTo f c) c
        | none => existingTail o priv f f.size := by
  unfold openWritable existingTail
  simp only [hnew]
  cases o.cap <;> cases o.create <;> simp <;> rfl


/-- `openReadOnly` on an existing file, the mapped length made a parameter -/
def roTail (o : OpenOpts) (f : Mem) (mapLen : Nat) : Except IoKind Opened :=
  if f.size < prefixSize o.reserved then .error .invalidInput
  else if mapLen = 0 then .error .invalidInput
  else if prefixSize o.reserved > mapLen then .error .invalidInput
  else
    let view : Mem := f.extract 0 mapLen
    match sanityCheck view o.reserved none o.magic with
    | .error e => .error e
    | .ok k =>
      let hd := parseHeader view o.reserved
      let cfg : Cfg := { sync := o.sync, kind := k, ro := true, retries := o.retries,
                         dataOffset := dataOffsetUnify o.reserved, reserved := o.reserved, unify := true,
                         fileBacked := true }
      .ok { cfg := cfg, mapping := .roShared,
            st := { mem := view, sentinel := hd.1, allocated := hd.2.1, minSeg := hd.2.2.1, discarded := hd.2.2.2 } }

theorem openReadOnly_some (o : OpenOpts) (f : Mem) :
    openReadOnly o (some f) = roTail o f (match o.cap with | some c => min f.size c | none => f.size) := rfl


/-- the configuration a writable open builds -/
def mkCfg (o : OpenOpts) : Cfg :=
  { sync := o.sync, kind := o.kind, ro := false, retries := o.retries,
    dataOffset := dataOffsetUnify o.reserved, reserved := o.reserved, unify := true, fileBacked := true }

/-- scalar facts contained in the invariant of a unified arena -/
structure Facts (c : Cfg) (s : St) : Prop where
  hu : c.unify = true
  hdo : c.dataOffset = headerOffset c.reserved + HEADER_SIZE
  mid : c.dataOffset ≤ s.allocated
  hi : s.allocated ≤ s.mem.size
  cap : s.mem.size + 8192 ≤ TWO32
  sent : s.sentinel < TWO64
  minSeg : s.minSeg < TWO32
  disc : s.discarded < TWO32

theorem facts (c : Cfg) (s : St) (free : List Seg) (lives : List Ext) (magic : Nat)
    (hinv : CInv c s free lives) (hwf : WellFormedFile c s magic) : Facts c s := by
  have hmid : c.dataOffset ≤ s.allocated := hinv.wf.mid
  have hhi : s.allocated ≤ s.mem.size := hinv.wf.hi
  have hcap : s.mem.size + 8192 ≤ TWO32 := hinv.capGuard
  refine ⟨hwf.1, hwf.2.1, hmid, hhi, hcap, ?_, hinv.minSegLt, hinv.wf.disc⟩
  rw [hinv.sent]
  apply enc_lt _ _ maxu32_lt
  apply hd_lt
  intro g hg
  have := (hinv.wf.segs g hg).2.2.2
  have h2 : g.off + NODE + g.size ≤ s.allocated := this
  unfold MAXU32; unfold TWO32 at hcap; unfold NODE at h2; omega


theorem reserved_lt_header (r : Nat) : r + 8 ≤ headerOffset r := by
  unfold headerOffset; omega

/-- the view of the reopened file agrees with the image below the old capacity -/
theorem view_rd (c : Cfg) (s : St) (f1 : Mem) (n : Nat)
    (hf1 : ∀ i, i < s.mem.size → f1.rd i = (s.image c).rd i) (i : Nat) (h1 : i < n) (h2 : i < s.mem.size) :
    Mem.rd (f1.extract 0 n) i = (s.image c).rd i := by
  rw [rd_extract, if_pos h1, hf1 i h2]

theorem view_sanity (c : Cfg) (s : St) (fc : Facts c s) (f1 : Mem) (n : Nat) (e : Option Kind) (magic : Nat)
    (hn : c.dataOffset ≤ n) (hf1 : ∀ i, i < s.mem.size → f1.rd i = (s.image c).rd i) :
    sanityCheck (f1.extract 0 n) c.reserved e magic = sanityCheck s.mem c.reserved e magic := by
  apply sanityCheck_congr
  intro i h1 h2
  have := reserved_lt_header c.reserved
  have := fc.hdo; have := fc.mid; have := fc.hi
  rw [view_rd c s f1 n hf1 i (by omega) (by omega), image_rd_out c s i (by omega)]

theorem view_header (c : Cfg) (s : St) (fc : Facts c s) (f1 : Mem) (n : Nat)
    (hn : c.dataOffset ≤ n) (hf1 : ∀ i, i < s.mem.size → f1.rd i = (s.image c).rd i) :
    parseHeader (f1.extract 0 n) c.reserved = (s.sentinel, s.allocated, s.minSeg, s.discarded) := by
  have := fc.hdo; have := fc.mid; have := fc.hi; have := fc.cap
  have hh : HEADER_SIZE = 24 := rfl
  rw [← header_roundtrip c s fc.hu fc.sent (by unfold TWO32 at *; omega) fc.minSeg fc.disc (by omega)]
  apply parseHeader_congr
  intro i h1 h2
  exact view_rd c s f1 n hf1 i (by omega) (by omega)

/-- the memory a writable reopen maps: the view, zeroed above the stored cursor -/
def reMem (s : St) (f1 : Mem) (n : Nat) : Mem :=
  if n > s.allocated then Mem.zero (f1.extract 0 n) s.allocated (n - s.allocated) else f1.extract 0 n

theorem existingTail_eq (c : Cfg) (s : St) (fc : Facts c s) (magic : Nat) (o : OpenOpts) (priv : Bool)
    (f1 : Mem) (n : Nat) (hwf : WellFormedFile c s magic) (ho : Matches o c magic)
    (hn : c.dataOffset ≤ n) (hf1 : ∀ i, i < s.mem.size → f1.rd i = (s.image c).rd i) :
    ∃ r fs', existingTail o priv f1 n = (.ok r, fs') ∧ r.cfg = mkCfg o ∧
      r.st = { mem := reMem s f1 n, sentinel := s.sentinel, allocated := s.allocated, minSeg := s.minSeg,
               discarded := s.discarded } := by
  obtain ⟨hk, hr, hmg, _⟩ := ho
  have hsan := view_sanity c s fc f1 n (some c.kind) magic hn hf1
  rw [hwf.2.2] at hsan
  have hhd := view_header c s fc f1 n hn hf1
  have := fc.hdo; have := fc.mid
  have hh : HEADER_SIZE = 24 := rfl
  have hp : prefixSize o.reserved = c.dataOffset := by rw [hr]; unfold prefixSize; exact hwf.2.1.symm
  unfold existingTail
  rw [if_neg (by omega), if_neg (by omega)]
  rw [← hk, ← hr, ← hmg] at hsan
  rw [← hr] at hhd
  simp only [hsan, hhd]
  exact ⟨_, _, rfl, rfl, rfl⟩


theorem size_reMem (s : St) (f1 : Mem) (n : Nat) (hsz : n ≤ f1.size) : (reMem s f1 n).size = n := by
  unfold reMem
  split <;> simp <;> omega

theorem reMem_rd_lo (c : Cfg) (s : St) (fc : Facts c s) (f1 : Mem) (n : Nat)
    (hf1 : ∀ i, i < s.mem.size → f1.rd i = (s.image c).rd i) (i : Nat) (hi : i < s.allocated) (hin : i < n) :
    (reMem s f1 n).rd i = (s.image c).rd i := by
  have := fc.hi
  unfold reMem
  split
  · rw [Mem.rd_zero_out _ _ _ _ (Or.inl hi)]
    exact view_rd c s f1 n hf1 i (by omega) (by omega)
  · exact view_rd c s f1 n hf1 i (by omega) (by omega)

theorem reMem_rd_hi (s : St) (f1 : Mem) (n : Nat) (hsz : n ≤ f1.size) (i : Nat) (hi : s.allocated ≤ i) :
    (reMem s f1 n).rd i = 0 := by
  by_cases h : i < n
  · unfold reMem
    rw [if_pos (by omega)]
    exact Mem.rd_zero_in _ _ _ _ hi (by omega)
  · apply Mem.rd_oob
    rw [size_reMem s f1 n hsz]; omega

/-- `Chain` transported to a memory that may be shorter, as long as it still holds all node words -/
theorem chain_congr' {m m' : Mem} (l : List Seg) (hs : ∀ g ∈ l, g.off + 8 ≤ m'.size)
    (hw : ∀ g ∈ l, m'.readWord g.off = m.readWord g.off) (h : Chain m l) : Chain m' l := by
  induction l with
  | nil => trivial
  | cons g rest ih =>
    refine ⟨hs g List.mem_cons_self, ?_, ih (fun x hx => hs x (List.mem_cons_of_mem _ hx))
      (fun x hx => hw x (List.mem_cons_of_mem _ hx)) h.2.2⟩
    rw [hw g List.mem_cons_self]; exact h.2.1

theorem reopened_cinv (c : Cfg) (s : St) (free : List Seg) (lives : List Ext) (magic : Nat) (o : OpenOpts)
    (f1 : Mem) (n : Nat) (hinv : CInv c s free lives) (hwf : WellFormedFile c s magic) (ho : Matches o c magic)
    (hr : o.sync = true → o.retries ≤ 255)
    (hn : s.allocated ≤ n) (hcap : n + 8192 ≤ TWO32) (hsz : n ≤ f1.size)
    (hf1 : ∀ i, i < s.mem.size → f1.rd i = (s.image c).rd i) :
    CInv (mkCfg o) { mem := reMem s f1 n, sentinel := s.sentinel, allocated := s.allocated, minSeg := s.minSeg,
                     discarded := s.discarded } free lives := by
  have fc := facts c s free lives magic hinv hwf
  obtain ⟨hk, hres, hmg, _⟩ := ho
  have hdo : (mkCfg o).dataOffset = c.dataOffset := by
    show dataOffsetUnify o.reserved = _
    rw [hres]; exact hwf.2.1.symm
  have hkind : (mkCfg o).kind = c.kind := hk
  have w := hinv.wf
  refine ⟨⟨?_, ?_, w.disjoint, ?_, ?_, ?_, ?_, ?_, w.disc⟩, ?_, hinv.sent, ?_, hinv.minSegLt, hr⟩
  · rw [hdo]; exact w.segs
  · rw [hkind]; exact w.sorted
  · rw [hdo]; exact w.lives_in
  · rw [hdo]; exact w.lo
  · rw [hdo]; exact w.mid
  · show s.allocated ≤ (reMem s f1 n).size
    rw [size_reMem s f1 n hsz]; exact hn
  · rw [hkind]; exact w.none_empty
  · have hseg : ∀ g ∈ free, c.dataOffset ≤ g.off ∧ g.off + 8 ≤ s.allocated := by
      intro g hg
      obtain ⟨_, _, h3, h4⟩ := w.segs g hg
      have h4' : g.off + NODE + g.size ≤ s.allocated := h4
      unfold NODE at h4'
      exact ⟨h3, by omega⟩
    apply chain_congr' free _ _ hinv.chain
    · intro g hg
      rw [size_reMem s f1 n hsz]
      have := (hseg g hg).2; omega
    · intro g hg
      have := hseg g hg
      have := fc.hdo
      unfold Mem.readWord
      apply Mem.readLE_congr
      intro i h1 h2
      rw [reMem_rd_lo c s fc f1 n hf1 i (by omega) (by omega), image_rd_out c s i (by omega)]
  · show (reMem s f1 n).size + 8192 ≤ TWO32
    rw [size_reMem s f1 n hsz]; exact hcap

theorem file_rd (c : Cfg) (s : St) (tail : Mem) (i : Nat) (hi : i < s.mem.size) :
    (s.image c ++ tail).rd i = (s.image c).rd i := by
  rw [rd_append, if_pos (by rw [size_image]; exact hi)]

/-- writable reopen (`map_mut` / `map_copy`) with the same, a larger or no capacity: same scalars, same bytes
    below the cursor, zero above it, the concrete invariant for the same free list and live extents -/
theorem reopen_writable (c : Cfg) (s : St) (free : List Seg) (lives : List Ext) (magic : Nat) (o : OpenOpts)
    (priv : Bool) (tail : Mem)
    (hinv : CInv c s free lives) (hwf : WellFormedFile c s magic) (ho : Matches o c magic)
    (hcap : match o.cap with | some n => s.allocated ≤ n ∧ n + 8192 ≤ TWO32 | none => (s.cap + tail.size) + 8192 ≤ TWO32)
    (hr : o.sync = true → o.retries ≤ 255) :
    ∃ r fs', openWritable o priv (some (s.image c ++ tail)) = (.ok r, fs') ∧
      r.st.allocated = s.allocated ∧ r.st.discarded = s.discarded ∧ r.st.minSeg = s.minSeg ∧
      r.st.sentinel = s.sentinel ∧ r.cfg.dataOffset = c.dataOffset ∧ r.cfg.kind = c.kind ∧ r.cfg.ro = false ∧
      (∀ i, i < s.allocated → r.st.mem.rd i = (s.image c).rd i) ∧
      (∀ i, s.allocated ≤ i → r.st.mem.rd i = 0) ∧
      CInv r.cfg r.st free lives := by
  have fc := facts c s free lives magic hinv hwf
  have hfsz : (s.image c ++ tail).size = s.mem.size + tail.size := by rw [Array.size_append, size_image]
  have hp : prefixSize o.reserved = c.dataOffset := by rw [ho.2.1]; unfold prefixSize; exact hwf.2.1.symm
  have h1 := fc.mid; have h2 := fc.hi
  -- everything follows once the mapped file `f1` and length `n` are known
  have key : ∀ (f1 : Mem) (n : Nat), s.allocated ≤ n → n + 8192 ≤ TWO32 → n ≤ f1.size →
      (∀ i, i < s.mem.size → f1.rd i = (s.image c).rd i) →
      ∃ r fs', existingTail o priv f1 n = (.ok r, fs') ∧
        r.st.allocated = s.allocated ∧ r.st.discarded = s.discarded ∧ r.st.minSeg = s.minSeg ∧
        r.st.sentinel = s.sentinel ∧ r.cfg.dataOffset = c.dataOffset ∧ r.cfg.kind = c.kind ∧ r.cfg.ro = false ∧
        (∀ i, i < s.allocated → r.st.mem.rd i = (s.image c).rd i) ∧
        (∀ i, s.allocated ≤ i → r.st.mem.rd i = 0) ∧
        CInv r.cfg r.st free lives := by
    intro f1 n hn hc hsz hf1
    obtain ⟨r, fs', e, hcfg, hst⟩ := existingTail_eq c s fc magic o priv f1 n hwf ho (by omega) hf1
    refine ⟨r, fs', e, ?_⟩
    rw [hcfg, hst]
    refine ⟨rfl, rfl, rfl, rfl, ?_, ho.1, rfl, ?_, ?_, ?_⟩
    · show dataOffsetUnify o.reserved = _
      rw [ho.2.1]; exact hwf.2.1.symm
    · exact fun i hi => reMem_rd_lo c s fc f1 n hf1 i hi (by omega)
    · exact fun i hi => reMem_rd_hi s f1 n hsz i hi
    · exact reopened_cinv c s free lives magic o f1 n hinv hwf ho hr hn hc hsz hf1
  rw [openWritable_existing o priv _ ho.2.2.2, if_neg (by rw [hfsz, hp]; omega)]
  cases hc : o.cap with
  | none =>
    rw [hc] at hcap
    simp only [] at hcap ⊢
    have hcap' : (s.mem.size + tail.size) + 8192 ≤ TWO32 := hcap
    exact key _ _ (by rw [hfsz]; omega) (by rw [hfsz]; exact hcap') (Nat.le_refl _)
      (fun i hi => file_rd c s tail i hi)
  | some n =>
    rw [hc] at hcap
    simp only [] at hcap ⊢
    exact key _ n hcap.1 hcap.2 (by rw [size_extendTo]; omega)
      (fun i hi => by rw [rd_extendTo]; exact file_rd c s tail i hi)


theorem sanity_none (m : Mem) (r : Nat) (k : Kind) (magic : Nat)
    (h : sanityCheck m r (some k) magic = .ok k) : sanityCheck m r none magic = .ok k := by
  unfold sanityCheck at h ⊢
  split at h
  · cases h
  · rename_i k' hk'
    split at h
    · cases h
    · rw [if_neg (by simp)]
      exact h

/-- read-only reopen: same scalars, freelist kind read from the file, the mapping is the file -/
theorem reopen_read_only (c : Cfg) (s : St) (free : List Seg) (lives : List Ext) (magic : Nat) (o : OpenOpts)
    (tail : Mem) (hinv : CInv c s free lives) (hwf : WellFormedFile c s magic)
    (ho : o.reserved = c.reserved ∧ o.magic = magic) (hcap : ∀ n, o.cap = some n → s.allocated ≤ n) :
    ∃ r, openReadOnly o (some (s.image c ++ tail)) = .ok r ∧
      r.st.allocated = s.allocated ∧ r.st.discarded = s.discarded ∧ r.st.minSeg = s.minSeg ∧
      r.st.sentinel = s.sentinel ∧ r.cfg.dataOffset = c.dataOffset ∧ r.cfg.kind = c.kind ∧ r.cfg.ro = true ∧
      (∀ i, i < s.allocated → r.st.mem.rd i = (s.image c).rd i) := by
  have fc := facts c s free lives magic hinv hwf
  have hfsz : (s.image c ++ tail).size = s.mem.size + tail.size := by rw [Array.size_append, size_image]
  have hp : prefixSize o.reserved = c.dataOffset := by rw [ho.1]; unfold prefixSize; exact hwf.2.1.symm
  have h1 := fc.mid; have h2 := fc.hi
  have hf1 : ∀ i, i < s.mem.size → (s.image c ++ tail).rd i = (s.image c).rd i := fun i hi => file_rd c s tail i hi
  rw [openReadOnly_some]
  have hn : s.allocated ≤ (match o.cap with | some c_1 => min (s.image c ++ tail).size c_1 | none => (s.image c ++ tail).size) := by
    cases hc : o.cap with
    | none => simp only []; omega
    | some n => simp only []; have := hcap n hc; omega
  generalize (match o.cap with | some c_1 => min (s.image c ++ tail).size c_1 | none => (s.image c ++ tail).size) = n at hn
  have hsan := view_sanity c s fc _ n none magic (by omega) hf1
  rw [sanity_none _ _ _ _ hwf.2.2, ← ho.1, ← ho.2] at hsan
  have hhd := view_header c s fc _ n (by omega) hf1
  rw [← ho.1] at hhd
  have := fc.hdo
  have hh : HEADER_SIZE = 24 := rfl
  unfold roTail
  rw [if_neg (by omega), if_neg (by omega), if_neg (by omega)]
  simp only [hsan, hhd]
  refine ⟨_, rfl, rfl, rfl, rfl, rfl, ?_, rfl, rfl, ?_⟩
  · show dataOffsetUnify o.reserved = _
    rw [ho.1]; exact hwf.2.1.symm
  · intro i hi
    exact view_rd c s _ n hf1 i (by omega) (by omega)


theorem existingTail_ok_inv (o : OpenOpts) (priv : Bool) (f1 : Mem) (n : Nat) (r : Opened) (fs' : FileSys)
    (h : existingTail o priv f1 n = (.ok r, fs')) : prefixSize o.reserved ≤ n := by
  unfold existingTail at h
  split at h
  · cases h
  · split at h
    · cases h
    · omega

/-- the reopened state writes a well-formed file again, so the argument repeats for every further cycle -/
theorem cycles (c : Cfg) (s : St) (free : List Seg) (lives : List Ext) (magic : Nat) (o : OpenOpts)
    (priv : Bool) (tail : Mem) (r : Opened) (fs' : FileSys)
    (hinv : CInv c s free lives) (hwf : WellFormedFile c s magic) (ho : Matches o c magic)
    (h : openWritable o priv (some (s.image c ++ tail)) = (.ok r, fs')) :
    WellFormedFile r.cfg r.st magic := by
  have fc := facts c s free lives magic hinv hwf
  have hp : prefixSize o.reserved = c.dataOffset := by rw [ho.2.1]; unfold prefixSize; exact hwf.2.1.symm
  have key : ∀ (f1 : Mem) (n : Nat), (∀ i, i < s.mem.size → f1.rd i = (s.image c).rd i) →
      existingTail o priv f1 n = (.ok r, fs') → WellFormedFile r.cfg r.st magic := by
    intro f1 n hf1 e
    have hn := existingTail_ok_inv o priv f1 n r fs' e
    rw [hp] at hn
    obtain ⟨r', fs'', e', hcfg, hst⟩ := existingTail_eq c s fc magic o priv f1 n hwf ho hn hf1
    rw [e] at e'
    simp only [Prod.mk.injEq, Except.ok.injEq] at e'
    obtain ⟨rfl, _⟩ := e'
    rw [hcfg, hst]
    refine ⟨rfl, rfl, ?_⟩
    show sanityCheck (reMem s f1 n) o.reserved (some o.kind) magic = .ok o.kind
    rw [ho.1, ho.2.1, ← hwf.2.2]
    apply sanityCheck_congr
    intro i h1 h2
    have := reserved_lt_header c.reserved
    have := fc.hdo; have := fc.mid
    rw [reMem_rd_lo c s fc f1 n hf1 i (by omega) (by omega), image_rd_out c s i (by omega)]
  rw [openWritable_existing o priv _ ho.2.2.2] at h
  split at h
  · cases h
  · cases hc : o.cap with
    | none =>
      rw [hc] at h
      exact key _ _ (fun i hi => file_rd c s tail i hi) h
    | some n =>
      rw [hc] at h
      exact key _ n (fun i hi => by rw [rd_extendTo]; exact file_rd c s tail i hi) h


theorem sanity_writeSanity (m : Mem) (r : Nat) (k : Kind) (magic : Nat) (hsz : r + 8 ≤ m.size)
    (hm : magic < 65536) : sanityCheck (writeSanity m r k magic) r (some k) magic = .ok k := by
  have e1 : (writeSanity m r k magic).rd (r + 1) = kindByte k := by
    unfold writeSanity Mem.writeLE
    simp only []
    rw [Mem.rd_update_out _ _ _ _ _ (by omega), Mem.rd_update_out _ _ _ _ _ (by omega),
      Mem.rd_update_out _ _ _ _ _ (by omega), Mem.rd_update_out _ _ _ _ _ (by omega),
      Mem.rd_update, if_pos (by omega)]
    cases k <;> rfl
  have e2 : (writeSanity m r k magic).rd (r + 2) = 97 := by
    unfold writeSanity Mem.writeLE
    simp only []
    rw [Mem.rd_update_out _ _ _ _ _ (by omega), Mem.rd_update_out _ _ _ _ _ (by omega),
      Mem.rd_update_out _ _ _ _ _ (by omega), Mem.rd_update, if_pos (by simp; omega)]
    rfl
  have e3 : (writeSanity m r k magic).rd (r + 3) = 108 := by
    unfold writeSanity Mem.writeLE
    simp only []
    rw [Mem.rd_update_out _ _ _ _ _ (by omega), Mem.rd_update_out _ _ _ _ _ (by omega),
      Mem.rd_update, if_pos (by simp; omega)]
    rfl
  have e4 : (writeSanity m r k magic).readLE (r + 4) 2 = magic := by
    unfold writeSanity
    simp only []
    rw [Mem.readLE_writeLE_disjoint _ _ _ _ _ _ (by omega), Mem.readLE_writeLE_same _ _ _ _ (by simp; omega)]
    exact Nat.mod_eq_of_lt (by omega)
  have e5 : (writeSanity m r k magic).readLE (r + 6) 2 = 0 := by
    unfold writeSanity
    simp only []
    rw [Mem.readLE_writeLE_same _ _ _ _ (by simp; omega)]
  unfold sanityCheck
  rw [e1, e2, e3, e4, e5]
  cases k <;> simp [kindByte, kindOfByte]

-- CHANGED: added `hmagic : o.magic < 65536`. The magic version is a `u16` in the code and `writeSanity` stores
-- its two low bytes only, so for `o.magic ≥ 65536` the stored value differs from `o.magic` and `sanityCheck`
-- against `o.magic` fails (counterexample: kind opt, reserved 0, cap 64, magic 65536 — checked with `decide`).
/-- a freshly created file-backed arena writes a well-formed file -/
theorem created_wellformed (o : Opts) (s : St) (hf : o.file = true) (h : o.init = some s)
    (hmagic : o.magic < 65536) :
    WellFormedFile o.cfg s o.magic := by
  have hu : o.unified = true := by unfold Opts.unified; rw [hf]; simp
  have hd : o.dataOffset = dataOffsetUnify o.reserved := by unfold Opts.dataOffset; rw [if_pos hu]
  refine ⟨hu, hd, ?_⟩
  unfold Opts.init at h
  split at h
  · cases h
  · rename_i hcap
    simp only [Option.some.injEq] at h
    subst h
    show sanityCheck (writeSanity _ o.reserved o.kind o.magic) o.reserved (some o.kind) o.magic = .ok o.kind
    apply sanity_writeSanity _ _ _ _ _ hmagic
    have := reserved_lt_header o.reserved
    rw [hd] at hcap
    unfold dataOffsetUnify HEADER_SIZE at hcap
    simp; omega

end Rarena.C05
