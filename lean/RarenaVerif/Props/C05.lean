/-
  C05 — A file-backed arena reopens to exactly the state it was closed in.

  Full statement: after a file-backed arena is dropped and the file is opened again — writable,
  copy-on-write or read-only — allocated(), discarded(), data_offset(), minimum segment size, freelist
  kind and magic version equal the values before closing, every byte of the reserved prefix and of all
  handed-out ranges is unchanged, and in a writable reopen new allocations never overlap ranges that were
  live before closing while ranges that had been freed remain reusable; the same for any number of
  close/reopen cycles interleaved with allocation histories.

  The file left by an arena in state `s` is its rendered image (`St.image`: memory with the header record at
  its offset) followed by whatever the file held beyond the mapping. `reopen_*` show that opening that file
  yields a state with the same scalars, the same bytes below the cursor, and — for the same abstract free
  list and the same live extents — the concrete invariant again; every theorem about states satisfying the
  invariant (no overlap with live ranges: C01, reuse of freed ranges: C10, …) therefore applies after the
  reopen, and the argument repeats for any number of cycles (`cycles`).
-/
import RarenaVerif.Props.Common
import RarenaVerif.Model.File

namespace Rarena.C05

/-- options of a reopen that match the arena that wrote the file -/
def Matches (o : OpenOpts) (c : Cfg) (magic : Nat) : Prop :=
  o.kind = c.kind ∧ o.reserved = c.reserved ∧ o.magic = magic ∧ o.createNew = false

/-- the file written by a unified arena `(c, s)` created with magic version `magic` -/
def WellFormedFile (c : Cfg) (s : St) (magic : Nat) : Prop :=
  c.unify = true ∧ c.dataOffset = dataOffsetUnify c.reserved ∧
  sanityCheck s.mem c.reserved (some c.kind) magic = .ok c.kind

/-- header round trip: the header record rendered into the image is read back by `parseHeader` -/
theorem header_roundtrip (c : Cfg) (s : St) (hu : c.unify = true) (hs : s.sentinel < TWO64)
    (ha : s.allocated < TWO32) (hm : s.minSeg < TWO32) (hd : s.discarded < TWO32)
    (hsz : headerOffset c.reserved + HEADER_SIZE ≤ s.mem.size) :
    parseHeader (s.image c) c.reserved = (s.sentinel, s.allocated, s.minSeg, s.discarded) := by
  sorry

/-- writable reopen (`map_mut` / `map_copy`) with the same, a larger or no capacity: same scalars, same bytes
    below the cursor, zero above it, the concrete invariant for the same free list and live extents -/
theorem reopen_writable (c : Cfg) (s : St) (free : List Seg) (lives : List Ext) (magic : Nat) (o : OpenOpts)
    (priv : Bool) (tail : Mem)
    (hinv : CInv c s free lives) (hwf : WellFormedFile c s magic) (ho : Matches o c magic)
    (hcap : match o.cap with | some n => s.allocated ≤ n ∧ n + 8192 ≤ TWO32 | none => (s.cap + tail.size) + 8192 ≤ TWO32)
    (hr : o.sync = true → 1 ≤ o.retries ∧ o.retries ≤ 255) :
    ∃ r fs', openWritable o priv (some (s.image c ++ tail)) = (.ok r, fs') ∧
      r.st.allocated = s.allocated ∧ r.st.discarded = s.discarded ∧ r.st.minSeg = s.minSeg ∧
      r.st.sentinel = s.sentinel ∧ r.cfg.dataOffset = c.dataOffset ∧ r.cfg.kind = c.kind ∧ r.cfg.ro = false ∧
      (∀ i, i < s.allocated → r.st.mem.rd i = (s.image c).rd i) ∧
      (∀ i, s.allocated ≤ i → r.st.mem.rd i = 0) ∧
      CInv r.cfg r.st free lives := by
  sorry

/-- read-only reopen: same scalars, freelist kind read from the file, the mapping is the file -/
theorem reopen_read_only (c : Cfg) (s : St) (free : List Seg) (lives : List Ext) (magic : Nat) (o : OpenOpts)
    (tail : Mem) (hinv : CInv c s free lives) (hwf : WellFormedFile c s magic)
    (ho : o.reserved = c.reserved ∧ o.magic = magic) (hcap : ∀ n, o.cap = some n → s.allocated ≤ n) :
    ∃ r, openReadOnly o (some (s.image c ++ tail)) = .ok r ∧
      r.st.allocated = s.allocated ∧ r.st.discarded = s.discarded ∧ r.st.minSeg = s.minSeg ∧
      r.st.sentinel = s.sentinel ∧ r.cfg.dataOffset = c.dataOffset ∧ r.cfg.kind = c.kind ∧ r.cfg.ro = true ∧
      (∀ i, i < s.allocated → r.st.mem.rd i = (s.image c).rd i) := by
  sorry

/-- the reopened state writes a well-formed file again, so the argument repeats for every further cycle -/
theorem cycles (c : Cfg) (s : St) (free : List Seg) (lives : List Ext) (magic : Nat) (o : OpenOpts)
    (priv : Bool) (tail : Mem) (r : Opened) (fs' : FileSys)
    (hinv : CInv c s free lives) (hwf : WellFormedFile c s magic) (ho : Matches o c magic)
    (h : openWritable o priv (some (s.image c ++ tail)) = (.ok r, fs')) :
    WellFormedFile r.cfg r.st magic := by
  sorry

/-- a freshly created file-backed arena writes a well-formed file -/
theorem created_wellformed (o : Opts) (s : St) (hf : o.file = true) (h : o.init = some s) :
    WellFormedFile o.cfg s o.magic := by
  sorry

end Rarena.C05
