/-
  C04 (continued) — "any size is answered safely" under concurrency, for arenas with `Freelist::None`.

  `Props/C04.lean` proves totality for sequential histories of every kind. For ANY number of threads, ANY programs of
  the three allocation entry points and releases of own handles on a `Freelist::None` arena and ANY schedule
  (`Proofs/ConcNoneTerm.lean`, `Proofs/ConcShape.lean`, on the atomic-step machine):
    * no call ever panics or wraps (`never_traps`: the model turns every unchecked `u32` / `usize` operation and every
      out-of-bounds access into a trap; none is reachable — `Fits`: typed requests with `capacity + align + size ≤ 2^32`,
      which every real type on an arena of at most 2^32 − 8192 bytes satisfies);
    * every call returns once its thread has been granted enough steps, with an explicit bound (`all_return`);
    * what it returns is a handle that meets the request and lies below the capacity, or an error, and `Ok(None)` only
      for zero-size requests (`C03Conc.bytes_shape_none`, `C03Conc.none_only_for_zero_size`).
  Free-list kinds under overlapping operations: not proved (F18: a hang is possible); there the check relies on the
  schedule-level correspondence and the oracles.
-/
import RarenaVerif.Proofs.ConcNoneTerm

namespace Rarena.C04None
open Rarena Rarena.Conc Rarena.Conc.NoneFL Rarena.Conc.NoneTerm

theorem never_traps (c : Cfg) (hk : c.kind = .none) (hro : c.ro = false) (sh : Shared) (fuel : Nat)
    (hcap : sh.st.cap < TWO32) (hhi : sh.st.allocated ≤ sh.st.cap)
    (progs : List (List NOp)) (hfit : ∀ ops ∈ progs, ∀ op ∈ ops, Fits sh.st.cap op) (sched : List (Nat × Bool)) :
    ∀ p ∈ ((initG c sh fuel progs).run sched).1.threads, ∀ s, p ≠ .trap s :=
  NoneTerm.none_no_trap c hk hro sh fuel hcap hhi progs hfit sched

theorem all_return (c : Cfg) (hk : c.kind = .none) (hro : c.ro = false) (sh : Shared) (fuel : Nat)
    (hcap : sh.st.cap < TWO32) (hhi : sh.st.allocated ≤ sh.st.cap)
    (progs : List (List NOp)) (hfit : ∀ ops ∈ progs, ∀ op ∈ ops, Fits sh.st.cap op) (sched : List (Nat × Bool))
    (hfuel : nops progs + spc sched + 1 ≤ fuel)
    (hgr : ∀ t ops, progs[t]? = some ops → 2 * ops.length + (nops progs - ops.length) + spc sched < grants t sched) :
    ∀ p ∈ ((initG c sh fuel progs).run sched).1.threads, ∃ r, p = .ret r :=
  NoneTerm.none_all_return c hk hro sh fuel hcap hhi progs hfit sched hfuel hgr

end Rarena.C04None
