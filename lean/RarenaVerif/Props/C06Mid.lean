/-
  C06 (continued) — crash in the MIDDLE of a release.

  `Props/C06.lean` proves recovery from every operation-boundary image. This file adds the mid-operation theorem for
  releases (`dealloc`, i.e. the drop of a handle), proved in `Proofs/CrashDealloc.lean` on the atomic-step machine
  `Model/Conc.lean`: a thread running `dealloc` alone may be killed after ANY number `k` of its atomic accesses; the
  memory image at that instant
    * satisfies the concrete invariant `CInv` for the old free list or the old list with the new segment inserted, with
      the released block no longer live (a crash can only LEAK the block: between the store of its node word and the
      link CAS it is neither live nor on the list nor counted),
    * has its cursor unchanged or rewound to the block (top release),
    * keeps the bytes of every other live extent and of the reserved prefix,
    * reopens writable to a state with the same facts (`reopens`), on which every later allocation terminates
      (`reopened_later_ops_terminate`).
  Not covered (and false on the pinned tree for the free-list allocation paths, known finding F15): crash points inside
  `alloc_*` slow paths and `discard_freelist`; releases running concurrently with other threads.
-/
import RarenaVerif.Proofs.CrashDealloc

namespace Rarena.C06Mid
open Rarena Rarena.Conc

/-- after any number `k` of atomic accesses of a solo `dealloc` the intermediate state satisfies `MidRelease` -/
theorem release_any_crash_point (c : Cfg) (sh : Shared) (free : List Seg) (lives : List Ext) (m : Meta) (fuel : Nat)
    (h : CInv c sh.st free lives) (hro : c.ro = false) (hm : m.owned ∈ lives) (hne : m.memSize ≠ 0)
    (hfuel : free.length + 2 ≤ fuel) (k : Nat) :
    ∃ free', MidRelease c sh.st free lives m
      (Global.run ⟨sh, [deallocC c m.memOff m.memSize fuel]⟩ (List.replicate k (0, false))).1.sh.st free' :=
  crash_dealloc_global c sh free lives m fuel h hro hm hne hfuel k

/-- the same for the step-count formulation (`soloSteps k` = `k` grants of the machine to the only thread) -/
theorem release_any_prefix (c : Cfg) (sh : Shared) (free : List Seg) (lives : List Ext) (m : Meta) (fuel : Nat)
    (h : CInv c sh.st free lives) (hro : c.ro = false) (hm : m.owned ∈ lives) (hne : m.memSize ≠ 0)
    (hfuel : free.length + 2 ≤ fuel) (k : Nat) :
    ∃ free', MidRelease c sh.st free lives m
      (soloSteps k sh (deallocC c m.memOff m.memSize fuel)).1.st free' :=
  crash_dealloc c sh free lives m fuel h hro hm hne hfuel k

/-- the run is the sequential release: from some step on the state is the one `dealloc_refines` describes -/
theorem release_completes (c : Cfg) (sh : Shared) (free : List Seg) (lives : List Ext) (m : Meta) (fuel : Nat)
    (hsync : c.sync = true)
    (h : CInv c sh.st free lives) (hro : c.ro = false) (hm : m.owned ∈ lives) (hne : m.memSize ≠ 0)
    (hfuel : free.length + 2 ≤ fuel) :
    ∃ s' K, dealloc c sh.st m.memOff m.memSize fuel =
        .ok (((sh.st.abs free).dealloc c m.memOff m.memSize).1, s') ∧
      CInv c s' ((sh.st.abs free).dealloc c m.memOff m.memSize).2.free (lives.erase m.owned) ∧
      ∀ k, K ≤ k → soloSteps k sh (deallocC c m.memOff m.memSize fuel) =
        (withSt sh s', .ret ((sh.st.abs free).dealloc c m.memOff m.memSize).1) :=
  crash_dealloc_completes c sh free lives m fuel hsync h hro hm hne hfuel

/-- the image of any intermediate state reopens writable, with the invariant, the cursor in range and the bytes of
    every other live extent -/
theorem reopens (c : Cfg) (sh : Shared) (free : List Seg) (lives : List Ext) (m : Meta) (fuel : Nat)
    (h : CInv c sh.st free lives) (hro : c.ro = false) (hm : m.owned ∈ lives) (hne : m.memSize ≠ 0)
    (hfuel : free.length + 2 ≤ fuel) (k : Nat)
    (magic : Nat) (o : OpenOpts) (tail : Mem)
    (hwf : C05.WellFormedFile c sh.st magic) (ho : C05.Matches o c magic)
    (hcap : match o.cap with
      | some n => sh.st.allocated ≤ n ∧ n + 8192 ≤ TWO32
      | none => (sh.st.cap + tail.size) + 8192 ≤ TWO32)
    (hr : o.sync = true → o.retries ≤ 255) :
    ∃ free' r fs',
      (free' = free ∨ free' = insertSeg c.kind (relSeg m.memOff m.memSize) free) ∧
      openWritable o false
        (some (C06.crashImage c (soloSteps k sh (deallocC c m.memOff m.memSize fuel)).1.st tail)) = (.ok r, fs') ∧
      (r.st.allocated = sh.st.allocated ∨ r.st.allocated = m.memOff) ∧
      r.cfg.dataOffset ≤ r.st.allocated ∧ r.st.allocated ≤ r.st.cap ∧
      CInv r.cfg r.st free' (lives.erase m.owned) ∧
      (∀ e ∈ lives.erase m.owned, ∀ i, e.1 ≤ i → i < e.2 → r.st.mem.rd i = sh.st.mem.rd i) :=
  crash_dealloc_reopens c sh free lives m fuel h hro hm hne hfuel k magic o tail hwf ho hcap hr

/-- every later `alloc_bytes` on the arena reopened from any intermediate image terminates -/
theorem reopened_later_ops_terminate (c : Cfg) (sh : Shared) (free : List Seg) (lives : List Ext) (m : Meta)
    (fuel : Nat)
    (h : CInv c sh.st free lives) (hro : c.ro = false) (hm : m.owned ∈ lives) (hne : m.memSize ≠ 0)
    (hfuel : free.length + 2 ≤ fuel) (k : Nat)
    (magic : Nat) (o : OpenOpts) (tail : Mem)
    (hwf : C05.WellFormedFile c sh.st magic) (ho : C05.Matches o c magic)
    (hcap : match o.cap with
      | some n => sh.st.allocated ≤ n ∧ n + 8192 ≤ TWO32
      | none => (sh.st.cap + tail.size) + 8192 ≤ TWO32)
    (hr : o.sync = true → o.retries ≤ 255)
    (n fuel' : Nat) (hn : n < TWO32) (hfuel' : free.length + 3 ≤ fuel') :
    ∃ free' r fs' res s',
      openWritable o false
        (some (C06.crashImage c (soloSteps k sh (deallocC c m.memOff m.memSize fuel)).1.st tail)) = (.ok r, fs') ∧
      CInv r.cfg r.st free' (lives.erase m.owned) ∧
      allocBytes r.cfg r.st n fuel' = .ok (res, s') ∧
      match res with
      | .ok (some m') => CInv r.cfg s' ((r.st.abs free').allocBytes r.cfg n).2.free (m'.owned :: lives.erase m.owned)
      | _ => s' = r.st :=
  crash_dealloc_reopened_later_ops c sh free lives m fuel h hro hm hne hfuel k magic o tail hwf ho hcap hr n fuel' hn hfuel'

end Rarena.C06Mid
