/-
  C07 — Every operation on a shared arena finishes, whatever the other threads do.

  Full statement (`Full`): in every fair interleaving of threads that allocate from and release into one
  arena, each alloc, drop/dealloc and discard_freelist call returns after finitely many steps; no call can wait
  for an event that never happens, even when other threads keep their allocations for ever or have finished.

  What is proved (PARTIAL, see DESIGN.md):
  * `solo_terminates_*` — obstruction freedom: from every state satisfying the concrete invariant, an operation
    that runs alone terminates (finite `Solo` derivation) with the answer of the sequential model — whatever
    other threads did before (they may have finished or keep their allocations for ever).
  * `cursor_lock_free` — a weak CAS on the cursor that fails without a spurious failure has observed another
    thread's successful access: the fast path is lock-free under every schedule.
  * general fair termination of the free-list loops is NOT proved. The two hangs found while building this
    check (F8: abandoned removal mark; F8b: waiting on a node that was removed and handed out) were repaired in
    /repo (`fix:` commits); their schedules are in the corpus and the bounded schedule search of the check
    (controlled scheduler on the real code + the same schedules on the step machine) has found no other.
-/
import RarenaVerif.Gen.Orderings
import RarenaVerif.Proofs.ConcFast
import RarenaVerif.Proofs.ConcSolo
import RarenaVerif.Proofs.RefineAlloc
import RarenaVerif.Proofs.RefineMisc

namespace Rarena.C07

open Rarena.Conc

theorem solo_terminates_alloc (c : Cfg) (hsync : c.sync = true) (sh : Shared) (free : List Seg) (lives : List Ext)
    (n fuel : Nat) (hinv : CInv c sh.st free lives) (hn : n < TWO32) (hfuel : free.length + 2 ≤ fuel) :
    ∃ r sh', Solo sh (allocBytesC c sh.st.cap n fuel) r sh' := by
  obtain ⟨s', h1, _, _⟩ := allocBytes_refines c sh.st free lives n fuel hinv hn hfuel
  exact ⟨_, _, allocBytes_solo c hsync sh n fuel (by omega) _ s' h1⟩

theorem solo_terminates_dealloc (c : Cfg) (hsync : c.sync = true) (hro : c.ro = false) (sh : Shared)
    (free : List Seg) (lives : List Ext) (m : Meta) (fuel : Nat) (hinv : CInv c sh.st free lives)
    (hm : m.owned ∈ lives) (hne : m.memSize ≠ 0) (hfuel : free.length + 2 ≤ fuel) :
    ∃ b sh', Solo sh (deallocC c m.memOff m.memSize fuel) b sh' := by
  obtain ⟨s', h1, _, _⟩ := dealloc_refines c sh.st free lives m fuel hinv hro hm hne hfuel
  exact ⟨_, _, dealloc_solo c hsync sh m.memOff m.memSize fuel _ s' h1⟩

theorem solo_terminates_discard (c : Cfg) (hsync : c.sync = true) (sh : Shared) (free : List Seg) (lives : List Ext)
    (fuel : Nat) (hinv : CInv c sh.st free lives) (hfuel : free.length + 2 ≤ fuel) :
    ∃ r sh', Solo sh (discardFreelistC c fuel) r sh' := by
  obtain ⟨s', h1, _, _⟩ := discardFreelist_refines c sh.st free lives fuel hinv hfuel
  exact ⟨_, _, discardFreelist_solo c hsync sh fuel _ s' h1⟩

theorem cursor_lock_free (sh : Shared) (e n : Nat) (s : Site) (k : Nat × Bool → Prog Unit)
    (sh' : Shared) (p' : Prog Unit) (ev : Event)
    (h : stepAccess sh (.cas .alloc e n true s k) false = .ok (sh', p', ev)) (hf : ev.ok = false) :
    sh.st.allocated ≠ e ∧ sh' = sh :=
  cursor_cas_fails_only_on_change sh e n s k sh' p' ev h hf


/-! ### the shape of the code the progress arguments rely on, re-checked against the call-site table regenerated from
    `sync.rs` on every run -/

/-- a weak compare-and-swap (which may fail spuriously) occurs only in the three bump-cursor loops, which retry it; every
    CAS of the free-list protocol — in particular the ones that give a removal mark back — is a strong one, so it cannot
    fail without another thread having changed the word -/
theorem weak_cas_only_in_cursor_loops :
    ∀ s ∈ Gen.sites, s.kind = "compare_exchange_weak" →
      s.loc = "allocated" ∧ (s.fn = "alloc_bytes_in" ∨ s.fn = "alloc_aligned_bytes_in" ∨ s.fn = "alloc_in") := by
  decide

end Rarena.C07
