/-
  C04 — Any request size is answered safely: success within capacity or a clean error.

  Full statement: for every requested size up to u32::MAX, every type layout and every arena state, an
  allocation call either returns a handle satisfying C01/C03 or returns an error (InsufficientSpace, or
  ReadOnly on a read-only arena) and then leaves allocated(), discarded(), remaining() and the free list
  exactly as they were; it never panics, never lets size arithmetic wrap around, and never reads or writes
  outside the arena.

  In the model every unchecked `u32`/`usize` operation of the Rust code and every memory access outside
  `[0, cap)` is a `trap`, every loop has fuel (`diverge`). "The call returns `.ok …`" therefore covers both
  overflow-checked and unchecked builds. Proved under the guard `cap + 8192 ≤ 2^32` (named in DESIGN.md: the
  unchecked addition inside `align_offset`); the last 8 KiB of capacities are outside the theorem.
-/
import RarenaVerif.Props.Common

namespace Rarena.C04

theorem err_insufficient {c : Cfg} {e : Err} (hro : c.ro = false) (h : e = .readOnly ↔ c.ro = true) :
    e = .insufficient := by
  cases e
  · rfl
  · rw [hro] at h; simp at h

theorem allocT_err_kind (c : Cfg) (a a' : A) (ts ta : Nat) (e : Err) (hro : c.ro = false)
    (h : a.allocT c ts ta = (.error e, a')) : e = .insufficient := by
  unfold A.allocT at h
  split at h
  · rename_i hr; rw [hro] at hr; simp at hr
  · split at h
    · simp at h
    · simp only [] at h
      split at h
      · simp at h
      · exact err_insufficient hro (slowEntry_err h).2

theorem allocAligned_err_kind (c : Cfg) (a a' : A) (ts ta ex : Nat) (e : Err) (hro : c.ro = false)
    (h : a.allocAligned c ts ta ex = (.error e, a')) : e = .insufficient := by
  unfold A.allocAligned at h
  split at h
  · rename_i hr; rw [hro] at hr; simp at hr
  · split at h
    · exact err_insufficient hro (allocBytes_err_kind c a a' ex e h)
    · simp only [] at h
      split at h
      · simp at h
      · split at h
        · exact err_insufficient hro (slowEntry_err h).2
        · simp only [Prod.mk.injEq, Except.error.injEq] at h; exact h.1.symm

/-- a refined allocation call answers with a handle, with the zero-size answer, or with `InsufficientSpace`; in
    the last two cases the state is the one before the call -/
theorem total_of_refines {c : Cfg} {s : St} {free : List Seg} {lives : List Ext} {r : AOut × A}
    {res : M (AllocOut × St)} {zero : Bool} (href : AllocRefines c s free lives r res zero)
    (hk : ∀ e a', r = (.error e, a') → e = .insufficient) :
    (∃ m st', res = .ok (.ok (some m), st')) ∨ res = .ok (.ok none, s) ∨ res = .ok (.error .insufficient, s) := by
  obtain ⟨s', e1, _, hm⟩ := href
  rcases r with ⟨(e | (_ | m)), a'⟩
  · simp only at hm e1
    subst hm
    rw [hk e a' rfl] at e1
    exact Or.inr (Or.inr e1)
  · simp only at hm e1
    subst hm
    exact Or.inr (Or.inl e1)
  · exact Or.inl ⟨m, s', e1⟩

theorem takeFirst_none_of {p : Seg → Bool} : ∀ {l : List Seg}, (∀ g ∈ l, p g = false) → takeFirst p l = none
  | [], _ => rfl
  | g :: rest, h => by
    have h1 := h g (List.mem_cons_self ..)
    have h2 := takeFirst_none_of (p := p) (l := rest) (fun x hx => h x (List.mem_cons_of_mem _ hx))
    simp only [takeFirst, h1, h2, Bool.false_eq_true, if_false]

/-- the slow path refuses a request that no segment can hold -/
theorem slow_refuses (c : Cfg) (a : A) (size : Nat) (hro : c.ro = false) (h : ∀ g ∈ a.free, g.size < size) :
    a.slow c size = (.error .insufficient, a) := by
  unfold A.slow
  rw [hro]
  simp only [Bool.false_eq_true, if_false]
  cases c.kind with
  | none => rfl
  | opt =>
    simp only
    cases hf : a.free with
    | nil => rfl
    | cons g rest =>
      simp only
      rw [if_pos (h g (by rw [hf]; exact List.mem_cons_self ..))]
  | pess =>
    simp only
    rw [takeFirst_none_of (fun g hg => by have := h g hg; simp; omega)]

/-- every size `n ≤ u32::MAX` -/
theorem alloc_bytes_total (o : Opts) (g : Guards o) (fuel : Nat) (hfuel : o.cap + 2 ≤ fuel) (x : CSess)
    (hr : Reachable o fuel x) (n : Nat) (hn : n < TWO32) :
    (∃ m st', allocBytes o.cfg x.st n fuel = .ok (.ok (some m), st')) ∨
    allocBytes o.cfg x.st n fuel = .ok (.ok none, x.st) ∨
    allocBytes o.cfg x.st n fuel = .ok (.error .insufficient, x.st) := by
  obtain ⟨free, lives, ci, hf, _⟩ := reachable_cinv o g fuel hfuel x hr
  exact total_of_refines (allocBytes_refines o.cfg x.st free lives n fuel ci hn hf)
    (fun e a' he => err_insufficient o.cfg_ro (allocBytes_err_kind _ _ a' n e he))

theorem alloc_typed_total (o : Opts) (g : Guards o) (fuel : Nat) (hfuel : o.cap + 2 ≤ fuel) (x : CSess)
    (hr : Reachable o fuel x) (ts ta : Nat) (ht : TyOK ts ta) :
    (∃ m st', allocT o.cfg x.st ts ta fuel = .ok (.ok (some m), st')) ∨
    allocT o.cfg x.st ts ta fuel = .ok (.ok none, x.st) ∨
    allocT o.cfg x.st ts ta fuel = .ok (.error .insufficient, x.st) := by
  obtain ⟨free, lives, ci, hf, _⟩ := reachable_cinv o g fuel hfuel x hr
  exact total_of_refines (allocT_refines o.cfg x.st free lives ts ta fuel ci ht hf)
    (fun e a' he => allocT_err_kind _ _ a' ts ta e o.cfg_ro he)

/-- every extra `n ≤ u32::MAX` -/
theorem alloc_aligned_total (o : Opts) (g : Guards o) (fuel : Nat) (hfuel : o.cap + 2 ≤ fuel) (x : CSess)
    (hr : Reachable o fuel x) (ts ta ex : Nat) (ht : TyOK ts ta) (he : ex < TWO32) :
    (∃ m st', allocAligned o.cfg x.st ts ta ex fuel = .ok (.ok (some m), st')) ∨
    allocAligned o.cfg x.st ts ta ex fuel = .ok (.ok none, x.st) ∨
    allocAligned o.cfg x.st ts ta ex fuel = .ok (.error .insufficient, x.st) := by
  obtain ⟨free, lives, ci, hf, _⟩ := reachable_cinv o g fuel hfuel x hr
  exact total_of_refines (allocAligned_refines o.cfg x.st free lives ts ta ex fuel ci ht he hf)
    (fun e a' he => allocAligned_err_kind _ _ a' ts ta ex e o.cfg_ro he)

/-- a read-only arena answers `ReadOnly` and nothing changes -/
theorem read_only (c : Cfg) (s : St) (n ts ta ex fuel : Nat) (hro : c.ro = true) :
    allocBytes c s n fuel = .ok (.error .readOnly, s) ∧ allocT c s ts ta fuel = .ok (.error .readOnly, s) ∧
    allocAligned c s ts ta ex fuel = .ok (.error .readOnly, s) := by
  refine ⟨?_, ?_, ?_⟩
  · unfold allocBytes; rw [if_pos hro]; rfl
  · unfold allocT; rw [if_pos hro]; rfl
  · unfold allocAligned; rw [if_pos hro]; rfl

-- CHANGED (histories now contain `truncate`, which changes the capacity): `hbig` speaks of the current capacity
-- `x.st.cap` instead of `o.cap` (for the sync flavour they are equal, `reachable_rel`).
/-- a request that cannot fit the capacity at all is refused: nothing of size ≥ capacity is ever handed out -/
theorem too_large_refused (o : Opts) (g : Guards o) (fuel : Nat) (hfuel : o.cap + 2 ≤ fuel) (x : CSess)
    (hr : Reachable o fuel x) (n : Nat) (hn : n < TWO32) (hbig : x.st.cap ≤ n) :
    allocBytes o.cfg x.st n fuel = .ok (.error .insufficient, x.st) := by
  obtain ⟨free, lives, ci, hf, _⟩ := reachable_cinv o g fuel hfuel x hr
  have hw := ci.wf
  have h1 := hw.lo
  have h2 := hw.mid
  have h3 : x.st.allocated ≤ x.st.cap := hw.hi
  have hcap : (x.st.abs free).cap = x.st.cap := rfl
  have hal : (x.st.abs free).allocated = x.st.allocated := rfl
  rw [hal] at h2
  have hs : (x.st.abs free).slow o.cfg n = (.error .insufficient, x.st.abs free) := by
    apply slow_refuses _ _ _ o.cfg_ro
    intro g hg
    have := hw.segs g hg
    unfold SegOK at this
    simp only [Seg.hi, NODE, hal] at this
    omega
  have habs : (x.st.abs free).allocBytes o.cfg n = (.error .insufficient, x.st.abs free) := by
    unfold A.allocBytes A.slowEntry
    rw [if_neg (by rw [o.cfg_ro]; simp), if_neg (by omega), if_neg (by rw [hcap, hal]; omega), hs]
  have href := allocBytes_refines o.cfg x.st free lives n fuel ci hn hf
  rw [habs] at href
  obtain ⟨s', e1, _, hm⟩ := href
  simp only at hm e1
  rw [e1, hm]

/-! non-vacuity of the `retries` guard: `maximum_retries = 0` is inside the quantifier of `Guards` (the retry loop
    then makes exactly one attempt, `max_retries.saturating_sub(1)`), such an arena can be constructed, and the
    theorems above apply to it — the refused request below goes through the retry loop with `last = 0 - 1 = 0` -/

def exO0 : Opts :=
  { sync := true, kind := .opt, unify := true, file := false, reserved := 0, cap := 64, minSeg := 20, retries := 0,
    magic := 7 }

theorem exO0_guards : Guards exO0 := ⟨by decide, by decide, by decide⟩

example : exO0.cfg.retries = 0 ∧ exO0.cfg.sync = true ∧ exO0.cfg.kind = .opt := ⟨rfl, rfl, rfl⟩

theorem exO0_init : ∃ s, exO0.init = some s := by
  cases h : exO0.init with
  | some s => exact ⟨s, rfl⟩
  | none =>
    have : exO0.init.isSome = true := by decide +kernel
    rw [h] at this; cases this

/-- the start state of the arena with `maximum_retries = 0` is reachable, … -/
theorem exO0_reachable (s : St) (hs : exO0.init = some s) : Reachable exO0 66 (CSess.start s) :=
  ⟨s, [], hs, fun _ h => (by cases h), fun _ h => (by cases h), rfl⟩

/-- … `alloc_bytes_total` applies to it for every request size, … -/
example (s : St) (hs : exO0.init = some s) (n : Nat) (hn : n < TWO32) :
    (∃ m st', allocBytes exO0.cfg s n 66 = .ok (.ok (some m), st')) ∨
    allocBytes exO0.cfg s n 66 = .ok (.ok none, s) ∨
    allocBytes exO0.cfg s n 66 = .ok (.error .insufficient, s) :=
  alloc_bytes_total exO0 exO0_guards 66 (by decide) (CSess.start s) (exO0_reachable s hs) n hn

/-- … and a request larger than the capacity is refused after one pass through the slow path -/
example (s : St) (hs : exO0.init = some s) : allocBytes exO0.cfg s 100 66 = .ok (.error .insufficient, s) :=
  too_large_refused exO0 exO0_guards 66 (by decide) (CSess.start s) (exO0_reachable s hs) 100 (by decide)
    (by have := (start_rel exO0 exO0_guards s hs).2
        show s.cap ≤ 100
        rw [this]; decide)

/-- the same by evaluation: a first allocation of 16 bytes succeeds at the data offset 32, the request of 100
    bytes is answered `InsufficientSpace` (no trap, no `diverge`) -/
example : (match exO0.init.map fun s => allocBytes exO0.cfg s 16 66 with
    | some (.ok (.ok (some m), _)) => decide (m = Meta.new 32 16)
    | _ => false) = true := by decide +kernel
example : (match exO0.init.map fun s => allocBytes exO0.cfg s 100 66 with
    | some (.ok (.error .insufficient, _)) => true
    | _ => false) = true := by decide +kernel

end Rarena.C04
