/-
  C02 — Live allocations stay exclusive and intact under every thread interleaving.

  Full statement (`Full`): when several threads allocate from and release into one shared arena, then in
  every interleaving no two handles that are live at the same time overlap, every handle stays inside the
  data area, and the bytes of a live handle are never modified by the arena or by an operation of another
  thread — including allocations served from the free list while other threads insert into, remove from or
  traverse it.

  What is proved (this property is claimed as PARTIAL, see DESIGN.md):
  * `fastpath_partial` — for ANY number of threads, ANY schedule (including spurious weak-CAS failures) and
    any request sizes: threads that bump-allocate from an arena whose free list is empty obtain pairwise
    disjoint ranges inside the arena (the cursor protocol is exclusive).
  * `solo_is_sequential` — a thread that runs alone executes exactly the sequential model of the sync flavour,
    for which C01 holds in full (both free-list kinds): schedules in which free-list operations do not overlap
    reduce to C01.
  * the general free-list protocol (overlapping insertions / removals / traversals) is NOT proved here; it is
    covered by the event-by-event correspondence of the step machine with the real code under controlled
    schedules and by the overlap / intact-bytes oracles run on every implementation trace.
    The design-phase paper analysis of a deep ABA window (DESIGN.md F18: needs ≥ 4 actors and a reused node
    word) is the reason the full statement is not claimed.
-/
import RarenaVerif.Proofs.ConcFast
import RarenaVerif.Proofs.ConcSolo
import RarenaVerif.Props.Common

namespace Rarena.C02

open Rarena.Conc

/-- the cursor protocol is exclusive under every interleaving -/
theorem fastpath_partial (c : Cfg) (hro : c.ro = false) (sh : Shared) (fuel : Nat) (hfuel : 0 < fuel)
    (hcap : sh.st.cap < TWO32) (hlo : 1 ≤ sh.st.allocated) (hhi : sh.st.allocated ≤ sh.st.cap)
    (hempty : sh.st.sentinel = SENTINEL_WORD)
    (progs : List (List Nat)) (sched : List (Nat × Bool)) :
    let g0 : Global (List Meta) := { sh := sh, threads := progs.map (allocAllC c sh.st.cap fuel) }
    let g := (g0.run sched).1
    let handles := (g.results.filterMap id).flatten
    handles.Pairwise (fun a b => disj a.access b.access) ∧
    (∀ m ∈ handles, sh.st.allocated ≤ m.ptrOff ∧ m.ptrOff + m.ptrSize ≤ g.sh.st.allocated ∧ m.memOff = m.ptrOff ∧ m.memSize = m.ptrSize) ∧
    sh.st.allocated ≤ g.sh.st.allocated ∧ g.sh.st.allocated ≤ sh.st.cap ∧ g.sh.st.sentinel = SENTINEL_WORD :=
  fastpath_exclusive c hro sh fuel hfuel hcap hlo hhi hempty progs sched

/-- a thread running alone computes what the sequential sync model computes (alloc_bytes shown; the other
    entry points: `Proofs/ConcSolo.lean`) -/
theorem solo_is_sequential (c : Cfg) (hsync : c.sync = true) (sh : Shared) (n fuel : Nat) (hf : 0 < fuel)
    (r : AllocOut) (s' : St) (h : allocBytes c sh.st n fuel = .ok (r, s')) :
    Solo sh (allocBytesC c sh.st.cap n fuel) r (withSt sh s') :=
  allocBytes_solo c hsync sh n fuel hf r s' h

/-! non-vacuity: two threads racing for the cursor of a 256-byte arena, one spurious failure -/
def exSh : Shared := { st := { mem := Array.replicate 256 0, sentinel := SENTINEL_WORD, allocated := 40, minSeg := 8, discarded := 0 }, refs := 3 }
def exC : Cfg := { sync := true, kind := .opt, ro := false, retries := 5, dataOffset := 40, reserved := 0, unify := true }
def exG : Global (List Meta) := { sh := exSh, threads := [[20, 10], [30]].map (allocAllC exC 256 50) }
example : ((exG.run [(0, false), (1, false), (1, true), (0, false), (1, false), (1, false), (0, false), (0, false)]).1.results.map
    (fun r => r.map (fun ms => ms.map (fun m => (m.ptrOff, m.ptrSize))))) = [some [(40, 20), (90, 10)], some [(60, 30)]] := by
  decide +kernel


/-! ### the shape of the code the proofs above rely on, re-checked against the call-site table regenerated from
    `sync.rs` on every run (`Gen/Orderings.lean`) -/

/-- the bump cursor is only ever moved by a compare-and-swap on the value that was read — the unsafe `rewind`
    apart. (A plain store, a `fetch_add` or a load-then-store here loses a concurrent allocation.) -/
theorem cursor_moved_by_cas_only :
    ∀ s ∈ Gen.sites, s.loc = "allocated" →
      s.kind = "load" ∨ s.kind = "compare_exchange" ∨ s.kind = "compare_exchange_weak" ∨ s.fn = "rewind" := by
  decide

/-- the sentinel (head of the free list) is only changed by compare-and-swap -/
theorem sentinel_moved_by_cas_only :
    ∀ s ∈ Gen.sites, s.loc = "sentinel" → s.kind = "load" ∨ s.kind = "compare_exchange" := by
  decide

/-- a node word is written only by the initialising store of a node that is not yet linked (`update_next_node`) or
    by compare-and-swap -/
theorem node_words_written_by_cas_or_init :
    ∀ s ∈ Gen.sites, s.loc = "node" →
      s.kind = "load" ∨ s.kind = "compare_exchange" ∨ (s.kind = "store" ∧ s.fn = "update_next_node") := by
  decide

end Rarena.C02
