/-
  C01 — Live allocations are exclusive, in bounds and untouched (single thread).

  Full statement: in any single-threaded history of allocation calls (byte, aligned-byte and typed;
  borrowed or owned handles), drops, detaches and explicit deallocations, the accessible byte range
  [offset, offset+capacity) of every live handle lies inside the arena's data area below allocated(),
  is disjoint from the range of every other live handle and from the reserved prefix and header, and
  its bytes change only when written through that handle — for both flavours, every freelist kind,
  every backing store and both layouts; zero-sized requests yield handles that occupy nothing.

  Model: `cstep`/`crun` (Proofs/Sim.lean) drive `Core` (both flavours: `o.sync`; kinds `o.kind`; layouts
  `o.unify`/`o.file`). Owned and borrowed handles differ only in reference counting (C13), explicit
  `dealloc(buffer_offset, buffer_capacity)` is exactly what `Drop` performs (`HOp.release`).
  Backing stores differ only in flags (C16), so they are not a parameter of the allocator model.
-/
import RarenaVerif.Props.Common

namespace Rarena.C01

-- CHANGED (histories now contain `truncate`, which changes the capacity): the bound `x.st.allocated ≤ o.cap` became
-- `x.st.allocated ≤ x.st.cap` (the current `capacity()`), and the last conjunct (the capacity is the configured one
-- for the sync flavour, which has no `truncate`) was added so that nothing is lost where the old bound was true.
/-- in every reachable state the accessible ranges of the handles still held are pairwise disjoint, lie in
    `[data_offset, allocated) ⊆ [data_offset, capacity)` (hence miss the reserved prefix and the header), and
    are disjoint from every detached (never released) range -/
theorem exclusive (o : Opts) (g : Guards o) (fuel : Nat) (hfuel : o.cap + 2 ≤ fuel) (x : CSess)
    (hr : Reachable o fuel x) :
    ((x.held.filter (fun m => m.memSize != 0)).map Meta.access).Pairwise disj ∧
    (∀ m ∈ x.held, m.memSize ≠ 0 →
      o.dataOffset ≤ m.ptrOff ∧ m.ptrOff + m.ptrSize ≤ x.st.allocated ∧ x.st.allocated ≤ x.st.cap) ∧
    (∀ m ∈ x.held, m.memSize ≠ 0 → ∀ e ∈ x.detached, disj m.access e) ∧
    (o.sync = true → x.st.cap = o.cap) := by
  obtain ⟨h, free, hrel, _, hc⟩ := reachable_rel o g fuel hfuel x hr
  obtain ⟨h1, _, h3⟩ := held_exclusive o.cfg h hrel.hinv
  have hal : h.a.allocated = x.st.allocated := by rw [← hrel.abs]; rfl
  have hcap : x.st.allocated ≤ x.st.cap := hrel.cinv.wf.hi
  refine ⟨?_, ?_, ?_, hc⟩
  · rw [hrel.held]; exact h1
  · intro m hm hne
    have := hrel.hinv.held_ok m (hrel.held ▸ hm) hne
    rw [hal] at this
    exact ⟨this.2.1, this.2.2, hcap⟩
  · intro m hm hne e he
    exact h3 m (hrel.held ▸ hm) hne e (hrel.detached ▸ he)

/-- the bytes of a held handle change only when written through that handle: any call (allocation, release
    of another handle, detach, mutator, write through another handle) leaves them as they were -/
theorem intact (o : Opts) (g : Guards o) (fuel : Nat) (hfuel : o.cap + 2 ≤ fuel) (x : CSess)
    (hr : Reachable o fuel x) (op : COp) (hop : op.ok) :
    ∃ x', cstep o.cfg fuel x op = .ok x' ∧
      ∀ m ∈ x.held, m ∈ x'.held → (match op with | .fill i _ => x.held[i]? ≠ some m | _ => True) →
        ∀ j, m.ptrOff ≤ j → j < m.ptrOff + m.ptrSize → x'.st.mem.rd j = x.st.mem.rd j := by
  obtain ⟨h, free, hrel, hc, _⟩ := reachable_rel o g fuel hfuel x hr
  obtain ⟨x', _, e, _, _, _, hby⟩ := sim_step o.cfg x h free op fuel hrel o.cfg_ro hop hc
  exact ⟨x', e, hby⟩

-- CHANGED (histories now contain `truncate`): hypothesis `hfits` added (`truncate` only for the unsync flavour and
-- only up to the capacity the traversal fuel covers, see `COp.fits`).
/-- the reserved prefix and the header area are never written by a history -/
theorem prefix_untouched (o : Opts) (g : Guards o) (fuel : Nat) (hfuel : o.cap + 2 ≤ fuel) (s : St)
    (hs : o.init = some s) (ops : List COp) (hops : ∀ op ∈ ops, COp.ok op)
    (hfits : ∀ op ∈ ops, COp.fits o.cfg fuel op) :
    ∃ x, crun o.cfg fuel (CSess.start s) ops = .ok x ∧ PrefixIntact o.cfg s x.st := by
  obtain ⟨x, _, _, e, _, _, hpre⟩ := run_rel o g fuel hfuel s hs ops hops hfits
  exact ⟨x, e, hpre⟩

set_option linter.unusedVariables false in
/-- zero-sized requests yield handles that occupy nothing and change nothing -/
theorem zero_sized (o : Opts) (g : Guards o) (fuel : Nat) (hfuel : o.cap + 2 ≤ fuel) (x : CSess)
    (hr : Reachable o fuel x) :
    cstep o.cfg fuel x (.op (.allocBytes 0)) = .ok x ∧ ∀ ta, okAlignment ta → cstep o.cfg fuel x (.op (.allocT 0 ta)) = .ok x := by
  refine ⟨?_, fun ta _ => ?_⟩
  · simp only [cstep, allocBytes, o.cfg_ro, Bool.false_eq_true, if_false, if_true, bind, Except.bind, pure,
      Except.pure, pushAlloc]
  · simp only [cstep, allocT, o.cfg_ro, Bool.false_eq_true, if_false, if_true, bind, Except.bind, pure,
      Except.pure, pushAlloc]

end Rarena.C01
