/-
  C20 (static tie of the step machine to the source) — the call-site conformance of `Props/C02Sites.lean`, restated
  here because C20's concurrent theorems are about the same programs: every access of every operation program is, in
  the table regenerated from `sync.rs`, an access of the same kind on the same word at that call site; every row of a
  modelled function is used by the machine (an ADDED access breaks `table_covered`) and every used call site is a row
  (a REMOVED access breaks `used_in_table`).
-/
import RarenaVerif.Proofs.ConcSites

namespace Rarena.C20Sites
open Rarena Rarena.Conc Rarena.Conc.Sites

theorem ops_respect_sites (c : Cfg) (cap fuel : Nat) (op : Disc.DOp) : SitesOK (op.run c cap fuel) :=
  Sites.sok_op c cap fuel op

theorem events_respect_sites {α : Type} (sh : Shared) (threads : List (Prog α))
    (hall : ∀ p ∈ threads, SitesOK p) (sched : List (Nat × Bool)) :
    let r := Global.run ⟨sh, threads⟩ sched
    (∀ x ∈ r.2, siteOK x.2.site (akName x.2.kind) x.2.loc = true) ∧ (∀ p ∈ r.1.threads, SitesOK p) :=
  Sites.sites_respected sh threads hall sched

theorem table_covered :
    ∀ x ∈ Gen.sites, x.fn ∈ modelledFns → (x.fn, x.idx) ∈ usedSites ∨ (x.fn, x.idx) ∈ exceptions :=
  Sites.table_covered

theorem used_in_table : ∀ u ∈ usedSites, ∃ x ∈ Gen.sites, x.fn = u.1 ∧ x.idx = u.2 :=
  Sites.used_in_table

end Rarena.C20Sites
