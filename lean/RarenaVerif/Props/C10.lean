/-
  C10 — The free list follows the documented policy and stays well formed.

  Full statement: at every quiescent point the free list is finite and acyclic, its segments are 8-byte
  aligned, lie inside the handed-out part of the data area (below the cursor, unless the caller has rewound
  it), are mutually disjoint and disjoint from every live allocation, and are ordered by size — descending
  for Optimistic, ascending for Pessimistic. When fresh space cannot satisfy a request, Optimistic serves it
  from the largest segment (failing iff the largest is too small), Pessimistic from the smallest that fits
  (failing iff none fits), a remainder goes back to the list only if it can hold a node plus the minimum
  segment size, and with Freelist::None freed space is never reused except by the release of the topmost
  allocation.

  "Finite and acyclic" is `Chain`: the in-memory linked list decodes, node by node, to a finite abstract
  `List Seg` whose extents are pairwise disjoint. The comparators used by the model are checked against the
  ones extracted from the source (`Gen/Comparators.lean`, regenerated on every run) by `comparators_match`.
-/
import RarenaVerif.Props.Common
import RarenaVerif.Gen.Comparators

namespace Rarena.C10

/-- the model's comparators are the ones the source uses today (both flavours) -/
theorem comparators_match (v n : Nat) :
    cmpInsert .opt v n = Gen.sync_optInsert v n ∧ cmpInsert .opt v n = Gen.unsync_optInsert v n ∧
    cmpInsert .pess v n = Gen.sync_pessInsert v n ∧ cmpInsert .pess v n = Gen.unsync_pessInsert v n ∧
    decide (v ≤ n) = Gen.sync_pessFind v n ∧ decide (v ≤ n) = Gen.unsync_pessFind v n ∧
    decide (v > n) = Gen.sync_optTooSmall v n ∧ decide (v > n) = Gen.unsync_optTooSmall v n := by
  simp [cmpInsert, Gen.sync_optInsert, Gen.unsync_optInsert, Gen.sync_pessInsert, Gen.unsync_pessInsert,
    Gen.sync_pessFind, Gen.unsync_pessFind, Gen.sync_optTooSmall, Gen.unsync_optTooSmall]

/-- when the bump test fails, `allocBytes` answers what the abstract slow path answers -/
theorem full_slow (c : Cfg) (s : St) (free : List Seg) (lives : List Ext) (fuel n : Nat)
    (hinv : CInv c s free lives) (hfuel : free.length + 2 ≤ fuel) (hro : c.ro = false)
    (hn : 0 < n ∧ n < TWO32) (hfull : s.cap < s.allocated + n) :
    (∀ e a', (s.abs free).slow c n = (.error e, a') → allocBytes c s n fuel = .ok (.error e, s)) ∧
    (∀ m a', (s.abs free).slow c n = (.ok m, a') → ∃ s', allocBytes c s n fuel = .ok (.ok (some m), s')) := by
  have href := allocBytes_refines c s free lives n fuel hinv hn.2 hfuel
  have habs : (s.abs free).allocBytes c n = (s.abs free).slowEntry c n id := by
    unfold A.allocBytes
    rw [if_neg (by simp [hro]), if_neg (by omega), if_neg (by simp only [St.abs]; omega)]
  rw [habs] at href
  obtain ⟨s', e1, st, hm⟩ := href
  constructor
  · intro e a' hsl
    simp only [A.slowEntry, hsl] at e1 hm
    subst hm
    exact e1
  · intro m a' hsl
    simp only [A.slowEntry, hsl, id] at e1
    exact ⟨s', e1⟩


/-- well-formedness at every point of every history -/
theorem wellformed (o : Opts) (g : Guards o) (fuel : Nat) (hfuel : o.cap + 2 ≤ fuel) (x : CSess)
    (hr : Reachable o fuel x) :
    ∃ free : List Seg,
      Chain x.st.mem free ∧ x.st.sentinel = enc MAXU32 (hd free) ∧
      (∀ s ∈ free, s.off % 8 = 0 ∧ 1 ≤ s.size ∧ o.dataOffset ≤ s.off ∧ s.hi ≤ x.st.allocated) ∧
      (free.map Seg.ext).Pairwise disj ∧
      (∀ m ∈ x.held, m.memSize ≠ 0 → ∀ s ∈ free, disj m.access s.ext) ∧
      sortedBy o.kind free ∧ (o.kind = .none → free = []) := by
  obtain ⟨h, free, hrel, _⟩ := reachable_rel o g fuel hfuel x hr
  have hwf := hrel.cinv.wf
  have hd := hwf.disjoint
  rw [List.pairwise_append] at hd
  have hfree : h.a.free = free := by rw [← hrel.abs]; rfl
  refine ⟨free, hrel.cinv.chain, hrel.cinv.sent, hwf.segs, hd.1, ?_, hwf.sorted, hwf.none_empty⟩
  intro m hm hne s hs
  exact (held_exclusive o.cfg h hrel.hinv).2.1 m (hrel.held ▸ hm) hne s (hfree ▸ hs)

/-- Optimistic, fresh space exhausted: fails iff no segment fits; otherwise serves from the head = a largest segment -/
theorem optimistic_policy (c : Cfg) (s : St) (free : List Seg) (lives : List Ext) (fuel n : Nat)
    (hinv : CInv c s free lives) (hfuel : free.length + 2 ≤ fuel) (hk : c.kind = .opt) (hro : c.ro = false)
    (hn : 0 < n ∧ n < TWO32) (hfull : s.cap < s.allocated + n) :
    (allocBytes c s n fuel = .ok (.error .insufficient, s) ↔ ∀ g ∈ free, g.size < n) ∧
    (∀ m st', allocBytes c s n fuel = .ok (.ok (some m), st') →
      ∃ g rest, free = g :: rest ∧ m.memOff = g.off ∧ ∀ y ∈ free, y.size ≤ g.size) := by
  obtain ⟨herr, hok⟩ := full_slow c s free lives fuel n hinv hfuel hro hn hfull
  have hs : sortedBy .opt (s.abs free).free := hk ▸ hinv.wf.sorted
  have hiff : _ ↔ ∀ g ∈ free, g.size < n := slow_opt_fails_iff c (s.abs free) n hk hro hs
  rcases hsl : (s.abs free).slow c n with ⟨(e | m), a'⟩
  · have e1 := herr e a' hsl
    rw [hsl] at hiff
    refine ⟨?_, ?_⟩
    · rw [e1, ← hiff]
      constructor
      · intro h; simp only [Except.ok.injEq, Prod.mk.injEq, Except.error.injEq] at h; rw [h.1]
      · intro h; simp only at h; rw [Except.error.injEq] at h; rw [h]
    · intro m st' h; rw [e1] at h; simp at h
  · obtain ⟨s', e1⟩ := hok m a' hsl
    rw [hsl] at hiff
    refine ⟨?_, ?_⟩
    · rw [e1, ← hiff]; simp
    · intro m' st' h
      rw [e1] at h
      simp only [Except.ok.injEq, Prod.mk.injEq, Option.some.injEq] at h
      obtain ⟨rfl, _⟩ := h
      obtain ⟨g, rest, h1, h2, _, _, _, h3, _⟩ := slow_opt_serves_head c _ _ n m hk hs hsl
      exact ⟨g, rest, h1, h2, h3⟩

/-- Pessimistic, fresh space exhausted: fails iff no segment fits; otherwise serves from a smallest fitting segment -/
theorem pessimistic_policy (c : Cfg) (s : St) (free : List Seg) (lives : List Ext) (fuel n : Nat)
    (hinv : CInv c s free lives) (hfuel : free.length + 2 ≤ fuel) (hk : c.kind = .pess) (hro : c.ro = false)
    (hn : 0 < n ∧ n < TWO32) (hfull : s.cap < s.allocated + n) :
    (allocBytes c s n fuel = .ok (.error .insufficient, s) ↔ ∀ g ∈ free, g.size < n) ∧
    (∀ m st', allocBytes c s n fuel = .ok (.ok (some m), st') →
      ∃ g ∈ free, m.memOff = g.off ∧ n ≤ g.size ∧ ∀ y ∈ free, n ≤ y.size → g.size ≤ y.size) := by
  obtain ⟨herr, hok⟩ := full_slow c s free lives fuel n hinv hfuel hro hn hfull
  have hs : sortedBy .pess (s.abs free).free := hk ▸ hinv.wf.sorted
  have hiff : _ ↔ ∀ g ∈ free, g.size < n := slow_pess_fails_iff c (s.abs free) n hk hro
  rcases hsl : (s.abs free).slow c n with ⟨(e | m), a'⟩
  · have e1 := herr e a' hsl
    rw [hsl] at hiff
    refine ⟨?_, ?_⟩
    · rw [e1, ← hiff]
      constructor
      · intro h; simp only [Except.ok.injEq, Prod.mk.injEq, Except.error.injEq] at h; rw [h.1]
      · intro h; simp only at h; rw [Except.error.injEq] at h; rw [h]
    · intro m st' h; rw [e1] at h; simp at h
  · obtain ⟨s', e1⟩ := hok m a' hsl
    rw [hsl] at hiff
    refine ⟨?_, ?_⟩
    · rw [e1, ← hiff]; simp
    · intro m' st' h
      rw [e1] at h
      simp only [Except.ok.injEq, Prod.mk.injEq, Option.some.injEq] at h
      obtain ⟨rfl, _⟩ := h
      obtain ⟨g, pre, post, h1, h2, _, _, h3, h4, _⟩ := slow_pess_serves_min_fit c _ _ n m hk hs hsl
      have h1' : free = pre ++ g :: post := h1
      exact ⟨g, by rw [h1']; simp, h2, h3, h4⟩

/-- remainder rule (abstract allocator, which both flavours refine): the tail goes back iff it can hold the
    aligned node word plus at least one byte and the minimum segment size -/
theorem remainder_rule (c : Cfg) (a : A) (g : Seg) (size : Nat) (hsz : size ≤ g.size) (hk : c.kind ≠ .none) :
    let dataEnd := g.off + NODE + size
    let rem := g.size - size
    let padding := alignUp 8 dataEnd - dataEnd
    let r := a.finishSlow c g size
    (r.2.free = insertSeg c.kind ⟨alignUp 8 dataEnd, rem - padding - NODE⟩ a.free ∧ r.1.memSize = size ∧
        padding + NODE < rem ∧ a.minSeg ≤ rem - padding - NODE)
    ∨ (r.2 = a ∧ r.1.memSize = g.size ∧ ¬ (padding + NODE < rem ∧ a.minSeg ≤ rem - padding - NODE)) :=
  finishSlow_remainder_rule c a g size hsz hk

/-- Freelist::None: a request that does not fit the fresh space fails, a release that is not on top only
    counts discarded bytes -/
theorem none_never_reuses (c : Cfg) (s : St) (free : List Seg) (lives : List Ext) (fuel n : Nat)
    (hinv : CInv c s free lives) (hfuel : free.length + 2 ≤ fuel) (hk : c.kind = .none) (hro : c.ro = false)
    (hn : 0 < n ∧ n < TWO32) (hfull : s.cap < s.allocated + n) :
    allocBytes c s n fuel = .ok (.error .insufficient, s) :=
  (full_slow c s free lives fuel n hinv hfuel hro hn hfull).1 _ _ (none_slow_fails c _ n hk hro)

end Rarena.C10
