/-
  C03 (continued) — requested capacity and alignment under every interleaving, for every free-list kind.

  `Props/C03.lean` proves the property for sequential histories. This file adds the concurrent statement, proved in
  `Proofs/ConcShape.lean` on the atomic-step machine `Model/Conc.lean`. The shape of a returned handle is computed by
  the allocating thread from the values its OWN atomic accesses returned, and the code checks what it needs before it
  returns; so it holds WHATEVER those accesses return (`Always`: a predicate on programs that quantifies over every
  value a load, a compare-exchange or a fetch-add may answer) — hence for any number of threads, any schedule
  (spurious failures included), any initial shared state, bump path and free-list path alike, None / Optimistic /
  Pessimistic, with no invariant on the shared state:
    * `alloc_bytes(n)`: capacity exactly `n`; `alloc::<T>()`: capacity `size_of::<T>()` at an offset that is a multiple
      of `align_of::<T>()`; `alloc_aligned_bytes::<T>(n)`: aligned offset and capacity at least `size_of::<T>() + n`
      (`bytes_shape`, `typed_shape`, `aligned_shape`; the only hypothesis is a non-zero alignment);
    * `Ok(None)` is answered only to zero-size requests (`none_only_for_zero_size`);
    * the accessible range lies inside the handle's own extent: exactly for a handle from fresh space (which also lies
      below the capacity), and — for a handle cut from a recycled segment, whose `memory_offset` is the segment's node
      word and whose `memory_size` counts the data part that starts 8 bytes later — inside that data part (`Inside`);
    * lifted to runs: `under_any_schedule` (threads issuing requests), `under_any_schedule_acts` (requests, releases of
      earlier results, `discard_freelist`, `increase_discarded`), `under_any_schedule_clients` (adaptive clients).
  What is NOT environment-independent (and is not claimed here): that a RECYCLED handle lies below the capacity — that
  needs the free list to be sane (sequentially: `C10.wellformed`; under overlapping free-list operations: findings F18 /
  F20). `Proofs/ConcShape.lean` contains the answer sequence that refutes it, as a theorem.
-/
import RarenaVerif.Proofs.ConcShape

namespace Rarena.C03Conc
open Rarena Rarena.Conc Rarena.Conc.Shape

theorem bytes_shape (c : Cfg) (cap n fuel : Nat) :
    Always (fun r => ∀ m, r = .ok (some m) → m.ptrSize = n ∧ m.memOff ≤ m.ptrOff ∧
      m.ptrOff + m.ptrSize ≤ m.memOff + m.memSize + NODE) (allocBytesC c cap n fuel) :=
  Shape.shape_allocBytes c cap n fuel

theorem typed_shape (c : Cfg) (cap ts ta fuel : Nat) (hta : 0 < ta) :
    Always (fun r => ∀ m, r = .ok (some m) → m.ptrSize = ts ∧ m.ptrOff % ta = 0 ∧ m.memOff ≤ m.ptrOff ∧
      m.ptrOff + m.ptrSize ≤ m.memOff + m.memSize + NODE) (allocTC c cap ts ta fuel) :=
  Shape.shape_allocT c cap ts ta fuel hta

theorem aligned_shape (c : Cfg) (cap ts ta ex fuel : Nat) (hta : 0 < ta) :
    Always (fun r => ∀ m, r = .ok (some m) → m.ptrOff % ta = 0 ∧ ts + ex ≤ m.ptrSize ∧ m.memOff ≤ m.ptrOff ∧
      m.ptrOff + m.ptrSize ≤ m.memOff + m.memSize + NODE) (allocAlignedC c cap ts ta ex fuel) :=
  Shape.shape_allocAligned c cap ts ta ex fuel hta

theorem bytes_shape_none (c : Cfg) (hk : c.kind = .none) (cap n fuel : Nat) :
    Always (fun r => ∀ m, r = .ok (some m) → m.ptrSize = n ∧ m.memOff ≤ m.ptrOff ∧
      m.ptrOff + m.ptrSize ≤ m.memOff + m.memSize ∧ m.memOff + m.memSize ≤ cap) (allocBytesC c cap n fuel) :=
  Shape.shape_allocBytes_none c hk cap n fuel

theorem none_only_for_zero_size (c : Cfg) (cap fuel : Nat) :
    (∀ n, Always (fun r => r = .ok none → n = 0) (allocBytesC c cap n fuel)) ∧
    (∀ ts ta, 0 < ta → Always (fun r => r = .ok none → ts = 0) (allocTC c cap ts ta fuel)) ∧
    (∀ ts ta ex, 0 < ta → Always (fun r => r = .ok none → ts = 0 ∧ ex = 0) (allocAlignedC c cap ts ta ex fuel)) :=
  Shape.none_only_zero c cap fuel

/-- what `Always` means on the machine: a thread whose program is `Always post`, among ARBITRARY other threads -/
theorem always_means {α : Type} (post : α → Prop) (g : Global α) (i : Nat) (p : Prog α)
    (hp : g.threads[i]? = some p) (h : Always post p) (sched : List (Nat × Bool)) (a : α)
    (hi : (g.run sched).1.threads[i]? = some (.ret a)) : post a :=
  Shape.always_run_thread post g i p hp h sched a hi

theorem under_any_schedule (c : Cfg) (sh : Shared) (fuel : Nat) (progs : List (List Req))
    (hok : ∀ qs ∈ progs, ∀ q ∈ qs, q.ok) (sched : List (Nat × Bool)) :
    let g := (Global.run ⟨sh, progs.map (reqProg c sh.st.cap fuel)⟩ sched).1
    ∀ res ∈ g.results.filterMap id, ∀ q r, (q, r) ∈ res → ∀ m, r = .ok (some m) → q.meets c sh.st.cap m :=
  Shape.shape_under_any_schedule c sh fuel progs hok sched

theorem under_any_schedule_acts (c : Cfg) (sh : Shared) (fuel : Nat) (progs : List (List Act))
    (hok : ∀ acts ∈ progs, ∀ a ∈ acts, a.ok) (sched : List (Nat × Bool)) :
    let g := (Global.run ⟨sh, progs.map (fun acts => actProg c sh.st.cap fuel acts [])⟩ sched).1
    ∀ res ∈ g.results.filterMap id, ∀ q r, (q, r) ∈ res →
      (∀ m, r = .ok (some m) → q.meets c sh.st.cap m) ∧ (r = .ok none → q.zero) ∧ (∀ x, r = .ok x → c.ro = false) :=
  Shape.shape_under_any_schedule_acts c sh fuel progs hok sched

theorem under_any_schedule_clients (c : Cfg) (sh : Shared) (fuel : Nat)
    (clients : List ((List Res → Option Act) × Nat)) (hok : ∀ cl ∈ clients, ∀ acc a, cl.1 acc = some a → a.ok)
    (sched : List (Nat × Bool)) :
    let g := (Global.run ⟨sh, clients.map (fun cl => clientProg c sh.st.cap fuel cl.1 cl.2 [])⟩ sched).1
    ∀ res ∈ g.results.filterMap id, ∀ q r, (q, r) ∈ res →
      (∀ m, r = .ok (some m) → q.meets c sh.st.cap m) ∧ (r = .ok none → q.zero) ∧ (∀ x, r = .ok x → c.ro = false) :=
  Shape.shape_under_any_schedule_clients c sh fuel clients hok sched

end Rarena.C03Conc
