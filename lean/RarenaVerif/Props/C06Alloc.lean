/-
  C06 (continued) — crash in the MIDDLE of an allocation served from fresh space.

  `Props/C06.lean` proves recovery from every operation-boundary image, `Props/C06Mid.lean` from every point inside a
  release. This file adds (proved in `Proofs/CrashAlloc.lean` on the atomic-step machine `Model/Conc.lean`) the
  mid-operation theorem for the three allocation entry points when the request fits the fresh space (the bump path:
  a load of the cursor, a weak CAS, then — in the same grant of the machine — the handle computation and the zero-fill),
  for EVERY free-list kind, a thread running alone from any state with the concrete invariant:
    * after any number of its atomic accesses the state satisfies `MidAlloc`: the invariant holds for the OLD live set
      (a crash after the CAS can only LEAK the reserved block, which was not yet returned to the caller), the cursor is
      the old one or `want`, the free list / sentinel / discarded counter / minimum segment size are unchanged, the bytes
      of every live extent and of the prefix are unchanged (`any_crash_point`);
    * the same for an image taken in the MIDDLE of the zero-fill, which the machine merges with the CAS: any memory
      that differs from the old one only inside the new handle (`torn_zero_fill`);
    * the run ends in the state and with the answer of the sequential allocation (`completes`);
    * every such image reopens writable with the invariant, the cursor in range, every live extent below the cursor
      with its bytes (`reopens`), and later allocations on the reopened arena terminate (`reopened_later_ops_terminate`);
    * a request that does not fit on a `Freelist::None` arena never changes the state (`nofit_none`).
  Not claimed: a request that does not fit on an Optimistic / Pessimistic arena (the free-list slow path: a crash between
  the mark CAS and the unlink CAS leaves a file whose next traversal never ends — known finding F15); overlapping threads
  (for `Freelist::None`: `Props/C06None.lean`).
-/
import RarenaVerif.Proofs.CrashAlloc

namespace Rarena.C06Alloc
open Rarena Rarena.Conc

theorem any_crash_point (c : Cfg) (sh : Shared) (free : List Seg) (lives : List Ext) (r : AllocReq) (fuel : Nat)
    (h : CInv c sh.st free lives) (hro : c.ro = false) (hok : r.OK) (hfit : r.Fits sh.st) (hfuel : 0 < fuel)
    (k : Nat) :
    MidAlloc c sh.st free lives (r.handle sh.st.allocated) (r.want sh.st.allocated)
      (Global.run ⟨sh, [r.prog c sh.st.cap fuel]⟩ (List.replicate k (0, false))).1.sh.st :=
  crash_alloc_global c sh free lives r fuel h hro hok hfit hfuel k

theorem bytes_any_crash_point (c : Cfg) (sh : Shared) (free : List Seg) (lives : List Ext) (n fuel : Nat)
    (h : CInv c sh.st free lives) (hro : c.ro = false) (hn : n ≠ 0) (hfit : sh.st.allocated + n ≤ sh.st.cap)
    (hfuel : 0 < fuel) (k : Nat) :
    MidAlloc c sh.st free lives (Meta.new sh.st.allocated n) (sh.st.allocated + n)
      (Global.run ⟨sh, [allocBytesC c sh.st.cap n fuel]⟩ (List.replicate k (0, false))).1.sh.st :=
  crash_alloc_bytes_global c sh free lives n fuel h hro hn hfit hfuel k

theorem torn_zero_fill (c : Cfg) (s0 : St) (free : List Seg) (lives : List Ext) (r : AllocReq)
    (h : CInv c s0 free lives) (hok : r.OK) (hfit : r.Fits s0) (mem' : Mem) (hsz : mem'.size = s0.mem.size)
    (hfr : ∀ i, i < (r.handle s0.allocated).ptrOff ∨
        (r.handle s0.allocated).ptrOff + (r.handle s0.allocated).ptrSize ≤ i → mem'.rd i = s0.mem.rd i) :
    MidAlloc c s0 free lives (r.handle s0.allocated) (r.want s0.allocated)
      { s0 with allocated := r.want s0.allocated, mem := mem' } :=
  crash_alloc_torn c s0 free lives r h hok hfit mem' hsz hfr

theorem completes (c : Cfg) (sh : Shared) (free : List Seg) (lives : List Ext) (r : AllocReq)
    (fuel : Nat)
    (h : CInv c sh.st free lives) (hro : c.ro = false) (hok : r.OK) (hfit : r.Fits sh.st) (hfuel : 0 < fuel) :
    ∃ s' m, r.seq c sh.st fuel = .ok (.ok (some m), s') ∧ m = r.handle sh.st.allocated ∧
      s'.allocated = r.want sh.st.allocated ∧
      CInv c s' free (m.owned :: lives) ∧
      ∀ k, 2 ≤ k → soloSteps k sh (r.prog c sh.st.cap fuel) = (withSt sh s', .ret (.ok (some m))) :=
  crash_alloc_completes c sh free lives r fuel h hro hok hfit hfuel

theorem reopens (c : Cfg) (sh : Shared) (free : List Seg) (lives : List Ext) (r : AllocReq) (fuel : Nat)
    (h : CInv c sh.st free lives) (hro : c.ro = false) (hok : r.OK) (hfit : r.Fits sh.st) (hfuel : 0 < fuel)
    (k : Nat) (magic : Nat) (o : OpenOpts) (tail : Mem)
    (hwf : C05.WellFormedFile c sh.st magic) (ho : C05.Matches o c magic)
    (hcap : match o.cap with
      | some n => r.want sh.st.allocated ≤ n ∧ n + 8192 ≤ TWO32
      | none => (sh.st.cap + tail.size) + 8192 ≤ TWO32)
    (hr : o.sync = true → o.retries ≤ 255) :
    ∃ lives' ro fs',
      (lives' = lives ∨ lives' = (r.handle sh.st.allocated).owned :: lives) ∧
      openWritable o false
        (some (C06.crashImage c (soloSteps k sh (r.prog c sh.st.cap fuel)).1.st tail)) = (.ok ro, fs') ∧
      (ro.st.allocated = sh.st.allocated ∨ ro.st.allocated = r.want sh.st.allocated) ∧
      ro.cfg.dataOffset ≤ ro.st.allocated ∧ ro.st.allocated ≤ ro.st.cap ∧
      CInv ro.cfg ro.st free lives' ∧ CInv ro.cfg ro.st free lives ∧
      (∀ e ∈ lives, e.2 ≤ ro.st.allocated ∧ ∀ i, e.1 ≤ i → i < e.2 → ro.st.mem.rd i = sh.st.mem.rd i) :=
  crash_alloc_reopens c sh free lives r fuel h hro hok hfit hfuel k magic o tail hwf ho hcap hr

theorem reopened_later_ops_terminate (c : Cfg) (sh : Shared) (free : List Seg) (lives : List Ext) (r : AllocReq)
    (fuel : Nat)
    (h : CInv c sh.st free lives) (hro : c.ro = false) (hok : r.OK) (hfit : r.Fits sh.st) (hfuel : 0 < fuel)
    (k : Nat) (magic : Nat) (o : OpenOpts) (tail : Mem)
    (hwf : C05.WellFormedFile c sh.st magic) (ho : C05.Matches o c magic)
    (hcap : match o.cap with
      | some n => r.want sh.st.allocated ≤ n ∧ n + 8192 ≤ TWO32
      | none => (sh.st.cap + tail.size) + 8192 ≤ TWO32)
    (hr : o.sync = true → o.retries ≤ 255)
    (n fuel' : Nat) (hn : n < TWO32) (hfuel' : free.length + 2 ≤ fuel') :
    ∃ lives' ro fs' res s', (lives' = lives ∨ lives' = (r.handle sh.st.allocated).owned :: lives) ∧
      openWritable o false
        (some (C06.crashImage c (soloSteps k sh (r.prog c sh.st.cap fuel)).1.st tail)) = (.ok ro, fs') ∧
      CInv ro.cfg ro.st free lives' ∧
      allocBytes ro.cfg ro.st n fuel' = .ok (res, s') ∧
      match res with
      | .ok (some m') => CInv ro.cfg s' ((ro.st.abs free).allocBytes ro.cfg n).2.free (m'.owned :: lives')
      | _ => s' = ro.st :=
  crash_alloc_reopened_later_ops c sh free lives r fuel h hro hok hfit hfuel k magic o tail hwf ho hcap hr n fuel' hn hfuel'

theorem nofit_none (c : Cfg) (sh : Shared) (free : List Seg) (lives : List Ext) (r : AllocReq)
    (fuel : Nat)
    (h : CInv c sh.st free lives) (hro : c.ro = false) (hok : r.OK) (hnf : ¬ r.Fits sh.st) (hk : c.kind = .none)
    (hfuel : 0 < fuel) (k : Nat) :
    (Global.run ⟨sh, [r.prog c sh.st.cap fuel]⟩ (List.replicate k (0, false))).1.sh.st = sh.st :=
  crash_alloc_nofit_none_global c sh free lives r fuel h hro hok hnf hk hfuel k

end Rarena.C06Alloc
