/-
  C09 — Opening validates the file and a refused or read-only open never alters it.

  Full statement: opening a file whose stored magic text, external magic version, format version or
  freelist kind differs from what the caller expects, or which is too small to contain the header, fails
  with an error instead of yielding an arena, and the bytes that were in the file are left exactly as they
  were. An arena opened read-only rejects every mutating call of the safe API (ReadOnly error or documented
  panic, never a crash) and never changes the file.

  Model: `Model/File.lean` (`openFile`, after `Options::open`, `Memory::map_mut_in`, `Memory::map_in`, in the
  code's order of effects — in particular validation happens BEFORE the zeroing above the stored cursor, as
  it does since the fix of F7). "Never a crash": a store through a read-only mapping would be a SIGSEGV; in
  the model every mutator of `Core` consults `c.ro` first (`ro_inert_*`), which is what the code does since
  the fix of F14.
-/
import RarenaVerif.Model.File
import RarenaVerif.Proofs.Mem

namespace Rarena.C09

/-! byte-array helper lemmas -/

theorem rd_extract (a : Mem) (n i : Nat) : Mem.rd (a.extract 0 n) i = if i < n then a.rd i else 0 := by
  unfold Mem.rd
  rw [Array.getElem?_extract]
  by_cases h : i < n
  · by_cases h2 : i < a.size
    · rw [if_pos (by omega), if_pos h]; simp
    · rw [if_neg (by omega), if_pos h]
      have : a[i]? = none := by simp; omega
      simp [this]
  · rw [if_neg (by omega), if_neg h]; rfl

theorem rd_append (a b : Mem) (i : Nat) : (a ++ b).rd i = if i < a.size then a.rd i else b.rd (i - a.size) := by
  unfold Mem.rd
  rw [Array.getElem?_append]
  split <;> rfl

theorem rd_replicate (n i : Nat) : Mem.rd (Array.replicate n (0 : UInt8)) i = 0 := by
  unfold Mem.rd
  rw [Array.getElem?_replicate]
  split <;> rfl

theorem rd_extendTo (f : Mem) (n i : Nat) : (extendTo f n).rd i = f.rd i := by
  unfold extendTo
  split
  · rw [rd_append]
    split
    · rfl
    · rw [rd_replicate, Mem.rd_oob]; omega
  · rfl

theorem size_extendTo (f : Mem) (n : Nat) : (extendTo f n).size = max f.size n := by
  unfold extendTo
  split
  · simp; omega
  · omega


/-- the identification bytes of the first `n` mapped bytes of the file are not what the caller expects -/
def Mismatch (f : Mem) (o : OpenOpts) (expectKind : Bool) : Prop :=
  ∀ k, sanityCheck f o.reserved (if expectKind then some o.kind else none) o.magic ≠ .ok k

/-- what a refused or read-only open may do to the file: nothing, except extending it with zeros when the
    caller asked for a larger capacity -/
def OnlyExtended (fs fs' : FileSys) : Prop :=
  match fs, fs' with
  | none, none => True
  | some f, some f' => f.size ≤ f'.size ∧ (∀ i, i < f.size → f'.rd i = f.rd i) ∧ (∀ i, f.size ≤ i → f'.rd i = 0)
  | _, _ => False

/-- `sanity_check` accepts exactly the files whose 8 identification bytes carry a known freelist kind
    (the expected one, if one is expected), the magic text "al", the expected magic version and format version 0 -/
theorem sanity_ok_iff (m : Mem) (reserved : Nat) (expect : Option Kind) (magic : Nat) (k : Kind) :
    sanityCheck m reserved expect magic = .ok k ↔
      kindOfByte (m.rd (reserved + 1)) = some k ∧ (∀ e, expect = some e → e = k) ∧
      m.rd (reserved + 2) = 97 ∧ m.rd (reserved + 3) = 108 ∧
      m.readLE (reserved + 4) 2 = magic ∧ m.readLE (reserved + 6) 2 = 0 := by
  unfold sanityCheck
  cases hk : kindOfByte (m.rd (reserved + 1)) with
  | none => simp
  | some k' =>
    simp only []
    by_cases h1 : m.readLE (reserved + 4) 2 = magic <;>
    by_cases h2 : m.readLE (reserved + 6) 2 = 0 <;>
    by_cases h3 : m.rd (reserved + 2) = 97 <;>
    by_cases h4 : m.rd (reserved + 3) = 108 <;>
    cases expect <;> simp [h1, h2, h3, h4]
    split <;> simp_all
    intro h; subst h; assumption


/-- the part of `openWritable` after the file `f1` (already extended) has been obtained, for an existing file -/
def existingTail (o : OpenOpts) (priv : Bool) (f1 : Mem) (mapLen : Nat) : Except IoKind Opened × FileSys :=
  if mapLen = 0 then (.error .invalidInput, some f1)
  else if prefixSize o.reserved > mapLen then (.error .invalidInput, some f1)
  else
    let view : Mem := f1.extract 0 mapLen
    let cfg : Cfg := { sync := o.sync, kind := o.kind, ro := false, retries := o.retries,
                       dataOffset := dataOffsetUnify o.reserved, reserved := o.reserved, unify := true,
                       fileBacked := true }
    match sanityCheck view o.reserved (some o.kind) o.magic with
    | .error e => (.error e, some f1)
    | .ok _ =>
      let hd := parseHeader view o.reserved
      let mem := if mapLen > hd.2.1 then view.zero hd.2.1 (mapLen - hd.2.1) else view
      let st : St := { mem := mem, sentinel := hd.1, allocated := hd.2.1, minSeg := hd.2.2.1,
                       discarded := hd.2.2.2 }
      (.ok { cfg := cfg, st := st, mapping := if priv then .priv else .shared },
       some (if priv then f1 else (st.image cfg) ++ f1.extract mapLen f1.size))

theorem openWritable_existing (o : OpenOpts) (priv : Bool) (f : Mem) (hnew : o.createNew = false) :
    openWritable o priv (some f) =
      if f.size < prefixSize o.reserved then (.error .invalidInput, some f)
      else match o.cap with
        | some c => existingTail o priv (extendTo f c) c
        | none => existingTail o priv f f.size := by
  unfold openWritable existingTail
  simp only [hnew]
  cases o.cap <;> cases o.create <;> simp <;> rfl


theorem existingTail_reject (o : OpenOpts) (priv : Bool) (f1 : Mem) (n : Nat)
    (hm : Mismatch (f1.extract 0 n) o true) : ∃ e, existingTail o priv f1 n = (.error e, some f1) := by
  unfold existingTail
  split
  · exact ⟨_, rfl⟩
  · split
    · exact ⟨_, rfl⟩
    · simp only []
      split
      · exact ⟨_, rfl⟩
      · rename_i k hk
        exact absurd hk (hm k)

theorem existingTail_error (o : OpenOpts) (priv : Bool) (f1 : Mem) (n : Nat) (e : IoKind) (fs' : FileSys)
    (h : existingTail o priv f1 n = (.error e, fs')) : fs' = some f1 := by
  unfold existingTail at h
  split at h
  · cases h; rfl
  · split at h
    · cases h; rfl
    · simp only [] at h
      split at h
      · cases h; rfl
      · cases h

/-- writable open (`map_mut`, `map_copy`) of an existing file with wrong identification bytes is refused -/
theorem reject_writable (o : OpenOpts) (priv : Bool) (f : Mem) (hnew : o.createNew = false)
    (hm : ∀ n, Mismatch (f.extract 0 n) o true ∧ Mismatch ((extendTo f n).extract 0 n) o true) :
    ∃ e fs', openWritable o priv (some f) = (.error e, fs') := by
  rw [openWritable_existing o priv f hnew]
  split
  · exact ⟨_, _, rfl⟩
  · split
    · rename_i c _
      obtain ⟨e, he⟩ := existingTail_reject o priv _ c (hm c).2
      exact ⟨e, _, he⟩
    · obtain ⟨e, he⟩ := existingTail_reject o priv _ f.size (hm f.size).1
      exact ⟨e, _, he⟩

/-- `openReadOnly` on an existing file, the mapped length made a parameter -/
def roTail (o : OpenOpts) (f : Mem) (mapLen : Nat) : Except IoKind Opened :=
  if f.size < prefixSize o.reserved then .error .invalidInput
  else if mapLen = 0 then .error .invalidInput
  else if prefixSize o.reserved > mapLen then .error .invalidInput
  else
    let view : Mem := f.extract 0 mapLen
    match sanityCheck view o.reserved none o.magic with
    | .error e => .error e
    | .ok k =>
      let hd := parseHeader view o.reserved
      let cfg : Cfg := { sync := o.sync, kind := k, ro := true, retries := o.retries,
                         dataOffset := dataOffsetUnify o.reserved, reserved := o.reserved, unify := true,
                         fileBacked := true }
      .ok { cfg := cfg, mapping := .roShared,
            st := { mem := view, sentinel := hd.1, allocated := hd.2.1, minSeg := hd.2.2.1, discarded := hd.2.2.2 } }

theorem openReadOnly_some (o : OpenOpts) (f : Mem) :
    openReadOnly o (some f) = roTail o f (match o.cap with | some c => min f.size c | none => f.size) := rfl

/-- read-only open (`map`, `map_copy_read_only`) of a file with wrong identification bytes is refused -/
theorem reject_read_only (o : OpenOpts) (f : Mem) (hm : ∀ n, Mismatch (f.extract 0 n) o false) :
    ∃ e, openReadOnly o (some f) = .error e := by
  rw [openReadOnly_some]
  generalize (match o.cap with | some c => min f.size c | none => f.size) = n
  unfold roTail
  split
  · exact ⟨_, rfl⟩
  · split
    · exact ⟨_, rfl⟩
    · split
      · exact ⟨_, rfl⟩
      · simp only []
        split
        · exact ⟨_, rfl⟩
        · rename_i k hk
          exact absurd hk (hm _ k)

/-- a file too small to contain the header is refused by every variant -/
theorem reject_too_small (mode : OpenMode) (o : OpenOpts) (f : Mem) (hnew : o.createNew = false)
    (hs : f.size < prefixSize o.reserved) : ∃ e fs', openFile mode o (some f) = (.error e, fs') := by
  have hw : ∀ priv, ∃ e fs', openWritable o priv (some f) = (.error e, fs') := by
    intro priv
    rw [openWritable_existing o priv f hnew, if_pos hs]
    exact ⟨_, _, rfl⟩
  have hr : openReadOnly o (some f) = .error .invalidInput := by
    unfold openReadOnly
    simp only []
    rw [if_pos hs]
  cases mode
  · exact hw false
  · exact hw true
  · exact ⟨.invalidInput, some f, by simp only [openFile, hr]⟩
  · exact ⟨.invalidInput, some f, by simp only [openFile, hr]⟩

theorem onlyExtended_refl (fs : FileSys) : OnlyExtended fs fs := by
  cases fs with
  | none => trivial
  | some f => exact ⟨Nat.le_refl _, fun _ _ => rfl, fun i hi => Mem.rd_oob f i hi⟩

theorem onlyExtended_extendTo (f : Mem) (n : Nat) : OnlyExtended (some f) (some (extendTo f n)) := by
  refine ⟨?_, fun i _ => rd_extendTo f n i, fun i hi => ?_⟩
  · rw [size_extendTo]; omega
  · rw [rd_extendTo]; exact Mem.rd_oob f i hi

theorem refused_preserves_w (o : OpenOpts) (priv : Bool) (fs fs' : FileSys) (e : IoKind)
    (h : openWritable o priv fs = (.error e, fs')) (hex : fs.isSome) : OnlyExtended fs fs' := by
  cases fs with
  | none => cases hex
  | some f =>
    cases hnew : o.createNew with
    | true =>
      unfold openWritable at h
      simp only [hnew, if_true] at h
      cases h
      exact onlyExtended_refl _
    | false =>
      rw [openWritable_existing o priv f hnew] at h
      split at h
      · cases h; exact onlyExtended_refl _
      · split at h
        · rw [existingTail_error _ _ _ _ _ _ h]; exact onlyExtended_extendTo _ _
        · rw [existingTail_error _ _ _ _ _ _ h]; exact onlyExtended_refl _

/-- a read-only open never changes the file, whether it succeeds or not -/
theorem read_only_open_inert (mode : OpenMode) (o : OpenOpts) (fs : FileSys) (hm : mode.readOnly = true) :
    (openFile mode o fs).2 = fs := by
  cases mode <;> simp [OpenMode.readOnly] at hm <;> simp only [openFile] <;> split <;> rfl

/-- a refused open leaves the bytes that were in the file exactly as they were (all variants) -/
theorem refused_preserves (mode : OpenMode) (o : OpenOpts) (fs fs' : FileSys) (e : IoKind)
    (h : openFile mode o fs = (.error e, fs')) (hex : fs.isSome) : OnlyExtended fs fs' := by
  cases mode
  · exact refused_preserves_w o false fs fs' e h hex
  · exact refused_preserves_w o true fs fs' e h hex
  · have := read_only_open_inert .ro o fs rfl
    rw [h] at this; simp only [] at this; rw [this]; exact onlyExtended_refl _
  · have := read_only_open_inert .copyRo o fs rfl
    rw [h] at this; simp only [] at this; rw [this]; exact onlyExtended_refl _

/-- a successful read-only open yields a read-only arena whose mapping is the file -/
theorem read_only_open_ro (o : OpenOpts) (fs : FileSys) (r : Opened) (h : openReadOnly o fs = .ok r) :
    r.cfg.ro = true ∧ r.mapping = .roShared ∧ ∃ f, fs = some f ∧ ∀ i, i < r.st.cap → r.st.mem.rd i = f.rd i := by
  cases fs with
  | none => cases h
  | some f =>
    rw [openReadOnly_some] at h
    generalize (match o.cap with | some c => min f.size c | none => f.size) = n at h
    unfold roTail at h
    split at h
    · cases h
    · split at h
      · cases h
      · split at h
        · cases h
        · simp only [] at h
          split at h
          · cases h
          · cases h
            refine ⟨rfl, rfl, f, rfl, ?_⟩
            intro i hi
            simp only [St.cap, Array.size_extract] at hi
            simp only []
            rw [rd_extract, if_pos (by omega)]

/-- every mutating call on a read-only arena is rejected or a no-op: the state (hence the mapped file) is unchanged -/
theorem ro_inert (c : Cfg) (s : St) (hro : c.ro = true) (n ts ta ex fuel : Nat) :
    allocBytes c s n fuel = .ok (.error .readOnly, s) ∧ allocT c s ts ta fuel = .ok (.error .readOnly, s) ∧
    allocAligned c s ts ta ex fuel = .ok (.error .readOnly, s) ∧
    discardFreelist c s fuel = .ok (.error .readOnly, s) ∧ clear c s = .error .readOnly ∧
    truncate c s n = .error .readOnly ∧ setMinSeg c s n = s ∧ s.incDiscarded c n = s := by
  refine ⟨?_, ?_, ?_, ?_, ?_, ?_, ?_, ?_⟩
  · simp only [allocBytes, hro, if_true]; rfl
  · simp only [allocT, hro, if_true]; rfl
  · simp only [allocAligned, hro, if_true]; rfl
  · simp only [discardFreelist, hro, if_true]; rfl
  · simp only [clear, hro, if_true]
  · simp only [truncate, hro, if_true]
  · simp only [setMinSeg, hro, if_true]
  · simp only [St.incDiscarded, hro, if_true]

/-! non-vacuity: a valid 64-byte file, one of its identification bytes changed -/
def good : Mem := (writeSanity (Array.replicate 64 0) 0 .opt 7).writeLE 8 8 SENTINEL_WORD |>.writeLE 16 4 32
def exO : OpenOpts := { sync := true, kind := .opt, reserved := 0, cap := none, minSeg := 20, retries := 5, magic := 7,
                        create := false, createNew := false }
example : (openReadOnly exO (some good)).toOption.map (·.st.allocated) = some 32 := by decide +kernel
example : (openReadOnly exO (some (good.update 2 3 (fun _ => 0)))).toOption.isNone = true := by decide +kernel
example : (openWritable exO false (some (good.update 4 5 (fun _ => 9)))).1.toOption.isNone = true := by decide +kernel

end Rarena.C09
