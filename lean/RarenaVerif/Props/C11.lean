/-
  C11 — sync::Arena used from one thread behaves exactly like unsync::Arena.

  Full statement: for the same options and the same single-threaded sequence of calls, the lock-free arena
  and the single-threaded arena return the same offsets, capacities and buffer extents, succeed or fail
  (with the same error kind) on the same calls, and report the same allocated(), discarded(), remaining()
  and free-list contents after every step.

  Both flavours of `Core` refine the same abstract allocator, whose answers do not depend on the flavour.
  The history covers the allocation calls, drops/detaches/deallocs, discard_freelist,
  set_minimum_segment_size, increase_discarded and clear (`truncate` exists for `unsync::Arena` only and is
  excluded by `hnt`); `rewind` is the same function of the state in both flavours by definition of the model
  (`rewind` takes no flavour argument) — the correspondence run compares the two real arenas on it as well.
-/
import RarenaVerif.Props.Common

namespace Rarena.C11

/-- the two flavours with otherwise equal options -/
def flavours (o : Opts) : Opts × Opts := ({ o with sync := true }, { o with sync := false })

/-- no abstract operation looks at the flavour -/
theorem step_sync (c : Cfg) (b : Bool) : HState.step { c with sync := b } = HState.step c := by
  funext h op
  cases op <;> rfl

theorem run_sync (c : Cfg) (b : Bool) (h : HState) (l : List HOp) : h.run { c with sync := b } l = h.run c l := by
  unfold HState.run
  rw [step_sync]

theorem allocBytes_sync (c : Cfg) (b : Bool) (a : A) (n : Nat) :
    a.allocBytes { c with sync := b } n = a.allocBytes c n := rfl

-- CHANGED (histories now contain `truncate`, a method of `unsync::Arena` only): hypothesis `hnt` added — the
-- comparison is over the calls both flavours have (`clear` is one of them).
/-- same handles (offsets, capacities, buffer extents), same scalars, same free list after every history -/
theorem equivalent (o : Opts) (g : Guards o) (fuel : Nat) (hfuel : o.cap + 2 ≤ fuel) (ops : List COp)
    (hops : ∀ op ∈ ops, COp.ok op) (hnt : ∀ op ∈ ops, op.isTruncate = false) (ss su : St)
    (hs : (flavours o).1.init = some ss) (hu : (flavours o).2.init = some su) :
    ∃ xs xu frees freeu,
      crun (flavours o).1.cfg fuel (CSess.start ss) ops = .ok xs ∧
      crun (flavours o).2.cfg fuel (CSess.start su) ops = .ok xu ∧
      xs.held = xu.held ∧ xs.detached = xu.detached ∧
      xs.st.allocated = xu.st.allocated ∧ xs.st.discarded = xu.st.discarded ∧ xs.st.minSeg = xu.st.minSeg ∧
      xs.st.cap = xu.st.cap ∧
      Chain xs.st.mem frees ∧ xs.st.sentinel = enc MAXU32 (hd frees) ∧
      Chain xu.st.mem freeu ∧ xu.st.sentinel = enc MAXU32 (hd freeu) ∧ frees = freeu := by
  have rs := sim_init (flavours o).1 ss hs g.cap g.minSeg g.retries
  have ru := sim_init (flavours o).2 su hu g.cap g.minSeg g.retries
  have hcs : ss.cap = o.cap := congrArg A.cap rs.abs
  have hcu : su.cap = o.cap := congrArg A.cap ru.abs
  obtain ⟨xs, frees, es, rels, _⟩ := sim_run (flavours o).1.cfg _ _ [] ops fuel rs rfl hops
    (fun op hop => COp.fits_of_not_truncate (hnt op hop)) (by show ss.cap + 2 ≤ fuel; omega)
  obtain ⟨xu, freeu, eu, relu, _⟩ := sim_run (flavours o).2.cfg _ _ [] ops fuel ru rfl hops
    (fun op hop => COp.fits_of_not_truncate (hnt op hop)) (by show su.cap + 2 ≤ fuel; omega)
  have hrun : (HState.init (flavours o).2.cap (flavours o).2.dataOffset (flavours o).2.minSeg).run
        (flavours o).2.cfg (ops.filterMap COp.abs) =
      (HState.init (flavours o).1.cap (flavours o).1.dataOffset (flavours o).1.minSeg).run
        (flavours o).1.cfg (ops.filterMap COp.abs) :=
    run_sync (flavours o).1.cfg false _ _
  rw [hrun] at relu
  have habs : xs.st.abs frees = xu.st.abs freeu := rels.abs.trans relu.abs.symm
  refine ⟨xs, xu, frees, freeu, es, eu, rels.held.trans relu.held.symm, rels.detached.trans relu.detached.symm,
    congrArg A.allocated habs, congrArg A.discarded habs, congrArg A.minSeg habs, congrArg A.cap habs,
    rels.cinv.chain, rels.cinv.sent, relu.cinv.chain, relu.cinv.sent, congrArg A.free habs⟩

set_option linter.unusedVariables false in  -- `hsync` documents the intended use; the proof does not need it
/-- per call: from states representing the same abstract state, both flavours give the same answer -/
theorem same_answer (cs cu : Cfg) (ss su : St) (free : List Seg) (ls lu : List Ext) (fuel n : Nat)
    (hc : cs = { cu with sync := true }) (hsync : cu.sync = false)
    (his : CInv cs ss free ls) (hiu : CInv cu su free lu) (habs : ss.abs free = su.abs free)
    (hfuel : free.length + 2 ≤ fuel) (hn : n < TWO32) :
    ∃ r ss' su', allocBytes cs ss n fuel = .ok (r, ss') ∧ allocBytes cu su n fuel = .ok (r, su') := by
  obtain ⟨ss', e1, _, _⟩ := allocBytes_refines cs ss free ls n fuel his hn hfuel
  obtain ⟨su', e2, _, _⟩ := allocBytes_refines cu su free lu n fuel hiu hn hfuel
  rw [habs, hc, allocBytes_sync] at e1
  exact ⟨_, ss', su', hc ▸ e1, e2⟩

end Rarena.C11
