/-
  C16 — Layout contract: data offset, reserved prefix and header are where Options says.

  Full statement: arena.data_offset() equals Options::data_offset (plain layout) or
  Options::data_offset_unify (unified layout and every file-backed arena); the first allocation starts at
  the first suitably aligned offset at or after it; reserved_slice() has exactly the configured length and
  is never written by any arena operation; with the unified layout the bytes of a Vec-, anonymous-map- and
  file-backed arena driven by the same history are identical; construction fails exactly when the capacity
  cannot hold the prefix; remaining() = capacity() - allocated(); the descriptive accessors report the mode
  and options the arena was created with.

  The accessor table and `data_offset()` itself are observed by the correspondence (`doff=`, `info`,
  `slices`); the formulas below are the model's (`Model/Layout.lean`, after options.rs / memory.rs).
-/
import RarenaVerif.Props.Common

namespace Rarena.C16

/-! ### no operation of a history consults `fileBacked` -/

theorem tryNewSegment_fb (c : Cfg) (b : Bool) (s : St) (off size : Nat) :
    tryNewSegment { c with fileBacked := b } s off size = tryNewSegment c s off size := rfl

theorem findPos_fb (c : Cfg) (b : Bool) (s : St) (val : Nat) (cmp : Nat → Nat → Bool) (fuel : Nat) :
    findPos { c with fileBacked := b } s val cmp fuel = findPos c s val cmp fuel := rfl

theorem findPrevNext_fb (c : Cfg) (b : Bool) (s : St) (val : Nat) (cmp : Nat → Nat → Bool) (fuel : Nat) :
    findPrevNext { c with fileBacked := b } s val cmp fuel = findPrevNext c s val cmp fuel := rfl

theorem insertLoop_fb (c : Cfg) (b : Bool) (seg : SegRef) (fuel : Nat) : ∀ (tries : Nat) (s : St),
    insertLoop { c with fileBacked := b } seg fuel tries s = insertLoop c seg fuel tries s
  | 0, _ => rfl
  | tries + 1, s => by
    rw [insertLoop, insertLoop]
    simp only [insertLoop_fb c b seg fuel tries]
    rfl

theorem freelistDealloc_fb (c : Cfg) (b : Bool) (s : St) (off size fuel : Nat) :
    freelistDealloc { c with fileBacked := b } s off size fuel = freelistDealloc c s off size fuel := by
  unfold freelistDealloc
  simp only [insertLoop_fb, tryNewSegment_fb]

theorem dealloc_fb (c : Cfg) (b : Bool) (s : St) (off size fuel : Nat) :
    dealloc { c with fileBacked := b } s off size fuel = dealloc c s off size fuel := by
  unfold dealloc
  simp only [freelistDealloc_fb]
  rfl


theorem finishSlow_fb (c : Cfg) (b : Bool) (s : St) (off nodeSize size fuel : Nat) :
    finishSlow { c with fileBacked := b } s off nodeSize size fuel = finishSlow c s off nodeSize size fuel := by
  unfold finishSlow
  simp only [freelistDealloc_fb]

theorem slowOpt_fb (c : Cfg) (b : Bool) (size fuel : Nat) : ∀ (tries : Nat) (s : St),
    slowOpt { c with fileBacked := b } size fuel tries s = slowOpt c size fuel tries s
  | 0, _ => rfl
  | tries + 1, s => by
    rw [slowOpt, slowOpt]
    simp only [slowOpt_fb c b size fuel tries, finishSlow_fb]

theorem slowPess_fb (c : Cfg) (b : Bool) (size fuel : Nat) : ∀ (tries : Nat) (s : St),
    slowPess { c with fileBacked := b } size fuel tries s = slowPess c size fuel tries s
  | 0, _ => rfl
  | tries + 1, s => by
    rw [slowPess, slowPess]
    simp only [slowPess_fb c b size fuel tries, finishSlow_fb, findPrevNext_fb]

theorem slowPath_fb (c : Cfg) (b : Bool) (s : St) (size fuel : Nat) :
    slowPath { c with fileBacked := b } s size fuel = slowPath c s size fuel := by
  unfold slowPath
  simp only [slowOpt_fb, slowPess_fb]

theorem retryLoop_fb (c : Cfg) (b : Bool) (size fuel : Nat) (post : Meta → M Meta) : ∀ (n i : Nat) (s : St),
    retryLoop { c with fileBacked := b } size fuel post n i s = retryLoop c size fuel post n i s
  | 0, _, _ => rfl
  | n + 1, i, s => by
    rw [retryLoop, retryLoop]
    simp only [retryLoop_fb c b size fuel post n, slowPath_fb]

theorem slowEntry_fb (c : Cfg) (b : Bool) (s : St) (size fuel : Nat) (post : Meta → M Meta) :
    slowEntry { c with fileBacked := b } s size fuel post = slowEntry c s size fuel post := by
  unfold slowEntry
  simp only [retryLoop_fb, slowPath_fb]

theorem allocBytes_fb (c : Cfg) (b : Bool) (s : St) (size fuel : Nat) :
    allocBytes { c with fileBacked := b } s size fuel = allocBytes c s size fuel := by
  unfold allocBytes
  simp only [slowEntry_fb]

theorem allocAligned_fb (c : Cfg) (b : Bool) (s : St) (ts ta ex fuel : Nat) :
    allocAligned { c with fileBacked := b } s ts ta ex fuel = allocAligned c s ts ta ex fuel := by
  unfold allocAligned
  simp only [slowEntry_fb, allocBytes_fb]

theorem allocT_fb (c : Cfg) (b : Bool) (s : St) (ts ta fuel : Nat) :
    allocT { c with fileBacked := b } s ts ta fuel = allocT c s ts ta fuel := by
  unfold allocT
  simp only [slowEntry_fb]

theorem discardLoop_fb (c : Cfg) (b : Bool) : ∀ (fuel acc : Nat) (s : St),
    discardLoop { c with fileBacked := b } fuel acc s = discardLoop c fuel acc s
  | 0, _, _ => rfl
  | fuel + 1, acc, s => by
    rw [discardLoop, discardLoop]
    simp only [discardLoop_fb c b fuel]
    rfl

theorem discardFreelist_fb (c : Cfg) (b : Bool) (s : St) (fuel : Nat) :
    discardFreelist { c with fileBacked := b } s fuel = discardFreelist c s fuel := by
  unfold discardFreelist
  simp only [discardLoop_fb]

theorem clear_fb (c : Cfg) (b : Bool) (s : St) : clear { c with fileBacked := b } s = clear c s := rfl

/-- only `truncate` consults the backend -/
theorem cstep_fb (c : Cfg) (b : Bool) (fuel : Nat) (x : CSess) (op : COp) (hnt : op.isTruncate = false) :
    cstep { c with fileBacked := b } fuel x op = cstep c fuel x op := by
  cases op with
  | fill i v => rfl
  | op o =>
    cases o
    case truncate n => simp [COp.isTruncate] at hnt
    all_goals
      simp only [cstep, allocBytes_fb, allocAligned_fb, allocT_fb, dealloc_fb, discardFreelist_fb, clear_fb] <;> rfl

theorem crun_fb (c : Cfg) (b : Bool) (fuel : Nat) : ∀ (ops : List COp) (x : CSess),
    (∀ op ∈ ops, op.isTruncate = false) →
    crun { c with fileBacked := b } fuel x ops = crun c fuel x ops
  | [], _, _ => rfl
  | op :: ops, x, hnt => by
    simp only [crun, cstep_fb c b fuel x op (hnt op (List.mem_cons_self ..))]
    cases cstep c fuel x op with
    | error e => rfl
    | ok x1 =>
      simp only [bind, Except.bind]
      exact crun_fb c b fuel ops x1 (fun o ho => hnt o (List.mem_cons_of_mem _ ho))


theorem slow_nil (c : Cfg) (a : A) (n : Nat) (hro : c.ro = false) (hf : a.free = []) :
    a.slow c n = (.error .insufficient, a) := by
  unfold A.slow
  cases hk : c.kind <;> simp [hro, hf, takeFirst]

/-- the two formulas of `Options::data_offset_in` -/
theorem data_offset_formula (o : Opts) :
    o.cfg.dataOffset = (if o.unify || o.file then (o.reserved + 7) / 8 * 8 + 8 + 24 else o.reserved + 1) := by
  rfl

/-- construction is refused exactly when the capacity cannot hold the prefix -/
theorem construct_fails_iff (o : Opts) : o.init = none ↔ o.cap < o.cfg.dataOffset :=
  init_none_iff o

/-- a fresh arena: cursor at `data_offset`, zero data area, and the first allocation of a type with alignment
    `ta` starts at the first multiple of `ta` at or after `data_offset` -/
theorem first_alloc_at (o : Opts) (g : Guards o) (fuel : Nat) (hfuel : 2 ≤ fuel) (s : St) (hs : o.init = some s)
    (ts ta : Nat) (ht : TyOK ts ta) (m : Meta) (st' : St)
    (h : allocT o.cfg s ts ta fuel = .ok (.ok (some m), st')) :
    s.allocated = o.cfg.dataOffset ∧ m.ptrOff = alignUp ta o.cfg.dataOffset ∧ m.memOff = o.cfg.dataOffset := by
  obtain ⟨hc, habs, _, _⟩ := init_cinv o s hs g.cap g.minSeg g.retries
  have hal : s.allocated = o.cfg.dataOffset := congrArg A.allocated habs
  obtain ⟨s', e1, _, _⟩ := allocT_refines o.cfg s [] [] ts ta fuel hc ht (by simpa using hfuel)
  rw [h] at e1
  simp only [Except.ok.injEq, Prod.mk.injEq] at e1
  have hr := e1.1
  refine ⟨hal, ?_⟩
  unfold A.allocT at hr
  rw [if_neg (by simp [Opts.cfg])] at hr
  by_cases h0 : ts = 0
  · rw [if_pos h0] at hr; simp at hr
  · rw [if_neg h0] at hr
    simp only at hr
    split at hr
    · simp only [Except.ok.injEq, Option.some.injEq] at hr
      subst hr
      simp only [Meta.alignToS, Meta.new]
      exact ⟨by rw [← hal]; rfl, by rw [← hal]; rfl⟩
    · simp only [A.slowEntry, slow_nil o.cfg (s.abs []) _ rfl rfl] at hr
      simp at hr

theorem reserved_lt (o : Opts) : o.reserved < o.cfg.dataOffset := by
  rw [data_offset_formula]
  split <;> omega

-- CHANGED (histories now contain `truncate`): hypothesis `hfits` added (`truncate` only for the unsync flavour and
-- only up to the capacity the traversal fuel covers, see `COp.fits`).
/-- no history writes the reserved prefix (nor the sanity bytes / header area): `[0, data_offset)` -/
theorem reserved_untouched (o : Opts) (g : Guards o) (fuel : Nat) (hfuel : o.cap + 2 ≤ fuel) (s : St)
    (hs : o.init = some s) (ops : List COp) (hops : ∀ op ∈ ops, COp.ok op)
    (hfits : ∀ op ∈ ops, COp.fits o.cfg fuel op) :
    ∃ x, crun o.cfg fuel (CSess.start s) ops = .ok x ∧
      ∀ i, i < o.reserved → x.st.mem.rd i = s.mem.rd i := by
  have r := sim_init o s hs g.cap g.minSeg g.retries
  have hcap : s.cap = o.cap := congrArg A.cap r.abs
  obtain ⟨x, _, e, _, _, hpre⟩ := sim_run o.cfg _ _ [] ops fuel r rfl hops hfits (by show s.cap + 2 ≤ fuel; omega)
  refine ⟨x, e, fun i hi => hpre i ?_⟩
  have := reserved_lt o
  omega

-- CHANGED (histories now contain `truncate`, the one call that consults the backend: a file-backed arena keeps the
-- in-file bytes above the cursor, the others zero them): hypothesis `hnt` added.
/-- with the unified layout the memory image does not depend on the backing store: the Vec-, anon- and
    file-backed arenas with otherwise equal options start from the same bytes and every history without
    `truncate` produces the same state (the backend is not consulted by any other operation of a history) -/
theorem unified_images_equal (o : Opts) (hu : o.unify = true) (fuel : Nat) (ops : List COp) (file anon : Bool)
    (hnt : ∀ op ∈ ops, op.isTruncate = false) :
    let o' : Opts := { o with file := file, anon := anon }
    o'.init = o.init ∧
    ∀ s, (crun o'.cfg fuel (CSess.start s) ops).map (fun x => (x.st.image o'.cfg, x.held, x.st.allocated, x.st.discarded)) =
         (crun o.cfg fuel (CSess.start s) ops).map (fun x => (x.st.image o.cfg, x.held, x.st.allocated, x.st.discarded)) := by
  intro o'
  have hcfg : o'.cfg = { o.cfg with fileBacked := file } := by
    simp [o', Opts.cfg, Opts.dataOffset, Opts.unified, hu]
  refine ⟨?_, ?_⟩
  · simp [o', Opts.init, Opts.dataOffset, Opts.unified, hu]
  · intro s
    rw [hcfg, crun_fb _ _ _ _ _ hnt]
    rfl

-- CHANGED (histories now contain `truncate`, which changes the capacity): the capacity is the configured one for
-- the sync flavour (no `truncate`); in general it is the capacity of the abstract history state (`Rel.abs`).
/-- `remaining() = capacity() - allocated()` with `allocated() ≤ capacity()` in every reachable state -/
theorem remaining_eq (o : Opts) (g : Guards o) (fuel : Nat) (hfuel : o.cap + 2 ≤ fuel) (x : CSess)
    (hr : Reachable o fuel x) : x.st.allocated ≤ x.st.cap ∧ (o.sync = true → x.st.cap = o.cap) := by
  obtain ⟨h, free, hrel, _, hcap⟩ := reachable_rel o g fuel hfuel x hr
  exact ⟨hrel.cinv.wf.hi, hcap⟩

end Rarena.C16
