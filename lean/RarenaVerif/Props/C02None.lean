/-
  C02 (continued) — exclusivity under EVERY interleaving, allocations AND releases, for arenas with `Freelist::None`.

  `Props/C02.lean` proves the bump path for allocating threads and that a thread running alone is the sequential model.
  This file adds (proved in `Proofs/ConcNone.lean` on the atomic-step machine `Model/Conc.lean`) the complete statement
  of C02 for the configuration that has no free list: ANY number of threads, ANY schedule (spurious weak-CAS failures
  included), ANY per-thread programs made of `alloc_bytes` / `alloc_aligned_bytes::<T>` / `alloc::<T>` and releases
  (`Drop`) of handles the thread itself holds:
    * the extents held by all threads are pairwise disjoint, inside `[data_offset, cursor]`, and the cursor never exceeds
      the capacity (`none_exclusive`, `none_results_exclusive` on the handles the programs return);
    * the cursor is at or above the end of every held extent, so no later bump allocation can overlap one
      (`none_cursor_above_live`);
    * the only non-atomic writes of the arena, the zero-fills, lie inside the extent reserved by that very step of that
      thread and are disjoint from every extent held before the step (`none_zero_inside_own`): the bytes of a live
      handle are never modified by the arena or by an operation of another thread;
    * `discarded()` accounts exactly (mod 2^32) for the releases that lost the race for the cursor
      (`none_discarded_accounting`).
  The release path (`dealloc` = CAS on the cursor `off+size -> off`, else `fetch_add` on `discarded`) is safe under ABA on
  the cursor because nothing but the cursor VALUE is used.  Optimistic / Pessimistic lists under overlapping operations
  remain unproved (no ABA protection on node words: findings F18 / F20).
-/
import RarenaVerif.Proofs.ConcNone

namespace Rarena.C02None
open Rarena Rarena.Conc Rarena.Conc.NoneFL

theorem none_exclusive (c : Cfg) (hk : c.kind = .none) (hro : c.ro = false) (sh : Shared) (fuel : Nat)
    (hlo : c.dataOffset ≤ sh.st.allocated) (hhi : sh.st.allocated ≤ sh.st.cap)
    (progs : List (List NOp)) (hok : ∀ ops ∈ progs, ∀ op ∈ ops, op.ok) (sched : List (Nat × Bool)) :
    let g0 : Global (List Meta) := { sh := sh, threads := progs.map (fun ops => noneProg c sh.st.cap fuel ops []) }
    let g := (g0.run sched).1
    ∃ ghs : List Gh, All2 (Held sh.st.cap) ghs g.threads ∧
      (owns ghs).Pairwise disj ∧
      (∀ x ∈ owns ghs, c.dataOffset ≤ x.1 ∧ sh.st.allocated ≤ x.1 ∧ x.1 < x.2 ∧ x.2 ≤ g.sh.st.allocated) ∧
      c.dataOffset ≤ g.sh.st.allocated ∧ g.sh.st.allocated ≤ g.sh.st.cap ∧ g.sh.st.cap = sh.st.cap :=
  NoneFL.none_exclusive c hk hro sh fuel hlo hhi progs hok sched

theorem none_cursor_above_live (c : Cfg) (hk : c.kind = .none) (hro : c.ro = false) (sh : Shared) (fuel : Nat)
    (hhi : sh.st.allocated ≤ sh.st.cap)
    (progs : List (List NOp)) (hok : ∀ ops ∈ progs, ∀ op ∈ ops, op.ok) (sched : List (Nat × Bool)) :
    let g0 : Global (List Meta) := { sh := sh, threads := progs.map (fun ops => noneProg c sh.st.cap fuel ops []) }
    let g := (g0.run sched).1
    ∃ ghs : List Gh, All2 (Held sh.st.cap) ghs g.threads ∧
      ∀ x ∈ owns ghs, x.2 ≤ g.sh.st.allocated ∧ ∀ n, disj x (g.sh.st.allocated, n) :=
  NoneFL.none_cursor_above_live c hk hro sh fuel hhi progs hok sched

theorem none_zero_inside_own (c : Cfg) (hk : c.kind = .none) (hro : c.ro = false) (sh : Shared) (fuel : Nat)
    (hhi : sh.st.allocated ≤ sh.st.cap)
    (progs : List (List NOp)) (hok : ∀ ops ∈ progs, ∀ op ∈ ops, op.ok) (sched : List (Nat × Bool))
    (tid : Nat) (sp : Bool) :
    let g0 : Global (List Meta) := { sh := sh, threads := progs.map (fun ops => noneProg c sh.st.cap fuel ops []) }
    let g := (g0.run sched).1
    ∃ ghs ghs' : List Gh,
      NInv sh.st.cap sh.st.allocated sh.st.discarded g ghs ∧
      NInv sh.st.cap sh.st.allocated sh.st.discarded (g.step tid sp).1 ghs' ∧
      (∀ j, j ≠ tid → ghs'[j]? = ghs[j]?) ∧
      ∀ e ∈ stepNAs g tid sp, ∃ off len, e = .zero off len ∧
        g.sh.st.allocated ≤ off ∧ off + len ≤ (g.step tid sp).1.sh.st.allocated ∧
        (∃ γ', ghs'[tid]? = some γ' ∧ (g.sh.st.allocated, (g.step tid sp).1.sh.st.allocated) ∈ γ'.own) ∧
        (∀ y ∈ owns ghs, disj y (off, off + len)) :=
  NoneFL.none_zero_inside_own c hk hro sh fuel hhi progs hok sched tid sp

theorem none_discarded_accounting (c : Cfg) (hk : c.kind = .none) (hro : c.ro = false) (sh : Shared) (fuel : Nat)
    (hhi : sh.st.allocated ≤ sh.st.cap)
    (progs : List (List NOp)) (hok : ∀ ops ∈ progs, ∀ op ∈ ops, op.ok) (sched : List (Nat × Bool)) :
    let g0 : Global (List Meta) := { sh := sh, threads := progs.map (fun ops => noneProg c sh.st.cap fuel ops []) }
    let g := (g0.run sched).1
    ∃ ghs : List Gh, All2 (Held sh.st.cap) ghs g.threads ∧
      (g.sh.st.discarded + pendTotal ghs) % TWO32 = (sh.st.discarded + lostTotal ghs) % TWO32 ∧
      ((∀ p ∈ g.threads, ∃ r, p = .ret r) → g.sh.st.discarded % TWO32 = (sh.st.discarded + lostTotal ghs) % TWO32) :=
  NoneFL.none_discarded_accounting c hk hro sh fuel hhi progs hok sched

theorem none_results_exclusive (c : Cfg) (hk : c.kind = .none) (hro : c.ro = false) (sh : Shared) (fuel : Nat)
    (hhi : sh.st.allocated ≤ sh.st.cap)
    (progs : List (List NOp)) (hok : ∀ ops ∈ progs, ∀ op ∈ ops, op.ok) (sched : List (Nat × Bool)) :
    let g0 : Global (List Meta) := { sh := sh, threads := progs.map (fun ops => noneProg c sh.st.cap fuel ops []) }
    let g := (g0.run sched).1
    let handles := (g.results.filterMap id).flatten
    handles.Pairwise (fun a b => disj (mext a) (mext b) ∧ disj a.access b.access) ∧
    (∀ m ∈ handles, sh.st.allocated ≤ m.memOff ∧ 0 < m.memSize ∧ m.memOff + m.memSize ≤ g.sh.st.allocated ∧
      m.memOff ≤ m.ptrOff ∧ m.ptrOff + m.ptrSize ≤ m.memOff + m.memSize) ∧
    g.sh.st.allocated ≤ g.sh.st.cap :=
  NoneFL.none_results_exclusive c hk hro sh fuel hhi progs hok sched

end Rarena.C02None
