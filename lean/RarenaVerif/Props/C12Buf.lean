/-
  C12 (buffer side) — the frame statements of `Props/C02Buf.lean`, restated for C12: a data race between two users of
  the arena "caused by the arena itself" includes a checked writer of one handle reaching into the range of another
  (nothing orders the two owners). Whatever a writer returns, every byte outside the handle's accessible range is what
  it was.
-/
import RarenaVerif.Props.C02Buf

namespace Rarena.C12Buf
open Rarena

theorem put_inside (mem : Mem) (h : Handle) (t : IntTy) (o : Order) (v : Int) :
    (∃ mem' h', bufPut mem h t o v = .ok (mem', h') ∧
        mem.sameOutside mem' h.mt.ptrOff (h.mt.ptrOff + h.mt.ptrSize)) ∨
    bufPut mem h t o v = .error .insufficient :=
  C02Buf.put_inside mem h t o v

theorem put_slice_inside (mem : Mem) (h : Handle) (l : Nat) (b : UInt8) :
    (∃ mem' h', bufPutSlice mem h l b = .ok (mem', h') ∧
        mem.sameOutside mem' h.mt.ptrOff (h.mt.ptrOff + h.mt.ptrSize)) ∨
    bufPutSlice mem h l b = .error .insufficient :=
  C02Buf.put_slice_inside mem h l b

theorem put_aligned_inside (mem : Mem) (h : Handle) (ta ts : Nat) (b : UInt8)
    (hta : ta = 1 ∨ ta = 2 ∨ ta = 4 ∨ ta = 8 ∨ ta = 16) (hts : ts ≠ 0)
    (hsmall : h.mt.ptrOff + h.mt.ptrSize + 16 < TWO32) (hlen : h.len ≤ h.mt.ptrSize) :
    (∃ p mem' h', bufPutAligned mem h ta ts b = .ok (.ok (some p, mem', h')) ∧
        mem.sameOutside mem' h.mt.ptrOff (h.mt.ptrOff + h.mt.ptrSize)) ∨
    bufPutAligned mem h ta ts b = .ok (.error .insufficient) :=
  C02Buf.put_aligned_inside mem h ta ts b hta hts hsmall hlen

theorem put_varint_inside (mem : Mem) (h : Handle) (t : IntTy) (v : Int) (hlen : h.len ≤ h.mt.ptrSize) :
    mem.sameOutside (bufPutVarint mem h t v).1 h.mt.ptrOff (h.mt.ptrOff + h.mt.ptrSize) :=
  C02Buf.put_varint_inside mem h t v hlen

end Rarena.C12Buf
