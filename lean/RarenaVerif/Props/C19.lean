/-
  C19 — checksum covers exactly the allocated bytes after the reserved prefix.

  Full statement: checksum(builder) equals the one-shot checksum, by the same builder, of
  allocated_memory()[reserved_bytes()..], for every content, every allocated size and every reserved
  length; in particular it is independent of how the implementation chunks the input.

  `Checksummer.chunked` (Model/Bytes.lean) follows `Allocator::checksum`: full pages, then the remainder.
  A checksummer is any streaming fold (`init`, byte step `upd`, `digest`) — dbutils' `Checksumer`s
  (`update(&[u8])` = fold of a byte step) are of this form; that is the modelling assumption.
-/
import RarenaVerif.Proofs.BytesProps

namespace Rarena.C19

/-- chunk-independence for every streaming checksummer, every data, every page size > 0 -/
theorem checksum_chunking {σ : Type} (c : Checksummer σ) (page : Nat) (hp : 0 < page) (data : List UInt8) :
    c.chunked page data = c.oneShot data :=
  Rarena.checksum_chunking c page hp data

/-- the checksummed slice is `mem[reserved .. allocated)`: its length … -/
theorem slice_length (img : Mem) (reserved allocated : Nat) (h1 : reserved ≤ allocated) (h2 : allocated ≤ img.size) :
    (checksumData img reserved allocated).length = allocated - reserved :=
  checksumData_length img reserved allocated h1 h2

/-- … and its bytes -/
theorem slice_bytes (img : Mem) (reserved allocated k : Nat) (h1 : reserved ≤ allocated) (h2 : allocated ≤ img.size)
    (hk : k < allocated - reserved) :
    ((checksumData img reserved allocated)[k]?.map UInt8.toNat) = some (img.rd (reserved + k)) :=
  checksumData_get img reserved allocated k h1 h2 hk

/-! non-vacuity -/
example : crc32.chunked 4 [1, 2, 3, 4, 5, 6, 7, 8, 9] = crc32.oneShot [1, 2, 3, 4, 5, 6, 7, 8, 9] := by decide +kernel
example : crc32.oneShot [49, 50, 51, 52, 53, 54, 55, 56, 57] = 0xCBF43926 := by decide +kernel  -- the CRC-32 check value

end Rarena.C19
