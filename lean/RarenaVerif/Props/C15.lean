/-
  C15 — Arena-level readers never look beyond the allocated prefix.

  Full statement: get_u8/get_i8, get_{u,i}{16,32,64,128}_{be,le} and the *_varint readers return the
  value decoded from the bytes at the given offset when the whole value lies below allocated(), and
  OutOfBounds otherwise (for every `usize` offset); varint readers never consume bytes at or above
  allocated(); allocated_memory(), data() and memory() have lengths allocated(),
  allocated() - data_offset() and capacity().

  `rdFixed` / `rdVarint` (Model/Bytes.lean) follow `impl_bytes_utils_for_allocator!` /
  `impl_leb128_utils_for_allocator!` including the `usize` guard arithmetic (`checked_add`).
  The slice lengths are observed by the correspondence (`slices` line); in the model they are the
  definitions `allocated`, `allocated - dataOffset`, `mem.size`.
-/
import RarenaVerif.Proofs.BytesProps

namespace Rarena.C15

/-- fixed-width readers succeed exactly when the whole value lies below `allocated`, for every `usize` offset -/
theorem reader_ok_iff (img : Mem) (allocated offset : Nat) (t : IntTy) (o : Order) (ht : t.valid)
    (hoff : offset < TWO64) (hal : allocated < TWO32) :
    (∃ v, rdFixed img allocated offset t o = .ok v) ↔ offset + t.bytes ≤ allocated :=
  rdFixed_ok_iff img allocated offset t o ht hoff hal

/-- the value returned is the one decoded from the bytes at the offset -/
theorem reader_val (img : Mem) (allocated offset : Nat) (t : IntTy) (o : Order) (v : Int)
    (h : rdFixed img allocated offset t o = .ok v) : v = img.readInt offset t o ∧ offset + t.bytes ≤ allocated :=
  rdFixed_val img allocated offset t o v h

/-- `OutOfBounds` otherwise — no trap, whatever the offset -/
theorem reader_oob (img : Mem) (allocated offset : Nat) (t : IntTy) (o : Order) (ht : t.valid)
    (h : ¬ offset + t.bytes ≤ allocated) : rdFixed img allocated offset t o = .error .outOfBounds :=
  rdFixed_oob img allocated offset t o ht h

/-- varint readers never consume bytes at or above `allocated` -/
theorem varint_gap (img : Mem) (allocated offset : Nat) (t : IntTy) (n : Nat) (v : Int)
    (h : rdVarint img allocated offset t = .ok (n, v)) : offset + n ≤ allocated ∧ 1 ≤ n :=
  rdVarint_below img allocated offset t n v h

theorem varint_oob (img : Mem) (allocated offset : Nat) (t : IntTy) (h : allocated ≤ offset) :
    rdVarint img allocated offset t = .error .outOfBounds :=
  rdVarint_oob img allocated offset t h

/-- ... and their result does not depend on any byte at or above `allocated` -/
theorem varint_ignores_tail (img img' : Mem) (allocated offset : Nat) (t : IntTy)
    (h : ∀ i, i < allocated → img.rd i = img'.rd i) :
    rdVarint img allocated offset t = rdVarint img' allocated offset t :=
  rdVarint_congr img img' allocated offset t h

/-! non-vacuity -/
def exImg : Mem := #[1, 2, 3, 0x96, 0x01, 6, 7, 8]
example : (rdFixed exImg 5 3 ⟨2, false⟩ .le).toOption = some 406 := by decide
example : (rdFixed exImg 5 4 ⟨2, false⟩ .le).toOption.isNone = true := by decide
example : (rdFixed exImg 5 18446744073709551615 ⟨4, false⟩ .be).toOption.isNone = true := by decide
example : (rdVarint exImg 5 3 ⟨4, false⟩).toOption = some (2, 150) := by decide
example : (rdVarint exImg 4 3 ⟨4, false⟩).toOption.isNone = true := by decide

end Rarena.C15
