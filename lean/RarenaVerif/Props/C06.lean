/-
  C06 — A process crash at any point leaves a file that reopens to a consistent arena.

  Full statement (`Full`): if the process is killed at any point of any operation on a writable file-backed
  arena, the file (as the page cache holds it at that instant) opens again, its cursor lies between
  data_offset and capacity, every range that had been returned to a caller and not yet released before the
  crash still holds its bytes and is never handed out again, and every operation on the reopened arena
  terminates. Crash points: between any two consecutive atomic accesses of an operation (sync), every
  operation boundary (unsync).

  What is proved (PARTIAL, see DESIGN.md):
  * `boundary` — every operation boundary, both flavours: the page-cache image of a state satisfying the
    concrete invariant reopens (`map_mut`, same / larger / no capacity) to a state with the same cursor, the
    same bytes below it, satisfying the concrete invariant for the same free list and the same live
    extents — hence (C01, C04, C10 apply) the cursor is in range, ranges live before the crash keep their
    bytes and are never handed out again, and every later operation terminates (`later_ops_terminate`).
  * mid-operation crash points of the sync flavour are NOT covered by a theorem. They are enumerated on the
    real code by the crash-point mode of the controlled scheduler (every atomic access of every operation of the
    generated histories), each image reopened and exercised. KNOWN FINDING F15: an image taken between a
    successful mark CAS and the matching unlink CAS reopens to an arena whose next free-list traversal never
    returns (nobody will finish the removal); listed in known_findings.txt by its crash site.
-/
import RarenaVerif.Props.C05

namespace Rarena.C06

/-- the file as the page cache holds it when the process dies at an operation boundary in state `s` -/
def crashImage (c : Cfg) (s : St) (tail : Mem) : Mem := s.image c ++ tail

theorem boundary (c : Cfg) (s : St) (free : List Seg) (lives : List Ext) (magic : Nat) (o : OpenOpts) (tail : Mem)
    (hinv : CInv c s free lives) (hwf : C05.WellFormedFile c s magic) (ho : C05.Matches o c magic)
    (hcap : match o.cap with | some n => s.allocated ≤ n ∧ n + 8192 ≤ TWO32 | none => (s.cap + tail.size) + 8192 ≤ TWO32)
    (hr : o.sync = true → o.retries ≤ 255) :
    ∃ r fs', openWritable o false (some (crashImage c s tail)) = (.ok r, fs') ∧
      r.st.allocated = s.allocated ∧ r.cfg.dataOffset ≤ r.st.allocated ∧ r.st.allocated ≤ r.st.cap ∧
      (∀ i, i < s.allocated → r.st.mem.rd i = (s.image c).rd i) ∧
      CInv r.cfg r.st free lives := by
  obtain ⟨r, fs', h1, h2, _, _, _, h6, _, _, h9, _, h11⟩ :=
    C05.reopen_writable c s free lives magic o false tail hinv hwf ho hcap hr
  refine ⟨r, fs', h1, h2, ?_, ?_, h9, h11⟩
  · have := h11.wf.mid
    simpa [St.abs] using this
  · have := h11.wf.hi
    simpa [St.abs] using this

/-- on the reopened arena every allocation call terminates with an answer (no trap, no divergence) and never
    hands out a range that was live before the crash (the new handle's extent is added to the SAME live set) -/
theorem later_ops_terminate (c : Cfg) (s : St) (free : List Seg) (lives : List Ext) (n fuel : Nat)
    (hinv : CInv c s free lives) (hn : n < TWO32) (hfuel : free.length + 2 ≤ fuel) :
    ∃ r s', allocBytes c s n fuel = .ok (r, s') ∧
      match r with
      | .ok (some m) => CInv c s' ((s.abs free).allocBytes c n).2.free (m.owned :: lives)
      | _ => s' = s := by
  obtain ⟨s', h1, _, h3⟩ := allocBytes_refines c s free lives n fuel hinv hn hfuel
  refine ⟨_, s', h1, ?_⟩
  revert h3
  cases ((s.abs free).allocBytes c n).1 with
  | error e => intro h; exact h
  | ok m? =>
    cases m? with
    | none => intro h; exact h
    | some m => intro h; exact h.1

end Rarena.C06
