/-
  C13 — Handles give their memory back exactly once, and the arena outlives them.

  Full statement: a handle dropped without having been detached releases precisely its own buffer extent,
  once; a detached handle releases nothing; an owned handle releases exactly what the corresponding borrowed
  handle would; a value of a type that needs dropping is dropped exactly once when its non-detached handle is
  dropped. Owned handles and arena clones keep the backing memory (and file) alive: refs() equals the number
  of live arena values, counting the clone embedded in each owned handle; the memory is released exactly
  once, when that number reaches zero, and a file marked remove-on-drop disappears exactly then.

  Model: `Model/Handle.lean` (`Sess`: handle table, arena values, reference count, drop counter, `released`
  counter of `unmount` executions), after `Drop for BytesRefMut/BytesMut/RefMut/Owned`, `to_owned`,
  `Clone/Drop for Arena`. This file covers single-threaded histories in any order of clone / alloc* /
  to-owned / detach / drop (including dropping the original arena value first); the multi-threaded
  reference-count protocol is part of the concurrent model (see C12's teardown theorem and DESIGN.md).
-/
import RarenaVerif.Model.Handle
import RarenaVerif.Proofs.Mem

namespace Rarena.C13

/-! helper lemmas -/

theorem find_erase (x : Sess) (id : Nat) : (x.erase id).find id = none := by
  simp only [Sess.find, Sess.erase, Option.map_eq_none_iff, List.find?_eq_none]
  intro p hp
  simp only [List.mem_filter] at hp
  simpa using hp.2

theorem filter_ne_of_find_none (l : List (Nat × Handle)) (id : Nat)
    (h : l.find? (·.1 == id) = none) : l.filter (·.1 != id) = l := by
  rw [List.filter_eq_self]
  intro p hp
  rw [List.find?_eq_none] at h
  simpa using h p hp

theorem filter_erase_len (f : Handle → Bool) (l : List (Nat × Handle)) (id : Nat) (p : Nat × Handle)
    (hnd : (l.map (·.1)).Nodup) (hf : l.find? (·.1 == id) = some p) :
    (l.filter (fun q => f q.2)).length =
      ((l.filter (·.1 != id)).filter (fun q => f q.2)).length + (if f p.2 then 1 else 0) := by
  induction l with
  | nil => simp at hf
  | cons a l ih =>
    simp only [List.map_cons, List.nodup_cons] at hnd
    by_cases ha : a.1 = id
    · have h1 : (a.1 == id) = true := by simpa using ha
      have h2 : (a.1 != id) = false := by simpa using ha
      simp only [List.find?_cons, h1, Option.some.injEq] at hf
      subst hf
      have hnone : l.find? (·.1 == id) = none := by
        rw [List.find?_eq_none]
        intro q hq hq'
        apply hnd.1
        have : q.1 = a.1 := by rw [ha]; simpa using hq'
        rw [← this]
        exact List.mem_map_of_mem hq
      have e : (a :: l).filter (·.1 != id) = l := by
        rw [List.filter_cons, h2]
        simp only [Bool.false_eq_true, if_false]
        exact filter_ne_of_find_none l id hnone
      rw [e, List.filter_cons]
      split <;> simp
    · have h1 : (a.1 == id) = false := by simpa using ha
      have h2 : (a.1 != id) = true := by simpa using ha
      simp only [List.find?_cons, h1] at hf
      have := ih hnd.2 hf
      have e : (a :: l).filter (·.1 != id) = a :: l.filter (·.1 != id) := by
        rw [List.filter_cons, h2]
        simp only [if_true]
      rw [e, List.filter_cons, List.filter_cons]
      split <;> simp only [List.length_cons] at * <;> omega

/-- the `dealloc` call performed by dropping a handle: none for detached handles and for the handles of
    zero-size requests that hold nothing; otherwise exactly `(buffer_offset, buffer_capacity)` — the same for
    the owned and the borrowed handle -/
theorem release_extent (h : Handle) :
    (h.null = false → h.dropDealloc = some (h.mt.memOff, h.mt.memSize)) ∧
    (∀ h' : Handle, h'.mt = h.mt → h'.kind = h.kind → h'.null = h.null → h.null = false →
      h'.dropDealloc = h.dropDealloc) := by
  have key : ∀ g : Handle, g.null = false → g.dropDealloc = some (g.mt.memOff, g.mt.memSize) := by
    intro g hg
    unfold Handle.dropDealloc
    cases g.kind <;> simp [hg]
  refine ⟨key h, ?_⟩
  intro h' hm _ hn hnull
  rw [key h hnull, key h' (hn.trans hnull), hm]

/-- dropping a detached handle leaves the allocator state untouched -/
theorem detached_releases_nothing (x : Sess) (id : Nat) :
    ∃ x', x.dropHandle id true = .ok x' ∧ x'.st = x.st := by
  simp only [Sess.dropHandle, bind, Except.bind, pure, Except.pure]
  cases x.find id with
  | none => exact ⟨x, rfl, rfl⟩
  | some h =>
    simp only [if_true]
    refine ⟨_, rfl, ?_⟩
    simp only [Sess.decRef, Sess.erase]
    split <;> split <;> rfl

/-- dropping a handle removes it from the table: it cannot release a second time -/
theorem released_once (x x' : Sess) (id : Nat) (d : Bool) (h : x.dropHandle id d = .ok x') :
    x'.find id = none ∧ ∀ x'', x'.dropHandle id d = .ok x'' → x'' = x' := by
  have hnone : x'.find id = none := by
    simp only [Sess.dropHandle, bind, Except.bind, pure, Except.pure] at h
    cases hfi : x.find id with
    | none =>
      simp only [hfi, Except.ok.injEq] at h
      rw [← h]; exact hfi
    | some hd =>
      simp only [hfi] at h
      have he := find_erase x id
      split at h
      · cases h
      · rename_i y hy
        simp only [Except.ok.injEq] at h
        have hy' : y.find id = none := by
          split at hy
          · simp only [Except.ok.injEq] at hy
            rw [← hy]
            split
            · exact he
            · exact he
          · split at hy
            · cases hy
            · simp only [Except.ok.injEq] at hy
              rw [← hy]
              split
              · exact he
              · exact he
        rw [← h]
        split
        · exact hy'
        · exact hy'
  refine ⟨hnone, ?_⟩
  intro x'' h2
  simp only [Sess.dropHandle, hnone, pure, Except.pure, Except.ok.injEq] at h2
  exact h2.symm

/-- a non-detached, non-null handle performs exactly one `dealloc(buffer_offset, buffer_capacity)` -/
theorem drop_deallocs (x : Sess) (id : Nat) (hd : Handle) (hf : x.find id = some hd) (hn : hd.null = false) :
    x.dropHandle id false =
      (do let (_, st) ← dealloc x.cfg x.st hd.mt.memOff hd.mt.memSize x.fuel
          let x1 := x.erase id
          let x2 := if hd.dropsValue false then { x1 with dropCount := x1.dropCount + 1 } else x1
          let x3 := { x2 with st := st }
          pure (if hd.holdsArena then x3.decRef else x3)) := by
  have hdd : hd.dropDealloc = some (hd.mt.memOff, hd.mt.memSize) := (release_extent hd).1 hn
  simp only [Sess.dropHandle, hf, hdd, bind, Except.bind, pure, Except.pure, Bool.false_eq_true, if_false]
  have e1 : ∀ y : Sess, (if hd.dropsValue false = true then { y with dropCount := y.dropCount + 1 } else y).cfg = y.cfg ∧
      (if hd.dropsValue false = true then { y with dropCount := y.dropCount + 1 } else y).st = y.st ∧
      (if hd.dropsValue false = true then { y with dropCount := y.dropCount + 1 } else y).fuel = y.fuel := by
    intro y; split <;> exact ⟨rfl, rfl, rfl⟩
  obtain ⟨c1, c2, c3⟩ := e1 (x.erase id)
  rw [c1, c2, c3]
  have e2 : (x.erase id).cfg = x.cfg ∧ (x.erase id).st = x.st ∧ (x.erase id).fuel = x.fuel := ⟨rfl, rfl, rfl⟩
  rw [e2.1, e2.2.1, e2.2.2]
  cases dealloc x.cfg x.st hd.mt.memOff hd.mt.memSize x.fuel with
  | error e => rfl
  | ok r => rfl

theorem drop_shape (x x' : Sess) (id : Nat) (d : Bool) (hd : Handle) (hf : x.find id = some hd)
    (h : x.dropHandle id d = .ok x') :
    x'.handles = x.handles.filter (·.1 != id) ∧ x'.arenas = x.arenas ∧
    x'.dropCount = x.dropCount + (if hd.dropsValue d = true then 1 else 0) ∧
    x'.refs = (if hd.holdsArena = true then x.refs - 1 else x.refs) ∧
    x'.released = (if hd.holdsArena = true then (if x.refs = 1 then x.released + 1 else x.released)
                   else x.released) := by
  simp only [Sess.dropHandle, hf, bind, Except.bind, pure, Except.pure] at h
  split at h
  · cases h
  · rename_i y hy
    simp only [Except.ok.injEq] at h
    have hy' : y.handles = x.handles.filter (·.1 != id) ∧ y.arenas = x.arenas ∧
        y.dropCount = x.dropCount + (if hd.dropsValue d = true then 1 else 0) ∧
        y.refs = x.refs ∧ y.released = x.released := by
      split at hy
      · simp only [Except.ok.injEq] at hy
        rw [← hy]
        split <;> exact ⟨rfl, rfl, rfl, rfl, rfl⟩
      · split at hy
        · cases hy
        · simp only [Except.ok.injEq] at hy
          rw [← hy]
          split <;> exact ⟨rfl, rfl, rfl, rfl, rfl⟩
    obtain ⟨a1, a2, a3, a4, a5⟩ := hy'
    rw [← h]
    split
    · refine ⟨a1, a2, a3, ?_, ?_⟩
      · show y.refs - 1 = _
        rw [a4]
      · show (if y.refs = 1 then y.released + 1 else y.released) = _
        rw [a4, a5]
    · exact ⟨a1, a2, a3, a4, a5⟩

/-- the value of a `needs_drop` type is dropped exactly when its non-detached handle is dropped -/
theorem value_dropped_once (x x' : Sess) (id : Nat) (d : Bool) (hd : Handle) (hf : x.find id = some hd)
    (h : x.dropHandle id d = .ok x') :
    x'.dropCount = x.dropCount + (if hd.kind = .slot ∧ d = false ∧ hd.null = false then 1 else 0) := by
  obtain ⟨_, _, a3, _, _⟩ := drop_shape x x' id d hd hf h
  rw [a3]
  congr 1
  have e : (hd.dropsValue d = true) ↔ (hd.kind = .slot ∧ d = false ∧ hd.null = false) := by
    simp [Handle.dropsValue, and_assoc]
  by_cases hc : hd.dropsValue d = true
  · rw [if_pos hc, if_pos (e.mp hc)]
  · rw [if_neg hc, if_neg (fun h' => hc (e.mpr h'))]

/-- `refs()` = live arena values + owned handles holding a clone, and `unmount` ran exactly when it reached 0:
    preserved by every operation, in any order -/
theorem refs_clone (x : Sess) (id : Nat) (h : x.refsOK) (hpos : 0 < x.refs) : (x.cloneArena id).refsOK := by
  obtain ⟨h1, h2⟩ := h
  refine ⟨?_, ?_⟩
  · simp only [Sess.cloneArena, List.length_cons]; omega
  · have hr : x.released = 0 := by rw [h2]; exact if_neg (by omega)
    show x.released = if x.refs + 1 = 0 then 1 else 0
    rw [hr]; exact (if_neg (by omega)).symm

theorem refs_drop_arena (x : Sess) (id : Nat) (h : x.refsOK) (hpos : 0 < x.refs) (hnd : x.arenas.Nodup) :
    (x.dropArena id).refsOK := by
  obtain ⟨h1, h2⟩ := h
  unfold Sess.dropArena
  split
  · rename_i hc
    have hm : id ∈ x.arenas := by simpa using hc
    have hl := List.length_erase_of_mem hm
    have hp : 0 < x.arenas.length := List.length_pos_of_mem hm
    refine ⟨?_, ?_⟩
    · simp only [Sess.decRef]; omega
    · have hr : x.released = 0 := by rw [h2]; exact if_neg (by omega)
      show (if x.refs = 1 then x.released + 1 else x.released) = if x.refs - 1 = 0 then 1 else 0
      rw [hr]
      by_cases h1' : x.refs = 1
      · rw [if_pos h1', if_pos (by omega)]
      · rw [if_neg h1', if_neg (by omega)]
  · exact ⟨h1, h2⟩

theorem refs_add_handle (x : Sess) (id : Nat) (m : Option Meta) (k : HKind) (owned : Bool) (h : x.refsOK)
    (hpos : 0 < x.refs) (hfresh : x.find id = none) : (x.addHandle id m k owned).refsOK := by
  obtain ⟨h1, h2⟩ := h
  have hfn : x.handles.find? (·.1 == id) = none := by
    simpa [Sess.find] using hfresh
  have hfl := filter_ne_of_find_none x.handles id hfn
  simp only [Sess.addHandle]
  split
  · rename_i hh
    refine ⟨?_, ?_⟩
    · simp only [Sess.put]
      rw [hfl, List.filter_cons, if_pos hh, List.length_cons]; omega
    · have hr : x.released = 0 := by rw [h2]; exact if_neg (by omega)
      show x.released = if x.refs + 1 = 0 then 1 else 0
      rw [hr]; exact (if_neg (by omega)).symm
  · rename_i hh
    refine ⟨?_, ?_⟩
    · simp only [Sess.put]
      rw [hfl, List.filter_cons, if_neg hh]; exact h1
    · exact h2

theorem refs_drop_handle (x x' : Sess) (id : Nat) (d : Bool) (h : x.refsOK) (hpos : 0 < x.refs)
    (hnd : (x.handles.map (·.1)).Nodup) (hx : x.dropHandle id d = .ok x') : x'.refsOK := by
  obtain ⟨h1, h2⟩ := h
  cases hf : x.find id with
  | none =>
    simp only [Sess.dropHandle, hf, pure, Except.pure, Except.ok.injEq] at hx
    rw [← hx]; exact ⟨h1, h2⟩
  | some hd =>
    obtain ⟨a1, a2, _, a4, a5⟩ := drop_shape x x' id d hd hf hx
    have hr : x.released = 0 := by rw [h2]; exact if_neg (by omega)
    simp only [Sess.find, Option.map_eq_some_iff] at hf
    obtain ⟨p, hp, rfl⟩ := hf
    have hl := filter_erase_len Handle.holdsArena x.handles id p hnd hp
    unfold Sess.refsOK
    rw [a1, a2, a4, a5, hr]
    by_cases hh : p.2.holdsArena = true
    · rw [if_pos hh] at hl
      simp only [if_pos hh]
      refine ⟨by omega, ?_⟩
      by_cases h1' : x.refs = 1
      · rw [if_pos h1', if_pos (by omega)]
      · rw [if_neg h1', if_neg (by omega)]
    · rw [if_neg hh] at hl
      simp only [if_neg hh]
      refine ⟨by omega, ?_⟩
      rw [if_neg (by omega)]

/-- the memory is released exactly once: after the count reached zero nothing is left that could release it again -/
theorem unmount_once (x : Sess) (h : x.refsOK) (hz : x.refs = 0) :
    x.released = 1 ∧ x.arenas = [] ∧ ∀ p ∈ x.handles, p.2.holdsArena = false := by
  obtain ⟨h1, h2⟩ := h
  rw [hz] at h1
  refine ⟨by rw [h2, if_pos hz], ?_, ?_⟩
  · apply List.eq_nil_of_length_eq_zero; omega
  · intro p hp
    have h0 : (x.handles.filter (fun p => p.2.holdsArena)).length = 0 := by omega
    have := List.eq_nil_of_length_eq_zero h0
    rw [List.filter_eq_nil_iff] at this
    simpa using this p hp

theorem find_put (x : Sess) (id : Nat) (h : Handle) : (x.put id h).find id = some h := by
  simp [Sess.find, Sess.put]

/-- `hold` (a detached owned buffer kept alive, e.g. across a `truncate`): the allocator state, the reference count and
the drop counter are untouched, and the later drop of the handle releases nothing, drops no value and gives back exactly
one reference -/
theorem held_releases_nothing (x : Sess) (id : Nat) :
    (x.hold id).st = x.st ∧ (x.hold id).refs = x.refs ∧ (x.hold id).dropCount = x.dropCount ∧
    ∀ hd, x.find id = some hd → hd.kind = .bytes → hd.owned = true → hd.null = false →
      ∃ x', (x.hold id).dropHandle id false = .ok x' ∧ x'.st = x.st ∧ x'.dropCount = x.dropCount ∧
        x'.refs = x.refs - 1 := by
  refine ⟨?_, ?_, ?_, ?_⟩
  · unfold Sess.hold; split
    · split <;> simp [Sess.put]
    · rfl
  · unfold Sess.hold; split
    · split <;> simp [Sess.put]
    · rfl
  · unfold Sess.hold; split
    · split <;> simp [Sess.put]
    · rfl
  · intro hd hf hk ho hn
    have hh : x.hold id = x.put id { hd with kind := .obj, null := true } := by
      unfold Sess.hold; rw [hf]; simp [hk, ho, hn]
    rw [hh]
    simp only [Sess.dropHandle, find_put, bind, Except.bind, pure, Except.pure, Handle.dropsValue,
      Handle.dropDealloc, Handle.holdsArena, ho]
    simp [Sess.decRef, Sess.erase, Sess.put]

/-! non-vacuity -/
def ex0 : Option Sess := Sess.init { sync := true, kind := .opt, unify := true, file := false, reserved := 0, cap := 256,
                                       minSeg := 8, retries := 5, magic := 0 }
example : (ex0.map (fun x => decide (x.refs = 1 ∧ x.arenas.length = 1))) = some true := by decide +kernel

end Rarena.C13
