/-
  C20 — discarded() is monotone; discard_freelist empties the list and accounts for it.

  Full statement: discarded() never decreases except through clear(); increase_discarded(n) raises it by n;
  with Freelist::None every release that is not on top raises it by the released size; a release too small to
  become a segment raises it by its size and is never reused; discard_freelist() returns the sum of the data
  sizes of the segments that were on the list, raises discarded() by exactly that amount, leaves the list
  empty so that later requests can only be served from fresh space, and fails with ReadOnly on a read-only arena.

  The counter is a wrapping `u32` in both flavours: "raises by n" is `(d + n) mod 2^32`, "never decreases"
  is stated as: every step adds a non-negative amount modulo 2^32.
-/
import RarenaVerif.Gen.Orderings
import RarenaVerif.Props.Common

namespace Rarena.C20

theorem slow_nil (c : Cfg) (a : A) (n : Nat) (hro : c.ro = false) (hf : a.free = []) :
    a.slow c n = (.error .insufficient, a) := by
  unfold A.slow
  cases hk : c.kind <;> simp [hro, hf, takeFirst]

/-- every call of a history changes `discarded` only by adding something (mod 2^32); `clear` (now a call of the
    histories) resets the counter to 0 — the exception the property names — which this wrapping formulation also
    covers (`C17.clear_in_history` gives the exact value: the cleared state represents `A.fresh`, `discarded = 0`) -/
theorem monotone (o : Opts) (g : Guards o) (fuel : Nat) (hfuel : o.cap + 2 ≤ fuel) (x : CSess)
    (hr : Reachable o fuel x) (op : COp) (hop : op.ok) :
    ∃ x' d, cstep o.cfg fuel x op = .ok x' ∧ x'.st.discarded = (x.st.discarded + d) % TWO32 := by
  obtain ⟨h, free, hrel, hcap⟩ := reachable_rel o g fuel hfuel x hr
  obtain ⟨x', free', e, hrel', _⟩ := sim_step o.cfg x h free op fuel hrel rfl hop (by omega)
  have h1 : x.st.discarded = h.a.discarded := by rw [← hrel.abs]; rfl
  have h2 : x'.st.discarded = (h.stepOpt o.cfg op.abs).a.discarded := by rw [← hrel'.abs]; rfl
  have hlt : x.st.discarded < TWO32 := hrel.cinv.wf.disc
  have hsame : x.st.discarded = (x.st.discarded + 0) % TWO32 := by
    rw [Nat.add_zero, Nat.mod_eq_of_lt hlt]
  refine ⟨x', ?_⟩
  cases op with
  | fill i b =>
    refine ⟨0, e, ?_⟩
    rw [h2]; simp only [COp.abs, HState.stepOpt]; rw [← h1]; exact hsame
  | op o' =>
    simp only [COp.abs, HState.stepOpt] at h2
    obtain ⟨d, hd | hd⟩ := step_discarded o.cfg h o'
    · exact ⟨d, e, by rw [h2, hd, h1]⟩
    · exact ⟨0, e, by rw [h2, hd, ← h1]; exact hsame⟩

theorem increase_exact (c : Cfg) (s : St) (n : Nat) (hro : c.ro = false) :
    (s.incDiscarded c n).discarded = (s.discarded + n) % TWO32 := by
  simp [St.incDiscarded, hro]

/-- Freelist::None: a release that is not on top adds the released size, nothing is linked -/
theorem none_release_adds_size (c : Cfg) (s : St) (free : List Seg) (lives : List Ext) (m : Meta) (fuel : Nat)
    (hinv : CInv c s free lives) (hk : c.kind = .none) (hro : c.ro = false) (hm : m.owned ∈ lives)
    (hne : m.memSize ≠ 0) (hnt : s.allocated ≠ m.memOff + m.memSize) (hfuel : free.length + 2 ≤ fuel) :
    ∃ s', dealloc c s m.memOff m.memSize fuel = .ok (true, s') ∧
      s'.discarded = (s.discarded + m.memSize) % TWO32 ∧ s'.allocated = s.allocated ∧ s'.sentinel = s.sentinel := by
  obtain ⟨s', e1, st, hc⟩ := dealloc_refines c s free lives m fuel hinv hro hm hne hfuel
  have hr : (s.abs free).dealloc c m.memOff m.memSize = (true, (s.abs free).incDiscarded c m.memSize) := by
    unfold A.dealloc
    rw [if_neg (by simpa [St.abs] using hnt)]
    simp only [hk]
  rw [hr] at e1 st hc
  simp only at e1 st hc
  obtain ⟨v1, v2, v3⟩ := incDiscarded_val c (s.abs free) m.memSize hro
  have habs := st.abs
  have hd : s'.discarded = ((s.abs free).incDiscarded c m.memSize).discarded := by rw [← habs]; rfl
  have ha : s'.allocated = ((s.abs free).incDiscarded c m.memSize).allocated := by rw [← habs]; rfl
  refine ⟨s', e1, by rw [hd, v1]; rfl, by rw [ha, v3]; rfl, ?_⟩
  rw [hc.sent, hinv.sent, v2]; rfl

/-- a release that is not on top either becomes a segment (discarded grows by the 8 header bytes) or is too small
    (discarded grows by its whole size and the list is unchanged, so those bytes are never handed out again) -/
theorem release_accounting (c : Cfg) (a : A) (off size : Nat) (hro : c.ro = false) (h0 : off ≠ 0) (hs : size ≠ 0) :
    let r := a.freelistDealloc c off size
    (r.1 = false ∧ r.2.free = a.free ∧ r.2.discarded = (a.discarded + size) % TWO32) ∨
    (r.1 = true ∧ r.2.discarded = (a.discarded + NODE) % TWO32 ∧
      ∃ seg, r.2.free = insertSeg c.kind seg a.free ∧ off ≤ seg.off ∧ seg.hi = off + size) :=
  freelistDealloc_accounting c a off size hro h0 hs

/-- `discard_freelist`: returns the sum of the sizes, adds exactly that, empties the list -/
theorem discard_freelist_spec (c : Cfg) (s : St) (free : List Seg) (lives : List Ext) (fuel : Nat)
    (hinv : CInv c s free lives) (hk : c.kind ≠ .none) (hro : c.ro = false) (hfuel : free.length + 2 ≤ fuel) :
    ∃ s', discardFreelist c s fuel = .ok (.ok ((free.map (·.size)).sum), s') ∧
      s'.discarded = (s.discarded + (free.map (·.size)).sum) % TWO32 ∧
      s'.sentinel = enc MAXU32 MAXU32 ∧ s'.allocated = s.allocated ∧ CInv c s' [] lives := by
  obtain ⟨s', e1, st, hc⟩ := discardFreelist_refines c s free lives fuel hinv hfuel
  have hlt : (s.abs free).discarded < TWO32 := hinv.wf.disc
  rcases discardFreelist_spec c (s.abs free) hro hk with hsp | hge
  · rw [hsp] at e1 st hc
    simp only at e1 st hc
    have habs := st.abs
    refine ⟨s', e1, ?_, ?_, ?_, hc⟩
    · have : s'.discarded = _ := congrArg A.discarded habs
      exact this
    · rw [hc.sent]; rfl
    · have : s'.allocated = _ := congrArg A.allocated habs
      exact this
  · omega

/-- … so that later requests can only be served from fresh space -/
theorem after_discard_only_fresh (c : Cfg) (s : St) (lives : List Ext) (fuel n : Nat)
    (hinv : CInv c s [] lives) (hro : c.ro = false) (hn : 0 < n ∧ n < TWO32) (hfull : s.cap < s.allocated + n)
    (hfuel : 2 ≤ fuel) : allocBytes c s n fuel = .ok (.error .insufficient, s) := by
  have href := allocBytes_refines c s [] lives n fuel hinv hn.2 (by simpa using hfuel)
  have habs : (s.abs []).allocBytes c n = (.error .insufficient, s.abs []) := by
    unfold A.allocBytes
    rw [if_neg (by simp [hro]), if_neg (by omega), if_neg (by simp only [St.abs]; omega)]
    simp only [A.slowEntry, slow_nil c (s.abs []) n hro rfl]
  rw [habs] at href
  obtain ⟨s', e1, _, hm⟩ := href
  simp only at e1 hm
  subst hm
  exact e1

theorem discard_freelist_read_only (c : Cfg) (s : St) (fuel : Nat) (hro : c.ro = true) :
    discardFreelist c s fuel = .ok (.error .readOnly, s) := by
  unfold discardFreelist
  rw [if_pos hro]; rfl


/-! ### concurrent accounting: the shape of the code, re-checked against the regenerated call-site table -/

/-- `discarded` is only ever read or increased by an atomic `fetch_add`: no interleaving can lose an increment or make
    the counter decrease -/
theorem discarded_only_fetch_add :
    ∀ s ∈ Gen.sites, s.loc = "discarded" → s.kind = "load" ∨ s.kind = "fetch_add" := by
  decide

/-! ### the minimum segment size in force -/

/-- the release rule, exactly: a release that is not on top becomes a segment iff what is left of it after the alignment
padding and the 8 header bytes is non-empty and at least the minimum segment size IN FORCE (the value in the header now) -/
theorem release_rule (c : Cfg) (a : A) (off size : Nat) (h0 : off ≠ 0) (hs : size ≠ 0) :
    ((a.freelistDealloc c off size).1 = true ↔
      (alignUp 8 off - off) + NODE < size ∧ a.minSeg ≤ size - ((alignUp 8 off - off) + NODE)) := by
  unfold A.freelistDealloc A.tryNew
  rw [if_neg (by omega)]
  simp only
  by_cases h1 : (alignUp 8 off - off) + NODE ≥ size
  · rw [if_pos h1]; simp only; constructor
    · intro h; cases h
    · intro h; omega
  · rw [if_neg h1]
    by_cases h2 : size - ((alignUp 8 off - off) + NODE) < a.minSeg
    · rw [if_pos h2]; simp only; constructor
      · intro h; cases h
      · intro h; omega
    · rw [if_neg h2]; simp only; constructor
      · intro _; omega
      · intro _; trivial

/-- `set_minimum_segment_size(n)` on a writable arena: the minimum in force IS `n` afterwards (whatever it was — it can
be lowered as well as raised) and nothing else changes; so by `release_rule` the very next release is judged against `n` -/
theorem minimum_in_force (c : Cfg) (s : St) (n : Nat) (hro : c.ro = false) :
    (setMinSeg c s n).minSeg = n ∧ (setMinSeg c s n).mem = s.mem ∧ (setMinSeg c s n).allocated = s.allocated ∧
    (setMinSeg c s n).discarded = s.discarded ∧ (setMinSeg c s n).sentinel = s.sentinel ∧
    ∀ free, ((setMinSeg c s n).abs free) = { s.abs free with minSeg := n } := by
  simp [setMinSeg, hro, St.abs, St.cap]

example : ((({ cap := 256, allocated := 200, minSeg := 4, discarded := 0, free := [] } : A).freelistDealloc
    { sync := false, kind := .opt, ro := false, unify := false, reserved := 0, retries := 5, dataOffset := 1 } 17 24).1 = true) := by decide

end Rarena.C20
