/-
  Props.Common — vocabulary shared by the property files: reachable states of the concrete model.
-/
import RarenaVerif.Proofs.Sim

namespace Rarena

/-- guards under which the theorems are stated: the capacity leaves room for the unchecked addition inside
    `align_offset` (DESIGN.md, C04: `cap + 8192 ≤ 2^32`), option values are `u32` / `u8` values -/
structure Guards (o : Opts) : Prop where
  cap : o.cap + 8192 ≤ TWO32
  minSeg : o.minSeg < TWO32
  retries : o.retries ≤ 255

/-- the initial concrete session of an arena created with options `o` -/
def CSess.start (s : St) : CSess := { st := s, held := [], detached := [] }

/-- `x` is reached from a fresh arena with options `o` by some history of API calls (allocations, releases,
    detaches, the mutators, `clear`, `truncate` — the latter only for the `unsync` flavour and up to the capacity
    the traversal fuel of the model covers, see `COp.fits` — and client writes) -/
def Reachable (o : Opts) (fuel : Nat) (x : CSess) : Prop :=
  ∃ s ops, o.init = some s ∧ (∀ op ∈ ops, COp.ok op) ∧ (∀ op ∈ ops, COp.fits o.cfg fuel op) ∧
    crun o.cfg fuel (CSess.start s) ops = .ok x

theorem Opts.cfg_sync (o : Opts) : o.cfg.sync = o.sync := rfl

/-- the sync flavour has no `truncate` -/
theorem COp.fits_sync {c : Cfg} {fuel : Nat} {op : COp} (hs : c.sync = true) (h : op.fits c fuel) :
    op.isTruncate = false := by
  cases op with
  | fill i b => rfl
  | op o =>
    cases o
    case truncate n =>
      simp only [COp.fits, hs] at h
      exact absurd h.1 (by simp)
    all_goals rfl

/-- an operation other than `truncate` fits every flavour and every fuel -/
theorem COp.fits_of_not_truncate {c : Cfg} {fuel : Nat} {op : COp} (h : op.isTruncate = false) : op.fits c fuel := by
  cases op with
  | fill i b => trivial
  | op o =>
    cases o
    case truncate n => simp [COp.isTruncate] at h
    all_goals trivial

theorem Opts.cfg_ro (o : Opts) : o.cfg.ro = false := rfl

theorem Opts.cfg_dataOffset (o : Opts) : o.cfg.dataOffset = o.dataOffset := rfl

/-- running a history and then one more call -/
theorem crun_append (c : Cfg) (fuel : Nat) (x : CSess) (ops : List COp) (op : COp) :
    crun c fuel x (ops ++ [op]) = (do let x' ← crun c fuel x ops; cstep c fuel x' op) := by
  induction ops generalizing x with
  | nil =>
    simp only [List.nil_append, crun, bind, Except.bind, pure, Except.pure]
    cases cstep c fuel x op <;> rfl
  | cons o ops ih =>
    simp only [List.cons_append, crun, bind, Except.bind]
    cases h : cstep c fuel x o with
    | error e => rfl
    | ok x1 => simpa [bind, Except.bind] using ih x1

/-- the start session is related to the initial abstract history state and has the configured capacity -/
theorem start_rel (o : Opts) (g : Guards o) (s : St) (hs : o.init = some s) :
    Rel o.cfg (CSess.start s) (HState.init o.cap o.dataOffset o.minSeg) [] ∧ s.cap = o.cap :=
  ⟨sim_init o s hs g.cap g.minSeg g.retries, (init_cinv o s hs g.cap g.minSeg g.retries).2.2.1⟩

/-- everything the simulation says about a whole history from a fresh arena; the capacity stays covered by the
    fuel, and is the configured one unless the history truncates -/
theorem run_rel (o : Opts) (g : Guards o) (fuel : Nat) (hfuel : o.cap + 2 ≤ fuel) (s : St)
    (hs : o.init = some s) (ops : List COp) (hops : ∀ op ∈ ops, COp.ok op)
    (hfits : ∀ op ∈ ops, COp.fits o.cfg fuel op) :
    ∃ x h free, crun o.cfg fuel (CSess.start s) ops = .ok x ∧ Rel o.cfg x h free ∧
      (x.st.cap + 2 ≤ fuel ∧ ((∀ op ∈ ops, op.isTruncate = false) → x.st.cap = o.cap)) ∧
      PrefixIntact o.cfg s x.st := by
  obtain ⟨hr, hc⟩ := start_rel o g s hs
  obtain ⟨x, free, e, hrel, ⟨hf, hsz⟩, hpre⟩ := sim_run o.cfg (CSess.start s) _ [] ops fuel hr o.cfg_ro hops hfits
    (by show s.cap + 2 ≤ fuel; omega)
  refine ⟨x, _, free, e, hrel, ⟨hf, fun hnt => ?_⟩, hpre⟩
  show x.st.mem.size = o.cap
  rw [hsz hnt]; exact hc

-- CHANGED (histories now contain `truncate`): the capacity of a reachable state is no longer `o.cap` in general;
-- it is covered by the fuel, and it is `o.cap` for the sync flavour (whose histories contain no `truncate`).
/-- every reachable state satisfies the simulation relation with the abstract history state -/
theorem reachable_rel (o : Opts) (g : Guards o) (fuel : Nat) (hfuel : o.cap + 2 ≤ fuel) (x : CSess)
    (hr : Reachable o fuel x) :
    ∃ h free, Rel o.cfg x h free ∧ x.st.cap + 2 ≤ fuel ∧ (o.sync = true → x.st.cap = o.cap) := by
  obtain ⟨s, ops, hs, hops, hfits, hrun⟩ := hr
  obtain ⟨x', h, free, e, hrel, ⟨hf, hc⟩, _⟩ := run_rel o g fuel hfuel s hs ops hops hfits
  rw [hrun] at e
  cases e
  exact ⟨h, free, hrel, hf, fun hsync => hc (fun op hop => COp.fits_sync hsync (hfits op hop))⟩

-- CHANGED (histories now contain `truncate`): the capacity is the configured one for the sync flavour only.
/-- every reachable state satisfies the concrete invariant (for its abstract free list and the extents of its
    handles), the fuel suffices for every traversal, and the capacity is the configured one unless truncated -/
theorem reachable_cinv (o : Opts) (g : Guards o) (fuel : Nat) (hfuel : o.cap + 2 ≤ fuel) (x : CSess)
    (hr : Reachable o fuel x) :
    ∃ free lives, CInv o.cfg x.st free lives ∧ free.length + 2 ≤ fuel ∧ (o.sync = true → x.st.cap = o.cap) := by
  obtain ⟨h, free, hrel, hf, hc⟩ := reachable_rel o g fuel hfuel x hr
  exact ⟨free, h.lives, hrel.cinv, sim_fuel hrel hf, hc⟩

/-- reading a refinement statement with the concrete result at hand -/
theorem AllocRefines.out {c : Cfg} {s : St} {free : List Seg} {lives : List Ext} {r : AOut × A}
    {res : M (AllocOut × St)} {zero : Bool} (href : AllocRefines c s free lives r res zero)
    {out : AllocOut} {st' : St} (h : res = .ok (out, st')) :
    r = (out, r.2) ∧ StepOK c s st' r.2 lives ∧
      match (generalizing := false) out with
      | .ok (some m) => CInv c st' r.2.free (m.owned :: lives) ∧ (zero = true → Zeroed st' m)
      | _ => st' = s := by
  obtain ⟨s', e1, st, hm⟩ := href
  rw [h] at e1
  simp only [Except.ok.injEq, Prod.mk.injEq] at e1
  obtain ⟨rfl, rfl⟩ := e1
  exact ⟨rfl, st, hm⟩

/-- every history runs to completion: no trap (no unchecked arithmetic overflow, no out-of-bounds access),
    no divergence -/
theorem histories_complete (o : Opts) (g : Guards o) (fuel : Nat) (hfuel : o.cap + 2 ≤ fuel) (s : St)
    (hs : o.init = some s) (ops : List COp) (hops : ∀ op ∈ ops, COp.ok op)
    (hfits : ∀ op ∈ ops, COp.fits o.cfg fuel op) :
    ∃ x, crun o.cfg fuel (CSess.start s) ops = .ok x := by
  obtain ⟨x, _, _, e, _⟩ := run_rel o g fuel hfuel s hs ops hops hfits
  exact ⟨x, e⟩

/-- one more call from a reachable state also completes, and reaches a reachable state -/
theorem reachable_step (o : Opts) (g : Guards o) (fuel : Nat) (hfuel : o.cap + 2 ≤ fuel) (x : CSess)
    (hr : Reachable o fuel x) (op : COp) (hop : op.ok) (hfit : op.fits o.cfg fuel) :
    ∃ x', cstep o.cfg fuel x op = .ok x' ∧ Reachable o fuel x' := by
  obtain ⟨h, free, hrel, hc, _⟩ := reachable_rel o g fuel hfuel x hr
  obtain ⟨x', _, e, _⟩ := sim_step o.cfg x h free op fuel hrel o.cfg_ro hop hc
  obtain ⟨s, ops, hs, hops, hfits, hrun⟩ := hr
  refine ⟨x', e, s, ops ++ [op], hs, ?_, ?_, ?_⟩
  · intro p hp
    rcases List.mem_append.1 hp with hp | hp
    · exact hops p hp
    · simp only [List.mem_singleton] at hp; subst hp; exact hop
  · intro p hp
    rcases List.mem_append.1 hp with hp | hp
    · exact hfits p hp
    · simp only [List.mem_singleton] at hp; subst hp; exact hfit
  · rw [crun_append, hrun]; exact e

end Rarena
