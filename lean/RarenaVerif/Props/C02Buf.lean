/-
  C02 / C12 (buffer side) — a handle's own safe writers never change a byte outside the handle.

  The concurrent properties speak of the ranges the arena hands out; what the OWNER of a range then does through the
  handle's checked writers (`put_*`, `put_slice`, `set_len`, `put_aligned`, the LEB128 puts) is part of them, because
  the bytes next to the range belong to another owner, possibly on another thread, and nothing orders the two. Here
  the frame statements of C14 are restated in the one form the concurrent reading needs: whatever the writer returns,
  every byte outside `[ptrOff, ptrOff + ptrSize)` — the accessible range of the handle — is what it was. The check
  runs buffer histories on the implementation with the oracle "handle writes outside" (`vext.seq_side_stage`).
-/
import RarenaVerif.Props.C14

namespace Rarena.C02Buf
open Rarena

theorem widen (m m' : Mem) (lo hi lo' hi' : Nat) (h : m.sameOutside m' lo hi) (h1 : lo' ≤ lo) (h2 : hi ≤ hi') :
    m.sameOutside m' lo' hi' :=
  ⟨h.1, fun i hi_ => h.2 i (by omega)⟩

/-- fixed-width put: success or `InsufficientBuffer`; on success nothing outside the handle changed -/
theorem put_inside (mem : Mem) (h : Handle) (t : IntTy) (o : Order) (v : Int) :
    (∃ mem' h', bufPut mem h t o v = .ok (mem', h') ∧
        mem.sameOutside mem' h.mt.ptrOff (h.mt.ptrOff + h.mt.ptrSize)) ∨
    bufPut mem h t o v = .error .insufficient := by
  by_cases hfit : h.len + t.bytes ≤ h.mt.ptrSize
  · obtain ⟨mem', h', e, _, _, hs⟩ := C14.put_ok mem h t o v hfit
    exact .inl ⟨mem', h', e, widen _ _ _ _ _ _ hs (by omega) (by omega)⟩
  · exact .inr (C14.put_err mem h t o v hfit)

theorem put_slice_inside (mem : Mem) (h : Handle) (l : Nat) (b : UInt8) :
    (∃ mem' h', bufPutSlice mem h l b = .ok (mem', h') ∧
        mem.sameOutside mem' h.mt.ptrOff (h.mt.ptrOff + h.mt.ptrSize)) ∨
    bufPutSlice mem h l b = .error .insufficient := by
  by_cases hfit : h.len + l ≤ h.mt.ptrSize
  · obtain ⟨mem', h', e, _, hs, _⟩ := C14.put_slice_ok mem h l b hfit
    exact .inl ⟨mem', h', e, widen _ _ _ _ _ _ hs (by omega) (by omega)⟩
  · exact .inr (C14.put_slice_err mem h l b hfit)

/-- `set_len(n)` for every `n` the call accepts (`n ≤ capacity`; above it the code panics before writing) -/
theorem set_len_inside (mem : Mem) (h : Handle) (n : Nat) (hn : n ≤ h.mt.ptrSize) (hl : h.len ≤ h.mt.ptrSize)
    (hin : h.inMem mem) :
    ∃ mem' h', bufSetLen mem h n = .ok (mem', h') ∧ mem.sameOutside mem' h.mt.ptrOff (h.mt.ptrOff + h.mt.ptrSize) := by
  obtain ⟨mem', h', e, _, _, hs, _⟩ := C14.set_len_zeroes mem h n hn hin
  exact ⟨mem', h', e, widen _ _ _ _ _ _ hs (by omega) (by omega)⟩

/-- `put_aligned::<T>`: the padding and the value both lie inside the handle, or the call fails -/
theorem put_aligned_inside (mem : Mem) (h : Handle) (ta ts : Nat) (b : UInt8)
    (hta : ta = 1 ∨ ta = 2 ∨ ta = 4 ∨ ta = 8 ∨ ta = 16) (hts : ts ≠ 0)
    (hsmall : h.mt.ptrOff + h.mt.ptrSize + 16 < TWO32) (hlen : h.len ≤ h.mt.ptrSize) :
    (∃ p mem' h', bufPutAligned mem h ta ts b = .ok (.ok (some p, mem', h')) ∧
        mem.sameOutside mem' h.mt.ptrOff (h.mt.ptrOff + h.mt.ptrSize)) ∨
    bufPutAligned mem h ta ts b = .ok (.error .insufficient) := by
  rcases C14.put_aligned_spec mem h ta ts b hta hts hsmall hlen with ⟨p, mem', h', e, _, h1, h2, _, hs⟩ | e
  · exact .inl ⟨p, mem', h', e, widen _ _ _ _ _ _ hs (by omega) (by omega)⟩
  · exact .inr e

/-- a LEB128 put, successful or not, stays inside the handle -/
theorem put_varint_inside (mem : Mem) (h : Handle) (t : IntTy) (v : Int) (hlen : h.len ≤ h.mt.ptrSize) :
    mem.sameOutside (bufPutVarint mem h t v).1 h.mt.ptrOff (h.mt.ptrOff + h.mt.ptrSize) :=
  widen _ _ _ _ _ _ (C14.put_varint_frame mem h t v hlen) (by omega) (by omega)

end Rarena.C02Buf
