/-
  C02 / C07 / C12 / C20 (static tie of the step machine to the source) — call-site conformance.

  The concurrent theorems are about the programs of `Model/Conc.lean`. Every atomic access of those programs names
  the call site of `sync.rs` it stands for, `(function, ordinal)`, and `Gen/Orderings.lean` — REGENERATED FROM THE
  SOURCE ON EVERY RUN — lists for every call site the kind of access, its orderings and the word it touches. This
  file states (proofs: `Proofs/ConcSites.lean`, one small lemma per call site, each re-checked against the
  regenerated table):
    * `ops_respect_sites`: for every configuration and fuel, every access node of every operation program of the
      machine is, in the table, an access of the same kind (load / store / compare_exchange / compare_exchange_weak /
      fetch_add / fetch_sub) on the same atomic word, at that function and ordinal;
    * `events_respect_sites`, `events_known`: hence in any run, of any number of threads under any schedule, every
      executed event has a matching row (in particular the orderings the happens-before arguments look up are never
      those of an unknown site);
    * `table_covered`: every row of the table that belongs to a modelled function of `sync.rs` is a call site the
      machine uses — an atomic access ADDED to one of these functions breaks this theorem;
    * `used_in_table`: every call site the machine uses is a row of the table — a REMOVED access breaks it; a
      CHANGED kind or word breaks the leaf lemma of that call site.
  A harmless rewrite of `sync.rs` can break these too; the check then searches for a failing input as usual.
  Not covered: the ORDER of the accesses inside a function and the thread-local computation between them (checked
  dynamically, event by event, by the schedule-level correspondence on every run).
-/
import RarenaVerif.Proofs.ConcSites

namespace Rarena.C02Sites
open Rarena Rarena.Conc Rarena.Conc.Sites

theorem ops_respect_sites (c : Cfg) (cap fuel : Nat) (op : Disc.DOp) : SitesOK (op.run c cap fuel) :=
  Sites.sok_op c cap fuel op

theorem none_threads_respect_sites (c : Cfg) (cap fuel : Nat) (ops : List NoneFL.NOp) (held : List Meta) :
    SitesOK (NoneFL.noneProg c cap fuel ops held) :=
  Sites.sok_noneProg c cap fuel ops held

theorem one_step {α : Type} (g : Global α) (tid : Nat) (sp : Bool) (h : AllSok g.threads) :
    AllSok (g.step tid sp).1.threads ∧ StepOK (g.step tid sp).2 :=
  Sites.step_sok g tid sp h

theorem events_respect_sites {α : Type} (sh : Shared) (threads : List (Prog α))
    (hall : ∀ p ∈ threads, SitesOK p) (sched : List (Nat × Bool)) :
    let r := Global.run ⟨sh, threads⟩ sched
    (∀ x ∈ r.2, siteOK x.2.site (akName x.2.kind) x.2.loc = true) ∧ (∀ p ∈ r.1.threads, SitesOK p) :=
  Sites.sites_respected sh threads hall sched

theorem events_known {α : Type} (sh : Shared) (threads : List (Prog α))
    (hall : ∀ p ∈ threads, SitesOK p) (sched : List (Nat × Bool)) :
    ∀ x ∈ (Global.run ⟨sh, threads⟩ sched).2, ∃ row ∈ Gen.sites, row.fn = x.2.site.fn ∧ row.idx = x.2.site.idx ∧
      row.kind = akName x.2.kind ∧ locOK row.loc x.2.loc = true :=
  Sites.sites_known sh threads hall sched

theorem events_respect_sites_ops (c : Cfg) (cap fuel : Nat) (sh : Shared) (progs : List (List Disc.DOp))
    (sched : List (Nat × Bool)) :
    ∀ x ∈ (Global.run ⟨sh, progs.map (Disc.discProg c cap fuel)⟩ sched).2,
      siteOK x.2.site (akName x.2.kind) x.2.loc = true :=
  Sites.sites_respected_ops c cap fuel sh progs sched

theorem table_covered :
    ∀ x ∈ Gen.sites, x.fn ∈ modelledFns → (x.fn, x.idx) ∈ usedSites ∨ (x.fn, x.idx) ∈ exceptions :=
  Sites.table_covered

theorem used_in_table : ∀ u ∈ usedSites, ∃ x ∈ Gen.sites, x.fn = u.1 ∧ x.idx = u.2 :=
  Sites.used_in_table

theorem no_exceptions : exceptions = [] := rfl

end Rarena.C02Sites
