/-
  C13 (continued) — the reference count under every interleaving.

  `Props/C13.lean` proves the handle and reference-count bookkeeping for sequential histories. This file adds the
  concurrent statement, proved in `Proofs/ConcRefs.lean` on the atomic-step machine `Model/Conc.lean` (`cloneC` =
  `fetch_add(1, Release)`, `dropArenaC` = `fetch_sub(1, Release)`; the thread that reads 1 does an acquire load and
  unmounts), for ANY number of threads, ANY programs of clone/drop operations that never drop more than the thread
  holds, and ANY schedule:
    * `refs()` always equals the number of arena values currently held (`refs_counts_tokens`);
    * the memory is released at most once (`released_at_most_once`), only when the count is zero
      (`released_only_at_zero`), after which no thread has anything left to do (`nothing_after_release`);
    * if every thread finishes having dropped everything, the memory has been released exactly once
      (`all_dropped_releases`); if an arena value is still held at the end it has not (`held_token_prevents_release`).
  Modelled, not verified: that the only accesses to the counter in `sync.rs` are these (checked on every run by the
  event-level correspondence of the `refs` profile and by the regenerated call-site table).
-/
import RarenaVerif.Proofs.ConcRefs

namespace Rarena.C13Conc
open Rarena Rarena.Conc Rarena.Conc.Refs

theorem refs_counts_tokens (sh : Shared) (cfg : Config) (hw : WellFormed sh cfg) (sched : List (Nat × Bool)) :
    ∃ ts, Describes cfg (reach sh cfg sched) ts ∧ (reach sh cfg sched).sh.refs = (ts.map TSt.tok).sum :=
  Refs.refs_counts_tokens sh cfg hw sched

theorem released_at_most_once (sh : Shared) (cfg : Config) (hw : WellFormed sh cfg) (sched : List (Nat × Bool)) :
    (reach sh cfg sched).sh.released ≤ 1 ∧
    ∃ ts, Describes cfg (reach sh cfg sched) ts ∧
      (reach sh cfg sched).sh.released + (ts.filter TSt.unm).length ≤ 1 :=
  Refs.released_at_most_once sh cfg hw sched

theorem released_only_at_zero (sh : Shared) (cfg : Config) (hw : WellFormed sh cfg) (sched : List (Nat × Bool)) :
    (reach sh cfg sched).sh.released = 1 → (reach sh cfg sched).sh.refs = 0 :=
  Refs.released_only_at_zero sh cfg hw sched

theorem nothing_after_release (sh : Shared) (cfg : Config) (hw : WellFormed sh cfg) (sched : List (Nat × Bool))
    (hr : (reach sh cfg sched).sh.released = 1) :
    (∀ p ∈ (reach sh cfg sched).threads, p = .ret ()) ∧
    (∃ ts, Describes cfg (reach sh cfg sched) ts ∧ ∀ s ∈ ts, s.ops = [] ∧ s.unm = false ∧ s.tok = 0) ∧
    (∀ more, (reach sh cfg sched).run more = (reach sh cfg sched, [])) :=
  Refs.nothing_after_release sh cfg hw sched hr

theorem all_dropped_releases (sh : Shared) (cfg : Config) (hw : WellFormed sh cfg) (sched : List (Nat × Bool))
    (hfin : ∀ p ∈ (reach sh cfg sched).threads, finished p = true)
    (hall : ∀ c ∈ cfg, finalTok c.1 c.2 = 0) (hpos : 0 < (cfg.map (·.1)).sum) :
    (reach sh cfg sched).sh.released = 1 :=
  Refs.all_dropped_releases sh cfg hw sched hfin hall hpos

theorem held_token_prevents_release (sh : Shared) (cfg : Config) (hw : WellFormed sh cfg)
    (sched : List (Nat × Bool)) (hfin : ∀ p ∈ (reach sh cfg sched).threads, finished p = true)
    (hheld : ∃ c ∈ cfg, 0 < finalTok c.1 c.2) :
    (reach sh cfg sched).sh.released = 0 :=
  Refs.held_token_prevents_release sh cfg hw sched hfin hheld

theorem trace_accounting (sh : Shared) (cfg : Config) (hw : WellFormed sh cfg) (sched : List (Nat × Bool)) :
    ((initial sh cfg).run sched).1.sh.refs + nFas ((initial sh cfg).run sched).2 =
      (cfg.map (·.1)).sum + nFaa ((initial sh cfg).run sched).2 ∧
    nOne ((initial sh cfg).run sched).2 ≤ 1 ∧
    ((initial sh cfg).run sched).1.sh.released ≤ nOne ((initial sh cfg).run sched).2 ∧
    (nOne ((initial sh cfg).run sched).2 = 1 → ((initial sh cfg).run sched).1.sh.refs = 0) :=
  Refs.trace_accounting sh cfg hw sched


/-! ### the code has the shape of `cloneC` / `dropArenaC`: re-checked against the regenerated call-site table -/

/-- the reference counter is only touched by `fetch_add` (clone), `fetch_sub` (drop) and loads -/
theorem refs_only_rmw :
    ∀ s ∈ Gen.sites, s.loc = "refs" → s.kind = "load" ∨ s.kind = "fetch_add" ∨ s.kind = "fetch_sub" := by
  decide

/-- the decision "I hold the last reference" is taken on the result of the decrement itself: the first access of
    `drop` is the `fetch_sub`, the first access of `clone` is the `fetch_add` -/
theorem drop_decides_on_the_rmw :
    (Gen.sites.find? (fun s => s.fn == "drop" && s.idx == 0)).map (·.kind) = some "fetch_sub" ∧
    (Gen.sites.find? (fun s => s.fn == "clone" && s.idx == 0)).map (·.kind) = some "fetch_add" := by
  decide

end Rarena.C13Conc
