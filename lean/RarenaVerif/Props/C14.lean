/-
  C14 — Buffer writers and readers stay in bounds and round-trip values.

  Full statement: every put_* / put_slice / put / put_aligned either stores inside
  [offset, offset+capacity) and advances len, or fails with InsufficientBuffer leaving len unchanged
  and nothing outside the buffer touched (fixed-width puts leave every byte unchanged); set_len
  zero-fills what it exposes or hides; align_to yields an aligned pointer inside the buffer or an error;
  put followed by the matching get returns the value and restores len; a LEB128 put on an empty buffer
  followed by the matching varint get returns the encoded length and the value.

  The model functions (`Model/Bytes.lean`) return the new memory and handle only on success, so "fails
  leaving len and every byte unchanged" is the statement that the failing call returns an error value
  (no new state exists); for the varint put, which the code lets scribble inside the remaining part of
  the buffer before failing, the returned memory is characterised by `put_varint_frame`.
-/
import RarenaVerif.Proofs.BytesProps

namespace Rarena.C14

/-- fixed-width put: success inside the buffer, `len` advanced, everything outside the written bytes intact -/
theorem put_ok (mem : Mem) (h : Handle) (t : IntTy) (o : Order) (v : Int) (hfit : h.len + t.bytes ≤ h.mt.ptrSize) :
    ∃ mem' h', bufPut mem h t o v = .ok (mem', h') ∧ h'.len = h.len + t.bytes ∧ h'.mt = h.mt ∧
      mem.sameOutside mem' (h.mt.ptrOff + h.len) (h.mt.ptrOff + h.len + t.bytes) :=
  bufPut_ok mem h t o v hfit

/-- fixed-width put that does not fit: `InsufficientBuffer`, no state change -/
theorem put_err (mem : Mem) (h : Handle) (t : IntTy) (o : Order) (v : Int) (hfit : ¬ h.len + t.bytes ≤ h.mt.ptrSize) :
    bufPut mem h t o v = .error .insufficient :=
  bufPut_err mem h t o v hfit

/-- for every integer type, byte order and value: put then get returns the value and restores `len` -/
theorem put_get (mem mem' : Mem) (h h' : Handle) (t : IntTy) (o : Order) (v : Int) (ht : t.valid)
    (hv : t.inRange v = true) (hin : h.inMem mem) (hp : bufPut mem h t o v = .ok (mem', h')) :
    ∃ h'', bufGet mem' h' t o = .ok (v, h'') ∧ h''.len = h.len ∧ h''.mt = h.mt :=
  bufPut_get mem mem' h h' t o v ht hv hin hp

theorem get_err (mem : Mem) (h : Handle) (t : IntTy) (o : Order) (hlen : h.len < t.bytes) :
    bufGet mem h t o = .error .incomplete :=
  bufGet_err mem h t o hlen

theorem put_slice_ok (mem : Mem) (h : Handle) (l : Nat) (b : UInt8) (hfit : h.len + l ≤ h.mt.ptrSize) :
    ∃ mem' h', bufPutSlice mem h l b = .ok (mem', h') ∧ h'.len = h.len + l ∧
      mem.sameOutside mem' (h.mt.ptrOff + h.len) (h.mt.ptrOff + h.len + l) ∧
      ∀ i, h.mt.ptrOff + h.len ≤ i → i < h.mt.ptrOff + h.len + l → i < mem.size → mem'.rd i = b.toNat :=
  bufPutSlice_ok mem h l b hfit

theorem put_slice_err (mem : Mem) (h : Handle) (l : Nat) (b : UInt8) (hfit : ¬ h.len + l ≤ h.mt.ptrSize) :
    bufPutSlice mem h l b = .error .insufficient :=
  bufPutSlice_err mem h l b hfit

/-- `set_len` zero-fills exactly the bytes it exposes or hides -/
theorem set_len_zeroes (mem : Mem) (h : Handle) (n : Nat) (hn : n ≤ h.mt.ptrSize) (hin : h.inMem mem) :
    ∃ mem' h', bufSetLen mem h n = .ok (mem', h') ∧ h'.len = n ∧ h'.mt = h.mt ∧
      mem.sameOutside mem' (h.mt.ptrOff + min n h.len) (h.mt.ptrOff + max n h.len) ∧
      ∀ i, h.mt.ptrOff + min n h.len ≤ i → i < h.mt.ptrOff + max n h.len → mem'.rd i = 0 :=
  bufSetLen_spec mem h n hn hin

/-- `align_to::<T>`: an offset aligned for `T` inside `[offset+len, offset+capacity]`, or an error -/
theorem align_to_spec (h : Handle) (ta ts : Nat) (hta : ta = 1 ∨ ta = 2 ∨ ta = 4 ∨ ta = 8 ∨ ta = 16) (hts : ts ≠ 0)
    (hsmall : h.mt.ptrOff + h.mt.ptrSize + 16 < TWO32) (hlen : h.len ≤ h.mt.ptrSize) :
    (∃ p h', bufAlignTo h ta ts = .ok (.ok (some p, h')) ∧ p % ta = 0 ∧ h.mt.ptrOff + h.len ≤ p ∧
        p ≤ h.mt.ptrOff + h.mt.ptrSize ∧ h'.len = p - h.mt.ptrOff ∧ h'.mt = h.mt) ∨
    bufAlignTo h ta ts = .ok (.error .insufficient) :=
  bufAlignTo_spec h ta ts hta hts hsmall hlen

/-- `put_aligned::<T>`: stores `size_of::<T>()` bytes at an aligned position inside the buffer, or fails -/
theorem put_aligned_spec (mem : Mem) (h : Handle) (ta ts : Nat) (b : UInt8)
    (hta : ta = 1 ∨ ta = 2 ∨ ta = 4 ∨ ta = 8 ∨ ta = 16) (hts : ts ≠ 0)
    (hsmall : h.mt.ptrOff + h.mt.ptrSize + 16 < TWO32) (hlen : h.len ≤ h.mt.ptrSize) :
    (∃ p mem' h', bufPutAligned mem h ta ts b = .ok (.ok (some p, mem', h')) ∧ p % ta = 0 ∧
        h.mt.ptrOff + h.len ≤ p ∧ p + ts ≤ h.mt.ptrOff + h.mt.ptrSize ∧ h'.len = p - h.mt.ptrOff + ts ∧
        mem.sameOutside mem' p (p + ts)) ∨
    bufPutAligned mem h ta ts b = .ok (.error .insufficient) :=
  bufPutAligned_spec mem h ta ts b hta hts hsmall hlen

/-- a varint put, successful or not, touches nothing outside the remaining part of the buffer -/
theorem put_varint_frame (mem : Mem) (h : Handle) (t : IntTy) (v : Int) (hlen : h.len ≤ h.mt.ptrSize) :
    mem.sameOutside (bufPutVarint mem h t v).1 (h.mt.ptrOff + h.len) (h.mt.ptrOff + h.mt.ptrSize) :=
  bufPutVarint_frame mem h t v hlen

theorem put_varint_len (mem : Mem) (h h' : Handle) (t : IntTy) (v : Int) (n : Nat) (mem' : Mem)
    (hp : bufPutVarint mem h t v = (mem', .ok (n, h'))) : h'.len = h.len + n ∧ h.len + n ≤ h.mt.ptrSize ∧ 1 ≤ n :=
  bufPutVarint_len mem h h' t v n mem' hp

/-- LEB128 round trip for u16..u128 and (zig-zag) i16..i128 -/
theorem leb_roundtrip (mem mem' : Mem) (h h' : Handle) (t : IntTy) (v : Int) (n : Nat)
    (ht : t.bytes = 2 ∨ t.bytes = 4 ∨ t.bytes = 8 ∨ t.bytes = 16) (hv : t.inRange v = true)
    (hin : h.inMem mem) (hempty : h.len = 0) (hp : bufPutVarint mem h t v = (mem', .ok (n, h'))) :
    bufGetVarint mem' h' t = .ok (n, v) :=
  Rarena.leb_roundtrip mem mem' h h' t v n ht hv hin hempty hp

/-! non-vacuity: a concrete buffer meets the hypotheses and the calls behave as stated -/

def exMem : Mem := Array.replicate 64 7
def exH : Handle := { mt := ⟨16, 8, 16, 8⟩, kind := .bytes, owned := false, null := false, len := 2 }

example : exH.inMem exMem ∧ exH.len + 4 ≤ exH.mt.ptrSize := by
  unfold Handle.inMem; decide
example : (bufPut exMem exH ⟨4, false⟩ .le 305419896).toOption.map (·.2.len) = some 6 := by decide
example : ((bufPut exMem exH ⟨4, true⟩ .be (-2)).toOption.bind
    (fun r => (bufGet r.1 r.2 ⟨4, true⟩ .be).toOption)).map (·.1) = some (-2) := by decide
example : (bufPut exMem exH ⟨8, false⟩ .le 1).toOption.isNone = true := by decide
example : ((bufPutVarint exMem { exH with len := 0 } ⟨8, true⟩ (-300)).2.toOption).map (·.1) = some 2 := by decide

end Rarena.C14
