/-
  C12 (continued) — recycled memory is handed over with a happens-before edge: complete for arenas with `Freelist::None`.

  Proved in `Proofs/ConcNoneHB.lean` on the atomic-step machine `Model/Conc.lean` instrumented with the vector clocks of
  `Model/HB.lean` (the clock update of every event is shown to be EXACTLY what `HB.step` does: `hbAtomic_agrees`,
  `step_plain_write`), for ANY number of threads, ANY programs of `alloc_bytes` / `alloc_aligned_bytes::<T>` /
  `alloc::<T>` and releases of own handles on a `Freelist::None` arena, ANY schedule (spurious failures included):
    * every non-atomic access of the arena (its zero-fills) to a byte is ordered by happens-before after every earlier
      access of another thread to the same byte (`none_handover_hb`, `none_handover_no_race`);
    * a thread that holds an extent already knows (in its vector clock) every logged access of other threads to those
      bytes — what a client needs for its own reads and writes (`none_holder_knows`);
    * the project's happens-before checker itself reports NO race on the trace of any such run
      (`none_hb_check_no_race`).
  The memory orderings are not assumed: `cursorSites_source` derives them by `decide` from the call-site table regenerated
  from `sync.rs` on every run (the cursor CASes of the three allocation loops and of `dealloc` are SeqCst on success), and
  the file shows by evaluation that weakening either side to Relaxed makes the inequality fail (negative examples there).
  Optimistic / Pessimistic free lists: covered by the site theorems of `Props/C12.lean` and the per-trace checker only.
-/
import RarenaVerif.Proofs.ConcNoneHB

namespace Rarena.C12None
open Rarena Rarena.Conc Rarena.Conc.NoneFL Rarena.HB Rarena.Conc.NoneHB

theorem cursorSites_source : CursorSites Site.ords :=
  Rarena.Conc.NoneHB.cursorSites_source 

theorem hbAtomic_agrees (tbl : Site → List Gen.Ord) (s : HB.State) (t : Nat) (e : Event) :
    absS (HB.step s (.atomic t (evKind tbl e).1 (locKey e.loc) none (evKind tbl e).2)) = hbAtomicT tbl (absS s) t e :=
  Rarena.Conc.NoneHB.hbAtomic_agrees tbl s t e

theorem none_handover_hb (c : Cfg) (hk : c.kind = .none) (hro : c.ro = false) (sh : Shared) (fuel : Nat)
    (hhi : sh.st.allocated ≤ sh.st.cap)
    (progs : List (List NOp)) (hok : ∀ ops ∈ progs, ∀ op ∈ ops, op.ok) (sched : List (Nat × Bool)) (h0 : HBS) :
    (irun (istate0 c sh fuel progs h0) sched).log.Pairwise
      (fun a2 a1 => a1.tid ≠ a2.tid → (∃ b, a1.lo ≤ b ∧ b < a1.hi ∧ a2.lo ≤ b ∧ b < a2.hi) →
        a1.vc.get a1.tid ≤ a2.vc.get a1.tid) :=
  Rarena.Conc.NoneHB.none_handover_hb c hk hro sh fuel hhi progs hok sched h0

theorem none_handover_no_race (c : Cfg) (hk : c.kind = .none) (hro : c.ro = false) (sh : Shared) (fuel : Nat)
    (hhi : sh.st.allocated ≤ sh.st.cap)
    (progs : List (List NOp)) (hok : ∀ ops ∈ progs, ∀ op ∈ ops, op.ok) (sched : List (Nat × Bool)) (h0 : HBS)
    (i j : Nat) (a1 a2 : NAcc) (hij : i < j)
    (h1 : (irun (istate0 c sh fuel progs h0) sched).log.reverse[i]? = some a1)
    (h2 : (irun (istate0 c sh fuel progs h0) sched).log.reverse[j]? = some a2)
    (b : Nat) (hb1 : a1.lo ≤ b ∧ b < a1.hi) (hb2 : a2.lo ≤ b ∧ b < a2.hi) :
    HB.epochLe (some (a1.tid, a1.epoch)) a2.vc a2.tid = true :=
  Rarena.Conc.NoneHB.none_handover_no_race c hk hro sh fuel hhi progs hok sched h0 i j a1 a2 hij h1 h2 b hb1 hb2

theorem none_holder_knows (c : Cfg) (hk : c.kind = .none) (hro : c.ro = false) (sh : Shared) (fuel : Nat)
    (hhi : sh.st.allocated ≤ sh.st.cap)
    (progs : List (List NOp)) (hok : ∀ ops ∈ progs, ∀ op ∈ ops, op.ok) (sched : List (Nat × Bool)) (h0 : HBS) :
    ∃ ghs : List Gh, All2 (Held sh.st.cap) ghs (irun (istate0 c sh fuel progs h0) sched).g.threads ∧
      ∀ a ∈ (irun (istate0 c sh fuel progs h0) sched).log, ∀ t γ x, t ≠ a.tid → ghs[t]? = some γ → x ∈ γ.own →
        ∀ b, a.lo ≤ b → b < a.hi → x.1 ≤ b → b < x.2 →
          a.vc.get a.tid ≤ ((irun (istate0 c sh fuel progs h0) sched).h.clk t).get a.tid :=
  Rarena.Conc.NoneHB.none_holder_knows c hk hro sh fuel hhi progs hok sched h0

theorem none_hb_check_no_race (c : Cfg) (hk : c.kind = .none) (hro : c.ro = false) (sh : Shared) (fuel : Nat)
    (hhi : sh.st.allocated ≤ sh.st.cap)
    (progs : List (List NOp)) (hok : ∀ ops ∈ progs, ∀ op ∈ ops, op.ok) (sched : List (Nat × Bool))
    (n : Nat) (threads : List Nat) :
    (HB.check n threads (runTrace Site.ords
      { sh := sh, threads := progs.map (fun ops => noneProg c sh.st.cap fuel ops []) } sched)).races = [] :=
  Rarena.Conc.NoneHB.none_hb_check_no_race c hk hro sh fuel hhi progs hok sched n threads

end Rarena.C12None
