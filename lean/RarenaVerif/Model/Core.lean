/-
  Model.Core — the sequential allocator, written function by function after
  `rarena-allocator/src/unsync.rs` and `sync.rs` (as they stand after the `fix:` commits).
  Pointer chasing goes through the byte memory; loops take fuel; every unchecked `u32`
  operation of the Rust code and every access outside `[0, cap)` is an explicit `trap`.
-/
import RarenaVerif.Model.Basic

namespace Rarena

inductive Kind where
  | none | opt | pess
  deriving Repr, DecidableEq, Inhabited

/-- Immutable configuration of an arena value. -/
structure Cfg where
  /-- `true` = `sync::Arena` -/
  sync : Bool
  kind : Kind
  ro : Bool
  /-- `maximum_retries` (sync only) -/
  retries : Nat
  dataOffset : Nat
  reserved : Nat
  /-- effective unified layout (always true for file-backed arenas) -/
  unify : Bool
  /-- backed by a memory-mapped file (only `truncate` behaves differently: it re-maps the file) -/
  fileBacked : Bool := false
  deriving Repr, Inhabited

/-- Mutable state: the byte memory (capacity = `mem.size`) and the header. For the unified layout the
    header also lives in `mem`; the model keeps it as a record and `St.image` renders it. -/
structure St where
  mem : Mem
  sentinel : Nat
  allocated : Nat
  minSeg : Nat
  discarded : Nat
  deriving Inhabited

@[inline] def St.cap (s : St) : Nat := s.mem.size

inductive Err where
  | insufficient | readOnly
  deriving Repr, DecidableEq

/-- `Meta` of lib.rs (without the parent pointer). -/
structure Meta where
  memOff : Nat
  memSize : Nat
  ptrOff : Nat
  ptrSize : Nat
  deriving Repr, DecidableEq, Inhabited

def Meta.null : Meta := ⟨0, 0, 0, 0⟩
def Meta.new (off size : Nat) : Meta := ⟨off, size, off, size⟩

/-- `Meta::align_to::<T>` -/
def Meta.alignTo (m : Meta) (a size : Nat) : M Meta := do
  let o ← alignOffset a m.ptrOff
  pure { m with ptrOff := o, ptrSize := size }

/-- `Meta::align_bytes_to::<T>` -/
def Meta.alignBytesTo (m : Meta) (a : Nat) : M Meta := do
  let e ← addU32 "align_bytes_to:end" m.ptrOff m.ptrSize
  let o ← alignOffset a m.ptrOff
  let sz ← subU "align_bytes_to:size" e o
  pure { m with ptrOff := o, ptrSize := sz }

/-- `Meta::clear` -/
def St.clearMeta (s : St) (m : Meta) : M St := do
  let mem ← s.mem.zero? m.ptrOff m.ptrSize
  pure { s with mem := mem }

/-- `increase_discarded` of both flavours (wrapping) -/
def St.incDiscarded (c : Cfg) (s : St) (n : Nat) : St :=
  if c.ro then s else { s with discarded := (s.discarded + n) % TWO32 }

/-- A place holding a node word: the sentinel in the header, or a node inside the memory. -/
inductive Loc where
  | hdr
  | node (off : Nat)
  deriving Repr, DecidableEq

def St.readLoc (s : St) : Loc → M Nat
  | .hdr => pure s.sentinel
  | .node off => s.mem.readWord? off

def St.writeLoc (s : St) (l : Loc) (v : Nat) : M St :=
  match l with
  | .hdr => pure { s with sentinel := v }
  | .node off => do
    let mem ← s.mem.writeWord? off v
    pure { s with mem := mem }

/-- `compare_exchange` on a node word -/
def St.casLoc (s : St) (l : Loc) (expected new : Nat) : M (St × Bool) := do
  let cur ← s.readLoc l
  if cur = expected then
    let s' ← s.writeLoc l new
    pure (s', true)
  else pure (s, false)

/-- A `Segment` value of the Rust code. -/
structure SegRef where
  ptr : Nat
  data : Nat
  size : Nat
  deriving Repr, DecidableEq

/-- comparator of the size-ordered list: `.opt` ⇒ `val >= next`, `.pess` ⇒ `val <= next`
    (regenerated from the source into `Gen/Comparators.lean` and checked against these) -/
def cmpInsert : Kind → Nat → Nat → Bool
  | .opt, v, n => decide (v ≥ n)
  | _, v, n => decide (v ≤ n)

/-! ### traversals -/

/-- `unsync::Arena::find_position` -/
def findPosU (s : St) (val : Nat) (cmp : Nat → Nat → Bool) : Nat → Loc → Nat → M (Nat × Loc)
  | 0, _, _ => throw .diverge
  | fuel + 1, loc, cur =>
    if wsize cur = MAXU32 ∧ wnext cur = MAXU32 then pure (cur, loc)
    else if wnext cur = MAXU32 then pure (cur, loc)
    else do
      let nw ← s.mem.readWord? (wnext cur)
      if cmp val (wsize nw) then pure (cur, loc)
      else findPosU s val cmp fuel (.node (wnext cur)) nw

/-- `sync::Arena::find_position` (with its removed-node branches) -/
def findPosS (s : St) (val : Nat) (cmp : Nat → Nat → Bool) : Nat → Loc → Nat → M (Nat × Loc)
  | 0, _, _ => throw .diverge
  | fuel + 1, loc, cur =>
    if wsize cur = MAXU32 ∧ wnext cur = MAXU32 then pure (cur, loc)
    else if wsize cur = 0 ∧ wnext cur = MAXU32 then pure (cur, loc)
    else if wsize cur = 0 then do
      let loc' := if wnext cur = MAXU32 then Loc.hdr else Loc.node (wnext cur)
      let cur' ← s.readLoc loc'
      findPosS s val cmp fuel loc' cur'
    else if wnext cur = MAXU32 then pure (cur, loc)
    else do
      let nw ← s.mem.readWord? (wnext cur)
      if wsize nw = 0 then findPosS s val cmp fuel .hdr s.sentinel   -- removed: search again from the head
      else if cmp val (wsize nw) then pure (cur, loc)
      else findPosS s val cmp fuel (.node (wnext cur)) nw

def findPos (c : Cfg) (s : St) (val : Nat) (cmp : Nat → Nat → Bool) (fuel : Nat) : M (Nat × Loc) :=
  if c.sync then findPosS s val cmp fuel .hdr s.sentinel else findPosU s val cmp fuel .hdr s.sentinel

/-- result of `find_prev_and_next`: `(prev word, prev loc, next word, next offset)` -/
abbrev PrevNext := Option (Nat × Loc × Nat × Nat)

/-- `unsync::Arena::find_prev_and_next` -/
def findPrevNextU (s : St) (val : Nat) (cmp : Nat → Nat → Bool) : Nat → Loc → Nat → M PrevNext
  | 0, _, _ => throw .diverge
  | fuel + 1, loc, cur =>
    if wsize cur = MAXU32 ∧ wnext cur = MAXU32 then pure none
    else if wnext cur = MAXU32 then pure none
    else do
      let nw ← s.mem.readWord? (wnext cur)
      if cmp val (wsize nw) then pure (some (cur, loc, nw, wnext cur))
      else findPrevNextU s val cmp fuel (.node (wnext cur)) nw

/-- `sync::Arena::find_prev_and_next` -/
def findPrevNextS (s : St) (val : Nat) (cmp : Nat → Nat → Bool) : Nat → Loc → Nat → M PrevNext
  | 0, _, _ => throw .diverge
  | fuel + 1, loc, cur =>
    if wsize cur = MAXU32 ∧ wnext cur = MAXU32 then pure none
    else if wsize cur = 0 ∧ wnext cur = MAXU32 then pure none
    else if wsize cur = 0 then
      if wnext cur = MAXU32 then pure none
      else do
        let cur' ← s.mem.readWord? (wnext cur)
        findPrevNextS s val cmp fuel (.node (wnext cur)) cur'
    else if wnext cur = MAXU32 then pure none
    else do
      let nw ← s.mem.readWord? (wnext cur)
      if cmp val (wsize nw) then
        if wsize nw = 0 then findPrevNextS s val cmp fuel loc cur
        else pure (some (cur, loc, nw, wnext cur))
      else findPrevNextS s val cmp fuel (.node (wnext cur)) nw

def findPrevNext (c : Cfg) (s : St) (val : Nat) (cmp : Nat → Nat → Bool) (fuel : Nat) : M PrevNext :=
  if c.sync then findPrevNextS s val cmp fuel .hdr s.sentinel
  else findPrevNextU s val cmp fuel .hdr s.sentinel

/-! ### segments -/

/-- `validate_segment` -/
def validateSegment (s : St) (offset size : Nat) : M Bool :=
  if offset = 0 ∨ size = 0 then pure false
  else do
    let a ← alignOffset 8 offset
    let sn := (a - offset) + NODE
    if sn ≥ size then pure false
    else if size - sn < s.minSeg then pure false
    else pure true

/-- `try_new_segment` -/
def tryNewSegment (c : Cfg) (s : St) (offset size : Nat) : M (Option SegRef × St) :=
  if offset = 0 ∨ size = 0 then pure (none, s)
  else do
    let a ← alignOffset 8 offset
    let sn := (a - offset) + NODE
    if sn ≥ size then pure (none, s.incDiscarded c size)
    else if size - sn < s.minSeg then pure (none, s.incDiscarded c size)
    else pure (some ⟨a, a + NODE, size - sn⟩, s)

/-- the insertion loop of `optimistic_dealloc` / `pessimistic_dealloc` for segment `seg` -/
def insertLoop (c : Cfg) (seg : SegRef) (fuel : Nat) : Nat → St → M St
  | 0, _ => throw .diverge
  | tries + 1, s => do
    let (cur, loc) ← findPos c s seg.size (cmpInsert c.kind) fuel
    if c.sync ∧ wsize cur = 0 then insertLoop c seg fuel tries s
    else if (c.sync ∨ c.kind = .opt) ∧ seg.ptr = wnext cur then insertLoop c seg fuel tries s
    else do
      -- update_next_node: store own header
      let mem ← s.mem.writeWord? seg.ptr (enc seg.size (wnext cur))
      let s1 := { s with mem := mem }
      if c.sync then
        let (s2, ok) ← s1.casLoc loc cur (enc (wsize cur) seg.ptr)
        if ok then pure (s2.incDiscarded c (seg.data - seg.ptr))
        else insertLoop c seg fuel tries s2
      else
        let s2 ← s1.writeLoc loc (enc (wsize cur) seg.ptr)
        pure (s2.incDiscarded c (seg.data - seg.ptr))

/-- `optimistic_dealloc` / `pessimistic_dealloc` -/
def freelistDealloc (c : Cfg) (s : St) (offset size fuel : Nat) : M (Bool × St) := do
  let (seg?, s1) ← tryNewSegment c s offset size
  match seg? with
  | none => pure (false, s1)
  | some seg =>
    let s2 ← insertLoop c seg fuel fuel s1
    pure (true, s2)

/-- `Allocator::dealloc` -/
def dealloc (c : Cfg) (s : St) (offset size fuel : Nat) : M (Bool × St) := do
  let top ← addU32 "dealloc:offset+size" offset size
  if s.allocated = top then pure (true, { s with allocated := offset })
  else match c.kind with
    | .none => pure (true, s.incDiscarded c size)
    | _ => freelistDealloc c s offset size fuel

/-! ### slow paths -/

abbrev AllocRes := Except Err Meta

/-- common tail of both slow paths once segment `(off, nodeSize)` has been unlinked -/
def finishSlow (c : Cfg) (s : St) (off nodeSize size fuel : Nat) : M (AllocRes × St) := do
  let remaining := nodeSize - size
  let data ← addU32 "segment:data_offset" off NODE
  let dataEnd ← addU32 "slow:data_end" data size
  let split ← validateSegment s dataEnd remaining
  let (memSize, s1) ←
    if split then do
      let (_, s1) ← freelistDealloc c s dataEnd remaining fuel
      pure (nodeSize - remaining, s1)
    else pure (nodeSize, s)
  let m : Meta := ⟨off, memSize, data, size⟩
  let s2 ← s1.clearMeta m
  pure (.ok m, s2)

/-- `alloc_slow_path_optimistic` -/
def slowOpt (c : Cfg) (size fuel : Nat) : Nat → St → M (AllocRes × St)
  | 0, _ => throw .diverge
  | tries + 1, s =>
    if c.ro then pure (.error .readOnly, s)
    else
      let sent := s.sentinel
      let head := wnext sent
      if wsize sent = MAXU32 ∧ head = MAXU32 then pure (.error .insufficient, s)
      else if c.sync ∧ head = 0 then slowOpt c size fuel tries s
      else do
        let hw ← s.mem.readWord? head
        if c.sync ∧ wsize hw = 0 then slowOpt c size fuel tries s
        else if size > wsize hw then pure (.error .insufficient, s)
        else if c.sync then do
          -- mark, then unlink
          let (s1, ok1) ← s.casLoc (.node head) hw (enc 0 (wnext hw))
          if !ok1 then slowOpt c size fuel tries s1
          else
            let (s2, ok2) ← s1.casLoc .hdr sent (enc (wsize sent) (wnext hw))
            if ok2 then finishSlow c s2 head (wsize hw) size fuel
            else do
              -- give the mark back
              let (s3, _) ← s2.casLoc (.node head) (enc 0 (wnext hw)) hw
              slowOpt c size fuel tries s3
        else
          finishSlow c { s with sentinel := enc (wsize sent) (wnext hw) } head (wsize hw) size fuel

/-- `alloc_slow_path_pessimistic` -/
def slowPess (c : Cfg) (size fuel : Nat) : Nat → St → M (AllocRes × St)
  | 0, _ => throw .diverge
  | tries + 1, s =>
    if c.ro then pure (.error .readOnly, s)
    else do
      let r ← findPrevNext c s size (fun v n => decide (v ≤ n)) fuel
      match r with
      | none => pure (.error .insufficient, s)
      | some (pw, ploc, nw, noff) =>
        if c.sync ∧ wsize pw = 0 then slowPess c size fuel tries s
        else if c.sync ∧ wsize nw = 0 then slowPess c size fuel tries s
        else if c.sync then do
          let (s1, ok1) ← s.casLoc (.node noff) nw (enc 0 (wnext nw))
          if !ok1 then slowPess c size fuel tries s1
          else
            let (s2, ok2) ← s1.casLoc ploc pw (enc (wsize pw) (wnext nw))
            if ok2 then
              let _ ← subU "pess:remaining" (wsize nw) size
              finishSlow c s2 noff (wsize nw) size fuel
            else do
              -- give the mark back
              let (s3, _) ← s2.casLoc (.node noff) (enc 0 (wnext nw)) nw
              slowPess c size fuel tries s3
        else do
          let _ ← subU "pess:remaining" (wsize nw) size
          let s1 ← s.writeLoc ploc (enc (wsize pw) (wnext nw))
          finishSlow c s1 noff (wsize nw) size fuel

def slowPath (c : Cfg) (s : St) (size fuel : Nat) : M (AllocRes × St) :=
  match c.kind with
  | .none => pure (.error .insufficient, s)
  | .opt => slowOpt c size fuel fuel s
  | .pess => slowPess c size fuel fuel s

/-- the `maximum_retries` loop of the sync flavour around the slow path; `post` is applied to a
    successful `Meta` (`align_to` / `align_bytes_to`) -/
def retryLoop (c : Cfg) (size fuel : Nat) (post : Meta → M Meta) : Nat → Nat → St → M (AllocRes × St)
  | 0, _, _ => throw .diverge
  | n + 1, i, s => do
    let (r, s1) ← slowPath c s size fuel
    match r with
    | .ok m => do
      let m' ← post m
      pure (.ok m', s1)
    | .error e =>
      if c.kind = .none then pure (.error e, s1)
      else do
        -- `i == self.max_retries.saturating_sub(1)` on `u8`
        let last := c.retries - 1
        if i = last then pure (.error e, s1)
        else
          let _ ← (if i + 1 < 256 then pure () else throw (Fail.trap "retry:i+=1") : M Unit)
          retryLoop c size fuel post n (i + 1) s1

def slowEntry (c : Cfg) (s : St) (size fuel : Nat) (post : Meta → M Meta) : M (AllocRes × St) :=
  if c.sync then retryLoop c size fuel post 300 0 s
  else do
    let (r, s1) ← slowPath c s size fuel
    match r with
    | .ok m => do
      let m' ← post m
      pure (.ok m', s1)
    | .error e => pure (.error e, s1)

/-! ### allocation entry points (`alloc_bytes_in`, `alloc_aligned_bytes_in::<T>`, `alloc_in::<T>`) -/

/-- result of an allocation call: `none` = the zero-size answer (`Ok(None)` in the code) -/
abbrev AllocOut := Except Err (Option Meta)

def liftRes : AllocRes × St → AllocOut × St
  | (.ok m, s) => (.ok (some m), s)
  | (.error e, s) => (.error e, s)

def allocBytes (c : Cfg) (s : St) (size fuel : Nat) : M (AllocOut × St) :=
  if c.ro then pure (.error .readOnly, s)
  else if size = 0 then pure (.ok none, s)
  else
    match (checkedAddU32 s.allocated size).filter (· ≤ s.cap) with
    | some want => do
      let m := Meta.new s.allocated size
      let s1 ← ({ s with allocated := want }).clearMeta m
      pure (.ok (some m), s1)
    | none => do
      let r ← slowEntry c s size fuel pure
      pure (liftRes r)

/-- `pad::<T>()` -/
def pad (tsize talign : Nat) : Nat := tsize + talign - 1

def allocAligned (c : Cfg) (s : St) (tsize talign extra fuel : Nat) : M (AllocOut × St) :=
  if c.ro then pure (.error .readOnly, s)
  else if tsize = 0 ∧ (extra = 0 ∨ talign = 1) then allocBytes c s extra fuel
  else do
    let aligned ← alignOffset talign s.allocated
    let base ← addU32 "aligned+size" aligned tsize
    match (checkedAddU32 base extra).filter (· ≤ s.cap) with
    | some want => do
      let m ← (Meta.new s.allocated (want - s.allocated)).alignBytesTo talign
      pure (.ok (some m), { s with allocated := want })
    | none =>
      match checkedAddU32 (pad tsize talign) extra with
      | none => pure (.error .insufficient, s)
      | some padded => do
        let r ← slowEntry c s padded fuel (fun m => m.alignBytesTo talign)
        pure (liftRes r)

def allocT (c : Cfg) (s : St) (tsize talign fuel : Nat) : M (AllocOut × St) :=
  if c.ro then pure (.error .readOnly, s)
  else if tsize = 0 then pure (.ok none, s)
  else do
    let aligned ← alignOffset talign s.allocated
    let want ← addU32 "aligned+size" aligned tsize
    if want ≤ s.cap then do
      let m ← (Meta.new s.allocated (want - s.allocated)).alignTo talign tsize
      let s1 ← ({ s with allocated := want }).clearMeta m
      pure (.ok (some m), s1)
    else do
      let r ← slowEntry c s (pad tsize talign) fuel (fun m => m.alignTo talign tsize)
      pure (liftRes r)

/-! ### the remaining mutators -/

/-- `discard_freelist_in` -/
def discardLoop (c : Cfg) : Nat → Nat → St → M (Nat × St)
  | 0, _, _ => throw .diverge
  | fuel + 1, acc, s =>
    let sent := s.sentinel
    let head := wnext sent
    if wsize sent = MAXU32 ∧ head = MAXU32 then pure (acc, s)
    else if c.sync ∧ head = 0 then discardLoop c fuel acc s
    else do
      let hw ← s.mem.readWord? head
      if c.sync ∧ wsize hw = 0 then discardLoop c fuel acc s
      else if c.sync then do
        let (s1, ok1) ← s.casLoc (.node head) hw (enc 0 (wnext hw))
        if !ok1 then discardLoop c fuel acc s1
        else
          let (s2, ok2) ← s1.casLoc .hdr sent (enc (wsize sent) (wnext hw))
          if ok2 then
            let acc' ← addU32 "discard:sum" acc (wsize hw)
            discardLoop c fuel acc' (s2.incDiscarded c (wsize hw))
          else do
            -- give the mark back
            let (s3, _) ← s2.casLoc (.node head) (enc 0 (wnext hw)) hw
            discardLoop c fuel acc s3
      else do
        let s1 := { s with sentinel := enc (wsize sent) (wnext hw) }
        let acc' ← addU32 "discard:sum" acc (wsize hw)
        discardLoop c fuel acc' (s1.incDiscarded c (wsize hw))

def discardFreelist (c : Cfg) (s : St) (fuel : Nat) : M (Except Err Nat × St) :=
  if c.ro then pure (.error .readOnly, s)
  else match c.kind with
    | .none => pure (.ok 0, s)
    | _ => do
      let (n, s1) ← discardLoop c fuel 0 s
      pure (.ok n, s1)

def setMinSeg (c : Cfg) (s : St) (n : Nat) : St := if c.ro then s else { s with minSeg := n }

inductive Pos where
  | start (n : Nat)
  | «end» (n : Nat)
  | cur (d : Int)
  deriving Repr

def I64MAX : Int := 9223372036854775807
def I64MIN : Int := -9223372036854775808

/-- `i64::saturating_add` -/
def satAddI64 (a b : Int) : Int :=
  let r := a + b
  if r > I64MAX then I64MAX else if r < I64MIN then I64MIN else r

/-- `rewind` -/
def rewind (c : Cfg) (s : St) (p : Pos) : St :=
  let d := c.dataOffset
  let cap := s.cap
  let final : Nat :=
    match p with
    | .start n => min (max n d) cap
    | .cur off =>
      let t := satAddI64 (Int.ofNat s.allocated) off
      if t > 0 then
        if t ≥ Int.ofNat cap then cap else min (max t.toNat d) cap
      else d
    | .end n => if n ≤ cap then max (cap - n) d else d
  { s with allocated := final }

/-- `clear` (`Memory::clear`): fresh header, zero `[data_offset, cap)` -/
def clear (c : Cfg) (s : St) : Except Err St :=
  if c.ro then .error .readOnly
  else .ok { mem := s.mem.zero c.dataOffset (s.cap - c.dataOffset)
             sentinel := SENTINEL_WORD
             allocated := c.dataOffset
             minSeg := s.minSeg
             discarded := 0 }

/-- `unsync::Arena::truncate`: Vec and anonymous maps copy the first `allocated` bytes into a fresh zeroed
    backing; a file-backed arena sets the file length (extending with zeros) and maps it again, so
    bytes above the cursor that are still inside the file keep their content -/
def truncate (c : Cfg) (s : St) (n : Nat) : Except Err St :=
  if c.ro then .error .readOnly
  else
    let size := if s.allocated ≥ n then s.allocated else n
    .ok { s with mem := Array.ofFn (n := size) (fun i =>
            if i.val < s.allocated ∨ c.fileBacked then s.mem.getD i.val 0 else 0) }

end Rarena
