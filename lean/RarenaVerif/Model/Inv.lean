/-
  Model.Inv — well-formedness of abstract states and abstract histories (definitions only).
-/
import RarenaVerif.Model.Spec

namespace Rarena

/-- half-open byte ranges `[lo, hi)` -/
abbrev Ext := Nat × Nat

def disj (a b : Ext) : Prop := a.2 ≤ b.1 ∨ b.2 ≤ a.1

instance (a b : Ext) : Decidable (disj a b) := by unfold disj; exact inferInstance

def Seg.ext (g : Seg) : Ext := (g.lo, g.hi)

/-- the bytes a handle owns: from its buffer offset to the end of whichever of its two extents
    reaches further (for recycled segments the accessible range starts 8 bytes after the buffer offset) -/
def Meta.owned (m : Meta) : Ext := (m.memOff, max (m.memOff + m.memSize) (m.ptrOff + m.ptrSize))

/-- the accessible range `[offset, offset+capacity)` -/
def Meta.access (m : Meta) : Ext := (m.ptrOff, m.ptrOff + m.ptrSize)

/-- the policy order of the list: `opt` descending sizes, `pess` ascending sizes -/
def sortedBy : Kind → List Seg → Prop
  | .opt, l => l.Pairwise (fun x y => x.size ≥ y.size)
  | .pess, l => l.Pairwise (fun x y => x.size ≤ y.size)
  | .none, _ => True

/-- a segment is 8-aligned, non-empty and lies inside the handed-out part of the data area -/
def SegOK (dataOffset cursor : Nat) (g : Seg) : Prop :=
  g.off % 8 = 0 ∧ 1 ≤ g.size ∧ dataOffset ≤ g.off ∧ g.hi ≤ cursor

/-- well-formed abstract state together with the extents owned by handles that have not been released
    (live or detached) -/
structure WF (c : Cfg) (a : A) (lives : List Ext) : Prop where
  segs : ∀ g ∈ a.free, SegOK c.dataOffset a.allocated g
  sorted : sortedBy c.kind a.free
  disjoint : (a.free.map Seg.ext ++ lives).Pairwise disj
  lives_in : ∀ e ∈ lives, c.dataOffset ≤ e.1 ∧ e.1 < e.2 ∧ e.2 ≤ a.allocated
  lo : 1 ≤ c.dataOffset
  mid : c.dataOffset ≤ a.allocated
  hi : a.allocated ≤ a.cap
  none_empty : c.kind = .none → a.free = []
  disc : a.discarded < TWO32

/-- abstract histories of the calls C01 quantifies over; `release i` drops / explicitly deallocates
    the `i`-th handle still held, `detach i` forgets it (its memory stays reserved); `clear` returns the arena
    to its pristine state (same capacity, minimum segment size in force, `discarded = 0`) and forgets every
    held and detached handle; `truncate n` changes the capacity only -/
inductive HOp where
  | allocBytes (n : Nat)
  | allocAligned (tsize talign extra : Nat)
  | allocT (tsize talign : Nat)
  | release (i : Nat)
  | detach (i : Nat)
  | setMinSeg (n : Nat)
  | incDiscarded (n : Nat)
  | discardFreelist
  /-- `Allocator::clear()` (API contract: no handle is used afterwards): every handle is forgotten -/
  | clear
  /-- `unsync::Arena::truncate(n)`: the capacity becomes `max n allocated` -/
  | truncate (n : Nat)
  deriving Repr

/-- fresh arena -/
def A.fresh (cap dataOffset minSeg : Nat) : A :=
  { cap := cap, allocated := dataOffset, minSeg := minSeg, discarded := 0, free := [] }

/-- session state of an abstract history -/
structure HState where
  a : A
  /-- handles that can still be released -/
  held : List Meta
  /-- extents of detached handles (never given back) -/
  detached : List Ext
  deriving Repr

def HState.lives (h : HState) : List Ext := (h.held.filter (fun m => m.memSize != 0)).map Meta.owned ++ h.detached

def okAlignment (talign : Nat) : Prop :=
  talign = 1 ∨ talign = 2 ∨ talign = 4 ∨ talign = 8 ∨ talign = 16 ∨ talign = 32 ∨ talign = 64

/-- one step; allocation failures leave the state unchanged; releasing a missing index is a no-op -/
def HState.step (c : Cfg) (h : HState) : HOp → HState
  | .allocBytes n =>
    match h.a.allocBytes c n with
    | (.ok (some m), a') => { h with a := a', held := h.held ++ [m] }
    | (_, a') => { h with a := a' }
  | .allocAligned ts ta ex =>
    match h.a.allocAligned c ts ta ex with
    | (.ok (some m), a') => { h with a := a', held := h.held ++ [m] }
    | (_, a') => { h with a := a' }
  | .allocT ts ta =>
    match h.a.allocT c ts ta with
    | (.ok (some m), a') => { h with a := a', held := h.held ++ [m] }
    | (_, a') => { h with a := a' }
  | .release i =>
    match h.held[i]? with
    | none => h
    | some m => { h with a := (h.a.dealloc c m.memOff m.memSize).2, held := h.held.eraseIdx i }
  | .detach i =>
    match h.held[i]? with
    | none => h
    | some m => { h with held := h.held.eraseIdx i,
                         detached := if m.memSize != 0 then m.owned :: h.detached else h.detached }
  | .setMinSeg n => if c.ro then h else { h with a := { h.a with minSeg := n } }
  | .incDiscarded n => { h with a := h.a.incDiscarded c n }
  | .discardFreelist => { h with a := (h.a.discardFreelist c).2 }
  | .clear =>
    if c.ro then h
    else { a := A.fresh h.a.cap c.dataOffset h.a.minSeg, held := [], detached := [] }
  | .truncate n => if c.ro then h else { h with a := { h.a with cap := max n h.a.allocated } }

def HState.run (c : Cfg) (h : HState) (ops : List HOp) : HState := ops.foldl (HState.step c) h

/-- the typed requests of a history use alignments 1..16 and sizes that are multiples of them -/
def HOp.ok : HOp → Prop
  | .allocAligned ts ta _ => okAlignment ta ∧ ts % ta = 0
  | .allocT ts ta => okAlignment ta ∧ ts % ta = 0
  | _ => True

end Rarena
