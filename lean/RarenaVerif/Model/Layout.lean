/-
  Model.Layout — constructors (`Memory::alloc`, `map_anon`, freshly created `map_mut`), the byte image
  of the header for the unified layout, and the observation helpers shared with the harness
  (free-list walk as performed by the hook accessor, FNV-1a hash of the memory image).
-/
import RarenaVerif.Model.Core

namespace Rarena

/-- `size_of::<Header>()` (sentinel u64, allocated u32, min_segment_size u32, discarded u32, 4 padding) -/
def HEADER_SIZE : Nat := 24

/-- user-facing options that determine the layout -/
structure Opts where
  sync : Bool
  kind : Kind
  unify : Bool          -- requested; file-backed arenas are always unified
  file : Bool
  anon : Bool := false
  reserved : Nat
  cap : Nat
  minSeg : Nat
  retries : Nat
  magic : Nat
  deriving Repr, Inhabited

def Opts.unified (o : Opts) : Bool := o.unify || o.file

/-- `align_offset::<Header>(reserved) + align_of::<Header>()` -/
def headerOffset (reserved : Nat) : Nat := (reserved + 7) / 8 * 8 + 8

/-- `Options::data_offset_unify` -/
def dataOffsetUnify (reserved : Nat) : Nat := headerOffset reserved + HEADER_SIZE

/-- `Options::data_offset` -/
def dataOffsetPlain (reserved : Nat) : Nat := reserved + 1

def Opts.dataOffset (o : Opts) : Nat :=
  if o.unified then dataOffsetUnify o.reserved else dataOffsetPlain o.reserved

def kindByte : Kind → Nat
  | .none => 0 | .opt => 1 | .pess => 2

/-- `write_sanity` into the 8 bytes following the reserved prefix -/
def writeSanity (m : Mem) (reserved : Nat) (k : Kind) (magic : Nat) : Mem :=
  let m := m.update (reserved + 1) (reserved + 2) (fun _ => UInt8.ofNat (kindByte k))
  let m := m.update (reserved + 2) (reserved + 3) (fun _ => 97)   -- 'a'
  let m := m.update (reserved + 3) (reserved + 4) (fun _ => 108)  -- 'l'
  let m := m.writeLE (reserved + 4) 2 magic
  m.writeLE (reserved + 6) 2 0                                     -- CURRENT_VERSION

def Opts.cfg (o : Opts) : Cfg :=
  { sync := o.sync, kind := o.kind, ro := false, retries := o.retries,
    dataOffset := o.dataOffset, reserved := o.reserved, unify := o.unified, fileBacked := o.file }

/-- `Options::alloc` / `map_anon` / `map_mut` with `create_new`: `none` = construction refused
    (`check_capacity`: the prefix does not fit) -/
def Opts.init (o : Opts) : Option St :=
  if o.dataOffset > o.cap then none
  else
    let mem : Mem := Array.replicate o.cap 0
    let mem := if o.unified then writeSanity mem o.reserved o.kind o.magic else mem
    some { mem := mem, sentinel := SENTINEL_WORD, allocated := o.dataOffset, minSeg := o.minSeg,
           discarded := 0 }

/-- byte `k` (0-based) of the in-memory header -/
def St.headerByte (s : St) (k : Nat) : UInt8 :=
  if k < 8 then Mem.byteLE s.sentinel k
  else if k < 12 then Mem.byteLE s.allocated (k - 8)
  else if k < 16 then Mem.byteLE s.minSeg (k - 12)
  else if k < 20 then Mem.byteLE s.discarded (k - 16)
  else 0

/-- the bytes of `memory()`: for the unified layout the header record is rendered at its offset
    (its 4 trailing padding bytes are unspecified in the implementation and rendered as 0) -/
def St.image (c : Cfg) (s : St) : Mem :=
  if c.unify then
    let h := headerOffset c.reserved
    s.mem.update h (h + HEADER_SIZE) (fun i => s.headerByte (i - h))
  else s.mem

/-- free-list walk exactly as the hook accessor `verif::walk` performs it -/
def walkFrom (m : Mem) : Nat → Nat → List (Nat × Nat) → List (Nat × Nat) × Bool
  | 0, next, acc => (acc.reverse, decide (next ≠ MAXU32))
  | fuel + 1, next, acc =>
    if next = MAXU32 then (acc.reverse, false)
    else if next + 8 > m.size ∨ next % 8 ≠ 0 then (acc.reverse, true)
    else
      let w := m.readWord next
      walkFrom m fuel (wnext w) ((next, wsize w) :: acc)

def St.walk (s : St) (max : Nat) : List (Nat × Nat) × Bool := walkFrom s.mem max (wnext s.sentinel) []

def fnv1a (m : Mem) : UInt64 :=
  m.foldl (fun h b => (h ^^^ b.toUInt64) * 0x100000001b3) 0xcbf29ce484222325

end Rarena
