/-
  Model.Conc — `sync::Arena` as a step machine at the granularity of its atomic accesses.

  Every function of `sync.rs` is written as a program in the free monad `Prog` whose primitive actions are
  the atomic accesses (load / store / compare_exchange(_weak) / fetch_add / fetch_sub) in exactly the order
  in which the Rust code performs them; thread-local computation and non-atomic memory writes (`Meta::clear`,
  client fills) sit in the continuations. `step` executes one atomic access of one thread on the shared
  state; an interleaving is a list of thread ids. Spin loops of the code take an explicit fuel argument
  (`diverge` when it runs out) — the hang witnesses quantify over every fuel.

  The `Ordering` arguments of every access are not written here: each access names its call site
  `(fn, ordinal)` and the orderings are looked up in `Gen/Orderings.lean`, regenerated from the source.
-/
import RarenaVerif.Model.Layout
import RarenaVerif.Gen.Orderings

namespace Rarena.Conc

open Rarena

/-- atomic locations -/
inductive ALoc where
  | sent | alloc | minseg | disc | refs
  | node (off : Nat)
  deriving Repr, DecidableEq

/-- a call site of `sync.rs`: function name and ordinal of the access inside it -/
structure Site where
  fn : String
  idx : Nat
  deriving Repr, DecidableEq

/-- orderings passed at a call site (from the generated table; `[]` if the site is unknown) -/
def Site.ords (s : Site) : List Gen.Ord :=
  match Gen.sites.find? (fun x => x.fn == s.fn && x.idx == s.idx) with
  | some x => x.ords
  | none => []

inductive AKind where
  | ld | st | cas | casw | faa | fas
  deriving Repr, DecidableEq

/-- non-atomic effects performed inside a continuation -/
inductive NA where
  /-- zero `[off, off+len)` (`Meta::clear`) -/
  | zero (off len : Nat)
  /-- client write / read of `[off, off+len)` -/
  | fill (off len : Nat) (b : UInt8)
  | verify (off len : Nat)
  /-- `Memory::unmount` -/
  | unmount
  deriving Repr

/-- programs: trees of atomic accesses -/
inductive Prog (α : Type) : Type where
  | ret (a : α)
  | trap (site : String)
  | diverge
  | load (loc : ALoc) (site : Site) (k : Nat → Prog α)
  | store (loc : ALoc) (v : Nat) (site : Site) (k : Unit → Prog α)
  /-- `k (observed, ok)` -/
  | cas (loc : ALoc) (expected new : Nat) (weak : Bool) (site : Site) (k : Nat × Bool → Prog α)
  /-- fetch_add (`sub = false`) / fetch_sub; `k old` -/
  | rmw (loc : ALoc) (v : Nat) (sub : Bool) (site : Site) (k : Nat → Prog α)
  /-- a non-atomic effect, executed together with the preceding access (no scheduling point) -/
  | na (e : NA) (k : Unit → Prog α)

def Prog.bind {α β : Type} : Prog α → (α → Prog β) → Prog β
  | .ret a, f => f a
  | .trap s, _ => .trap s
  | .diverge, _ => .diverge
  | .load l s k, f => .load l s (fun v => (k v).bind f)
  | .store l v s k, f => .store l v s (fun u => (k u).bind f)
  | .cas l e n w s k, f => .cas l e n w s (fun r => (k r).bind f)
  | .rmw l v sb s k, f => .rmw l v sb s (fun r => (k r).bind f)
  | .na e k, f => .na e (fun u => (k u).bind f)

instance : Monad Prog where
  pure := Prog.ret
  bind := Prog.bind

def load (l : ALoc) (fn : String) (idx : Nat) : Prog Nat := .load l ⟨fn, idx⟩ .ret
def store (l : ALoc) (v : Nat) (fn : String) (idx : Nat) : Prog Unit := .store l v ⟨fn, idx⟩ .ret
def cas (l : ALoc) (e n : Nat) (fn : String) (idx : Nat) : Prog (Nat × Bool) := .cas l e n false ⟨fn, idx⟩ .ret
def casw (l : ALoc) (e n : Nat) (fn : String) (idx : Nat) : Prog (Nat × Bool) := .cas l e n true ⟨fn, idx⟩ .ret
def faa (l : ALoc) (v : Nat) (fn : String) (idx : Nat) : Prog Nat := .rmw l v false ⟨fn, idx⟩ .ret
def fas (l : ALoc) (v : Nat) (fn : String) (idx : Nat) : Prog Nat := .rmw l v true ⟨fn, idx⟩ .ret
def na (e : NA) : Prog Unit := .na e .ret
def liftM' {α : Type} : M α → Prog α
  | .ok a => .ret a
  | .error (.trap s) => .trap s
  | .error .diverge => .diverge

/-! ### the functions of sync.rs -/

def locOf : Loc → ALoc
  | .hdr => .sent
  | .node off => .node off

/-- `remaining()` (only its atomic access matters) -/
def remainingC : Prog Unit := do let _ ← load .alloc "allocated" 0; pure ()

/-- `increase_discarded` -/
def incDiscardedC (c : Cfg) (n : Nat) : Prog Unit :=
  if c.ro then pure () else do let _ ← faa .disc n "increase_discarded" 0; pure ()

/-- `find_position` -/
def findPositionC (val : Nat) (cmp : Nat → Nat → Bool) : Nat → Loc → Nat → Prog (Nat × Loc)
  | 0, _, _ => .diverge
  | fuel + 1, loc, cur =>
    if wsize cur = MAXU32 ∧ wnext cur = MAXU32 then pure (cur, loc)
    else if wsize cur = 0 ∧ wnext cur = MAXU32 then pure (cur, loc)
    else if wsize cur = 0 then do
      let loc' := if wnext cur = MAXU32 then Loc.hdr else Loc.node (wnext cur)
      let cur' ← load (locOf loc') "find_position" 1
      findPositionC val cmp fuel loc' cur'
    else if wnext cur = MAXU32 then pure (cur, loc)
    else do
      let nw ← load (.node (wnext cur)) "find_position" 2
      if wsize nw = 0 then do
        -- the next node is marked removed: search again from the head
        let cur' ← load .sent "find_position" 3
        findPositionC val cmp fuel .hdr cur'
      else if cmp val (wsize nw) then pure (cur, loc)
      else findPositionC val cmp fuel (.node (wnext cur)) nw

def findPositionTop (val : Nat) (cmp : Nat → Nat → Bool) (fuel : Nat) : Prog (Nat × Loc) := do
  let cur ← load .sent "find_position" 0
  findPositionC val cmp fuel .hdr cur

/-- `find_prev_and_next` -/
def findPrevNextC (val : Nat) (cmp : Nat → Nat → Bool) : Nat → Loc → Nat → Prog PrevNext
  | 0, _, _ => .diverge
  | fuel + 1, loc, cur =>
    if wsize cur = MAXU32 ∧ wnext cur = MAXU32 then pure none
    else if wsize cur = 0 ∧ wnext cur = MAXU32 then pure none
    else if wsize cur = 0 then
      if wnext cur = MAXU32 then pure none
      else do
        let cur' ← load (.node (wnext cur)) "find_prev_and_next" 1
        findPrevNextC val cmp fuel (.node (wnext cur)) cur'
    else if wnext cur = MAXU32 then pure none
    else do
      let nw ← load (.node (wnext cur)) "find_prev_and_next" 2
      if cmp val (wsize nw) then
        if wsize nw = 0 then findPrevNextC val cmp fuel loc cur
        else pure (some (cur, loc, nw, wnext cur))
      else findPrevNextC val cmp fuel (.node (wnext cur)) nw

def findPrevNextTop (val : Nat) (cmp : Nat → Nat → Bool) (fuel : Nat) : Prog PrevNext := do
  let cur ← load .sent "find_prev_and_next" 0
  findPrevNextC val cmp fuel .hdr cur

/-- `validate_segment` -/
def validateSegmentC (offset size : Nat) : Prog Bool :=
  if offset = 0 ∨ size = 0 then pure false
  else do
    let a ← liftM' (alignOffset 8 offset)
    let sn := (a - offset) + NODE
    if sn ≥ size then pure false
    else do
      let ms ← load .minseg "validate_segment" 0
      pure (decide (¬ size - sn < ms))

/-- `try_new_segment` -/
def tryNewSegmentC (c : Cfg) (offset size : Nat) : Prog (Option SegRef) :=
  if offset = 0 ∨ size = 0 then pure none
  else do
    let a ← liftM' (alignOffset 8 offset)
    let sn := (a - offset) + NODE
    if sn ≥ size then do incDiscardedC c size; pure none
    else do
      let ms ← load .minseg "try_new_segment" 0
      if size - sn < ms then do incDiscardedC c size; pure none
      else pure (some ⟨a, a + NODE, size - sn⟩)

/-- the loop of `optimistic_dealloc` / `pessimistic_dealloc` -/
def insertLoopC (c : Cfg) (seg : SegRef) (fuel : Nat) : Nat → Prog Bool
  | 0 => .diverge
  | tries + 1 => do
    let (cur, loc) ← findPositionTop seg.size (cmpInsert c.kind) fuel
    if wsize cur = 0 then insertLoopC c seg fuel tries
    else if seg.ptr = wnext cur then insertLoopC c seg fuel tries
    else do
      store (.node seg.ptr) (enc seg.size (wnext cur)) "update_next_node" 0
      let fnName := if c.kind = .opt then "optimistic_dealloc" else "pessimistic_dealloc"
      let (_, ok) ← cas (locOf loc) cur (enc (wsize cur) seg.ptr) fnName 0
      if ok then do incDiscardedC c (seg.data - seg.ptr); pure true
      else insertLoopC c seg fuel tries

def freelistDeallocC (c : Cfg) (offset size fuel : Nat) : Prog Bool := do
  let seg? ← tryNewSegmentC c offset size
  match seg? with
  | none => pure false
  | some seg => insertLoopC c seg fuel fuel

/-- `Allocator::dealloc` -/
def deallocC (c : Cfg) (offset size fuel : Nat) : Prog Bool := do
  let top ← liftM' (addU32 "dealloc:offset+size" offset size)
  let (_, ok) ← cas .alloc top offset "dealloc" 0
  if ok then pure true
  else match c.kind with
    | .none => do incDiscardedC c size; pure true
    | _ => freelistDeallocC c offset size fuel

/-- tail of both slow paths after the segment `(off, nodeSize)` has been unlinked -/
def finishSlowC (c : Cfg) (off nodeSize size fuel : Nat) : Prog (Except Err Meta) := do
  let remaining := nodeSize - size
  let data ← liftM' (addU32 "segment:data_offset" off NODE)
  let dataEnd ← liftM' (addU32 "slow:data_end" data size)
  let split ← validateSegmentC dataEnd remaining
  let memSize ← (if split then do
      let _ ← freelistDeallocC c dataEnd remaining fuel
      pure (nodeSize - remaining)
    else pure nodeSize)
  let m : Meta := ⟨off, memSize, data, size⟩
  na (.zero m.ptrOff m.ptrSize)
  pure (.ok m)

/-- `alloc_slow_path_optimistic` -/
def slowOptC (c : Cfg) (size fuel : Nat) : Nat → Prog (Except Err Meta)
  | 0 => .diverge
  | tries + 1 =>
    if c.ro then pure (.error .readOnly)
    else do
      let sent ← load .sent "alloc_slow_path_optimistic" 0
      let head := wnext sent
      if wsize sent = MAXU32 ∧ head = MAXU32 then do remainingC; pure (.error .insufficient)
      else if head = 0 then slowOptC c size fuel tries
      else do
        let hw ← load (.node head) "alloc_slow_path_optimistic" 1
        if wsize hw = 0 then slowOptC c size fuel tries
        else if size > wsize hw then pure (.error .insufficient)
        else do
          let (_, ok1) ← cas (.node head) hw (enc 0 (wnext hw)) "alloc_slow_path_optimistic" 2
          if !ok1 then slowOptC c size fuel tries
          else do
            let (_, ok2) ← cas .sent sent (enc (wsize sent) (wnext hw)) "alloc_slow_path_optimistic" 3
            if ok2 then finishSlowC c head (wsize hw) size fuel
            else do
              -- give the mark back
              let _ ← cas (.node head) (enc 0 (wnext hw)) hw "alloc_slow_path_optimistic" 4
              slowOptC c size fuel tries

/-- `alloc_slow_path_pessimistic` -/
def slowPessC (c : Cfg) (size fuel : Nat) : Nat → Prog (Except Err Meta)
  | 0 => .diverge
  | tries + 1 =>
    if c.ro then pure (.error .readOnly)
    else do
      let r ← findPrevNextTop size (fun v n => decide (v ≤ n)) fuel
      match r with
      | none => do remainingC; pure (.error .insufficient)
      | some (pw, ploc, nw, noff) =>
        if wsize pw = 0 then slowPessC c size fuel tries
        else if wsize nw = 0 then slowPessC c size fuel tries
        else do
          let (_, ok1) ← cas (.node noff) nw (enc 0 (wnext nw)) "alloc_slow_path_pessimistic" 0
          if !ok1 then slowPessC c size fuel tries
          else do
            let (_, ok2) ← cas (locOf ploc) pw (enc (wsize pw) (wnext nw)) "alloc_slow_path_pessimistic" 1
            if ok2 then do
              let _ ← liftM' (subU "pess:remaining" (wsize nw) size)
              finishSlowC c noff (wsize nw) size fuel
            else do
              -- give the mark back
              let _ ← cas (.node noff) (enc 0 (wnext nw)) nw "alloc_slow_path_pessimistic" 2
              slowPessC c size fuel tries

def slowPathC (c : Cfg) (size fuel : Nat) : Prog (Except Err Meta) :=
  match c.kind with
  | .none => do remainingC; pure (.error .insufficient)
  | .opt => slowOptC c size fuel fuel
  | .pess => slowPessC c size fuel fuel

/-- the `maximum_retries` loop -/
def retryLoopC (c : Cfg) (size fuel : Nat) (post : Meta → M Meta) : Nat → Nat → Prog (Except Err (Option Meta))
  | 0, _ => .diverge
  | n + 1, i => do
    let r ← slowPathC c size fuel
    match r with
    | .ok m => do let m' ← liftM' (post m); pure (.ok (some m'))
    | .error e =>
      if c.kind = .none then pure (.error e)
      else do
        let last := c.retries - 1   -- `max_retries.saturating_sub(1)`
        if i = last then pure (.error e)
        else if i + 1 < 256 then retryLoopC c size fuel post n (i + 1) else .trap "retry:i+=1"

/-- the cursor CAS loop shared by the three entry points: `want cursor` computes the new cursor (or `none`
    when the request does not fit) -/
def bumpLoopC (fn : String) (want : Nat → M (Option Nat)) : Nat → Nat → Prog (Option (Nat × Nat))
  | 0, _ => .diverge
  | fuel + 1, allocated => do
    let w ← liftM' (want allocated)
    match w with
    | none => pure none
    | some wnt => do
      let (obs, ok) ← casw .alloc allocated wnt fn 1
      if ok then pure (some (allocated, wnt)) else bumpLoopC fn want fuel obs

/-- `alloc_bytes_in` -/
def allocBytesC (c : Cfg) (cap size fuel : Nat) : Prog (Except Err (Option Meta)) :=
  if c.ro then pure (.error .readOnly)
  else if size = 0 then pure (.ok none)
  else do
    let a0 ← load .alloc "alloc_bytes_in" 0
    let r ← bumpLoopC "alloc_bytes_in" (fun a => pure ((checkedAddU32 a size).filter (· ≤ cap))) fuel a0
    match r with
    | some (off, _) => do
      let m := Meta.new off size
      na (.zero m.ptrOff m.ptrSize)
      pure (.ok (some m))
    | none => retryLoopC c size fuel pure 300 0

/-- `alloc_aligned_bytes_in::<T>` -/
def allocAlignedC (c : Cfg) (cap tsize talign extra fuel : Nat) : Prog (Except Err (Option Meta)) :=
  if c.ro then pure (.error .readOnly)
  else if tsize = 0 ∧ (extra = 0 ∨ talign = 1) then allocBytesC c cap extra fuel
  else do
    let a0 ← load .alloc "alloc_aligned_bytes_in" 0
    let r ← bumpLoopC "alloc_aligned_bytes_in" (fun a => do
        let aligned ← alignOffset talign a
        let base ← addU32 "aligned+size" aligned tsize
        pure ((checkedAddU32 base extra).filter (· ≤ cap))) fuel a0
    match r with
    | some (off, wnt) => do
      let m ← liftM' ((Meta.new off (wnt - off)).alignBytesTo talign)
      pure (.ok (some m))
    | none =>
      match checkedAddU32 (pad tsize talign) extra with
      | none => do remainingC; pure (.error .insufficient)
      | some padded => retryLoopC c padded fuel (fun m => m.alignBytesTo talign) 300 0

/-- `alloc_in::<T>` -/
def allocTC (c : Cfg) (cap tsize talign fuel : Nat) : Prog (Except Err (Option Meta)) :=
  if c.ro then pure (.error .readOnly)
  else if tsize = 0 then pure (.ok none)
  else do
    let a0 ← load .alloc "alloc_in" 0
    let r ← bumpLoopC "alloc_in" (fun a => do
        let aligned ← alignOffset talign a
        let wnt ← addU32 "aligned+size" aligned tsize
        pure (if wnt ≤ cap then some wnt else none)) fuel a0
    match r with
    | some (off, wnt) => do
      let m ← liftM' ((Meta.new off (wnt - off)).alignTo talign tsize)
      na (.zero m.ptrOff m.ptrSize)
      pure (.ok (some m))
    | none => retryLoopC c (pad tsize talign) fuel (fun m => m.alignTo talign tsize) 300 0

/-- `discard_freelist_in` -/
def discardLoopC (c : Cfg) : Nat → Nat → Prog Nat
  | 0, _ => .diverge
  | fuel + 1, acc => do
    let sent ← load .sent "discard_freelist_in" 0
    let head := wnext sent
    if wsize sent = MAXU32 ∧ head = MAXU32 then pure acc
    else if head = 0 then discardLoopC c fuel acc
    else do
      let hw ← load (.node head) "discard_freelist_in" 1
      if wsize hw = 0 then discardLoopC c fuel acc
      else do
        let (_, ok1) ← cas (.node head) hw (enc 0 (wnext hw)) "discard_freelist_in" 2
        if !ok1 then discardLoopC c fuel acc
        else do
          let (_, ok2) ← cas .sent sent (enc (wsize sent) (wnext hw)) "discard_freelist_in" 3
          if ok2 then do
            incDiscardedC c (wsize hw)
            let acc' ← liftM' (addU32 "discard:sum" acc (wsize hw))
            discardLoopC c fuel acc'
          else do
            -- give the mark back
            let _ ← cas (.node head) (enc 0 (wnext hw)) hw "discard_freelist_in" 4
            discardLoopC c fuel acc

def discardFreelistC (c : Cfg) (fuel : Nat) : Prog (Except Err Nat) :=
  if c.ro then pure (.error .readOnly)
  else match c.kind with
    | .none => pure (.ok 0)
    | _ => do let n ← discardLoopC c fuel 0; pure (.ok n)

/-- `Clone for Arena` -/
def cloneC : Prog Unit := do let _ ← faa .refs 1 "clone" 0; pure ()

/-- `Drop for Arena` -/
def dropArenaC : Prog Unit := do
  let old ← fas .refs 1 "drop" 0
  if old ≠ 1 then pure ()
  else do
    let _ ← load .refs "drop" 1
    na .unmount

/-! ### the machine -/

/-- shared state -/
structure Shared where
  st : St
  refs : Nat
  /-- number of `unmount` executions -/
  released : Nat := 0
  deriving Inhabited

/-- an executed atomic access -/
structure Event where
  kind : AKind
  loc : ALoc
  site : Site
  old : Nat
  new : Nat
  ok : Bool
  deriving Repr

def Shared.read (sh : Shared) : ALoc → M Nat
  | .sent => pure sh.st.sentinel
  | .alloc => pure sh.st.allocated
  | .minseg => pure sh.st.minSeg
  | .disc => pure sh.st.discarded
  | .refs => pure sh.refs
  | .node off => sh.st.mem.readWord? off

/-- width of the location's integer type: 2^32 for the `u32` header fields, 2^64 otherwise -/
def ALoc.modulus : ALoc → Nat
  | .alloc | .minseg | .disc => TWO32
  | _ => TWO64

def Shared.write (sh : Shared) (l : ALoc) (v : Nat) : M Shared :=
  match l with
  | .sent => pure { sh with st := { sh.st with sentinel := v } }
  | .alloc => pure { sh with st := { sh.st with allocated := v } }
  | .minseg => pure { sh with st := { sh.st with minSeg := v } }
  | .disc => pure { sh with st := { sh.st with discarded := v } }
  | .refs => pure { sh with refs := v }
  | .node off => do
    let mem ← sh.st.mem.writeWord? off v
    pure { sh with st := { sh.st with mem := mem } }

def Shared.applyNA (sh : Shared) : NA → M Shared
  | .zero off len => do
    let mem ← sh.st.mem.zero? off len
    pure { sh with st := { sh.st with mem := mem } }
  | .fill off len b => pure { sh with st := { sh.st with mem := sh.st.mem.fill off len b } }
  | .verify _ _ => pure sh
  | .unmount => pure { sh with released := sh.released + 1 }

/-- result of letting a program run until its next atomic access -/
inductive Settled (α : Type) where
  | done (a : α)
  | failed (f : Fail)
  | blocked (p : Prog α)   -- head is an atomic access

/-- run the non-atomic prefix of a program (collecting the non-atomic effects) -/
def settle {α : Type} : Nat → Shared → Prog α → List NA → Shared × Settled α × List NA
  | 0, sh, _, nas => (sh, .failed .diverge, nas)
  | fuel + 1, sh, p, nas =>
    match p with
    | .ret a => (sh, .done a, nas)
    | .trap s => (sh, .failed (.trap s), nas)
    | .diverge => (sh, .failed .diverge, nas)
    | .na e k =>
      match sh.applyNA e with
      | .ok sh' => settle fuel sh' (k ()) (nas ++ [e])
      | .error f => (sh, .failed f, nas)
    | p => (sh, .blocked p, nas)

/-- perform the atomic access at the head of `p`; `spurious` makes a weak CAS fail without comparing -/
def stepAccess {α : Type} (sh : Shared) (p : Prog α) (spurious : Bool) : M (Shared × Prog α × Event) :=
  match p with
  | .load l s k => do
    let v ← sh.read l
    pure (sh, k v, ⟨.ld, l, s, v, v, true⟩)
  | .store l v s k => do
    let old ← sh.read l
    let sh' ← sh.write l v
    pure (sh', k (), ⟨.st, l, s, old, v, true⟩)
  | .cas l e n w s k => do
    let old ← sh.read l
    if w ∧ spurious then pure (sh, k (old, false), ⟨.casw, l, s, old, old, false⟩)
    else if old = e then do
      let sh' ← sh.write l n
      pure (sh', k (old, true), ⟨if w then .casw else .cas, l, s, old, n, true⟩)
    else pure (sh, k (old, false), ⟨if w then .casw else .cas, l, s, old, old, false⟩)
  | .rmw l v sub s k => do
    let old ← sh.read l
    let new := if sub then (old + l.modulus - v % l.modulus) % l.modulus else (old + v) % l.modulus
    let sh' ← sh.write l new
    pure (sh', k old, ⟨if sub then .fas else .faa, l, s, old, new, true⟩)
  | _ => throw (.trap "stepAccess: not an access")

end Rarena.Conc

namespace Rarena.Conc

/-! ### several threads -/

/-- global state: the shared memory and one program per thread (`none` = finished, with its result) -/
structure Global (α : Type) where
  sh : Shared
  threads : List (Prog α)

/-- grant one step to thread `tid`: run its pending non-atomic prefix, perform its next atomic access, then
    run the non-atomic code that follows. A finished (or failed) thread is left alone. Returns the event, if any. -/
def Global.step {α : Type} (g : Global α) (tid : Nat) (spurious : Bool) : Global α × Option Event :=
  match g.threads[tid]? with
  | none => (g, none)
  | some p =>
    match settle 100000 g.sh p [] with
    | (sh1, .blocked p1, _) =>
      match stepAccess sh1 p1 spurious with
      | .ok (sh2, p2, e) =>
        match settle 100000 sh2 p2 [] with
        | (sh3, .blocked p3, _) => ({ sh := sh3, threads := g.threads.set tid p3 }, some e)
        | (sh3, .done a, _) => ({ sh := sh3, threads := g.threads.set tid (.ret a) }, some e)
        | (sh3, .failed (.trap s), _) => ({ sh := sh3, threads := g.threads.set tid (.trap s) }, some e)
        | (sh3, .failed .diverge, _) => ({ sh := sh3, threads := g.threads.set tid .diverge }, some e)
      | .error (.trap s) => ({ g with sh := sh1, threads := g.threads.set tid (.trap s) }, none)
      | .error .diverge => ({ g with sh := sh1, threads := g.threads.set tid .diverge }, none)
    | (sh1, .done a, _) => ({ sh := sh1, threads := g.threads.set tid (.ret a) }, none)
    | (sh1, .failed (.trap s), _) => ({ sh := sh1, threads := g.threads.set tid (.trap s) }, none)
    | (sh1, .failed .diverge, _) => ({ sh := sh1, threads := g.threads.set tid .diverge }, none)

/-- run a schedule (a list of thread ids with the spurious-failure choice) -/
def Global.run {α : Type} (g : Global α) : List (Nat × Bool) → Global α × List (Nat × Event)
  | [] => (g, [])
  | (tid, sp) :: rest =>
    let (g1, e) := g.step tid sp
    let (g2, es) := g1.run rest
    (g2, match e with | some e => (tid, e) :: es | none => es)

/-- results of the finished threads -/
def Global.results {α : Type} (g : Global α) : List (Option α) :=
  g.threads.map (fun p => match p with | .ret a => some a | _ => none)

/-- run one program alone to completion -/
def runSolo {α : Type} : Nat → Shared → Prog α → M (α × Shared)
  | 0, _, _ => throw .diverge
  | n + 1, sh, p =>
    match p with
    | .ret a => pure (a, sh)
    | .trap s => throw (.trap s)
    | .diverge => throw .diverge
    | .na e k => do let sh' ← sh.applyNA e; runSolo n sh' (k ())
    | p => do let (sh', p', _) ← stepAccess sh p false; runSolo n sh' p'

/-- a thread that performs bump allocations of the given byte sizes one after the other and returns the
    handles it obtained -/
def allocAllC (c : Cfg) (cap fuel : Nat) : List Nat → Prog (List Meta)
  | [] => pure []
  | n :: rest => do
    let r ← allocBytesC c cap n fuel
    let ms ← allocAllC c cap fuel rest
    match r with
    | .ok (some m) => pure (m :: ms)
    | _ => pure ms

end Rarena.Conc
