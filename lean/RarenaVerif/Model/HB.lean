/-
  Model.HB — happens-before over interleavings, in the standard release/acquire vector-clock form.

  A trace is a list of accesses in the (sequentially consistent) order in which the controlled scheduler
  executed them: atomic accesses with the `Ordering` arguments the code actually passed (success and
  failure orderings of a CAS are distinguished), and non-atomic accesses to byte ranges (client fills and
  reads, the arena's zero-filling, the final unmapping). `check` replays the trace maintaining
    * a vector clock per thread,
    * a release clock per atomic location (release store: := thread clock; relaxed store: := ⊥;
      read-modify-write: joins its own clock if it is a release, and in any case continues the release
      sequence it reads from),
    * per byte: the epoch of the last non-atomic write, the clocks of the non-atomic reads since, and the
      clocks of the atomic accesses to that byte,
  and reports every access that is not ordered after a conflicting earlier access of another thread
  (non-atomic vs non-atomic, and "mixed": atomic vs non-atomic on the same bytes).
-/
import RarenaVerif.Gen.Orderings

namespace Rarena.HB

open Rarena

abbrev VC := Array Nat

def VC.get (v : VC) (i : Nat) : Nat := v.getD i 0
def VC.join (a b : VC) : VC := Array.ofFn (n := max a.size b.size) (fun i => max (VC.get a i.val) (VC.get b i.val))
def VC.le (a b : VC) : Bool := (List.range a.size).all (fun i => VC.get a i ≤ VC.get b i)
def VC.bump (v : VC) (t : Nat) : VC :=
  let v := if v.size ≤ t then v ++ Array.replicate (t + 1 - v.size) 0 else v
  v.setIfInBounds t (VC.get v t + 1)

def isAcq : Gen.Ord → Bool
  | .acquire | .acqRel | .seqCst => true
  | _ => false

def isRel : Gen.Ord → Bool
  | .release | .acqRel | .seqCst => true
  | _ => false

inductive AccKind where
  | load | store | rmw
  /-- a failed compare-exchange: a load with the failure ordering -/
  | casFail
  deriving Repr, DecidableEq

/-- one access of the trace -/
inductive Acc where
  /-- atomic access of thread `t` to location key `loc`; `bytes` = the memory range it occupies (if it is a
      node word inside the arena memory), `ord` = the ordering that applies -/
  | atomic (t : Nat) (k : AccKind) (loc : Nat) (bytes : Option (Nat × Nat)) (ord : Gen.Ord)
  /-- non-atomic access of thread `t` to `[lo, hi)`; `write` also covers the arena's zero-filling and the unmapping -/
  | plain (t : Nat) (write : Bool) (lo hi : Nat) (what : String)
  deriving Repr

structure ByteInfo where
  /-- last non-atomic write: thread, clock value of that thread at the write -/
  w : Option (Nat × Nat) := none
  /-- non-atomic reads since the last write, as a vector of epochs -/
  r : VC := #[]
  /-- atomic accesses to this byte, as a vector of epochs -/
  a : VC := #[]
  deriving Inhabited

structure State where
  clocks : List (Nat × VC)          -- per thread
  rel : List (Nat × VC)             -- release clock per atomic location
  bytes : Array ByteInfo
  races : List String := []
  deriving Inhabited

def State.clock (s : State) (t : Nat) : VC := ((s.clocks.find? (·.1 == t)).map (·.2)).getD (VC.bump #[] t)
def State.setClock (s : State) (t : Nat) (v : VC) : State := { s with clocks := (t, v) :: s.clocks.filter (·.1 != t) }
def State.relOf (s : State) (l : Nat) : VC := ((s.rel.find? (·.1 == l)).map (·.2)).getD #[]
def State.setRel (s : State) (l : Nat) (v : VC) : State := { s with rel := (l, v) :: s.rel.filter (·.1 != l) }

/-- initial state: `threads` start after thread 0 (the set-up phase) has finished -/
def State.init (cap : Nat) (threads : List Nat) : State :=
  { clocks := (0, #[1]) :: threads.map (fun t => (t, VC.bump #[1] t)), rel := [],
    bytes := Array.replicate cap {} }

def epochLe (e : Option (Nat × Nat)) (c : VC) (t : Nat) : Bool :=
  match e with
  | none => true
  | some (u, k) => u == t || k ≤ VC.get c u

/-- are all epochs of `v` (other than thread `t`'s own) ordered before `c` -/
def othersLe (v c : VC) (t : Nat) : Bool := (List.range v.size).all (fun i => i == t || VC.get v i ≤ VC.get c i)

def State.race (s : State) (msg : String) : State := { s with races := s.races ++ [msg] }

def step (s : State) : Acc → State
  | .atomic t k loc bytes ord =>
    let c := s.clock t
    -- acquire side
    let c1 := if (k == .load || k == .casFail || k == .rmw) && isAcq ord then c.join (s.relOf loc) else c
    -- mixed conflicts with non-atomic accesses on the same bytes
    let s := match bytes with
      | none => s
      | some (lo, hi) => Id.run do
        let mut s := s
        for b in [lo:hi] do
          let bi := s.bytes.getD b {}
          if !epochLe bi.w c1 t then
            s := s.race s!"mixed: atomic access by t={t} to bytes [{lo},{hi}) races with a non-atomic write of another thread"
          if (k == AccKind.store || k == AccKind.rmw) && !othersLe bi.r c1 t then
            s := s.race s!"mixed: atomic write by t={t} to bytes [{lo},{hi}) races with a non-atomic read"
          s := { s with bytes := s.bytes.setIfInBounds b { bi with a := (VC.bump #[] t).join bi.a |>.setIfInBounds t (VC.get c1 t) } }
        return s
    -- release side
    let s := match k with
      | .store => if isRel ord then s.setRel loc c1 else s.setRel loc #[]
      | .rmw => if isRel ord then s.setRel loc ((s.relOf loc).join c1) else s
      | _ => s
    let c2 := if (k == .store || k == .rmw) && isRel ord then c1.bump t else c1
    s.setClock t c2
  | .plain t write lo hi what => Id.run do
    let c := s.clock t
    let mut s := s
    let mut reported := false
    for b in [lo:hi] do
      let bi := s.bytes.getD b {}
      if !reported && !epochLe bi.w c t then
        s := s.race s!"race: {what} ({if write then "write" else "read"}) of [{lo},{hi}) by t={t} is not ordered after the write of another thread at byte {b}"
        reported := true
      if write && !reported && !othersLe bi.r c t then
        s := s.race s!"race: {what} (write) of [{lo},{hi}) by t={t} is not ordered after a read at byte {b}"
        reported := true
      if write && !reported && !othersLe bi.a c t then
        s := s.race s!"mixed: {what} (write) of [{lo},{hi}) by t={t} is not ordered after an atomic access to byte {b}"
        reported := true
      let bi' : ByteInfo :=
        if write then { w := some (t, VC.get c t), r := #[], a := bi.a }
        else { bi with r := ((VC.bump #[] t).join bi.r).setIfInBounds t (VC.get c t) }
      s := { s with bytes := s.bytes.setIfInBounds b bi' }
    -- every non-atomic access opens a new epoch of the thread, so that later accesses are distinguishable
    return s.setClock t (c.bump t)

def check (cap : Nat) (threads : List Nat) (tr : List Acc) : State := tr.foldl step (State.init cap threads)

end Rarena.HB
