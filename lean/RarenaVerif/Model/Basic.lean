/-
  Model.Basic — byte memory, little-endian words, free-list node words, alignment.
  Import-free (core only) so that the driver can be linked as an executable.
-/

namespace Rarena

/-- `u32::MAX`: the sentinel value of both halves of the sentinel node word. -/
def MAXU32 : Nat := 4294967295
def TWO32 : Nat := 4294967296
def TWO64 : Nat := 18446744073709551616
/-- size of a free-list node word -/
def NODE : Nat := 8

/-- Why an operation of the model did not return normally. -/
inductive Fail where
  /-- the Rust code performs unchecked arithmetic that overflows here (debug: panic, release: wrap),
      or touches memory outside `[0, cap)` -/
  | trap (site : String)
  /-- a loop of the code did not terminate within the fuel -/
  | diverge
  deriving Repr, DecidableEq

abbrev M := Except Fail

/-! ## memory -/

abbrev Mem := Array UInt8

namespace Mem

/-- total byte read (0 outside); the model checks bounds before it reads -/
@[inline] def rd (m : Mem) (i : Nat) : Nat := (m[i]?.getD 0).toNat

/-- the only write primitive: overwrite `[lo, hi)` with `f` -/
@[inline] def update (m : Mem) (lo hi : Nat) (f : Nat → UInt8) : Mem :=
  m.mapIdx (fun i x => if lo ≤ i ∧ i < hi then f i else x)

def fill (m : Mem) (off len : Nat) (b : UInt8) : Mem := m.update off (off + len) (fun _ => b)

def zero (m : Mem) (off len : Nat) : Mem := m.fill off len 0

/-- little-endian `w`-byte unsigned value at `off` -/
def readLE (m : Mem) (off : Nat) : Nat → Nat
  | 0 => 0
  | w + 1 => m.rd off + 256 * readLE m (off + 1) w

/-- big-endian `w`-byte unsigned value at `off` -/
def readBE (m : Mem) (off : Nat) : Nat → Nat
  | 0 => 0
  | w + 1 => m.rd off * 256 ^ w + readBE m (off + 1) w

def byteLE (v k : Nat) : UInt8 := UInt8.ofNat (v / 256 ^ k % 256)

def writeLE (m : Mem) (off w v : Nat) : Mem := m.update off (off + w) (fun i => byteLE v (i - off))

def writeBE (m : Mem) (off w v : Nat) : Mem :=
  m.update off (off + w) (fun i => byteLE v (w - 1 - (i - off)))

def readWord (m : Mem) (off : Nat) : Nat := m.readLE off 8

def writeWord (m : Mem) (off v : Nat) : Mem := m.writeLE off 8 v

/-- bounds-checked word read: a node word outside the arena is an out-of-bounds access -/
def readWord? (m : Mem) (off : Nat) : M Nat :=
  if off + 8 ≤ m.size then pure (m.readWord off) else throw (.trap "oob-read")

def writeWord? (m : Mem) (off v : Nat) : M Mem :=
  if off + 8 ≤ m.size then pure (m.writeWord off v) else throw (.trap "oob-write")

def zero? (m : Mem) (off len : Nat) : M Mem :=
  if off + len ≤ m.size then pure (m.zero off len) else throw (.trap "oob-zero")

/-- are all bytes of `[off, off+len)` zero -/
def allZero (m : Mem) (off len : Nat) : Bool := (List.range len).all (fun k => m.rd (off + k) == 0)

end Mem

/-! ## node words -/

@[inline] def wsize (w : Nat) : Nat := w / TWO32
@[inline] def wnext (w : Nat) : Nat := w % TWO32
@[inline] def enc (size next : Nat) : Nat := size * TWO32 + next

def SENTINEL_WORD : Nat := enc MAXU32 MAXU32

/-! ## checked / unchecked u32 arithmetic -/

/-- unchecked `a + b` on `u32` -/
def addU32 (site : String) (a b : Nat) : M Nat :=
  if a + b < TWO32 then pure (a + b) else throw (.trap site)

/-- unchecked `a - b` on `u32`/`usize` -/
def subU (site : String) (a b : Nat) : M Nat :=
  if b ≤ a then pure (a - b) else throw (.trap site)

/-- `checked_add` -/
def checkedAddU32 (a b : Nat) : Option Nat := if a + b < TWO32 then some (a + b) else none

/-- `align_offset::<T>(x)` with `align_of::<T>() = a` (a power of two): the code computes
    `(x + a - 1) & !(a - 1)` in `u32` with an unchecked addition. -/
def alignOffset (a x : Nat) : M Nat :=
  if x + a - 1 < TWO32 then pure ((x + a - 1) / a * a) else throw (.trap "align_offset")

/-- the mask expression of the code, on 32-bit values -/
def alignOffsetMask (a x : Nat) : Nat := (x + a - 1) &&& (TWO32 - 1 - (a - 1))

end Rarena
