/-
  Model.Bytes — byte-level API: buffer writers/readers of `Bytes*` handles (lib.rs macros),
  LEB128 (`const-varint 0.2.1`, re-exported by dbutils), arena-level readers (allocator.rs),
  and the page-chunked checksum.
-/
import RarenaVerif.Model.Handle

namespace Rarena

/-- an integer type of the API: width in bytes and signedness (`usize`/`isize` = 8 bytes) -/
structure IntTy where
  bytes : Nat
  signed : Bool
  deriving Repr, DecidableEq, Inhabited

inductive Order where
  | be | le
  deriving Repr, DecidableEq, Inhabited

def IntTy.modulus (t : IntTy) : Nat := 256 ^ t.bytes

/-- two's-complement encoding of `v` into `[0, 2^(8w))` -/
def IntTy.encode (t : IntTy) (v : Int) : Nat := (v % (t.modulus : Int)).toNat

/-- decoding of an unsigned bit pattern -/
def IntTy.decode (t : IntTy) (u : Nat) : Int :=
  if t.signed ∧ u ≥ t.modulus / 2 then (u : Int) - t.modulus else u

/-- is `v` a value of the type -/
def IntTy.inRange (t : IntTy) (v : Int) : Bool :=
  if t.signed then decide (-(t.modulus / 2 : Nat) ≤ v ∧ v < (t.modulus / 2 : Nat))
  else decide (0 ≤ v ∧ v < t.modulus)

def Mem.readInt (m : Mem) (off : Nat) (t : IntTy) (o : Order) : Int :=
  t.decode (match o with | .le => m.readLE off t.bytes | .be => m.readBE off t.bytes)

def Mem.writeInt (m : Mem) (off : Nat) (t : IntTy) (o : Order) (v : Int) : Mem :=
  match o with
  | .le => m.writeLE off t.bytes (t.encode v)
  | .be => m.writeBE off t.bytes (t.encode v)

/-! ### buffers -/

inductive BufErr where
  | insufficient | incomplete | varint | panic
  deriving Repr, DecidableEq

abbrev BufRes (α : Type) := Except BufErr α

/-- `put_<ty>_<order>` -/
def bufPut (mem : Mem) (h : Handle) (t : IntTy) (o : Order) (v : Int) : BufRes (Mem × Handle) :=
  if h.len + t.bytes > h.mt.ptrSize then .error .insufficient
  else .ok (mem.writeInt (h.mt.ptrOff + h.len) t o v, { h with len := h.len + t.bytes })

/-- `get_<ty>_<order>` -/
def bufGet (mem : Mem) (h : Handle) (t : IntTy) (o : Order) : BufRes (Int × Handle) :=
  if h.len < t.bytes then .error .incomplete
  else .ok (mem.readInt (h.mt.ptrOff + h.len - t.bytes) t o, { h with len := h.len - t.bytes })

/-- `put_slice(&[b; l])` -/
def bufPutSlice (mem : Mem) (h : Handle) (l : Nat) (b : UInt8) : BufRes (Mem × Handle) :=
  if h.len + l > h.mt.ptrSize then .error .insufficient
  else .ok (mem.fill (h.mt.ptrOff + h.len) l b, { h with len := h.len + l })

/-- `set_len` -/
def bufSetLen (mem : Mem) (h : Handle) (n : Nat) : BufRes (Mem × Handle) :=
  if n > h.mt.ptrSize then .error .panic
  else if n = h.len then .ok (mem, h)
  else if n > h.len then .ok (mem.zero (h.mt.ptrOff + h.len) (n - h.len), { h with len := n })
  else .ok (mem.zero (h.mt.ptrOff + n) (h.len - n), { h with len := n })

/-- `align_to::<T>` (`none` = dangling pointer of a zero-sized `T`) -/
def bufAlignTo (h : Handle) (talign tsize : Nat) : M (BufRes (Option Nat × Handle)) :=
  if tsize = 0 then pure (.ok (none, h))
  else do
    let a ← alignOffset talign (h.mt.ptrOff + h.len)
    if a > h.mt.ptrOff + h.mt.ptrSize then pure (.error .insufficient)
    else pure (.ok (some a, { h with len := a - h.mt.ptrOff }))

/-- `put::<T>` of a value whose bytes are all `b` -/
def bufPutT (mem : Mem) (h : Handle) (tsize : Nat) (b : UInt8) : BufRes (Mem × Handle) :=
  if h.len + tsize > h.mt.ptrSize then .error .insufficient
  else .ok (mem.fill (h.mt.ptrOff + h.len) tsize b, { h with len := h.len + tsize })

/-- `put_aligned::<T>` -/
def bufPutAligned (mem : Mem) (h : Handle) (talign tsize : Nat) (b : UInt8) :
    M (BufRes (Option Nat × Mem × Handle)) := do
  let r ← bufAlignTo h talign tsize
  match r with
  | .error e => pure (.error e)
  | .ok (po, h1) =>
    if h1.len + tsize > h1.mt.ptrSize then pure (.error .insufficient)
    else pure (.ok (po, mem.fill (h1.mt.ptrOff + h1.len) tsize b, { h1 with len := h1.len + tsize }))

/-! ### LEB128 -/

/-- `MAX_ENCODED_LEN` -/
def maxVarintLen (bytes : Nat) : Nat := (8 * bytes + 6) / 7

/-- zig-zag encoding of an `i<8w>` -/
def zigzag (t : IntTy) (v : Int) : Nat :=
  if v ≥ 0 then (2 * v).toNat % t.modulus else (-(2 * v) - 1).toNat % t.modulus

def unzigzag (u : Nat) : Int := if u % 2 = 0 then (u / 2 : Nat) else -((u / 2 : Nat) : Int) - 1

/-- the unsigned value a varint put of `v` encodes -/
def varintPayload (t : IntTy) (v : Int) : Nat := if t.signed then zigzag t v else t.encode v

/-- `encode_varint!(@to_buf ..)`: writes into `[off, off+room)`; on failure the bytes written so
    far stay (`none` = `EncodeError::Underflow`) -/
def encodeVarintTo (mem : Mem) (off room : Nat) : Nat → Nat → Nat → Mem × Option Nat
  | 0, _, _ => (mem, none)
  | fuel + 1, x, i =>
    if x ≥ 128 then
      if i ≥ room then (mem, none)
      else encodeVarintTo (mem.fill (off + i) 1 (UInt8.ofNat (x % 128 + 128))) off room fuel (x / 128) (i + 1)
    else if i ≥ room then (mem, none)
    else (mem.fill (off + i) 1 (UInt8.ofNat x), some (i + 1))

/-- `put_<ty>_varint` -/
def bufPutVarint (mem : Mem) (h : Handle) (t : IntTy) (v : Int) : Mem × BufRes (Nat × Handle) :=
  let (mem', r) := encodeVarintTo mem (h.mt.ptrOff + h.len) (h.mt.ptrSize - h.len) 40 (varintPayload t v) 0
  match r with
  | none => (mem', .error .insufficient)
  | some n => (mem', .ok (n, { h with len := h.len + n }))

inductive VarintErr where
  | overflow | underflow
  deriving Repr, DecidableEq

/-- the overflow mask of the last group: `u8::MAX << (size_of::<T>() % 7)` -/
def lastGroupMask (bytes : Nat) : Nat := (255 * 2 ^ (bytes % 7)) % 256

/-- `decode_varint!` over the slice `[off, off+avail)` for an unsigned type of `bytes` bytes -/
def decodeVarint (mem : Mem) (off avail bytes : Nat) : Nat → Nat → Nat → Nat → Except VarintErr (Nat × Nat)
  | 0, _, _, _ => .error .overflow
  | fuel + 1, index, shift, result =>
    if index = maxVarintLen bytes then .error .overflow
    else if index ≥ avail then .error .underflow
    else
      let next := mem.rd (off + index)
      let v := 8 * bytes / 7 * 7
      let hasOverflow :=
        if shift < v then false
        else if shift = v then (next &&& lastGroupMask bytes) ≠ 0
        else true
      if hasOverflow then .error .overflow
      else
        let result := result + (next % 128) * 2 ^ shift
        if next < 128 then .ok (index + 1, result)
        else decodeVarint mem off avail bytes fuel (index + 1) (shift + 7) result

def decodeVarintTy (mem : Mem) (off avail : Nat) (t : IntTy) : Except VarintErr (Nat × Int) :=
  match decodeVarint mem off avail t.bytes 40 0 0 0 with
  | .error e => .error e
  | .ok (n, u) => .ok (n, if t.signed then unzigzag u else (u : Int))

/-- `get_<ty>_varint` of a buffer: decodes from the written part `[offset, offset+len)` -/
def bufGetVarint (mem : Mem) (h : Handle) (t : IntTy) : BufRes (Nat × Int) :=
  match decodeVarintTy mem h.mt.ptrOff h.len t with
  | .error _ => .error .varint
  | .ok r => .ok r

/-! ### arena-level readers (`Allocator::get_*`) -/

inductive RdErr where
  | outOfBounds | varint
  deriving Repr, DecidableEq

/-- `get_u8` / `get_i8` / `get_<ty>_<order>`: `offset` is a `usize` -/
def rdFixed (img : Mem) (allocated offset : Nat) (t : IntTy) (o : Order) : Except RdErr Int :=
  if t.bytes = 1 then
    if offset ≥ allocated then .error .outOfBounds else .ok (img.readInt offset t o)
  else if offset + t.bytes ≥ TWO64 ∨ offset + t.bytes > allocated then .error .outOfBounds
  else .ok (img.readInt offset t o)

/-- `get_<ty>_varint` -/
def rdVarint (img : Mem) (allocated offset : Nat) (t : IntTy) : Except RdErr (Nat × Int) :=
  if offset ≥ allocated then .error .outOfBounds
  else
    let gap := min (allocated - offset) (maxVarintLen t.bytes)
    match decodeVarintTy img offset gap t with
    | .error _ => .error .varint
    | .ok r => .ok r

/-! ### checksum -/

/-- a streaming checksummer: state, byte step, digest -/
structure Checksummer (σ : Type) where
  init : σ
  upd : σ → UInt8 → σ
  digest : σ → Nat

def Checksummer.feed {σ} (c : Checksummer σ) (s : σ) (data : List UInt8) : σ := data.foldl c.upd s

/-- `Allocator::checksum`: full pages, then the remainder -/
def Checksummer.chunked {σ} (c : Checksummer σ) (page : Nat) (data : List UInt8) : Nat :=
  let full := data.length / page
  let s := (List.range full).foldl (fun s k => c.feed s ((data.drop (k * page)).take page)) c.init
  let rem := data.length % page
  let s := if rem > 0 then c.feed s (data.drop (full * page)) else s
  c.digest s

def Checksummer.oneShot {σ} (c : Checksummer σ) (data : List UInt8) : Nat := c.digest (c.feed c.init data)

def crc32Step (crc : UInt32) (b : UInt8) : UInt32 :=
  let c := crc ^^^ b.toUInt32
  let step := fun (c : UInt32) => if c &&& 1 = 1 then (c >>> 1) ^^^ 0xEDB88320 else c >>> 1
  step (step (step (step (step (step (step (step c)))))))

def crc32 : Checksummer UInt32 :=
  { init := 0xFFFFFFFF, upd := crc32Step, digest := fun s => (s ^^^ 0xFFFFFFFF).toNat }

def ordSum : Checksummer UInt64 :=
  { init := 0, upd := fun h b => h * 1099511628211 + (b.toUInt64 + 1), digest := fun h => h.toNat }

/-- the bytes `allocated_memory()[reserved..]` -/
def checksumData (img : Mem) (reserved allocated : Nat) : List UInt8 :=
  (img.toList.take allocated).drop reserved

end Rarena
