/-
  Model.File — file-backed arenas: create, close, reopen (`map_mut`, `map_copy`, `map`,
  `map_copy_read_only`), written after `Options::open`, `Memory::map_mut_in` and `Memory::map_in`
  effect by effect, in the code's order.

  Assumed OS behaviour (trusted base, exercised by the correspondence on the real file system):
  `set_len` extends with zeros; a shared mapping *is* the file's bytes; a private mapping never changes the
  file; mapping zero bytes fails with `InvalidInput`.
-/
import RarenaVerif.Model.Layout

namespace Rarena

inductive IoKind where
  | notFound | alreadyExists | invalidInput | invalidData | permissionDenied
  deriving Repr, DecidableEq

inductive OpenMode where
  /-- `map_mut`: shared writable -/
  | mut
  /-- `map_copy`: private copy-on-write -/
  | copy
  /-- `map`: shared read-only -/
  | ro
  /-- `map_copy_read_only` -/
  | copyRo
  deriving Repr, DecidableEq

def OpenMode.readOnly : OpenMode → Bool
  | .ro | .copyRo => true
  | _ => false

/-- options of an open call -/
structure OpenOpts where
  sync : Bool
  kind : Kind
  reserved : Nat
  /-- `with_capacity` -/
  cap : Option Nat
  minSeg : Nat
  retries : Nat
  magic : Nat
  create : Bool
  createNew : Bool
  deriving Repr

/-- the file system: at most one file -/
abbrev FileSys := Option Mem

/-- how the open arena is connected to the file -/
inductive Mapping where
  | shared | priv | roShared
  deriving Repr, DecidableEq, Inhabited

def prefixSize (reserved : Nat) : Nat := dataOffsetUnify reserved

def kindOfByte : Nat → Option Kind
  | 0 => some .none | 1 => some .opt | 2 => some .pess | _ => none

/-- `sanity_check` over the 8 identification bytes at `reserved..reserved+8` -/
def sanityCheck (m : Mem) (reserved : Nat) (expect : Option Kind) (magic : Nat) : Except IoKind Kind :=
  match kindOfByte (m.rd (reserved + 1)) with
  | none => .error .invalidData
  | some k =>
    if expect.isSome ∧ expect ≠ some k then .error .invalidData
    else if m.readLE (reserved + 4) 2 ≠ magic then .error .invalidData
    else if m.readLE (reserved + 6) 2 ≠ 0 then .error .invalidData
    else if m.rd (reserved + 2) ≠ 97 ∨ m.rd (reserved + 3) ≠ 108 then .error .invalidData
    else .ok k

/-- read the header record from the file image -/
def parseHeader (m : Mem) (reserved : Nat) : Nat × Nat × Nat × Nat :=
  let h := headerOffset reserved
  (m.readLE h 8, m.readLE (h + 8) 4, m.readLE (h + 12) 4, m.readLE (h + 16) 4)

/-- extend a byte array with zeros to length `n` (no-op if it is already that long) -/
def extendTo (m : Mem) (n : Nat) : Mem := if m.size < n then m ++ Array.replicate (n - m.size) 0 else m

structure Opened where
  cfg : Cfg
  st : St
  mapping : Mapping

/-- `Memory::map_mut_in` (mode `mut` / `copy`): result and the file afterwards -/
def openWritable (o : OpenOpts) (priv : Bool) (fs : FileSys) : Except IoKind Opened × FileSys :=
  -- Options::open
  let opened : Except IoKind (Bool × Mem) :=
    if o.createNew then
      match fs with
      | some _ => .error .alreadyExists
      | none => .ok (true, extendTo #[] (o.cap.getD 0))
    else if o.create then
      match fs with
      | some f => .ok (false, f)
      | none => .ok (true, extendTo #[] (o.cap.getD 0))
    else
      match fs with
      | some f => .ok (false, f)
      | none => .error .notFound
  match opened with
  | .error e => (.error e, fs)
  | .ok (isNew, f0) =>
    if !isNew ∧ f0.size < prefixSize o.reserved then (.error .invalidInput, some f0)
    else
      -- set_len when a larger capacity is requested
      let f1 := match o.cap with
        | some c => extendTo f0 c
        | none => f0
      let mapLen := match o.cap with
        | some c => c
        | none => f1.size
      if mapLen = 0 then (.error .invalidInput, some f1)
      else if prefixSize o.reserved > mapLen then (.error .invalidInput, some f1)
      else
        let view : Mem := f1.extract 0 mapLen
        let cfg : Cfg := { sync := o.sync, kind := o.kind, ro := false, retries := o.retries,
                           dataOffset := dataOffsetUnify o.reserved, reserved := o.reserved, unify := true,
                           fileBacked := true }
        if isNew then
          let mem := writeSanity (Array.replicate mapLen 0) o.reserved o.kind o.magic
          let st : St := { mem := mem, sentinel := SENTINEL_WORD, allocated := dataOffsetUnify o.reserved,
                           minSeg := o.minSeg, discarded := 0 }
          -- a new file is created shared or private alike; the private one never reaches the file
          (.ok { cfg := cfg, st := st, mapping := if priv then .priv else .shared },
           some (if priv then f1 else (st.image cfg) ++ f1.extract mapLen f1.size))
        else
          match sanityCheck view o.reserved (some o.kind) o.magic with
          | .error e => (.error e, some f1)
          | .ok _ =>
            let (sent, allocated, minSeg, discarded) := parseHeader view o.reserved
            let mem := if mapLen > allocated then view.zero allocated (mapLen - allocated) else view
            let st : St := { mem := mem, sentinel := sent, allocated := allocated, minSeg := minSeg,
                             discarded := discarded }
            (.ok { cfg := cfg, st := st, mapping := if priv then .priv else .shared },
             some (if priv then f1 else (st.image cfg) ++ f1.extract mapLen f1.size))

/-- `Memory::map_in` (mode `ro` / `copy_ro`): never changes the file -/
def openReadOnly (o : OpenOpts) (fs : FileSys) : Except IoKind Opened :=
  match fs with
  | none => .error .notFound
  | some f =>
    let mapLen := match o.cap with
      | some c => min f.size c
      | none => f.size
    if f.size < prefixSize o.reserved then .error .invalidInput
    else if mapLen = 0 then .error .invalidInput
    else if prefixSize o.reserved > mapLen then .error .invalidInput
    else
      let view : Mem := f.extract 0 mapLen
      match sanityCheck view o.reserved none o.magic with
      | .error e => .error e
      | .ok k =>
        let (sent, allocated, minSeg, discarded) := parseHeader view o.reserved
        let cfg : Cfg := { sync := o.sync, kind := k, ro := true, retries := o.retries,
                           dataOffset := dataOffsetUnify o.reserved, reserved := o.reserved, unify := true,
                           fileBacked := true }
        .ok { cfg := cfg, mapping := .roShared,
              st := { mem := view, sentinel := sent, allocated := allocated, minSeg := minSeg, discarded := discarded } }

def openFile (mode : OpenMode) (o : OpenOpts) (fs : FileSys) : Except IoKind Opened × FileSys :=
  match mode with
  | .mut => openWritable o false fs
  | .copy => openWritable o true fs
  | .ro | .copyRo =>
    match openReadOnly o fs with
    | .error e => (.error e, fs)
    | .ok r => (.ok r, fs)

/-- the file as the page cache holds it while the arena `(cfg, st)` is mapped shared over its first bytes -/
def fileView (cfg : Cfg) (st : St) (mapping : Mapping) (fs : FileSys) : FileSys :=
  match mapping, fs with
  | .shared, some f => some ((st.image cfg) ++ f.extract st.cap f.size)
  | _, fs => fs

end Rarena
