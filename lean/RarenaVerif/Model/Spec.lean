/-
  Model.Spec — the abstract allocator: the free list is a `List Seg`, there is no memory and no
  pointer chasing, no fuel, no traps. `Core` (both flavours) refines it (Proofs/Refine.lean); the
  property theorems about list shape, policy, exclusivity and accounting are proved here once and
  transported to the concrete model through the refinement.
-/
import RarenaVerif.Model.Core

namespace Rarena

/-- a free segment: node word at `off`, `size` data bytes after it; extent `[off, off+8+size)` -/
structure Seg where
  off : Nat
  size : Nat
  deriving Repr, DecidableEq, Inhabited

@[inline] def Seg.lo (g : Seg) : Nat := g.off
@[inline] def Seg.hi (g : Seg) : Nat := g.off + NODE + g.size

/-- abstract state -/
structure A where
  cap : Nat
  allocated : Nat
  minSeg : Nat
  discarded : Nat
  free : List Seg
  deriving Repr, DecidableEq, Inhabited

def alignUp (a x : Nat) : Nat := (x + a - 1) / a * a

def A.incDiscarded (c : Cfg) (a : A) (n : Nat) : A :=
  if c.ro then a else { a with discarded := (a.discarded + n) % TWO32 }

/-- sorted insertion: in front of the first element `g` with `cmpInsert kind seg.size g.size` -/
def insertSeg (k : Kind) (seg : Seg) : List Seg → List Seg
  | [] => [seg]
  | g :: rest => if cmpInsert k seg.size g.size then seg :: g :: rest else g :: insertSeg k seg rest

/-- `validate_segment` -/
def A.validate (a : A) (offset size : Nat) : Bool :=
  if offset = 0 ∨ size = 0 then false
  else
    let sn := (alignUp 8 offset - offset) + NODE
    if sn ≥ size then false else if size - sn < a.minSeg then false else true

/-- `try_new_segment` -/
def A.tryNew (c : Cfg) (a : A) (offset size : Nat) : Option Seg × A :=
  if offset = 0 ∨ size = 0 then (none, a)
  else
    let al := alignUp 8 offset
    let sn := (al - offset) + NODE
    if sn ≥ size then (none, a.incDiscarded c size)
    else if size - sn < a.minSeg then (none, a.incDiscarded c size)
    else (some ⟨al, size - sn⟩, a)

/-- `optimistic_dealloc` / `pessimistic_dealloc` -/
def A.freelistDealloc (c : Cfg) (a : A) (offset size : Nat) : Bool × A :=
  match a.tryNew c offset size with
  | (none, a1) => (false, a1)
  | (some seg, a1) => (true, ({ a1 with free := insertSeg c.kind seg a1.free }).incDiscarded c NODE)

/-- `dealloc` -/
def A.dealloc (c : Cfg) (a : A) (offset size : Nat) : Bool × A :=
  if a.allocated = offset + size then (true, { a with allocated := offset })
  else match c.kind with
    | .none => (true, a.incDiscarded c size)
    | _ => a.freelistDealloc c offset size

/-- hand out `size` bytes of the (already unlinked) segment `g`, giving the tail back when it can
    form a segment of its own -/
def A.finishSlow (c : Cfg) (a : A) (g : Seg) (size : Nat) : Meta × A :=
  let remaining := g.size - size
  let dataEnd := g.off + NODE + size
  if a.validate dataEnd remaining then
    (⟨g.off, g.size - remaining, g.off + NODE, size⟩, (a.freelistDealloc c dataEnd remaining).2)
  else (⟨g.off, g.size, g.off + NODE, size⟩, a)

/-- remove the first segment that satisfies `p` -/
def takeFirst (p : Seg → Bool) : List Seg → Option (Seg × List Seg)
  | [] => none
  | g :: rest =>
    if p g then some (g, rest)
    else match takeFirst p rest with
      | none => none
      | some (x, rest') => some (x, g :: rest')

/-- the slow path of an allocation of `size` bytes -/
def A.slow (c : Cfg) (a : A) (size : Nat) : Except Err Meta × A :=
  if c.ro then (.error .readOnly, a)
  else match c.kind with
    | .none => (.error .insufficient, a)
    | .opt =>
      match a.free with
      | [] => (.error .insufficient, a)
      | g :: rest =>
        if size > g.size then (.error .insufficient, a)
        else
          let (m, a') := ({ a with free := rest }).finishSlow c g size
          (.ok m, a')
    | .pess =>
      match takeFirst (fun g => decide (size ≤ g.size)) a.free with
      | none => (.error .insufficient, a)
      | some (g, rest) =>
        let (m, a') := ({ a with free := rest }).finishSlow c g size
        (.ok m, a')

def Meta.alignToS (m : Meta) (al size : Nat) : Meta := { m with ptrOff := alignUp al m.ptrOff, ptrSize := size }

def Meta.alignBytesToS (m : Meta) (al : Nat) : Meta :=
  { m with ptrOff := alignUp al m.ptrOff, ptrSize := m.ptrOff + m.ptrSize - alignUp al m.ptrOff }

abbrev AOut := Except Err (Option Meta)

def A.slowEntry (c : Cfg) (a : A) (size : Nat) (post : Meta → Meta) : AOut × A :=
  match a.slow c size with
  | (.ok m, a') => (.ok (some (post m)), a')
  | (.error e, a') => (.error e, a')

def A.allocBytes (c : Cfg) (a : A) (size : Nat) : AOut × A :=
  if c.ro then (.error .readOnly, a)
  else if size = 0 then (.ok none, a)
  else if a.allocated + size ≤ a.cap then (.ok (some (Meta.new a.allocated size)), { a with allocated := a.allocated + size })
  else a.slowEntry c size id

def A.allocAligned (c : Cfg) (a : A) (tsize talign extra : Nat) : AOut × A :=
  if c.ro then (.error .readOnly, a)
  else if tsize = 0 ∧ (extra = 0 ∨ talign = 1) then a.allocBytes c extra
  else
    let want := alignUp talign a.allocated + tsize + extra
    if want ≤ a.cap then
      (.ok (some ((Meta.new a.allocated (want - a.allocated)).alignBytesToS talign)), { a with allocated := want })
    else if pad tsize talign + extra < TWO32 then
      a.slowEntry c (pad tsize talign + extra) (fun m => m.alignBytesToS talign)
    else (.error .insufficient, a)

def A.allocT (c : Cfg) (a : A) (tsize talign : Nat) : AOut × A :=
  if c.ro then (.error .readOnly, a)
  else if tsize = 0 then (.ok none, a)
  else
    let want := alignUp talign a.allocated + tsize
    if want ≤ a.cap then
      (.ok (some ((Meta.new a.allocated (want - a.allocated)).alignToS talign tsize)), { a with allocated := want })
    else a.slowEntry c (pad tsize talign) (fun m => m.alignToS talign tsize)

def A.discardFreelist (c : Cfg) (a : A) : Except Err Nat × A :=
  if c.ro then (.error .readOnly, a)
  else match c.kind with
    | .none => (.ok 0, a)
    | _ =>
      let total := (a.free.map (·.size)).sum
      (.ok total, { a with free := [], discarded := a.free.foldl (fun d g => if c.ro then d else (d + g.size) % TWO32) a.discarded })

/-- the abstraction of a concrete state, given its free list -/
def St.abs (s : St) (free : List Seg) : A :=
  { cap := s.cap, allocated := s.allocated, minSeg := s.minSeg, discarded := s.discarded, free := free }

end Rarena
