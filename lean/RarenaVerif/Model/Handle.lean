/-
  Model.Handle — handles (`BytesRefMut`/`BytesMut`/`RefMut`/`Owned`), arena reference counts and the
  session state driven by the line protocol: which handle releases what, when.
-/
import RarenaVerif.Model.File

namespace Rarena

inductive HKind where
  /-- `BytesRefMut` / `BytesMut` -/
  | bytes
  /-- `RefMut<T>` / `Owned<T>` of a type that does not need dropping (`Kind::Inline` / `Dangling`) -/
  | obj
  /-- `RefMut<T>` / `Owned<T>` of a `needs_drop` type (`Kind::Slot`) -/
  | slot
  deriving Repr, DecidableEq, Inhabited

structure Handle where
  mt : Meta
  kind : HKind
  owned : Bool
  /-- the handle of a zero-size request (`BytesRefMut::null`, `RefMut::new_zst`) -/
  null : Bool
  /-- `len` of a byte buffer -/
  len : Nat := 0
  deriving Repr, Inhabited

/-- does the owned handle hold a clone of the arena (`BytesMut::null` does not, `Owned<ZST>` does) -/
def Handle.holdsArena (h : Handle) : Bool :=
  h.owned && !(h.kind == .bytes && h.null)

/-- the `dealloc` call performed by `Drop` of a non-detached handle, if any -/
def Handle.dropDealloc (h : Handle) : Option (Nat × Nat) :=
  match h.kind with
  | .bytes => if h.owned && h.null then none else some (h.mt.memOff, h.mt.memSize)
  | _ => if h.null then none else some (h.mt.memOff, h.mt.memSize)

/-- One protocol session (a case). -/
structure Sess where
  opts : Opts
  cfg : Cfg
  st : St
  handles : List (Nat × Handle)
  /-- live arena values other than those embedded in owned handles -/
  arenas : List Nat
  refs : Nat
  dropCount : Nat
  /-- the file of a file-backed case as of the last open / close (see `fileView`) -/
  fs : FileSys := none
  mapping : Mapping := .shared
  closed : Bool := false
  removeOnDrop : Bool := false
  /-- how many times the backing memory was released (`Memory::unmount` executions) -/
  released : Nat := 0
  /-- `Options::with_offset`: the arena is mapped at this offset of its file; `fs` holds the part of the file from the
      offset on, `fpre` the bytes in front of it (never touched by the arena) -/
  foff : Nat := 0
  fpre : Mem := #[]
  deriving Inhabited

def Sess.find (x : Sess) (h : Nat) : Option Handle := (x.handles.find? (·.1 == h)).map (·.2)
def Sess.erase (x : Sess) (h : Nat) : Sess := { x with handles := x.handles.filter (·.1 != h) }
def Sess.put (x : Sess) (h : Nat) (v : Handle) : Sess :=
  { x with handles := (h, v) :: x.handles.filter (·.1 != h) }

/-- fuel that suffices for every traversal of a well-formed list (`cap / 8` nodes at most) -/
def Sess.fuel (x : Sess) : Nat := x.st.cap / 8 + 8

def Sess.init (o : Opts) : Option Sess :=
  (o.init).map fun st =>
    { opts := o, cfg := o.cfg, st := st, handles := [], arenas := [0], refs := 1, dropCount := 0,
      fs := if o.file then some (st.image o.cfg) else none }

/-- the file as the page cache holds it right now (from the mapping offset on) -/
def Sess.file (x : Sess) : FileSys := if x.closed then x.fs else fileView x.cfg x.st x.mapping x.fs

/-- the whole file: the untouched bytes in front of the mapping offset, then `Sess.file` -/
def Sess.whole (x : Sess) : FileSys := (x.file).map (x.fpre ++ ·)

/-- splits a whole file at the mapping offset -/
def Sess.setWhole (x : Sess) (w : FileSys) : Sess :=
  match w with
  | none => { x with fs := none, fpre := #[] }
  | some f => { x with fpre := f.extract 0 (min x.foff f.size), fs := some (f.extract x.foff f.size) }

/-- an open that produced / extended the arena part of a fresh file also zero-extends the part in front of it -/
def Sess.padPre (x : Sess) : Sess :=
  match x.fs with
  | some f => if f.size > 0 ∧ x.fpre.size < x.foff then { x with fpre := x.fpre ++ Array.replicate (x.foff - x.fpre.size) 0 } else x
  | none => x

/-- the reference count drops by one; the holder that brings it to zero runs `unmount` -/
def Sess.decRef (x : Sess) : Sess :=
  let r := x.refs - 1
  { x with refs := r, released := if x.refs = 1 then x.released + 1 else x.released }

/-- `Arena::clone` -/
def Sess.cloneArena (x : Sess) (id : Nat) : Sess := { x with arenas := id :: x.arenas, refs := x.refs + 1 }

/-- drop of a plain arena value -/
def Sess.dropArena (x : Sess) (id : Nat) : Sess :=
  if x.arenas.contains id then ({ x with arenas := x.arenas.erase id }).decRef else x

/-- register the handle produced by an allocation call -/
def Sess.addHandle (x : Sess) (id : Nat) (m : Option Meta) (k : HKind) (owned : Bool) : Sess :=
  let h : Handle := { mt := m.getD Meta.null, kind := k, owned := owned, null := m.isNone }
  let x := x.put id h
  if h.holdsArena then { x with refs := x.refs + 1 } else x

/-- is the value of a `needs_drop` type dropped by the drop of this handle -/
def Handle.dropsValue (h : Handle) (detached : Bool) : Bool := h.kind == .slot && !detached && !h.null

/-- drop of a handle; `detached` = `detach()` was called first -/
def Sess.dropHandle (x : Sess) (id : Nat) (detached : Bool) : M Sess :=
  match x.find id with
  | none => pure x
  | some h => do
    let x := x.erase id
    let x := if h.dropsValue detached then { x with dropCount := x.dropCount + 1 } else x
    let x ← (match (if detached then none else h.dropDealloc) with
      | none => pure x
      | some (off, size) => do
        let (_, st) ← dealloc x.cfg x.st off size x.fuel
        pure { x with st := st })
    pure (if h.holdsArena then x.decRef else x)

/-- `hold` of the line protocol: `detach()` on an owned byte buffer that then stays alive until its `drop`. From now on
it behaves like the handle of a zero-size owned object: it holds an arena value, its drop releases nothing and drops no
value. Other handles are left alone. -/
def Sess.hold (x : Sess) (id : Nat) : Sess :=
  match x.find id with
  | some hd => if hd.kind == .bytes && hd.owned && !hd.null then x.put id { hd with kind := .obj, null := true } else x
  | none => x

/-- the reference count equals the number of live arena values, counting the clone inside each owned handle -/
def Sess.refsOK (x : Sess) : Prop :=
  x.refs = x.arenas.length + (x.handles.filter (fun p => p.2.holdsArena)).length ∧
  x.released = (if x.refs = 0 then 1 else 0)

end Rarena
