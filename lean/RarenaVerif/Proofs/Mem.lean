/-
  Proofs.Mem — the byte-level lemmas: sizes, reads after writes, frames, little-endian round trips.
  Everything else reasons about words through these.
-/
import RarenaVerif.Model.Basic

namespace Rarena
namespace Mem

theorem rd_lt (m : Mem) (i : Nat) : m.rd i < 256 := by
  unfold rd
  exact (m[i]?.getD 0).toNat_lt

@[simp] theorem size_update (m : Mem) (lo hi : Nat) (f : Nat → UInt8) :
    (m.update lo hi f).size = m.size := by
  simp [update]

theorem rd_update (m : Mem) (lo hi : Nat) (f : Nat → UInt8) (i : Nat) :
    (m.update lo hi f).rd i = if lo ≤ i ∧ i < hi ∧ i < m.size then (f i).toNat else m.rd i := by
  unfold rd update
  by_cases h : i < m.size
  · simp [h]
    split <;> rfl
  · simp [h]

theorem rd_update_out (m : Mem) (lo hi : Nat) (f : Nat → UInt8) (i : Nat) (h : i < lo ∨ hi ≤ i) :
    (m.update lo hi f).rd i = m.rd i := by
  rw [rd_update]; split <;> first | rfl | omega

theorem rd_oob (m : Mem) (i : Nat) (h : m.size ≤ i) : m.rd i = 0 := by
  unfold rd
  have : m[i]? = none := by simp; omega
  simp [this]

@[simp] theorem size_fill (m : Mem) (off len : Nat) (b : UInt8) : (m.fill off len b).size = m.size := by
  simp [fill]

@[simp] theorem size_zero (m : Mem) (off len : Nat) : (m.zero off len).size = m.size := by
  simp [zero]

theorem rd_fill (m : Mem) (off len : Nat) (b : UInt8) (i : Nat) :
    (m.fill off len b).rd i = if off ≤ i ∧ i < off + len ∧ i < m.size then b.toNat else m.rd i := by
  simp [fill, rd_update]

theorem rd_zero_in (m : Mem) (off len i : Nat) (h1 : off ≤ i) (h2 : i < off + len) :
    (m.zero off len).rd i = 0 := by
  unfold zero
  rw [rd_fill]
  split
  · rfl
  · rw [rd_oob]; omega

theorem rd_zero_out (m : Mem) (off len i : Nat) (h : i < off ∨ off + len ≤ i) :
    (m.zero off len).rd i = m.rd i := by
  unfold zero
  rw [rd_fill]; split <;> first | rfl | omega

@[simp] theorem size_writeLE (m : Mem) (off w v : Nat) : (m.writeLE off w v).size = m.size := by
  simp [writeLE]

@[simp] theorem size_writeBE (m : Mem) (off w v : Nat) : (m.writeBE off w v).size = m.size := by
  simp [writeBE]

@[simp] theorem size_writeWord (m : Mem) (off v : Nat) : (m.writeWord off v).size = m.size := by
  simp [writeWord]

/-- a multi-byte read only depends on the bytes it covers -/
theorem readLE_congr (m m' : Mem) (off w : Nat) (h : ∀ i, off ≤ i → i < off + w → m.rd i = m'.rd i) :
    m.readLE off w = m'.readLE off w := by
  induction w generalizing off with
  | zero => rfl
  | succ w ih =>
    simp only [readLE]
    rw [h off (Nat.le_refl _) (by omega), ih (off + 1) (fun i h1 h2 => h i (by omega) (by omega))]

theorem readBE_congr (m m' : Mem) (off w : Nat) (h : ∀ i, off ≤ i → i < off + w → m.rd i = m'.rd i) :
    m.readBE off w = m'.readBE off w := by
  induction w generalizing off with
  | zero => rfl
  | succ w ih =>
    simp only [readBE]
    rw [h off (Nat.le_refl _) (by omega), ih (off + 1) (fun i h1 h2 => h i (by omega) (by omega))]

theorem readLE_update_disjoint (m : Mem) (lo hi : Nat) (f : Nat → UInt8) (off w : Nat)
    (h : hi ≤ off ∨ off + w ≤ lo) : (m.update lo hi f).readLE off w = m.readLE off w := by
  apply readLE_congr
  intro i h1 h2
  exact rd_update_out m lo hi f i (by omega)

theorem readLE_lt (m : Mem) (off w : Nat) : m.readLE off w < 256 ^ w := by
  induction w generalizing off with
  | zero => simp [readLE]
  | succ w ih =>
    simp only [readLE]
    have h1 := rd_lt m off
    have h2 := ih (off + 1)
    rw [Nat.pow_succ]
    omega

theorem byteLE_toNat (v k : Nat) : (byteLE v k).toNat = v / 256 ^ k % 256 := by
  unfold byteLE
  simp [UInt8.toNat_ofNat']

/-- reading back the `w` bytes written by `writeLE`, stated for a general write function -/
theorem readLE_of_bytes (m : Mem) (off w : Nat) (v : Nat)
    (h : ∀ k, k < w → m.rd (off + k) = v / 256 ^ k % 256) : m.readLE off w = v % 256 ^ w := by
  induction w generalizing off v with
  | zero => simp [readLE, Nat.mod_one]
  | succ w ih =>
    simp only [readLE]
    have h0 := h 0 (by omega)
    simp at h0
    rw [h0]
    have := ih (off + 1) (v / 256) (by
      intro k hk
      have := h (k + 1) (by omega)
      rw [show off + 1 + k = off + (k + 1) by omega, this, Nat.pow_succ, Nat.mul_comm, Nat.div_div_eq_div_mul])
    rw [this, Nat.pow_succ, Nat.mul_comm (256 ^ w) 256, Nat.mod_mul]

theorem readLE_writeLE_same (m : Mem) (off w v : Nat) (hb : off + w ≤ m.size) :
    (m.writeLE off w v).readLE off w = v % 256 ^ w := by
  apply readLE_of_bytes
  intro k hk
  unfold writeLE
  rw [rd_update, if_pos (by omega), byteLE_toNat]
  simp

theorem readLE_writeLE_disjoint (m : Mem) (off w v off' w' : Nat) (h : off + w ≤ off' ∨ off' + w' ≤ off) :
    (m.writeLE off w v).readLE off' w' = m.readLE off' w' := by
  unfold writeLE
  exact readLE_update_disjoint _ _ _ _ _ _ (by omega)

theorem readWord_writeWord_same (m : Mem) (off v : Nat) (hb : off + 8 ≤ m.size) (hv : v < TWO64) :
    (m.writeWord off v).readWord off = v := by
  unfold readWord writeWord
  rw [readLE_writeLE_same _ _ _ _ hb]
  apply Nat.mod_eq_of_lt
  unfold TWO64 at hv
  omega

theorem readWord_writeWord_disjoint (m : Mem) (off v off' : Nat) (h : off + 8 ≤ off' ∨ off' + 8 ≤ off) :
    (m.writeWord off v).readWord off' = m.readWord off' := by
  unfold readWord writeWord
  exact readLE_writeLE_disjoint _ _ _ _ _ _ h

theorem readWord_fill_disjoint (m : Mem) (off len : Nat) (b : UInt8) (off' : Nat)
    (h : off + len ≤ off' ∨ off' + 8 ≤ off) : (m.fill off len b).readWord off' = m.readWord off' := by
  unfold readWord fill
  exact readLE_update_disjoint _ _ _ _ _ _ (by omega)

theorem readWord_zero_disjoint (m : Mem) (off len off' : Nat)
    (h : off + len ≤ off' ∨ off' + 8 ≤ off) : (m.zero off len).readWord off' = m.readWord off' :=
  readWord_fill_disjoint m off len 0 off' h

theorem readWord_lt (m : Mem) (off : Nat) : m.readWord off < TWO64 := by
  have := readLE_lt m off 8
  unfold readWord TWO64
  omega

end Mem

/-! node word encoding -/

theorem wsize_enc (s n : Nat) (hn : n < TWO32) : wsize (enc s n) = s := by
  unfold wsize enc TWO32 at *; omega

theorem wnext_enc (s n : Nat) (hn : n < TWO32) : wnext (enc s n) = n := by
  unfold wnext enc TWO32 at *; omega

theorem enc_lt (s n : Nat) (hs : s < TWO32) (hn : n < TWO32) : enc s n < TWO64 := by
  unfold enc TWO32 TWO64 at *; omega

theorem enc_wsize_wnext (w : Nat) : enc (wsize w) (wnext w) = w := by
  unfold enc wsize wnext TWO32; omega

theorem wsize_lt (w : Nat) (h : w < TWO64) : wsize w < TWO32 := by
  unfold wsize TWO32 TWO64 at *; omega

theorem wnext_lt (w : Nat) : wnext w < TWO32 := by
  unfold wnext TWO32; omega

end Rarena
