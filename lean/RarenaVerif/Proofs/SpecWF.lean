/-
  Proofs.SpecWF — the abstract allocator keeps its state well formed (`WF`), allocations have the
  requested geometry, failures change nothing; lifted to every abstract history.
-/
import RarenaVerif.Proofs.ListLemmas

set_option linter.unusedVariables false

namespace Rarena

/-- requests are `u32` values; types of the API have alignment 1..16 -/
def ReqOK (tsize talign : Nat) : Prop := okAlignment talign ∧ tsize % talign = 0

/-! ### helper lemmas -/

theorem disj_symm {a b : Ext} (h : disj a b) : disj b a := by
  unfold disj at *; omega

theorem disj_sub {e e' x : Ext} (h : disj e x) (h1 : e.1 ≤ e'.1) (h2 : e'.2 ≤ e.2) : disj e' x := by
  unfold disj at *; omega

theorem alignUp8_ge (x : Nat) : x ≤ alignUp 8 x := by unfold alignUp; omega
theorem alignUp8_lt (x : Nat) : alignUp 8 x < x + 8 := by unfold alignUp; omega
theorem alignUp8_mod (x : Nat) : alignUp 8 x % 8 = 0 := by unfold alignUp; omega
theorem alignUp8_id (x : Nat) (h : x % 8 = 0) : alignUp 8 x = x := by unfold alignUp; omega

theorem alignUp_ge (a x : Nat) (h : okAlignment a) : x ≤ alignUp a x := by
  rcases h with rfl | rfl | rfl | rfl | rfl | rfl | rfl <;> unfold alignUp <;> omega
theorem alignUp_lt (a x : Nat) (h : okAlignment a) : alignUp a x < x + a := by
  rcases h with rfl | rfl | rfl | rfl | rfl | rfl | rfl <;> unfold alignUp <;> omega
theorem alignUp_mod (a x : Nat) : alignUp a x % a = 0 := by
  unfold alignUp; exact Nat.mul_mod_left _ _

theorem sortedBy_sublist (k : Kind) {l l' : List Seg} (hs : l'.Sublist l) (h : sortedBy k l) : sortedBy k l' := by
  cases k with
  | none => trivial
  | opt => exact List.Pairwise.sublist hs h
  | pess => exact List.Pairwise.sublist hs h

theorem sortedBy_nil (k : Kind) : sortedBy k [] := by
  cases k <;> simp [sortedBy]

@[simp] theorem incDiscarded_free (c : Cfg) (a : A) (n : Nat) : (a.incDiscarded c n).free = a.free := by
  unfold A.incDiscarded; split <;> rfl
@[simp] theorem incDiscarded_allocated (c : Cfg) (a : A) (n : Nat) : (a.incDiscarded c n).allocated = a.allocated := by
  unfold A.incDiscarded; split <;> rfl
@[simp] theorem incDiscarded_cap (c : Cfg) (a : A) (n : Nat) : (a.incDiscarded c n).cap = a.cap := by
  unfold A.incDiscarded; split <;> rfl
@[simp] theorem incDiscarded_minSeg (c : Cfg) (a : A) (n : Nat) : (a.incDiscarded c n).minSeg = a.minSeg := by
  unfold A.incDiscarded; split <;> rfl

theorem incDiscarded_disc_lt (c : Cfg) (a : A) (n : Nat) (h : a.discarded < TWO32) :
    (a.incDiscarded c n).discarded < TWO32 := by
  unfold A.incDiscarded; split
  · exact h
  · exact Nat.mod_lt _ (by unfold TWO32; omega)

theorem incDiscarded_disc (c : Cfg) (a : A) (n : Nat) (h : a.discarded < TWO32) :
    ∃ d, (a.incDiscarded c n).discarded = (a.discarded + d) % TWO32 := by
  unfold A.incDiscarded; split
  · exact ⟨0, by simp [Nat.mod_eq_of_lt h]⟩
  · exact ⟨n, rfl⟩

theorem incDiscarded_zero (c : Cfg) (a : A) (h : a.discarded < TWO32) : a.incDiscarded c 0 = a := by
  unfold A.incDiscarded; split
  · rfl
  · cases a; simp at *; exact Nat.mod_eq_of_lt h

theorem disc_add_add (x d1 d2 : Nat) : ((x + d1) % TWO32 + d2) % TWO32 = (x + (d1 + d2)) % TWO32 := by
  unfold TWO32; omega

theorem WF.incDiscarded {c : Cfg} {a : A} {lives : List Ext} (hw : WF c a lives) (n : Nat) :
    WF c (a.incDiscarded c n) lives := by
  constructor
  · simpa using hw.segs
  · simpa using hw.sorted
  · simpa using hw.disjoint
  · simpa using hw.lives_in
  · exact hw.lo
  · simpa using hw.mid
  · simpa using hw.hi
  · simpa using hw.none_empty
  · exact incDiscarded_disc_lt c a n hw.disc

theorem WF.perm {c : Cfg} {a : A} {lives lives' : List Ext} (hw : WF c a lives) (hp : lives.Perm lives') :
    WF c a lives' := by
  refine { hw with disjoint := ?_, lives_in := ?_ }
  · exact (List.Perm.pairwise_iff disj_symm (List.Perm.append_left _ hp)).1 hw.disjoint
  · intro e he; exact hw.lives_in e (hp.symm.subset he)

/-- replacing one extent by pairwise disjoint non-empty sub-extents -/
theorem WF.shrink {c : Cfg} {a : A} {e : Ext} {lives : List Ext} (hw : WF c a (e :: lives)) (subs : List Ext)
    (hs : ∀ s ∈ subs, e.1 ≤ s.1 ∧ s.1 < s.2 ∧ s.2 ≤ e.2) (hp : subs.Pairwise disj) :
    WF c a (subs ++ lives) := by
  have hd := hw.disjoint
  rw [List.pairwise_append, List.pairwise_cons] at hd
  obtain ⟨hF, ⟨heL, hL⟩, hFL⟩ := hd
  refine { hw with disjoint := ?_, lives_in := ?_ }
  · rw [List.pairwise_append, List.pairwise_append]
    refine ⟨hF, ⟨hp, hL, ?_⟩, ?_⟩
    · intro s hs' y hy
      exact disj_sub (heL y hy) (hs s hs').1 (hs s hs').2.2
    · intro x hx y hy
      rcases List.mem_append.1 hy with hy | hy
      · exact disj_symm (disj_sub (disj_symm (hFL x hx e (List.mem_cons_self ..))) (hs y hy).1 (hs y hy).2.2)
      · exact hFL x hx y (List.mem_cons_of_mem _ hy)
  · intro x hx
    rcases List.mem_append.1 hx with hx | hx
    · have h1 := hs x hx
      have h2 := hw.lives_in e (List.mem_cons_self ..)
      omega
    · exact hw.lives_in x (List.mem_cons_of_mem _ hx)

theorem WF.drop {c : Cfg} {a : A} {e : Ext} {lives : List Ext} (hw : WF c a (e :: lives)) : WF c a lives := by
  simpa using hw.shrink [] (by simp) List.Pairwise.nil

/-- unlinking one segment: its extent becomes an owned extent -/
theorem WF.take {c : Cfg} {a : A} {lives : List Ext} (hw : WF c a lives) (g : Seg) (rest : List Seg)
    (hp : a.free.Perm (g :: rest)) (hsub : rest.Sublist a.free) :
    WF c { a with free := rest } (g.ext :: lives) := by
  have hg : g ∈ a.free := hp.symm.subset (List.mem_cons_self ..)
  have hgo := hw.segs g hg
  constructor
  · intro x hx; exact hw.segs x (hsub.subset hx)
  · exact sortedBy_sublist _ hsub hw.sorted
  · show (rest.map Seg.ext ++ g.ext :: lives).Pairwise disj
    have h1 : (a.free.map Seg.ext ++ lives).Perm (g.ext :: (rest.map Seg.ext ++ lives)) := by
      simpa using List.Perm.append_right lives (List.Perm.map Seg.ext hp)
    exact (List.Perm.pairwise_iff disj_symm (h1.trans List.perm_middle.symm)).1 hw.disjoint
  · intro e he
    rcases List.mem_cons.1 he with rfl | he
    · unfold SegOK at hgo
      simp only [Seg.ext, Seg.lo, Seg.hi, NODE] at *
      omega
    · exact hw.lives_in e he
  · exact hw.lo
  · exact hw.mid
  · exact hw.hi
  · intro hk; have := hw.none_empty hk; rw [this] at hg; simp at hg
  · exact hw.disc


/-! ### tryNew / freelistDealloc / dealloc -/

theorem tryNew_cases (c : Cfg) (a : A) (off size : Nat) :
    a.tryNew c off size = (none, a) ∨ a.tryNew c off size = (none, a.incDiscarded c size) ∨
    (a.tryNew c off size = (some ⟨alignUp 8 off, size - (alignUp 8 off - off + NODE)⟩, a) ∧
      off ≠ 0 ∧ alignUp 8 off - off + NODE < size ∧ a.validate off size = true) := by
  unfold A.tryNew A.validate
  by_cases h0 : off = 0 ∨ size = 0
  · simp [h0]
  · simp only [h0, if_false]
    by_cases h1 : alignUp 8 off - off + NODE ≥ size
    · simp [h1]
    · simp only [h1, if_false]
      by_cases h2 : size - (alignUp 8 off - off + NODE) < a.minSeg
      · simp [h2]
      · simp only [h2, if_false]
        refine Or.inr (Or.inr ⟨trivial, ?_, ?_, ?_⟩)
        · omega
        · omega
        · simp

theorem validate_tryNew (c : Cfg) (a : A) (off size : Nat) (h : a.validate off size = true) :
    a.tryNew c off size = (some ⟨alignUp 8 off, size - (alignUp 8 off - off + NODE)⟩, a) ∧
      off ≠ 0 ∧ alignUp 8 off - off + NODE < size := by
  unfold A.tryNew
  unfold A.validate at h
  by_cases h0 : off = 0 ∨ size = 0
  · simp [h0] at h
  · simp only [h0, if_false] at h ⊢
    by_cases h1 : alignUp 8 off - off + NODE ≥ size
    · simp [h1] at h
    · simp only [h1, if_false] at h ⊢
      by_cases h2 : size - (alignUp 8 off - off + NODE) < a.minSeg
      · simp [h2] at h
      · simp only [h2, if_false]
        exact ⟨trivial, by omega, by omega⟩

theorem validate_false_tryNew (c : Cfg) (a : A) (off size : Nat) (h : a.validate off size = false) :
    (a.tryNew c off size).1 = none := by
  rcases tryNew_cases c a off size with h1 | h1 | ⟨_, _, _, h1⟩
  · rw [h1]
  · rw [h1]
  · rw [h1] at h; cases h

/-- linking a new segment cut out of an owned extent -/
theorem WF.link {c : Cfg} {a : A} {e : Ext} {lives : List Ext} (hw : WF c a (e :: lives)) (hk : c.kind ≠ .none)
    (off size : Nat) (h1 : e.1 ≤ off) (h3 : off + size ≤ e.2) (hlt : alignUp 8 off - off + NODE < size) :
    WF c { a with free := insertSeg c.kind ⟨alignUp 8 off, size - (alignUp 8 off - off + NODE)⟩ a.free } lives := by
  have hge := alignUp8_ge off
  have hmod := alignUp8_mod off
  have hein := hw.lives_in e (List.mem_cons_self ..)
  have hsh := hw.shrink [Seg.ext ⟨alignUp 8 off, size - (alignUp 8 off - off + NODE)⟩]
    (by
      intro s hs
      simp only [List.mem_singleton] at hs
      subst hs
      simp only [Seg.ext, Seg.lo, Seg.hi, NODE] at *
      omega) (by simp)
  constructor
  · intro x hx
    rcases (mem_insertSeg _ _ _ _).1 hx with rfl | hx
    · unfold SegOK
      simp only [Seg.hi, NODE] at *
      omega
    · exact hw.segs x hx
  · exact insertSeg_sorted _ _ _ hw.sorted
  · have hp : ((insertSeg c.kind ⟨alignUp 8 off, size - (alignUp 8 off - off + NODE)⟩ a.free).map Seg.ext ++ lives).Perm
        (a.free.map Seg.ext ++ ([Seg.ext ⟨alignUp 8 off, size - (alignUp 8 off - off + NODE)⟩] ++ lives)) := by
      have := List.Perm.append_right lives (List.Perm.map Seg.ext (insertSeg_perm c.kind ⟨alignUp 8 off, size - (alignUp 8 off - off + NODE)⟩ a.free))
      refine this.trans ?_
      simpa using List.perm_middle.symm
    exact (List.Perm.pairwise_iff disj_symm hp).2 hsh.disjoint
  · intro x hx; exact hw.lives_in x (List.mem_cons_of_mem _ hx)
  · exact hw.lo
  · exact hw.mid
  · exact hw.hi
  · intro h; exact absurd h hk
  · exact hw.disc

theorem freelistDealloc_wf {c : Cfg} {a : A} {e : Ext} {lives : List Ext} (hw : WF c a (e :: lives))
    (hk : c.kind ≠ .none) (off size : Nat) (h1 : e.1 ≤ off) (h3 : off + size ≤ e.2) :
    WF c (a.freelistDealloc c off size).2 lives := by
  unfold A.freelistDealloc
  rcases tryNew_cases c a off size with h | h | ⟨h, _, hlt, _⟩
  · rw [h]; exact hw.drop
  · rw [h]; exact hw.drop.incDiscarded _
  · rw [h]; exact (hw.link hk off size h1 h3 hlt).incDiscarded _

theorem freelistDealloc_scalars (c : Cfg) (a : A) (off size : Nat) (hd : a.discarded < TWO32) :
    (a.freelistDealloc c off size).2.cap = a.cap ∧ (a.freelistDealloc c off size).2.minSeg = a.minSeg ∧
    (a.freelistDealloc c off size).2.allocated = a.allocated ∧
    ∃ d, (a.freelistDealloc c off size).2.discarded = (a.discarded + d) % TWO32 := by
  unfold A.freelistDealloc
  rcases tryNew_cases c a off size with h | h | ⟨h, _, hlt, _⟩
  · rw [h]; exact ⟨rfl, rfl, rfl, 0, by simp [Nat.mod_eq_of_lt hd]⟩
  · rw [h]; exact ⟨by simp, by simp, by simp, incDiscarded_disc c a size hd⟩
  · rw [h]
    refine ⟨by simp, by simp, by simp, ?_⟩
    exact incDiscarded_disc c { a with free := _ } NODE hd


theorem WF.rewind {c : Cfg} {a : A} {e : Ext} {lives : List Ext} (hw : WF c a (e :: lives))
    (he : e.2 = a.allocated) : WF c { a with allocated := e.1 } lives := by
  have hd := hw.disjoint
  rw [List.pairwise_append, List.pairwise_cons] at hd
  obtain ⟨hF, ⟨heL, hL⟩, hFL⟩ := hd
  have hein := hw.lives_in e (List.mem_cons_self ..)
  constructor
  · intro g hg
    have h1 := hw.segs g hg
    have h2 := hFL g.ext (List.mem_map_of_mem hg) e (List.mem_cons_self ..)
    unfold SegOK at *
    unfold disj at h2
    simp only [Seg.ext, Seg.lo, Seg.hi, NODE] at *
    omega
  · exact hw.sorted
  · exact hw.drop.disjoint
  · intro x hx
    have h1 := hw.lives_in x (List.mem_cons_of_mem _ hx)
    have h2 := heL x hx
    unfold disj at h2
    simp only at *
    omega
  · exact hw.lo
  · exact hein.1
  · have := hw.hi; simp only at *; omega
  · exact hw.none_empty
  · exact hw.disc

theorem dealloc_wf (c : Cfg) (a : A) (lives : List Ext) (m : Meta)
    (hw : WF c a lives) (hm : m.owned ∈ lives) (hne : m.memSize ≠ 0) :
    WF c (a.dealloc c m.memOff m.memSize).2 (lives.erase m.owned) := by
  have hw' : WF c a (m.owned :: lives.erase m.owned) := hw.perm (List.perm_cons_erase hm)
  have hin := hw.lives_in _ hm
  unfold A.dealloc
  by_cases heq : a.allocated = m.memOff + m.memSize
  · rw [if_pos heq]
    have he : m.owned.2 = a.allocated := by
      simp only [Meta.owned] at *; omega
    have := hw'.rewind he
    simpa [Meta.owned] using this
  · rw [if_neg heq]
    split
    · exact hw'.drop.incDiscarded _
    · rename_i hk
      refine freelistDealloc_wf hw' (fun h => hk h) _ _ (Nat.le_refl _) ?_
      simp only [Meta.owned]; omega

theorem dealloc_zero (c : Cfg) (a : A) (off : Nat) (hd : a.discarded < TWO32) : (a.dealloc c off 0).2 = a := by
  unfold A.dealloc
  by_cases heq : a.allocated = off + 0
  · rw [if_pos heq]; cases a; simp at *; omega
  · rw [if_neg heq]
    split
    · exact incDiscarded_zero c a hd
    · unfold A.freelistDealloc A.tryNew; simp

/-- releasing the null handle of a zero-size request (`dealloc(0, 0)`) changes nothing -/
theorem dealloc_null (c : Cfg) (a : A) (hw : 1 ≤ a.allocated) (hd : a.discarded < TWO32) : (a.dealloc c 0 0).2 = a :=
  dealloc_zero c a 0 hd

-- CHANGED: added the hypothesis `hd : a.discarded < TWO32`. Without it the last conjunct is false: in the
-- rewind case (`a.allocated = off + size`) `discarded` is unchanged, and `D = (D + d) % TWO32` has no solution
-- `d` when `D ≥ TWO32`. Every well-formed state satisfies the hypothesis (`WF.disc`).
theorem dealloc_scalars (c : Cfg) (a : A) (off size : Nat) (hd : a.discarded < TWO32) :
    (a.dealloc c off size).2.cap = a.cap ∧ (a.dealloc c off size).2.minSeg = a.minSeg ∧
    (a.dealloc c off size).2.allocated ≤ a.allocated ∧
    ∃ d, (a.dealloc c off size).2.discarded = (a.discarded + d) % TWO32 := by
  unfold A.dealloc
  by_cases heq : a.allocated = off + size
  · rw [if_pos heq]
    exact ⟨rfl, rfl, by simp only; omega, 0, by simp [Nat.mod_eq_of_lt hd]⟩
  · rw [if_neg heq]
    split
    · exact ⟨by simp, by simp, by simp, incDiscarded_disc c a size hd⟩
    · obtain ⟨h1, h2, h3, h4⟩ := freelistDealloc_scalars c a off size hd
      exact ⟨h1, h2, Nat.le_of_eq h3, h4⟩

theorem foldl_disc_lt (ro : Bool) (l : List Seg) (d : Nat) (hd : d < TWO32) :
    l.foldl (fun d g => if ro then d else (d + g.size) % TWO32) d < TWO32 := by
  induction l generalizing d with
  | nil => exact hd
  | cons g rest ih =>
    simp only [List.foldl_cons]
    apply ih
    split
    · exact hd
    · exact Nat.mod_lt _ (by unfold TWO32; omega)

theorem discardFreelist_wf (c : Cfg) (a : A) (lives : List Ext) (hw : WF c a lives) :
    WF c (a.discardFreelist c).2 lives := by
  unfold A.discardFreelist
  split
  · exact hw
  · split
    · exact hw
    · constructor
      · intro g hg; simp at hg
      · exact sortedBy_nil _
      · exact List.Pairwise.sublist (List.sublist_append_right _ _) hw.disjoint
      · exact hw.lives_in
      · exact hw.lo
      · exact hw.mid
      · exact hw.hi
      · intro _; rfl
      · have := foldl_disc_lt false a.free _ hw.disc
        simpa using this

theorem WF.fresh (c : Cfg) (cap ms : Nat) (h1 : 1 ≤ c.dataOffset) (h2 : c.dataOffset ≤ cap) :
    WF c (A.fresh cap c.dataOffset ms) [] := by
  unfold A.fresh
  constructor
  · intro g hg; simp at hg
  · exact sortedBy_nil _
  · simp
  · intro e he; simp at he
  · exact h1
  · exact Nat.le_refl _
  · exact h2
  · intro _; rfl
  · show 0 < TWO32; unfold TWO32; omega


/-! ### the slow path -/

structure SlowPost (c : Cfg) (a a' : A) (lives : List Ext) (m : Meta) (size : Nat) : Prop where
  wf : WF c a' (m.owned :: lives)
  nonempty : m.memSize ≠ 0
  al8 : m.memOff % 8 = 0
  ptr : m.ptrOff = m.memOff + 8
  psize : m.ptrSize = size
  alloc_eq : a'.allocated = a.allocated
  disc : ∃ d, a'.discarded = (a.discarded + d) % TWO32
  cap_eq : a'.cap = a.cap
  minSeg_eq : a'.minSeg = a.minSeg

theorem finishSlow_post {c : Cfg} {a : A} {g : Seg} {lives : List Ext} (hw : WF c a (g.ext :: lives))
    (hk : c.kind ≠ .none) (hal : g.off % 8 = 0) (hsz : 1 ≤ g.size) (size : Nat) (hs : size ≤ g.size)
    (h0 : size ≠ 0) :
    SlowPost c a (a.finishSlow c g size).2 lives (a.finishSlow c g size).1 size := by
  unfold A.finishSlow
  simp only []
  by_cases hv : a.validate (g.off + NODE + size) (g.size - size) = true
  · rw [if_pos hv]
    obtain ⟨_, _, hlt⟩ := validate_tryNew c a _ _ hv
    obtain ⟨s1, s2, s3, s4⟩ := freelistDealloc_scalars c a (g.off + NODE + size) (g.size - size) hw.disc
    refine ⟨?_, ?_, hal, rfl, rfl, s3, s4, s1, s2⟩
    · have hsh := hw.shrink [Meta.owned ⟨g.off, g.size - (g.size - size), g.off + NODE, size⟩,
          (g.off + NODE + size, g.off + NODE + g.size)]
        (by
          intro s hs'
          simp only [List.mem_cons, List.mem_nil_iff, or_false] at hs'
          rcases hs' with rfl | rfl
          · simp only [Meta.owned, Seg.ext, Seg.lo, Seg.hi, NODE] at *; omega
          · simp only [Seg.ext, Seg.lo, Seg.hi, NODE] at *; omega)
        (by
          simp only [List.pairwise_cons, List.mem_cons, List.mem_nil_iff, or_false, forall_eq,
            List.Pairwise.nil, and_true, false_imp_iff, implies_true]
          unfold disj; simp only [Meta.owned, NODE]; omega)
      have hsw : WF c a ((g.off + NODE + size, g.off + NODE + g.size) ::
          Meta.owned ⟨g.off, g.size - (g.size - size), g.off + NODE, size⟩ :: lives) :=
        hsh.perm (List.Perm.swap _ _ _)
      refine freelistDealloc_wf hsw hk _ _ (Nat.le_refl _) ?_
      simp only; omega
    · simp only; omega
  · rw [if_neg hv]
    refine ⟨?_, ?_, hal, rfl, rfl, rfl, ⟨0, by simp [Nat.mod_eq_of_lt hw.disc]⟩, rfl, rfl⟩
    · have hsh := hw.shrink [Meta.owned ⟨g.off, g.size, g.off + NODE, size⟩]
        (by
          intro s hs'
          simp only [List.mem_cons, List.mem_nil_iff, or_false] at hs'
          subst hs'
          simp only [Meta.owned, Seg.ext, Seg.lo, Seg.hi, NODE] at *; omega)
        (by simp)
      simpa using hsh
    · simp only; omega

theorem SlowPost.base {c : Cfg} {a1 a a' : A} {lives : List Ext} {m : Meta} {size : Nat}
    (h : SlowPost c a1 a' lives m size) (h1 : a1.allocated = a.allocated) (h2 : a1.discarded = a.discarded)
    (h3 : a1.cap = a.cap) (h4 : a1.minSeg = a.minSeg) : SlowPost c a a' lives m size :=
  ⟨h.wf, h.nonempty, h.al8, h.ptr, h.psize, h1 ▸ h.alloc_eq, h2 ▸ h.disc, h3 ▸ h.cap_eq, h4 ▸ h.minSeg_eq⟩

theorem slow_post {c : Cfg} {a : A} {lives : List Ext} (hw : WF c a lives) (size : Nat) (h0 : size ≠ 0)
    (m : Meta) (a' : A) (h : a.slow c size = (.ok m, a')) : SlowPost c a a' lives m size := by
  unfold A.slow at h
  split at h
  · cases h
  · split at h
    · cases h
    · rename_i hk
      split at h
      · cases h
      · rename_i g rest hfree
        split at h
        · cases h
        · rename_i hle
          simp only [Prod.mk.injEq, Except.ok.injEq] at h
          obtain ⟨rfl, rfl⟩ := h
          have hg : g ∈ a.free := by rw [hfree]; exact List.mem_cons_self ..
          have hgo := hw.segs g hg
          have hw1 : WF c { a with free := rest } (g.ext :: lives) :=
            hw.take g rest (by rw [hfree]) (by rw [hfree]; exact List.sublist_cons_self _ _)
          have := finishSlow_post hw1 (by rw [hk]; simp) hgo.1 hgo.2.1 size (by omega) h0
          exact this.base rfl rfl rfl rfl
    · rename_i hk
      split at h
      · cases h
      · rename_i g rest htf
        simp only [Prod.mk.injEq, Except.ok.injEq] at h
        obtain ⟨rfl, rfl⟩ := h
        obtain ⟨pre, post, hfree, hrest, hp, _⟩ := takeFirst_some _ _ _ _ htf
        have hg : g ∈ a.free := by rw [hfree]; simp
        have hgo := hw.segs g hg
        have hw1 : WF c { a with free := rest } (g.ext :: lives) :=
          hw.take g rest (by rw [hfree, hrest]; exact List.perm_middle)
            (by rw [hfree, hrest]; exact List.Sublist.append_left (List.sublist_cons_self _ _) _)
        have := finishSlow_post hw1 (by rw [hk]; simp) hgo.1 hgo.2.1 size (by simpa using hp) h0
        exact this.base rfl rfl rfl rfl


theorem slow_err {c : Cfg} {a a' : A} {size : Nat} {e : Err} (h : a.slow c size = (.error e, a')) :
    a' = a ∧ (e = .readOnly ↔ c.ro = true) := by
  unfold A.slow at h
  split at h
  · rename_i hro
    simp only [Prod.mk.injEq, Except.error.injEq] at h
    obtain ⟨rfl, rfl⟩ := h
    exact ⟨rfl, by simp [hro]⟩
  · rename_i hro
    have hins : ∀ {x : A}, ((Except.error Err.insufficient : Except Err Meta), x) = (.error e, a') →
        a' = x ∧ (e = .readOnly ↔ c.ro = true) := by
      intro x hx
      simp only [Prod.mk.injEq, Except.error.injEq] at hx
      obtain ⟨rfl, rfl⟩ := hx
      exact ⟨rfl, by simp [hro]⟩
    split at h
    · exact hins h
    · split at h
      · exact hins h
      · split at h
        · exact hins h
        · simp at h
    · split at h
      · exact hins h
      · simp at h

theorem slowEntry_err {c : Cfg} {a a' : A} {size : Nat} {post : Meta → Meta} {e : Err}
    (h : a.slowEntry c size post = (.error e, a')) : a' = a ∧ (e = .readOnly ↔ c.ro = true) := by
  unfold A.slowEntry at h
  split at h
  · simp at h
  · rename_i e' a'' hs
    simp only [Prod.mk.injEq, Except.error.injEq] at h
    obtain ⟨rfl, rfl⟩ := h
    exact slow_err hs

theorem slowEntry_not_none {c : Cfg} {a a' : A} {size : Nat} {post : Meta → Meta}
    (h : a.slowEntry c size post = (.ok none, a')) : False := by
  unfold A.slowEntry at h
  split at h <;> simp at h

theorem slowEntry_ok {c : Cfg} {a a' : A} {size : Nat} {post : Meta → Meta} {m' : Meta}
    (h : a.slowEntry c size post = (.ok (some m'), a')) : ∃ m, a.slow c size = (.ok m, a') ∧ m' = post m := by
  unfold A.slowEntry at h
  split at h
  · rename_i m a'' hs
    simp only [Prod.mk.injEq, Except.ok.injEq, Option.some.injEq] at h
    obtain ⟨rfl, rfl⟩ := h
    exact ⟨m, hs, rfl⟩
  · simp at h

/-! ### failures change nothing, zero-size requests occupy nothing -/

theorem allocBytes_err' (c : Cfg) (a a' : A) (n : Nat) (e : Err) (h : a.allocBytes c n = (.error e, a')) :
    a' = a ∧ (e = .readOnly ↔ c.ro = true) := by
  unfold A.allocBytes at h
  split at h
  · rename_i hro
    simp only [Prod.mk.injEq, Except.error.injEq] at h
    obtain ⟨rfl, rfl⟩ := h
    exact ⟨rfl, by simp [hro]⟩
  · split at h
    · simp at h
    · split at h
      · simp at h
      · exact slowEntry_err h

theorem allocBytes_err (c : Cfg) (a a' : A) (n : Nat) (e : Err) (h : a.allocBytes c n = (.error e, a')) : a' = a :=
  (allocBytes_err' c a a' n e h).1

/-- the error kind: `ReadOnly` exactly on read-only arenas -/
theorem allocBytes_err_kind (c : Cfg) (a a' : A) (n : Nat) (e : Err) (h : a.allocBytes c n = (.error e, a')) :
    (e = .readOnly ↔ c.ro = true) :=
  (allocBytes_err' c a a' n e h).2

theorem allocAligned_err (c : Cfg) (a a' : A) (ts ta ex : Nat) (e : Err)
    (h : a.allocAligned c ts ta ex = (.error e, a')) : a' = a := by
  unfold A.allocAligned at h
  split at h
  · simp only [Prod.mk.injEq] at h; exact h.2.symm
  · split at h
    · exact allocBytes_err c a a' ex e h
    · simp only [] at h
      split at h
      · simp at h
      · split at h
        · exact (slowEntry_err h).1
        · simp only [Prod.mk.injEq] at h; exact h.2.symm

theorem allocT_err (c : Cfg) (a a' : A) (ts ta : Nat) (e : Err) (h : a.allocT c ts ta = (.error e, a')) : a' = a := by
  unfold A.allocT at h
  split at h
  · simp only [Prod.mk.injEq] at h; exact h.2.symm
  · split at h
    · simp at h
    · simp only [] at h
      split at h
      · simp at h
      · exact (slowEntry_err h).1

theorem allocBytes_none (c : Cfg) (a a' : A) (n : Nat) (h : a.allocBytes c n = (.ok none, a')) : a' = a ∧ n = 0 := by
  unfold A.allocBytes at h
  split at h
  · simp at h
  · split at h
    · rename_i h0
      simp only [Prod.mk.injEq] at h
      exact ⟨h.2.symm, h0⟩
    · split at h
      · simp at h
      · exact (slowEntry_not_none h).elim

theorem allocAligned_none (c : Cfg) (a a' : A) (ts ta ex : Nat) (h : a.allocAligned c ts ta ex = (.ok none, a')) :
    a' = a ∧ ts = 0 ∧ ex = 0 := by
  unfold A.allocAligned at h
  split at h
  · simp at h
  · split at h
    · rename_i hz
      obtain ⟨h1, h2⟩ := allocBytes_none c a a' ex h
      exact ⟨h1, hz.1, h2⟩
    · simp only [] at h
      split at h
      · simp at h
      · split at h
        · exact (slowEntry_not_none h).elim
        · simp at h

theorem allocT_none (c : Cfg) (a a' : A) (ts ta : Nat) (h : a.allocT c ts ta = (.ok none, a')) : a' = a ∧ ts = 0 := by
  unfold A.allocT at h
  split at h
  · simp at h
  · split at h
    · rename_i h0
      simp only [Prod.mk.injEq] at h
      exact ⟨h.2.symm, h0⟩
    · simp only [] at h
      split at h
      · simp at h
      · exact (slowEntry_not_none h).elim

/-- zero-size requests succeed on any writable arena, even a full one -/
theorem allocBytes_zero (c : Cfg) (a : A) (hro : c.ro = false) : a.allocBytes c 0 = (.ok none, a) := by
  unfold A.allocBytes; simp [hro]

theorem allocT_zero (c : Cfg) (a : A) (ta : Nat) (hro : c.ro = false) : a.allocT c 0 ta = (.ok none, a) := by
  unfold A.allocT; simp [hro]


/-! ### successful allocations -/

/-- what every successful allocation guarantees about the handle and the new state -/
structure AllocPost (c : Cfg) (a a' : A) (lives : List Ext) (m : Meta) : Prop where
  wf : WF c a' (m.owned :: lives)
  nonempty : m.memSize ≠ 0
  mem_le_ptr : m.memOff ≤ m.ptrOff
  in_data : c.dataOffset ≤ m.ptrOff
  below_cursor : m.ptrOff + m.ptrSize ≤ a'.allocated
  cursor_mono : a.allocated ≤ a'.allocated
  discarded_mono : ∃ d, a'.discarded = (a.discarded + d) % TWO32
  cap_eq : a'.cap = a.cap
  minSeg_eq : a'.minSeg = a.minSeg

/-- the bump path -/
theorem AllocPost.of_bump {c : Cfg} {a : A} {lives : List Ext} (hw : WF c a lives) (m : Meta) (want : Nat)
    (h1 : m.memOff = a.allocated) (h2 : m.memSize = want - a.allocated) (hgt : a.allocated < want)
    (hcap : want ≤ a.cap) (h3 : a.allocated ≤ m.ptrOff) (h4 : m.ptrOff + m.ptrSize ≤ want) :
    AllocPost c a { a with allocated := want } lives m := by
  have hown : m.owned = (a.allocated, want) := by
    simp only [Meta.owned, Prod.mk.injEq]; omega
  have hmid := hw.mid
  refine ⟨?_, by omega, by omega, by omega, h4, Nat.le_of_lt hgt, ⟨0, by simp [Nat.mod_eq_of_lt hw.disc]⟩, rfl, rfl⟩
  rw [hown]
  have hd := hw.disjoint
  rw [List.pairwise_append] at hd
  obtain ⟨hF, hL, hFL⟩ := hd
  constructor
  · intro g hg
    have := hw.segs g hg
    unfold SegOK at *
    simp only at *; omega
  · exact hw.sorted
  · show (a.free.map Seg.ext ++ (a.allocated, want) :: lives).Pairwise disj
    rw [List.pairwise_append, List.pairwise_cons]
    refine ⟨hF, ⟨?_, hL⟩, ?_⟩
    · intro x hx
      have := hw.lives_in x hx
      unfold disj; simp only; omega
    · intro x hx y hy
      rcases List.mem_cons.1 hy with rfl | hy
      · obtain ⟨g, hg, rfl⟩ := List.mem_map.1 hx
        have := hw.segs g hg
        unfold SegOK at this
        unfold disj; simp only [Seg.ext, Seg.hi, Seg.lo] at *; omega
      · exact hFL x hx y hy
  · intro e he
    rcases List.mem_cons.1 he with rfl | he
    · simp only; omega
    · have := hw.lives_in e he
      simp only; omega
  · exact hw.lo
  · show c.dataOffset ≤ want; omega
  · exact hcap
  · exact hw.none_empty
  · exact hw.disc

/-- the slow path followed by a re-alignment of the accessible range inside the handed-out range -/
theorem AllocPost.of_slow {c : Cfg} {a a' : A} {lives : List Ext} {m : Meta} {size : Nat}
    (sp : SlowPost c a a' lives m size) (m' : Meta) (h1 : m'.memOff = m.memOff) (h2 : m'.memSize = m.memSize)
    (h3 : m.ptrOff ≤ m'.ptrOff) (h4 : m'.ptrOff + m'.ptrSize ≤ m.ptrOff + m.ptrSize) :
    AllocPost c a a' lives m' := by
  have hin := sp.wf.lives_in _ (List.mem_cons_self ..)
  have hne := sp.nonempty
  have hptr := sp.ptr
  have hwf : WF c a' (m'.owned :: lives) := by
    have := sp.wf.shrink [m'.owned]
      (by
        intro s hs
        simp only [List.mem_singleton] at hs
        subst hs
        simp only [Meta.owned] at *; omega)
      (by simp)
    simpa using this
  refine ⟨hwf, by omega, by omega, ?_, ?_, Nat.le_of_eq sp.alloc_eq.symm, sp.disc, sp.cap_eq, sp.minSeg_eq⟩
  · simp only [Meta.owned] at hin; omega
  · simp only [Meta.owned] at hin; omega

theorem allocBytes_ok (c : Cfg) (a a' : A) (lives : List Ext) (n : Nat) (m : Meta)
    (hw : WF c a lives) (h : a.allocBytes c n = (.ok (some m), a')) :
    AllocPost c a a' lives m ∧ m.ptrSize = n := by
  unfold A.allocBytes at h
  split at h
  · simp at h
  · split at h
    · simp at h
    · rename_i h0
      split at h
      · rename_i hcap
        simp only [Prod.mk.injEq, Except.ok.injEq, Option.some.injEq] at h
        obtain ⟨rfl, rfl⟩ := h
        refine ⟨AllocPost.of_bump hw _ (a.allocated + n) rfl ?_ ?_ hcap ?_ ?_, rfl⟩ <;>
          (try simp only [Meta.new]) <;> omega
      · obtain ⟨m0, hs, hm⟩ := slowEntry_ok h
        have hm : m = m0 := hm
        rw [hm]
        have sp := slow_post hw n h0 m0 a' hs
        exact ⟨AllocPost.of_slow sp _ rfl rfl (Nat.le_refl _) (Nat.le_refl _), sp.psize⟩

theorem allocAligned_ok (c : Cfg) (a a' : A) (lives : List Ext) (ts ta ex : Nat) (m : Meta)
    (hw : WF c a lives) (hr : ReqOK ts ta) (h : a.allocAligned c ts ta ex = (.ok (some m), a')) :
    AllocPost c a a' lives m ∧ m.ptrOff % ta = 0 ∧ ts + ex ≤ m.ptrSize := by
  have hge := alignUp_ge ta
  have hlt := alignUp_lt ta
  have hta : 1 ≤ ta := by rcases hr.1 with rfl | rfl | rfl | rfl | rfl | rfl | rfl <;> omega
  unfold A.allocAligned at h
  split at h
  · simp at h
  · rename_i hro
    have hro : c.ro = false := by simpa using hro
    split at h
    · rename_i hz
      obtain ⟨hp, hsz⟩ := allocBytes_ok c a a' lives ex m hw h
      refine ⟨hp, ?_, by omega⟩
      rcases hz.2 with rfl | rfl
      · rw [allocBytes_zero c a hro] at h; simp at h
      · omega
    · rename_i hz
      simp only [] at h
      split at h
      · rename_i hcap
        simp only [Prod.mk.injEq, Except.ok.injEq, Option.some.injEq] at h
        obtain ⟨rfl, rfl⟩ := h
        have h1 := hge a.allocated hr.1
        refine ⟨AllocPost.of_bump hw _ (alignUp ta a.allocated + ts + ex) rfl ?_ ?_ hcap ?_ ?_, ?_, ?_⟩
        · simp only [Meta.alignBytesToS, Meta.new]
        · omega
        · simp only [Meta.alignBytesToS, Meta.new]; omega
        · simp only [Meta.alignBytesToS, Meta.new]; omega
        · simp only [Meta.alignBytesToS, Meta.new]; exact alignUp_mod _ _
        · simp only [Meta.alignBytesToS, Meta.new]; omega
      · split at h
        · obtain ⟨m0, hs, hm⟩ := slowEntry_ok h
          have hm : m = m0.alignBytesToS ta := hm
          rw [hm]
          have h0 : pad ts ta + ex ≠ 0 := by unfold pad; omega
          have sp := slow_post hw _ h0 m0 a' hs
          have h1 := hge m0.ptrOff hr.1
          have h2 := hlt m0.ptrOff hr.1
          have h3 := sp.psize
          unfold pad at h3
          refine ⟨AllocPost.of_slow sp _ rfl rfl ?_ ?_, ?_, ?_⟩
          · simp only [Meta.alignBytesToS]; omega
          · simp only [Meta.alignBytesToS]; omega
          · simp only [Meta.alignBytesToS]; exact alignUp_mod _ _
          · simp only [Meta.alignBytesToS]; omega
        · simp at h

theorem allocT_ok (c : Cfg) (a a' : A) (lives : List Ext) (ts ta : Nat) (m : Meta)
    (hw : WF c a lives) (hr : ReqOK ts ta) (h : a.allocT c ts ta = (.ok (some m), a')) :
    AllocPost c a a' lives m ∧ m.ptrOff % ta = 0 ∧ m.ptrSize = ts := by
  have hge := alignUp_ge ta
  have hlt := alignUp_lt ta
  have hta : 1 ≤ ta := by rcases hr.1 with rfl | rfl | rfl | rfl | rfl | rfl | rfl <;> omega
  unfold A.allocT at h
  split at h
  · simp at h
  · split at h
    · simp at h
    · rename_i hz
      simp only [] at h
      split at h
      · rename_i hcap
        simp only [Prod.mk.injEq, Except.ok.injEq, Option.some.injEq] at h
        obtain ⟨rfl, rfl⟩ := h
        have h1 := hge a.allocated hr.1
        refine ⟨AllocPost.of_bump hw _ (alignUp ta a.allocated + ts) rfl ?_ ?_ hcap ?_ ?_, ?_, ?_⟩
        · simp only [Meta.alignToS, Meta.new]
        · omega
        · simp only [Meta.alignToS, Meta.new]; omega
        · simp only [Meta.alignToS, Meta.new]; omega
        · simp only [Meta.alignToS, Meta.new]; exact alignUp_mod _ _
        · simp only [Meta.alignToS, Meta.new]
      · obtain ⟨m0, hs, hm⟩ := slowEntry_ok h
        have hm : m = m0.alignToS ta ts := hm
        rw [hm]
        have h0 : pad ts ta ≠ 0 := by unfold pad; omega
        have sp := slow_post hw _ h0 m0 a' hs
        have h1 := hge m0.ptrOff hr.1
        have h2 := hlt m0.ptrOff hr.1
        have h3 := sp.psize
        unfold pad at h3
        refine ⟨AllocPost.of_slow sp _ rfl rfl ?_ ?_, ?_, ?_⟩
        · simp only [Meta.alignToS]; omega
        · simp only [Meta.alignToS]; omega
        · simp only [Meta.alignToS]; exact alignUp_mod _ _
        · simp only [Meta.alignToS]


/-! ### histories -/

/-- invariant of abstract histories -/
structure HInv (c : Cfg) (h : HState) : Prop where
  wf : WF c h.a h.lives
  held_ok : ∀ m ∈ h.held, m.memSize ≠ 0 →
    m.memOff ≤ m.ptrOff ∧ c.dataOffset ≤ m.ptrOff ∧ m.ptrOff + m.ptrSize ≤ h.a.allocated
  held_null : ∀ m ∈ h.held, m.memSize = 0 → m = Meta.null ∨ m.ptrSize = 0

def HState.init (cap dataOffset ms : Nat) : HState := { a := A.fresh cap dataOffset ms, held := [], detached := [] }

theorem getElem?_split {α : Type} (l : List α) (i : Nat) (x : α) (h : l[i]? = some x) :
    ∃ pre post, l = pre ++ x :: post ∧ l.eraseIdx i = pre ++ post := by
  induction l generalizing i with
  | nil => simp at h
  | cons y ys ih =>
    cases i with
    | zero =>
      simp at h
      subst h
      exact ⟨[], ys, rfl, rfl⟩
    | succ j =>
      simp at h
      obtain ⟨pre, post, h1, h2⟩ := ih j h
      exact ⟨y :: pre, post, by simp [h1], by simp [h2]⟩

theorem lives_mem {h : HState} {m : Meta} (hm : m ∈ h.held) (hne : m.memSize ≠ 0) : m.owned ∈ h.lives := by
  unfold HState.lives
  apply List.mem_append_left
  apply List.mem_map_of_mem
  simp [List.mem_filter, hm, hne]

/-- the cursor bound of `held_ok` follows from well-formedness -/
theorem HInv.mk' {c : Cfg} {h : HState} (wf : WF c h.a h.lives)
    (ok : ∀ m ∈ h.held, m.memSize ≠ 0 → m.memOff ≤ m.ptrOff ∧ c.dataOffset ≤ m.ptrOff)
    (null : ∀ m ∈ h.held, m.memSize = 0 → m = Meta.null ∨ m.ptrSize = 0) : HInv c h := by
  refine ⟨wf, ?_, null⟩
  intro m hm hne
  have h1 := ok m hm hne
  have h2 := wf.lives_in _ (lives_mem hm hne)
  simp only [Meta.owned] at h2
  exact ⟨h1.1, h1.2, by omega⟩

theorem HInv.same {c : Cfg} {h : HState} (hi : HInv c h) (a' : A) (ha : a' = h.a) :
    HInv c { h with a := a' } := by
  subst ha; exact hi

theorem HInv.push {c : Cfg} {h : HState} (hi : HInv c h) (m : Meta) (a' : A)
    (hp : AllocPost c h.a a' h.lives m) : HInv c { h with a := a', held := h.held ++ [m] } := by
  have hne := hp.nonempty
  apply HInv.mk'
  · show WF c a' _
    refine hp.wf.perm ?_
    unfold HState.lives
    simp only [List.filter_append, List.map_append, List.filter_cons, List.filter_nil]
    have : (m.memSize != 0) = true := by simpa using hne
    simp only [this, if_true, List.map_cons, List.map_nil, List.append_assoc, List.singleton_append]
    exact List.perm_middle.symm
  · intro m' hm' hne'
    rcases List.mem_append.1 hm' with hm' | hm'
    · have := hi.held_ok m' hm' hne'
      exact ⟨this.1, this.2.1⟩
    · simp only [List.mem_singleton] at hm'
      subst hm'
      exact ⟨hp.mem_le_ptr, hp.in_data⟩
  · intro m' hm' hz
    rcases List.mem_append.1 hm' with hm' | hm'
    · exact hi.held_null m' hm' hz
    · simp only [List.mem_singleton] at hm'
      subst hm'
      exact absurd hz hne

theorem HInv.init (c : Cfg) (cap ms : Nat) (h1 : 1 ≤ c.dataOffset) (h2 : c.dataOffset ≤ cap) :
    HInv c (HState.init cap c.dataOffset ms) := by
  refine ⟨?_, ?_, ?_⟩
  · exact WF.fresh c cap ms h1 h2
  · intro m hm; simp [HState.init] at hm
  · intro m hm; simp [HState.init] at hm

theorem HInv.step (c : Cfg) (h : HState) (op : HOp) (hi : HInv c h) (hop : op.ok) : HInv c (h.step c op) := by
  cases op with
  | allocBytes n =>
    simp only [HState.step]
    rcases hr : h.a.allocBytes c n with ⟨(e | (_ | m)), a'⟩
    · exact hi.same _ (allocBytes_err _ _ _ _ _ hr)
    · exact hi.same _ (allocBytes_none _ _ _ _ hr).1
    · exact hi.push m a' (allocBytes_ok _ _ _ _ _ _ hi.wf hr).1
  | allocAligned ts ta ex =>
    simp only [HState.step]
    rcases hr : h.a.allocAligned c ts ta ex with ⟨(e | (_ | m)), a'⟩
    · exact hi.same _ (allocAligned_err _ _ _ _ _ _ _ hr)
    · exact hi.same _ (allocAligned_none _ _ _ _ _ _ hr).1
    · exact hi.push m a' (allocAligned_ok _ _ _ _ _ _ _ _ hi.wf hop hr).1
  | allocT ts ta =>
    simp only [HState.step]
    rcases hr : h.a.allocT c ts ta with ⟨(e | (_ | m)), a'⟩
    · exact hi.same _ (allocT_err _ _ _ _ _ _ hr)
    · exact hi.same _ (allocT_none _ _ _ _ _ hr).1
    · exact hi.push m a' (allocT_ok _ _ _ _ _ _ _ hi.wf hop hr).1
  | release i =>
    simp only [HState.step]
    rcases hm : h.held[i]? with _ | m
    · exact hi
    · obtain ⟨pre, post, hsplit, herase⟩ := getElem?_split _ _ _ hm
      have hmem : m ∈ h.held := by rw [hsplit]; simp
      have hsub : ∀ x ∈ h.held.eraseIdx i, x ∈ h.held := fun x hx => List.mem_of_mem_eraseIdx hx
      apply HInv.mk'
      · show WF c (h.a.dealloc c m.memOff m.memSize).2
          (((h.held.eraseIdx i).filter (fun m => m.memSize != 0)).map Meta.owned ++ h.detached)
        by_cases hz : m.memSize = 0
        · rw [hz, dealloc_zero c h.a _ hi.wf.disc]
          have := hi.wf
          unfold HState.lives at this
          rw [hsplit] at this
          rw [herase]
          simpa [List.filter_append, List.filter_cons, hz] using this
        · have hperm : h.lives.Perm (m.owned ::
              (((h.held.eraseIdx i).filter (fun m => m.memSize != 0)).map Meta.owned ++ h.detached)) := by
            unfold HState.lives
            rw [herase, hsplit]
            have : (m.memSize != 0) = true := by simpa using hz
            simp only [List.filter_append, List.map_append, List.filter_cons, this, if_true, List.map_cons,
              List.append_assoc, List.cons_append]
            exact List.perm_middle
          have hw := dealloc_wf c h.a h.lives m hi.wf (lives_mem hmem hz) hz
          refine hw.perm ?_
          have := hperm.erase m.owned
          rwa [List.erase_cons_head] at this
      · intro m' hm' hne'
        have := hi.held_ok m' (hsub m' hm') hne'
        exact ⟨this.1, this.2.1⟩
      · intro m' hm' hz
        exact hi.held_null m' (hsub m' hm') hz
  | detach i =>
    simp only [HState.step]
    rcases hm : h.held[i]? with _ | m
    · exact hi
    · obtain ⟨pre, post, hsplit, herase⟩ := getElem?_split _ _ _ hm
      have hsub : ∀ x ∈ h.held.eraseIdx i, x ∈ h.held := fun x hx => List.mem_of_mem_eraseIdx hx
      apply HInv.mk'
      · show WF c h.a (((h.held.eraseIdx i).filter (fun m => m.memSize != 0)).map Meta.owned ++
          (if m.memSize != 0 then m.owned :: h.detached else h.detached))
        have hw := hi.wf
        unfold HState.lives at hw
        rw [hsplit] at hw
        rw [herase]
        by_cases hz : m.memSize = 0
        · simpa [List.filter_append, List.filter_cons, hz] using hw
        · have : (m.memSize != 0) = true := by simpa using hz
          refine hw.perm ?_
          simp only [List.filter_append, List.map_append, List.filter_cons, this, if_true, List.map_cons,
            List.append_assoc, List.cons_append]
          refine List.Perm.append_left _ ?_
          exact List.perm_middle.symm
      · intro m' hm' hne'
        have := hi.held_ok m' (hsub m' hm') hne'
        exact ⟨this.1, this.2.1⟩
      · intro m' hm' hz
        exact hi.held_null m' (hsub m' hm') hz
  | setMinSeg n =>
    simp only [HState.step]
    split
    · exact hi
    · have hw := hi.wf
      exact ⟨⟨hw.segs, hw.sorted, hw.disjoint, hw.lives_in, hw.lo, hw.mid, hw.hi, hw.none_empty, hw.disc⟩,
        hi.held_ok, hi.held_null⟩
  | incDiscarded n =>
    simp only [HState.step]
    apply HInv.mk'
    · exact hi.wf.incDiscarded n
    · intro m hm hne
      have := hi.held_ok m hm hne
      exact ⟨this.1, this.2.1⟩
    · exact hi.held_null
  | discardFreelist =>
    simp only [HState.step]
    apply HInv.mk'
    · exact discardFreelist_wf c h.a _ hi.wf
    · intro m hm hne
      have := hi.held_ok m hm hne
      exact ⟨this.1, this.2.1⟩
    · exact hi.held_null
  | clear =>
    simp only [HState.step]
    split
    · exact hi
    · have hw := hi.wf
      refine ⟨WF.fresh c h.a.cap h.a.minSeg hw.lo (Nat.le_trans hw.mid hw.hi), ?_, ?_⟩
      · intro m hm; simp at hm
      · intro m hm; simp at hm
  | truncate n =>
    simp only [HState.step]
    split
    · exact hi
    · have hw := hi.wf
      exact ⟨⟨hw.segs, hw.sorted, hw.disjoint, hw.lives_in, hw.lo, hw.mid, Nat.le_max_right _ _, hw.none_empty,
        hw.disc⟩, hi.held_ok, hi.held_null⟩

theorem HInv.run (c : Cfg) (h : HState) (ops : List HOp) (hi : HInv c h) (hops : ∀ o ∈ ops, o.ok) :
    HInv c (h.run c ops) := by
  unfold HState.run
  induction ops generalizing h with
  | nil => exact hi
  | cons o os ih =>
    simp only [List.foldl_cons]
    exact ih _ (HInv.step c h o hi (hops o (List.mem_cons_self ..)))
      (fun o' ho' => hops o' (List.mem_cons_of_mem _ ho'))

/-- C01 (abstract level): at every point of every history the accessible ranges of the handles still
    held are pairwise disjoint, lie in `[dataOffset, allocated)`, and avoid every free segment and
    every detached extent -/
theorem held_exclusive (c : Cfg) (h : HState) (hi : HInv c h) :
    ((h.held.filter (fun m => m.memSize != 0)).map Meta.access).Pairwise disj ∧
    (∀ m ∈ h.held, m.memSize ≠ 0 → ∀ g ∈ h.a.free, disj m.access g.ext) ∧
    (∀ m ∈ h.held, m.memSize ≠ 0 → ∀ e ∈ h.detached, disj m.access e) := by
  have hd := hi.wf.disjoint
  rw [List.pairwise_append] at hd
  obtain ⟨_, hL, hFL⟩ := hd
  have hL' := hL
  unfold HState.lives at hL'
  rw [List.pairwise_append] at hL'
  obtain ⟨hH, _, hHD⟩ := hL'
  have hsub : ∀ m ∈ h.held, m.memSize ≠ 0 → m.owned.1 ≤ m.access.1 ∧ m.access.2 ≤ m.owned.2 := by
    intro m hm hne
    have := hi.held_ok m hm hne
    simp only [Meta.owned, Meta.access]; omega
  refine ⟨?_, ?_, ?_⟩
  · rw [List.pairwise_map] at hH ⊢
    refine List.Pairwise.imp_of_mem ?_ hH
    intro x y hx hy hxy
    simp only [List.mem_filter, bne_iff_ne, ne_eq] at hx hy
    have h1 := hsub x hx.1 hx.2
    have h2 := hsub y hy.1 hy.2
    exact disj_symm (disj_sub (disj_symm (disj_sub hxy h1.1 h1.2)) h2.1 h2.2)
  · intro m hm hne g hg
    have h1 := hsub m hm hne
    have := hFL g.ext (List.mem_map_of_mem hg) m.owned (lives_mem hm hne)
    exact disj_sub (disj_symm this) h1.1 h1.2
  · intro m hm hne e he
    have h1 := hsub m hm hne
    have hmo : m.owned ∈ (h.held.filter (fun m => m.memSize != 0)).map Meta.owned := by
      apply List.mem_map_of_mem
      simp [List.mem_filter, hm, hne]
    exact disj_sub (hHD _ hmo e he) h1.1 h1.2

end Rarena
