/-
  Proofs.SpecWF — the abstract allocator keeps its state well formed (`WF`), allocations have the
  requested geometry, failures change nothing; lifted to every abstract history.
  (statement file: every `sorry` below is a proof obligation)
-/
import RarenaVerif.Proofs.ListLemmas

namespace Rarena

/-- requests are `u32` values; types of the API have alignment 1..16 -/
def ReqOK (tsize talign : Nat) : Prop := okAlignment talign ∧ tsize % talign = 0

theorem WF.fresh (c : Cfg) (cap ms : Nat) (h1 : 1 ≤ c.dataOffset) (h2 : c.dataOffset ≤ cap) :
    WF c (A.fresh cap c.dataOffset ms) [] := by
  sorry

/-! ### failures change nothing, zero-size requests occupy nothing -/

theorem allocBytes_err (c : Cfg) (a a' : A) (n : Nat) (e : Err) (h : a.allocBytes c n = (.error e, a')) : a' = a := by
  sorry

theorem allocAligned_err (c : Cfg) (a a' : A) (ts ta ex : Nat) (e : Err)
    (h : a.allocAligned c ts ta ex = (.error e, a')) : a' = a := by
  sorry

theorem allocT_err (c : Cfg) (a a' : A) (ts ta : Nat) (e : Err) (h : a.allocT c ts ta = (.error e, a')) : a' = a := by
  sorry

theorem allocBytes_none (c : Cfg) (a a' : A) (n : Nat) (h : a.allocBytes c n = (.ok none, a')) : a' = a ∧ n = 0 := by
  sorry

theorem allocAligned_none (c : Cfg) (a a' : A) (ts ta ex : Nat) (h : a.allocAligned c ts ta ex = (.ok none, a')) :
    a' = a ∧ ts = 0 ∧ ex = 0 := by
  sorry

theorem allocT_none (c : Cfg) (a a' : A) (ts ta : Nat) (h : a.allocT c ts ta = (.ok none, a')) : a' = a ∧ ts = 0 := by
  sorry

/-- the error kind: `ReadOnly` exactly on read-only arenas -/
theorem allocBytes_err_kind (c : Cfg) (a a' : A) (n : Nat) (e : Err) (h : a.allocBytes c n = (.error e, a')) :
    (e = .readOnly ↔ c.ro = true) := by
  sorry

/-! ### successful allocations -/

/-- what every successful allocation guarantees about the handle and the new state -/
structure AllocPost (c : Cfg) (a a' : A) (lives : List Ext) (m : Meta) : Prop where
  wf : WF c a' (m.owned :: lives)
  nonempty : m.memSize ≠ 0
  mem_le_ptr : m.memOff ≤ m.ptrOff
  in_data : c.dataOffset ≤ m.ptrOff
  below_cursor : m.ptrOff + m.ptrSize ≤ a'.allocated
  cursor_mono : a.allocated ≤ a'.allocated
  discarded_mono : ∃ d, a'.discarded = (a.discarded + d) % TWO32
  cap_eq : a'.cap = a.cap
  minSeg_eq : a'.minSeg = a.minSeg

theorem allocBytes_ok (c : Cfg) (a a' : A) (lives : List Ext) (n : Nat) (m : Meta)
    (hw : WF c a lives) (h : a.allocBytes c n = (.ok (some m), a')) :
    AllocPost c a a' lives m ∧ m.ptrSize = n := by
  sorry

theorem allocAligned_ok (c : Cfg) (a a' : A) (lives : List Ext) (ts ta ex : Nat) (m : Meta)
    (hw : WF c a lives) (hr : ReqOK ts ta) (h : a.allocAligned c ts ta ex = (.ok (some m), a')) :
    AllocPost c a a' lives m ∧ m.ptrOff % ta = 0 ∧ ts + ex ≤ m.ptrSize := by
  sorry

theorem allocT_ok (c : Cfg) (a a' : A) (lives : List Ext) (ts ta : Nat) (m : Meta)
    (hw : WF c a lives) (hr : ReqOK ts ta) (h : a.allocT c ts ta = (.ok (some m), a')) :
    AllocPost c a a' lives m ∧ m.ptrOff % ta = 0 ∧ m.ptrSize = ts := by
  sorry

/-- zero-size requests succeed on any writable arena, even a full one -/
theorem allocBytes_zero (c : Cfg) (a : A) (hro : c.ro = false) : a.allocBytes c 0 = (.ok none, a) := by
  sorry

theorem allocT_zero (c : Cfg) (a : A) (ta : Nat) (hro : c.ro = false) : a.allocT c 0 ta = (.ok none, a) := by
  sorry

/-! ### release -/

/-- releasing the buffer extent `[memOff, memOff+memSize)` of a handle whose owned extent is in `lives` -/
theorem dealloc_wf (c : Cfg) (a : A) (lives : List Ext) (m : Meta)
    (hw : WF c a lives) (hm : m.owned ∈ lives) (hne : m.memSize ≠ 0) :
    WF c (a.dealloc c m.memOff m.memSize).2 (lives.erase m.owned) := by
  sorry

/-- releasing the null handle of a zero-size request (`dealloc(0, 0)`) changes nothing -/
theorem dealloc_null (c : Cfg) (a : A) (hw : 1 ≤ a.allocated) (hd : a.discarded < TWO32) : (a.dealloc c 0 0).2 = a := by
  sorry

theorem dealloc_scalars (c : Cfg) (a : A) (off size : Nat) :
    (a.dealloc c off size).2.cap = a.cap ∧ (a.dealloc c off size).2.minSeg = a.minSeg ∧
    (a.dealloc c off size).2.allocated ≤ a.allocated ∧
    ∃ d, (a.dealloc c off size).2.discarded = (a.discarded + d) % TWO32 := by
  sorry

theorem discardFreelist_wf (c : Cfg) (a : A) (lives : List Ext) (hw : WF c a lives) :
    WF c (a.discardFreelist c).2 lives := by
  sorry

/-! ### histories -/

/-- invariant of abstract histories -/
structure HInv (c : Cfg) (h : HState) : Prop where
  wf : WF c h.a h.lives
  held_ok : ∀ m ∈ h.held, m.memSize ≠ 0 →
    m.memOff ≤ m.ptrOff ∧ c.dataOffset ≤ m.ptrOff ∧ m.ptrOff + m.ptrSize ≤ h.a.allocated
  held_null : ∀ m ∈ h.held, m.memSize = 0 → m = Meta.null ∨ m.ptrSize = 0

def HState.init (cap dataOffset ms : Nat) : HState := { a := A.fresh cap dataOffset ms, held := [], detached := [] }

theorem HInv.init (c : Cfg) (cap ms : Nat) (h1 : 1 ≤ c.dataOffset) (h2 : c.dataOffset ≤ cap) :
    HInv c (HState.init cap c.dataOffset ms) := by
  sorry

theorem HInv.step (c : Cfg) (h : HState) (op : HOp) (hi : HInv c h) (hop : op.ok) : HInv c (h.step c op) := by
  sorry

theorem HInv.run (c : Cfg) (h : HState) (ops : List HOp) (hi : HInv c h) (hops : ∀ o ∈ ops, o.ok) :
    HInv c (h.run c ops) := by
  sorry

/-- C01 (abstract level): at every point of every history the accessible ranges of the handles still
    held are pairwise disjoint, lie in `[dataOffset, allocated)`, and avoid every free segment and
    every detached extent -/
theorem held_exclusive (c : Cfg) (h : HState) (hi : HInv c h) :
    ((h.held.filter (fun m => m.memSize != 0)).map Meta.access).Pairwise disj ∧
    (∀ m ∈ h.held, m.memSize ≠ 0 → ∀ g ∈ h.a.free, disj m.access g.ext) ∧
    (∀ m ∈ h.held, m.memSize ≠ 0 → ∀ e ∈ h.detached, disj m.access e) := by
  sorry

end Rarena
