/-
  Proofs.CrashAlloc — a crash in the MIDDLE of an allocation served from FRESH SPACE (the bump path; sync flavour,
  free-list kind none / optimistic / pessimistic), for the three entry points `allocBytesC`, `allocTC`,
  `allocAlignedC` of Model/Conc.lean. Companion of Proofs/CrashDealloc.lean (releases); same setting, same method.

  One thread runs the entry point alone on a writable state satisfying the concrete invariant `CInv`
  (`c.ro = false`). The request is well formed (`AllocReq.OK`) and FITS the fresh space (`AllocReq.Fits`: the new
  cursor `want` the code computes with its checked additions is `≤ cap` — the side condition of the bump case of
  `allocBytes_refines` / `allocT_refines` / `allocAligned_refines`), so the cursor CAS of the first iteration of
  `bumpLoopC` is attempted and, nobody else running, succeeds. `soloSteps k` (Proofs/CrashDealloc.lean) is the state
  of the machine after `k` scheduling grants; `soloSteps_global` identifies it with `Global.run` under the schedule
  `replicate k (0, false)`. For EVERY `k`:

  * `crash_alloc_stage` — the allocator state is one of the two stages of `AllocStage`: untouched (before the load
    of the cursor; between the load and the CAS), or reserved (cursor at `want`, bytes changed only inside the
    accessible range of the new handle);
  * `crash_alloc` (`crash_alloc_global` for `Global.run`; `crash_alloc_bytes`, `crash_alloc_t`, `crash_alloc_aligned`
    and their `_global` forms are the three instances spelled out) — hence it satisfies `MidAlloc`:
      - `CInv` holds for the SAME free list and the OLD live extents (field `inv`), and from the CAS on also with the
        new handle's extent `m.owned = [old cursor, want)` counted as live (field `stage`): a crash after the CAS can
        only LEAK the new block — it is reserved but was not yet returned to the caller;
      - the cursor is the old one or `want`, between the old cursor and `cap`; memory size, sentinel (head of the
        free list), `min_segment_size` and `discarded` are unchanged;
      - bytes change only inside `[old cursor, want)` (`frame`): every live extent (`live`) and the reserved prefix
        and header area `[0, data_offset)` (`pre`) keep their bytes;
  * `crash_alloc_torn` — granularity: the machine executes the zero-fill of the new handle (`NA.zero`) together with
    the CAS that precedes it. An image taken in the middle of the zero-fill has the cursor at `want` and arbitrary
    bytes inside the accessible range of the new handle; `MidAlloc` holds for ANY such memory;
  * `crash_alloc_completes` — left alone, the thread has its answer after two grants: exactly the answer and the final
    state of the sequential `allocBytes` / `allocT` / `allocAligned` of Model/Core.lean (`AllocReq.seq_eq`), which
    satisfies `CInv` with the new extent live;
  * consequences, as in CrashDealloc: `crash_alloc_reopens` (`crash_alloc_bytes_reopens` spelled out; `MidAlloc.reopens`
    on the level of the predicate) — the image of ANY intermediate state reopens writable with the same options to an
    arena satisfying `CInv`, cursor old or `want` and in `[data_offset, cap]`, every extent of `lives` below the
    reopened cursor and holding the bytes it held before the allocation started (`C06.boundary` applied
    mid-operation, via `MidAlloc.wellFormedFile`); `crash_alloc_later_ops` / `crash_alloc_reopened_later_ops`
    (`C06.later_ops_terminate` applies to the intermediate state and to the reopened arena; the new allocation
    avoids `lives` and, if it had been reserved, the leaked block).

  A request that does NOT fit the fresh space enters the free-list slow path.
  * `Freelist::None`: that path makes no write (it loads the cursor once more for the error value and returns
    `InsufficientSpace`): `crash_alloc_nofit_none` (`_global`, `_completes`) — the state never changes.
  * Optimistic / Pessimistic: OUT OF SCOPE here and NOT claimed. An image taken between the mark CAS and the unlink
    CAS of `alloc_slow_path_*` reopens to an arena whose next free-list traversal does not terminate (KNOWN FINDING
    F15); for those crash points the analogue of `crash_alloc` is false.

  Method: the bump path consists of exactly two atomic accesses (`AllocReq.grants`: `stepAccess_load_bind`,
  `stepAccess_bump`, then `settle` runs the handle computation and the zero-fill: `bump_grants`, `soloSteps_two`), so
  the machine states are computed explicitly rather than through `SoloI` (which has no constructor for non-atomic
  effects). `AllocStage.mid` is the semantic half (`AllocPost.of_bump` of Proofs/SpecWF.lean, `bump_refines` of
  Proofs/RefineAlloc.lean). The no-write slow path of `Freelist::None` contains no non-atomic effect and is followed
  with `SoloI` (`AllocReq.nofit_soloI`).
-/
import RarenaVerif.Proofs.CrashDealloc
import RarenaVerif.Proofs.RefineAlloc

set_option linter.unusedVariables false

namespace Rarena.Conc

open Rarena

/-! ### the machine: a load, the cursor CAS, the non-atomic tail -/

/-- a load at the head of a program: the state is unchanged, the continuation gets the value -/
theorem stepAccess_load_bind {β : Type} (sh : Shared) (l : ALoc) (fn : String) (i v : Nat) (f : Nat → Prog β)
    (h : sh.read l = .ok v) :
    stepAccess sh (load l fn i >>= f) false = .ok (sh, f v, ⟨.ld, l, ⟨fn, i⟩, v, v, true⟩) := by
  have h0 : stepAccess sh (load l fn i) false = .ok (sh, .ret v, ⟨.ld, l, ⟨fn, i⟩, v, v, true⟩) := by
    simp only [load, stepAccess, h, ok_bind]; rfl
  exact stepAccess_bind f h0

/-- the first iteration of the cursor loop when the request fits: the weak CAS succeeds (nobody else runs) -/
theorem stepAccess_bump (sh : Shared) (s : St) (fn : String) (want : Nat → M (Option Nat)) (fuel wnt : Nat)
    (h : want s.allocated = .ok (some wnt)) :
    stepAccess (withSt sh s) (bumpLoopC fn want (fuel + 1) s.allocated) false =
      .ok (withSt sh { s with allocated := wnt }, .ret (some (s.allocated, wnt)),
        ⟨.casw, .alloc, ⟨fn, 1⟩, s.allocated, wnt, true⟩) := by
  have h0 : stepAccess (withSt sh s) (casw .alloc s.allocated wnt fn 1) false =
      .ok (withSt sh { s with allocated := wnt }, .ret (s.allocated, true),
        ⟨.casw, .alloc, ⟨fn, 1⟩, s.allocated, wnt, true⟩) := by
    simp [casw, stepAccess, Shared.read, Shared.write, withSt]; rfl
  simp only [bumpLoopC, h]
  exact stepAccess_bind _ h0

/-- a non-atomic effect followed by the answer: `settle` runs it and finishes -/
theorem settle_na_ret {α : Type} (fuel : Nat) (sh sh' : Shared) (e : NA) (k : Unit → Prog α) (a : α) (nas : List NA)
    (h : sh.applyNA e = .ok sh') (hk : k () = .ret a) :
    settle (fuel + 2) sh (.na e k) nas = (sh', .done a, nas ++ [e]) := by
  simp only [settle, h, hk]

theorem settle_ret {α : Type} (fuel : Nat) (sh : Shared) (a : α) (nas : List NA) :
    settle (fuel + 1) sh (.ret a) nas = (sh, .done a, nas) := rfl

theorem applyNA_zero_ok (sh : Shared) (s : St) (off len : Nat) (h : off + len ≤ s.mem.size) :
    (withSt sh s).applyNA (.zero off len) = .ok (withSt sh { s with mem := s.mem.zero off len }) := by
  simp only [Shared.applyNA, withSt, zero?_ok _ _ _ h, ok_bind]; rfl

/-- a finished thread is left alone -/
theorem soloSteps_ret {α : Type} (sh : Shared) (a : α) : ∀ k, soloSteps k sh (.ret a : Prog α) = (sh, .ret a)
  | 0 => rfl
  | k + 1 => soloSteps_ret sh a k

/-- a program whose run consists of a load, one more access and a non-atomic tail: the three machine states -/
theorem soloSteps_two {α : Type} {sh sh2 sh3 : Shared} {p p1 p2 : Prog α} {ev1 ev2 : Event} {a : α} {nas : List NA}
    (h1 : stepAccess sh p false = .ok (sh, p1, ev1)) (h2 : stepAccess sh p1 false = .ok (sh2, p2, ev2))
    (h3 : settle 100000 sh2 p2 [] = (sh3, .done a, nas)) :
    soloSteps 1 sh p = (sh, p1) ∧ ∀ k, soloSteps (k + 2) sh p = (sh3, .ret a) := by
  have g1 : soloGrant sh p = (sh, p1) := by
    unfold soloGrant
    rw [settle_of_stepAccess sh h1]
    simp only [h1]
    rw [settle_of_stepAccess sh h2]
  have g2 : soloGrant sh p1 = (sh3, .ret a) := by
    unfold soloGrant
    rw [settle_of_stepAccess sh h2]
    simp only [h2, h3]
  refine ⟨?_, fun k => ?_⟩
  · show soloSteps 0 (soloGrant sh p).1 (soloGrant sh p).2 = _
    rw [g1]; rfl
  · show soloSteps (k + 1) (soloGrant sh p).1 (soloGrant sh p).2 = _
    rw [g1]
    show soloSteps k (soloGrant sh p1).1 (soloGrant sh p1).2 = _
    rw [g2]
    exact soloSteps_ret _ _ k

/-- the shape shared by the three entry points when the request fits the fresh space: load the cursor, CAS it to
    `wnt` (first iteration of `bumpLoopC`, which succeeds: nobody else runs), then the non-atomic tail `G` -/
theorem bump_grants {β : Type} (sh : Shared) (fn fn' : String) (want : Nat → M (Option Nat)) (fuel wnt : Nat)
    (G : Option (Nat × Nat) → Prog β) (s3 : St) (r : β) (nas : List NA)
    (hw : want sh.st.allocated = .ok (some wnt))
    (hset : settle 100000 (withSt sh { sh.st with allocated := wnt }) (G (some (sh.st.allocated, wnt))) [] =
      (withSt sh s3, .done r, nas)) :
    (soloSteps 0 sh (load .alloc fn 0 >>= fun a0 => bumpLoopC fn' want (fuel + 1) a0 >>= G)).1 = sh ∧
    (soloSteps 1 sh (load .alloc fn 0 >>= fun a0 => bumpLoopC fn' want (fuel + 1) a0 >>= G)).1 = sh ∧
    ∀ k, soloSteps (k + 2) sh (load .alloc fn 0 >>= fun a0 => bumpLoopC fn' want (fuel + 1) a0 >>= G) =
      (withSt sh s3, .ret r) := by
  have h1 := stepAccess_load_bind sh .alloc fn 0 sh.st.allocated
    (fun a0 => bumpLoopC fn' want (fuel + 1) a0 >>= G) rfl
  have h2 : stepAccess sh (bumpLoopC fn' want (fuel + 1) sh.st.allocated >>= G) false =
      .ok (withSt sh { sh.st with allocated := wnt }, G (some (sh.st.allocated, wnt)),
        ⟨.casw, .alloc, ⟨fn', 1⟩, sh.st.allocated, wnt, true⟩) :=
    stepAccess_bind G (stepAccess_bump sh sh.st fn' want fuel wnt hw)
  obtain ⟨e1, e2⟩ := soloSteps_two h1 h2 hset
  exact ⟨rfl, by rw [e1], e2⟩

/-! ### the stages of an allocation from fresh space -/

/-- the handle `m` and the new cursor `want` of a request served from the fresh space `[s0.allocated, s0.cap)`:
    the handle's buffer is exactly `[s0.allocated, want)`, its accessible range lies inside it -/
structure BumpReq (s0 : St) (m : Meta) (want : Nat) : Prop where
  off : m.memOff = s0.allocated
  size : m.memSize = want - s0.allocated
  gt : s0.allocated < want
  cap : want ≤ s0.cap
  ptrLo : s0.allocated ≤ m.ptrOff
  ptrHi : m.ptrOff + m.ptrSize ≤ want

theorem BumpReq.owned {s0 : St} {m : Meta} {want : Nat} (hb : BumpReq s0 m want) :
    m.owned = (s0.allocated, want) := by
  have := hb.off; have := hb.size; have := hb.gt; have := hb.ptrLo; have := hb.ptrHi
  simp only [Meta.owned, Prod.mk.injEq]; omega

/-- ALL the allocator states an allocation from fresh space (handle `m`, new cursor `want`) started in `s0` passes
    through when the thread runs alone -/
inductive AllocStage (s0 : St) (m : Meta) (want : Nat) : St → Prop where
  /-- nothing written yet (before the load of the cursor; between the load and the CAS) -/
  | start : AllocStage s0 m want s0
  /-- the cursor CAS succeeded: `[s0.allocated, want)` is reserved; bytes changed (the zero-fill of the accessible
      range, which the machine performs together with the CAS — here: ANY bytes) only inside the accessible range of
      the new handle. The handle has not been returned to the caller yet (LEAK point). -/
  | reserved (mem' : Mem) : mem'.size = s0.mem.size →
      (∀ i, i < m.ptrOff ∨ m.ptrOff + m.ptrSize ≤ i → mem'.rd i = s0.mem.rd i) →
      AllocStage s0 m want { s0 with allocated := want, mem := mem' }

/-- what holds of the allocator state `s` at ANY point of an allocation from fresh space that started in `s0` (free
    list `free`, live extents `lives`) and is going to return the handle `m`, moving the cursor to `want` -/
structure MidAlloc (c : Cfg) (s0 : St) (free : List Seg) (lives : List Ext) (m : Meta) (want : Nat) (s : St) :
    Prop where
  /-- the concrete invariant for the SAME free list and the OLD live extents: if the new block has been reserved
      it is merely leaked (below the cursor, on no list, owned by nobody) -/
  inv : CInv c s free lives
  /-- nothing has happened yet, or the cursor is at `want` and the invariant also holds with the new extent counted
      as live: it is disjoint from every free segment and every live extent and will never be handed out again -/
  stage : s = s0 ∨ (s.allocated = want ∧ CInv c s free (m.owned :: lives))
  /-- the new extent is exactly the (non-empty) fresh range between the old and the new cursor -/
  ext : m.owned = (s0.allocated, want)
  fresh : s0.allocated < want
  /-- the cursor is the old one or `want`, and in range -/
  cursor : s.allocated = s0.allocated ∨ s.allocated = want
  cursor_lo : s0.allocated ≤ s.allocated
  cursor_hi : s.allocated ≤ s0.cap
  /-- capacity, free-list head, `min_segment_size` and the `discarded` counter are unchanged -/
  size : s.mem.size = s0.mem.size
  sent : s.sentinel = s0.sentinel
  minSeg : s.minSeg = s0.minSeg
  disc : s.discarded = s0.discarded
  /-- bytes change only inside the new extent -/
  frame : ∀ i, i < s0.allocated ∨ want ≤ i → s.mem.rd i = s0.mem.rd i
  /-- every live extent keeps its bytes -/
  live : LiveIntact s0 s lives
  /-- the reserved prefix and the header area keep their bytes -/
  pre : PrefixIntact c s0 s

/-- the semantic half: each stage satisfies the mid-allocation invariant -/
theorem AllocStage.mid {c : Cfg} {s0 : St} {free : List Seg} {lives : List Ext} {m : Meta} {want : Nat} {s : St}
    (h : CInv c s0 free lives) (hb : BumpReq s0 m want) (hs : AllocStage s0 m want s) :
    MidAlloc c s0 free lives m want s := by
  have hle : s0.allocated ≤ s0.cap := h.wf.hi
  have hgt := hb.gt
  have hcap := hb.cap
  cases hs with
  | start =>
    exact ⟨h, Or.inl rfl, hb.owned, hgt, Or.inl rfl, Nat.le_refl _, hle, rfl, rfl, rfl, rfl, fun _ _ => rfl,
      fun _ _ _ _ _ => rfl, fun _ _ => rfl⟩
  | reserved mem' hsz hfr =>
    have hlo := hb.ptrLo
    have hhi := hb.ptrHi
    have hrd : ∀ i, i < s0.allocated ∨ want ≤ i → mem'.rd i = s0.mem.rd i := fun i hi => hfr i (by omega)
    have hwf : WF c { s0.abs free with allocated := want } (m.owned :: lives) :=
      (AllocPost.of_bump h.wf m want hb.off hb.size hb.gt hb.cap hb.ptrLo hb.ptrHi).wf
    obtain ⟨b1, b2⟩ := bump_refines h m want mem' hwf hsz (fun i hi => hrd i (Or.inl hi))
    refine ⟨b2.relive b2.wf.drop, Or.inr ⟨rfl, b2⟩, hb.owned, hgt, Or.inr rfl,
      Nat.le_of_lt hgt, hcap, hsz, rfl, rfl, rfl, hrd, b1.live, b1.pre⟩

/-! ### the three entry points -/

/-- a request to one of the three allocation entry points -/
inductive AllocReq where
  /-- `alloc_bytes(n)` -/
  | bytes (n : Nat)
  /-- `alloc::<T>()` -/
  | typed (tsize talign : Nat)
  /-- `alloc_aligned_bytes::<T>(extra)` -/
  | aligned (tsize talign extra : Nat)

/-- the program of `Model/Conc.lean` -/
def AllocReq.prog (c : Cfg) (cap fuel : Nat) : AllocReq → Prog (Except Err (Option Meta))
  | .bytes n => allocBytesC c cap n fuel
  | .typed ts ta => allocTC c cap ts ta fuel
  | .aligned ts ta ex => allocAlignedC c cap ts ta ex fuel

/-- the sequential function of `Model/Core.lean` -/
def AllocReq.seq (c : Cfg) (s : St) (fuel : Nat) : AllocReq → M (AllocOut × St)
  | .bytes n => allocBytes c s n fuel
  | .typed ts ta => allocT c s ts ta fuel
  | .aligned ts ta ex => allocAligned c s ts ta ex fuel

/-- the cursor the bump path asks for when the cursor is at `a` -/
def AllocReq.want (a : Nat) : AllocReq → Nat
  | .bytes n => a + n
  | .typed ts ta => alignUp ta a + ts
  | .aligned ts ta ex => alignUp ta a + ts + ex

/-- the handle the bump path returns when the cursor is at `a` -/
def AllocReq.handle (a : Nat) : AllocReq → Meta
  | .bytes n => Meta.new a n
  | .typed ts ta => (Meta.new a (alignUp ta a + ts - a)).alignToS ta ts
  | .aligned ts ta ex => (Meta.new a (alignUp ta a + ts + ex - a)).alignBytesToS ta

/-- the request is well formed (alignment 1..64, size a multiple of it and at most a page — the API's typed
    requests) and is not one of those answered without touching the cursor (`alloc_bytes(0)`, a zero-sized type;
    `alloc_aligned_bytes` of a zero-sized type with `extra = 0` or alignment 1 IS `alloc_bytes(extra)`) -/
def AllocReq.OK : AllocReq → Prop
  | .bytes n => n ≠ 0
  | .typed ts ta => TyOK ts ta ∧ ts ≠ 0
  | .aligned ts ta ex => TyOK ts ta ∧ ¬ (ts = 0 ∧ (ex = 0 ∨ ta = 1))

/-- the request fits the fresh space: the checked computation of the new cursor yields a value `≤ cap` -/
def AllocReq.Fits (s : St) (r : AllocReq) : Prop := r.want s.allocated ≤ s.cap

/-- memory after the allocation: `alloc_bytes` and `alloc` zero the accessible range, `alloc_aligned_bytes` does not -/
def AllocReq.finalMem (s : St) : AllocReq → Mem
  | .bytes n => s.mem.zero s.allocated n
  | .typed ts ta => s.mem.zero (alignUp ta s.allocated) ts
  | .aligned _ _ _ => s.mem

/-- the state after the allocation -/
def AllocReq.final (s : St) (r : AllocReq) : St :=
  { s with allocated := r.want s.allocated, mem := r.finalMem s }

/-- geometry of the three requests -/
theorem AllocReq.bumpReq {s : St} (r : AllocReq) (hok : r.OK) (hfit : r.Fits s) :
    BumpReq s (r.handle s.allocated) (r.want s.allocated) := by
  cases r with
  | bytes n =>
    simp only [AllocReq.OK] at hok
    simp only [AllocReq.Fits, AllocReq.want] at hfit
    refine ⟨rfl, ?_, ?_, hfit, ?_, ?_⟩ <;> simp only [AllocReq.handle, AllocReq.want, Meta.new] <;> omega
  | typed ts ta =>
    obtain ⟨⟨hta, _, _⟩, h0⟩ := hok
    simp only [AllocReq.Fits, AllocReq.want] at hfit
    have h1 := alignUp_ge ta s.allocated hta
    refine ⟨rfl, rfl, ?_, hfit, ?_, ?_⟩ <;>
      simp only [AllocReq.handle, AllocReq.want, Meta.new, Meta.alignToS] <;> omega
  | aligned ts ta ex =>
    obtain ⟨⟨hta, _, _⟩, hz⟩ := hok
    simp only [AllocReq.Fits, AllocReq.want] at hfit
    have h1 := alignUp_ge ta s.allocated hta
    have h2 := alignUp_lt ta s.allocated hta
    refine ⟨rfl, rfl, ?_, hfit, ?_, ?_⟩ <;>
      simp only [AllocReq.handle, AllocReq.want, Meta.new, Meta.alignBytesToS] <;> omega

/-- the memory of the final state differs from the old one only inside the accessible range of the new handle -/
theorem AllocReq.finalMem_frame (s : St) (r : AllocReq) :
    (r.finalMem s).size = s.mem.size ∧
    ∀ i, i < (r.handle s.allocated).ptrOff ∨ (r.handle s.allocated).ptrOff + (r.handle s.allocated).ptrSize ≤ i →
      (r.finalMem s).rd i = s.mem.rd i := by
  cases r with
  | bytes n => exact ⟨Mem.size_zero _ _ _, fun i hi => Mem.rd_zero_out _ _ _ _ hi⟩
  | typed ts ta => exact ⟨Mem.size_zero _ _ _, fun i hi => Mem.rd_zero_out _ _ _ _ hi⟩
  | aligned ts ta ex => exact ⟨rfl, fun _ _ => rfl⟩

/-- the run of a request that fits the fresh space, grant by grant: the load of the cursor, then the cursor CAS
    together with the handle computation and the zero-fill; after that the thread has its answer -/
theorem AllocReq.grants (c : Cfg) (sh : Shared) (free : List Seg) (lives : List Ext) (r : AllocReq) (fuel : Nat)
    (h : CInv c sh.st free lives) (hro : c.ro = false) (hok : r.OK) (hfit : r.Fits sh.st) (hfuel : 0 < fuel) :
    (soloSteps 0 sh (r.prog c sh.st.cap fuel)).1 = sh ∧ (soloSteps 1 sh (r.prog c sh.st.cap fuel)).1 = sh ∧
    ∀ k, soloSteps (k + 2) sh (r.prog c sh.st.cap fuel) =
      (withSt sh (r.final sh.st), .ret (.ok (some (r.handle sh.st.allocated)))) := by
  obtain ⟨f, rfl⟩ : ∃ f, fuel = f + 1 := ⟨fuel - 1, by omega⟩
  have hcap : sh.st.cap + 8192 ≤ TWO32 := h.capGuard
  have hbr := r.bumpReq hok hfit
  cases r with
  | bytes n =>
    simp only [AllocReq.OK] at hok
    simp only [AllocReq.Fits, AllocReq.want] at hfit
    simp only [AllocReq.prog, allocBytesC, hro, hok, Bool.false_eq_true, if_false]
    refine bump_grants sh _ _ _ f (sh.st.allocated + n) _ _ _ [.zero sh.st.allocated n] ?_ ?_
    · exact congrArg Except.ok (checkedAdd_filter_some _ _ _ hfit (by omega))
    · dsimp only
      exact settle_na_ret 99998 _ _ _ _ _ [] (applyNA_zero_ok sh _ _ _ hfit) rfl
  | typed ts ta =>
    obtain ⟨⟨hta, htm, hts⟩, h0⟩ := hok
    simp only [AllocReq.Fits, AllocReq.want] at hfit
    have h1 := alignUp_ge ta sh.st.allocated hta
    have h2 := alignUp_lt ta sh.st.allocated hta
    have hab := okAlignment_bounds hta
    have hal : sh.st.allocated ≤ sh.st.cap := h.wf.hi
    have hao : alignOffset ta sh.st.allocated = .ok (alignUp ta sh.st.allocated) :=
      alignOffset_ok _ _ (by unfold TWO32 at *; omega)
    have hadd : addU32 "aligned+size" (alignUp ta sh.st.allocated) ts = .ok (alignUp ta sh.st.allocated + ts) :=
      addU32_ok _ _ _ (by unfold TWO32 at *; omega)
    simp only [AllocReq.prog, allocTC, hro, h0, Bool.false_eq_true, if_false]
    refine bump_grants sh _ _ _ f (alignUp ta sh.st.allocated + ts) _ _ _ [.zero (alignUp ta sh.st.allocated) ts] ?_ ?_
    · simp only [hao, hadd, ok_bind, if_pos hfit]; rfl
    · dsimp only
      rw [alignTo_ok _ _ _ (by simp only [Meta.new]; unfold TWO32 at *; omega)]
      exact settle_na_ret 99998 _ _ _ _ _ [] (applyNA_zero_ok sh _ _ _ hfit) rfl
  | aligned ts ta ex =>
    obtain ⟨⟨hta, htm, hts⟩, hz⟩ := hok
    simp only [AllocReq.Fits, AllocReq.want] at hfit
    have h1 := alignUp_ge ta sh.st.allocated hta
    have h2 := alignUp_lt ta sh.st.allocated hta
    have hab := okAlignment_bounds hta
    have hal : sh.st.allocated ≤ sh.st.cap := h.wf.hi
    have hao : alignOffset ta sh.st.allocated = .ok (alignUp ta sh.st.allocated) :=
      alignOffset_ok _ _ (by unfold TWO32 at *; omega)
    have hadd : addU32 "aligned+size" (alignUp ta sh.st.allocated) ts = .ok (alignUp ta sh.st.allocated + ts) :=
      addU32_ok _ _ _ (by unfold TWO32 at *; omega)
    simp only [AllocReq.prog, allocAlignedC, hro, hz, Bool.false_eq_true, if_false]
    refine bump_grants sh _ _ _ f (alignUp ta sh.st.allocated + ts + ex) _ _ _ [] ?_ ?_
    · simp only [hao, hadd, ok_bind]
      exact congrArg Except.ok (checkedAdd_filter_some _ _ _ hfit (by omega))
    · dsimp only
      rw [alignBytesTo_ok _ _ (by simp only [Meta.new]; unfold TWO32 at *; omega)
        (by simp only [Meta.new]; unfold TWO32 at *; omega) (by simp only [Meta.new]; omega)]
      exact settle_ret 99999 _ _ _

/-- the sequential model computes the same answer and the same final state -/
theorem AllocReq.seq_eq (c : Cfg) (s : St) (free : List Seg) (lives : List Ext) (r : AllocReq) (fuel : Nat)
    (h : CInv c s free lives) (hro : c.ro = false) (hok : r.OK) (hfit : r.Fits s) :
    r.seq c s fuel = .ok (.ok (some (r.handle s.allocated)), r.final s) := by
  have hcap : s.cap + 8192 ≤ TWO32 := h.capGuard
  have hal : s.allocated ≤ s.cap := h.wf.hi
  have hro' : ¬ c.ro = true := by rw [hro]; simp
  cases r with
  | bytes n =>
    simp only [AllocReq.OK] at hok
    simp only [AllocReq.Fits, AllocReq.want] at hfit
    simp only [AllocReq.seq]
    unfold allocBytes
    rw [if_neg hro', if_neg hok, checkedAdd_filter_some _ _ _ hfit (by omega)]
    simp only []
    rw [clearMeta_ok _ _ (by simp only [Meta.new]; exact hfit)]
    rfl
  | typed ts ta =>
    obtain ⟨⟨hta, htm, hts⟩, h0⟩ := hok
    simp only [AllocReq.Fits, AllocReq.want] at hfit
    have h1 := alignUp_ge ta s.allocated hta
    have h2 := alignUp_lt ta s.allocated hta
    have hab := okAlignment_bounds hta
    have hao : alignOffset ta s.allocated = .ok (alignUp ta s.allocated) :=
      alignOffset_ok _ _ (by unfold TWO32 at *; omega)
    have hadd : addU32 "aligned+size" (alignUp ta s.allocated) ts = .ok (alignUp ta s.allocated + ts) :=
      addU32_ok _ _ _ (by unfold TWO32 at *; omega)
    simp only [AllocReq.seq]
    unfold allocT
    rw [if_neg hro', if_neg h0, hao]
    simp only [bind, Except.bind, hadd]
    rw [if_pos hfit, alignTo_ok _ _ _ (by simp only [Meta.new]; unfold TWO32 at *; omega)]
    simp only []
    rw [clearMeta_ok _ _ (by simp only [Meta.new, Meta.alignToS]; exact hfit)]
    rfl
  | aligned ts ta ex =>
    obtain ⟨⟨hta, htm, hts⟩, hz⟩ := hok
    simp only [AllocReq.Fits, AllocReq.want] at hfit
    have h1 := alignUp_ge ta s.allocated hta
    have h2 := alignUp_lt ta s.allocated hta
    have hab := okAlignment_bounds hta
    have hao : alignOffset ta s.allocated = .ok (alignUp ta s.allocated) :=
      alignOffset_ok _ _ (by unfold TWO32 at *; omega)
    have hadd : addU32 "aligned+size" (alignUp ta s.allocated) ts = .ok (alignUp ta s.allocated + ts) :=
      addU32_ok _ _ _ (by unfold TWO32 at *; omega)
    simp only [AllocReq.seq]
    unfold allocAligned
    rw [if_neg hro', if_neg hz, hao]
    simp only [bind, Except.bind, hadd]
    rw [checkedAdd_filter_some _ _ _ hfit (by omega)]
    simp only []
    rw [alignBytesTo_ok _ _ (by simp only [Meta.new]; unfold TWO32 at *; omega)
      (by simp only [Meta.new]; unfold TWO32 at *; omega) (by simp only [Meta.new]; omega)]
    rfl

/-! ### the crash theorems -/

/-- MID-OPERATION CRASH THEOREM FOR ALLOCATIONS FROM FRESH SPACE, precise form: after ANY number `k` of scheduling
    grants of a thread that runs one of the three allocation entry points alone, with a request that fits the fresh
    space, the allocator state is the initial one or the one with the block reserved -/
theorem crash_alloc_stage (c : Cfg) (sh : Shared) (free : List Seg) (lives : List Ext) (r : AllocReq) (fuel : Nat)
    (h : CInv c sh.st free lives) (hro : c.ro = false) (hok : r.OK) (hfit : r.Fits sh.st) (hfuel : 0 < fuel)
    (k : Nat) :
    AllocStage sh.st (r.handle sh.st.allocated) (r.want sh.st.allocated)
      (soloSteps k sh (r.prog c sh.st.cap fuel)).1.st := by
  obtain ⟨e0, e1, e2⟩ := r.grants c sh free lives fuel h hro hok hfit hfuel
  rcases k with _ | _ | k
  · rw [e0]; exact .start
  · rw [e1]; exact .start
  · rw [e2 k]
    exact .reserved (r.finalMem sh.st) (r.finalMem_frame sh.st).1 (r.finalMem_frame sh.st).2

/-- MID-OPERATION CRASH THEOREM FOR ALLOCATIONS FROM FRESH SPACE (all three entry points, every free-list kind): at
    every intermediate point the state satisfies `MidAlloc`. A crash in the middle of such an allocation can only
    leak the new block. -/
theorem crash_alloc (c : Cfg) (sh : Shared) (free : List Seg) (lives : List Ext) (r : AllocReq) (fuel : Nat)
    (h : CInv c sh.st free lives) (hro : c.ro = false) (hok : r.OK) (hfit : r.Fits sh.st) (hfuel : 0 < fuel)
    (k : Nat) :
    MidAlloc c sh.st free lives (r.handle sh.st.allocated) (r.want sh.st.allocated)
      (soloSteps k sh (r.prog c sh.st.cap fuel)).1.st :=
  (crash_alloc_stage c sh free lives r fuel h hro hok hfit hfuel k).mid h (r.bumpReq hok hfit)

/-- the same statement about the machine's own run: the schedule that grants `k` steps to the only thread -/
theorem crash_alloc_global (c : Cfg) (sh : Shared) (free : List Seg) (lives : List Ext) (r : AllocReq) (fuel : Nat)
    (h : CInv c sh.st free lives) (hro : c.ro = false) (hok : r.OK) (hfit : r.Fits sh.st) (hfuel : 0 < fuel)
    (k : Nat) :
    MidAlloc c sh.st free lives (r.handle sh.st.allocated) (r.want sh.st.allocated)
      (Global.run ⟨sh, [r.prog c sh.st.cap fuel]⟩ (List.replicate k (0, false))).1.sh.st := by
  rw [soloSteps_global]
  exact crash_alloc c sh free lives r fuel h hro hok hfit hfuel k

/-- `alloc_bytes(n)`, `n ≠ 0`, `allocated + n ≤ cap` -/
theorem crash_alloc_bytes (c : Cfg) (sh : Shared) (free : List Seg) (lives : List Ext) (n fuel : Nat)
    (h : CInv c sh.st free lives) (hro : c.ro = false) (hn : n ≠ 0) (hfit : sh.st.allocated + n ≤ sh.st.cap)
    (hfuel : 0 < fuel) (k : Nat) :
    MidAlloc c sh.st free lives (Meta.new sh.st.allocated n) (sh.st.allocated + n)
      (soloSteps k sh (allocBytesC c sh.st.cap n fuel)).1.st :=
  crash_alloc c sh free lives (.bytes n) fuel h hro hn hfit hfuel k

theorem crash_alloc_bytes_global (c : Cfg) (sh : Shared) (free : List Seg) (lives : List Ext) (n fuel : Nat)
    (h : CInv c sh.st free lives) (hro : c.ro = false) (hn : n ≠ 0) (hfit : sh.st.allocated + n ≤ sh.st.cap)
    (hfuel : 0 < fuel) (k : Nat) :
    MidAlloc c sh.st free lives (Meta.new sh.st.allocated n) (sh.st.allocated + n)
      (Global.run ⟨sh, [allocBytesC c sh.st.cap n fuel]⟩ (List.replicate k (0, false))).1.sh.st :=
  crash_alloc_global c sh free lives (.bytes n) fuel h hro hn hfit hfuel k

/-- `alloc::<T>()`, `size_of::<T>() = tsize ≠ 0`, `align_of::<T>() = talign`,
    `align_up(allocated) + tsize ≤ cap` -/
theorem crash_alloc_t (c : Cfg) (sh : Shared) (free : List Seg) (lives : List Ext) (tsize talign fuel : Nat)
    (h : CInv c sh.st free lives) (hro : c.ro = false) (ht : TyOK tsize talign) (h0 : tsize ≠ 0)
    (hfit : alignUp talign sh.st.allocated + tsize ≤ sh.st.cap) (hfuel : 0 < fuel) (k : Nat) :
    MidAlloc c sh.st free lives
      ((Meta.new sh.st.allocated (alignUp talign sh.st.allocated + tsize - sh.st.allocated)).alignToS talign tsize)
      (alignUp talign sh.st.allocated + tsize)
      (soloSteps k sh (allocTC c sh.st.cap tsize talign fuel)).1.st :=
  crash_alloc c sh free lives (.typed tsize talign) fuel h hro ⟨ht, h0⟩ hfit hfuel k

theorem crash_alloc_t_global (c : Cfg) (sh : Shared) (free : List Seg) (lives : List Ext) (tsize talign fuel : Nat)
    (h : CInv c sh.st free lives) (hro : c.ro = false) (ht : TyOK tsize talign) (h0 : tsize ≠ 0)
    (hfit : alignUp talign sh.st.allocated + tsize ≤ sh.st.cap) (hfuel : 0 < fuel) (k : Nat) :
    MidAlloc c sh.st free lives
      ((Meta.new sh.st.allocated (alignUp talign sh.st.allocated + tsize - sh.st.allocated)).alignToS talign tsize)
      (alignUp talign sh.st.allocated + tsize)
      (Global.run ⟨sh, [allocTC c sh.st.cap tsize talign fuel]⟩ (List.replicate k (0, false))).1.sh.st :=
  crash_alloc_global c sh free lives (.typed tsize talign) fuel h hro ⟨ht, h0⟩ hfit hfuel k

/-- `alloc_aligned_bytes::<T>(extra)` (when `tsize = 0 ∧ (extra = 0 ∨ talign = 1)` the function IS
    `alloc_bytes(extra)`: `crash_alloc_bytes`), `align_up(allocated) + tsize + extra ≤ cap` -/
theorem crash_alloc_aligned (c : Cfg) (sh : Shared) (free : List Seg) (lives : List Ext)
    (tsize talign extra fuel : Nat)
    (h : CInv c sh.st free lives) (hro : c.ro = false) (ht : TyOK tsize talign)
    (hz : ¬ (tsize = 0 ∧ (extra = 0 ∨ talign = 1)))
    (hfit : alignUp talign sh.st.allocated + tsize + extra ≤ sh.st.cap) (hfuel : 0 < fuel) (k : Nat) :
    MidAlloc c sh.st free lives
      ((Meta.new sh.st.allocated
        (alignUp talign sh.st.allocated + tsize + extra - sh.st.allocated)).alignBytesToS talign)
      (alignUp talign sh.st.allocated + tsize + extra)
      (soloSteps k sh (allocAlignedC c sh.st.cap tsize talign extra fuel)).1.st :=
  crash_alloc c sh free lives (.aligned tsize talign extra) fuel h hro ⟨ht, hz⟩ hfit hfuel k

theorem crash_alloc_aligned_global (c : Cfg) (sh : Shared) (free : List Seg) (lives : List Ext)
    (tsize talign extra fuel : Nat)
    (h : CInv c sh.st free lives) (hro : c.ro = false) (ht : TyOK tsize talign)
    (hz : ¬ (tsize = 0 ∧ (extra = 0 ∨ talign = 1)))
    (hfit : alignUp talign sh.st.allocated + tsize + extra ≤ sh.st.cap) (hfuel : 0 < fuel) (k : Nat) :
    MidAlloc c sh.st free lives
      ((Meta.new sh.st.allocated
        (alignUp talign sh.st.allocated + tsize + extra - sh.st.allocated)).alignBytesToS talign)
      (alignUp talign sh.st.allocated + tsize + extra)
      (Global.run ⟨sh, [allocAlignedC c sh.st.cap tsize talign extra fuel]⟩
        (List.replicate k (0, false))).1.sh.st :=
  crash_alloc_global c sh free lives (.aligned tsize talign extra) fuel h hro ⟨ht, hz⟩ hfit hfuel k

/-- TORN ZERO-FILL. The machine performs the zero-fill of the new handle together with the cursor CAS. An image
    taken in the middle of that zero-fill has the cursor at `want` and ANY bytes inside the accessible range of the
    new handle: it satisfies `MidAlloc` too. -/
theorem crash_alloc_torn (c : Cfg) (s0 : St) (free : List Seg) (lives : List Ext) (r : AllocReq)
    (h : CInv c s0 free lives) (hok : r.OK) (hfit : r.Fits s0) (mem' : Mem) (hsz : mem'.size = s0.mem.size)
    (hfr : ∀ i, i < (r.handle s0.allocated).ptrOff ∨
        (r.handle s0.allocated).ptrOff + (r.handle s0.allocated).ptrSize ≤ i → mem'.rd i = s0.mem.rd i) :
    MidAlloc c s0 free lives (r.handle s0.allocated) (r.want s0.allocated)
      { s0 with allocated := r.want s0.allocated, mem := mem' } :=
  (AllocStage.reserved mem' hsz hfr).mid h (r.bumpReq hok hfit)

/-- if nothing stops the thread it reaches, after two grants, exactly the answer and the final state of the
    sequential `alloc_bytes` / `alloc` / `alloc_aligned_bytes` of `Model/Core.lean`, and stays there; that state
    satisfies the concrete invariant with the new handle's extent live -/
theorem crash_alloc_completes (c : Cfg) (sh : Shared) (free : List Seg) (lives : List Ext) (r : AllocReq)
    (fuel : Nat)
    (h : CInv c sh.st free lives) (hro : c.ro = false) (hok : r.OK) (hfit : r.Fits sh.st) (hfuel : 0 < fuel) :
    ∃ s' m, r.seq c sh.st fuel = .ok (.ok (some m), s') ∧ m = r.handle sh.st.allocated ∧
      s'.allocated = r.want sh.st.allocated ∧
      CInv c s' free (m.owned :: lives) ∧
      ∀ k, 2 ≤ k → soloSteps k sh (r.prog c sh.st.cap fuel) = (withSt sh s', .ret (.ok (some m))) := by
  obtain ⟨_, _, e2⟩ := r.grants c sh free lives fuel h hro hok hfit hfuel
  have hmid := (AllocStage.reserved (s0 := sh.st) (m := r.handle sh.st.allocated) (want := r.want sh.st.allocated)
    (r.finalMem sh.st) (r.finalMem_frame sh.st).1 (r.finalMem_frame sh.st).2).mid h (r.bumpReq hok hfit)
  refine ⟨r.final sh.st, _, r.seq_eq c sh.st free lives fuel h hro hok hfit, rfl, rfl, ?_, fun k hk => ?_⟩
  · rcases hmid.stage with hs | ⟨_, hs⟩
    · have h1 : (r.final sh.st).allocated = sh.st.allocated := by
        show (r.final sh.st).allocated = sh.st.allocated
        exact congrArg St.allocated hs
      have := (r.bumpReq hok hfit).gt
      exact absurd h1 (by show r.want sh.st.allocated ≠ sh.st.allocated; omega)
    · exact hs
  · obtain ⟨k', rfl⟩ : ∃ k', k = k' + 2 := ⟨k - 2, by omega⟩
    exact e2 k'

/-! ### consequences: the image taken mid-allocation reopens, later operations terminate -/

/-- the live set of an intermediate state: the old live extents, and from the cursor CAS on also the new block
    (reserved, not yet returned to the caller) -/
theorem MidAlloc.liveSet {c : Cfg} {s0 s : St} {free : List Seg} {lives : List Ext} {m : Meta} {want : Nat}
    (hmid : MidAlloc c s0 free lives m want s) :
    ∃ lives', ((lives' = lives ∧ s = s0) ∨ (lives' = m.owned :: lives ∧ s.allocated = want)) ∧
      CInv c s free lives' := by
  rcases hmid.stage with hs | ⟨hw, hinv⟩
  · exact ⟨lives, Or.inl ⟨rfl, hs⟩, hmid.inv⟩
  · exact ⟨_, Or.inr ⟨rfl, hw⟩, hinv⟩

/-- the sanity bytes of the file lie in the untouched prefix: the intermediate state still is a well-formed file -/
theorem MidAlloc.wellFormedFile {c : Cfg} {s0 s : St} {free : List Seg} {lives : List Ext} {m : Meta} {want : Nat}
    (hmid : MidAlloc c s0 free lives m want s) (magic : Nat) (hwf : C05.WellFormedFile c s0 magic) :
    C05.WellFormedFile c s magic := by
  refine ⟨hwf.1, hwf.2.1, ?_⟩
  rw [← hwf.2.2]
  apply C05.sanityCheck_congr
  intro i h1 h2
  apply hmid.pre i
  rw [hwf.2.1]
  unfold dataOffsetUnify headerOffset HEADER_SIZE
  omega

/-- RECOVERY, on the level of `MidAlloc`: the page-cache image of a state satisfying `MidAlloc` reopens (`map_mut`,
    same options; an explicit capacity must be at least `want`) to an arena with the same cursor, the cursor in
    range, the concrete invariant for the same free list and the live set `lives'` (the old live extents, plus the
    new block if it had been reserved), and every old live extent below the cursor and holding the bytes it held
    before the allocation started -/
theorem MidAlloc.reopens {c : Cfg} {s0 s : St} {free : List Seg} {lives : List Ext} {m : Meta} {want : Nat}
    (hmid : MidAlloc c s0 free lives m want s) (magic : Nat) (o : OpenOpts) (tail : Mem)
    (hwf : C05.WellFormedFile c s0 magic) (ho : C05.Matches o c magic)
    (hcap : match o.cap with
      | some n => want ≤ n ∧ n + 8192 ≤ TWO32
      | none => (s0.cap + tail.size) + 8192 ≤ TWO32)
    (hr : o.sync = true → o.retries ≤ 255) :
    ∃ lives' r fs',
      ((lives' = lives ∧ s = s0) ∨ (lives' = m.owned :: lives ∧ s.allocated = want)) ∧
      openWritable o false (some (C06.crashImage c s tail)) = (.ok r, fs') ∧
      r.st.allocated = s.allocated ∧ (r.st.allocated = s0.allocated ∨ r.st.allocated = want) ∧
      r.cfg.dataOffset ≤ r.st.allocated ∧ r.st.allocated ≤ r.st.cap ∧
      CInv r.cfg r.st free lives' ∧ CInv r.cfg r.st free lives ∧
      (∀ e ∈ lives, e.2 ≤ r.st.allocated ∧ ∀ i, e.1 ≤ i → i < e.2 → r.st.mem.rd i = s0.mem.rd i) := by
  obtain ⟨lives', hl, hinv⟩ := hmid.liveSet
  have hwfk := hmid.wellFormedFile magic hwf
  have hle : s.allocated ≤ want := by
    have := hmid.fresh
    rcases hmid.cursor with hc | hc <;> omega
  have hcapk : (match o.cap with
      | some n => s.allocated ≤ n ∧ n + 8192 ≤ TWO32
      | none => (s.cap + tail.size) + 8192 ≤ TWO32) := by
    have hsz : s.cap = s0.cap := hmid.size
    cases hoc : o.cap with
    | none => rw [hoc] at hcap; simp only at hcap ⊢; omega
    | some n => rw [hoc] at hcap; simp only at hcap ⊢; omega
  obtain ⟨r, fs', h1, h2, h3, h4, h5, h6⟩ := C06.boundary c s free lives' magic o tail hinv hwfk ho hcapk hr
  have h6' : CInv r.cfg r.st free lives := by
    rcases hl with ⟨rfl, _⟩ | ⟨rfl, _⟩
    · exact h6
    · exact h6.relive h6.wf.drop
  refine ⟨lives', r, fs', hl, h1, h2, ?_, h3, h4, h6, h6', fun e he => ?_⟩
  · rw [h2]; exact hmid.cursor
  · have hin : c.dataOffset ≤ e.1 ∧ e.1 < e.2 ∧ e.2 ≤ s.allocated := hmid.inv.wf.lives_in e he
    refine ⟨by rw [h2]; exact hin.2.2, fun i hi1 hi2 => ?_⟩
    rw [h5 i (by omega), C05.image_rd_out c s i (Or.inr ?_)]
    · exact hmid.live e he i hi1 hi2
    · have := hwf.2.1
      unfold dataOffsetUnify at this
      omega

/-- (a) RECOVERY: the page-cache image of the state at ANY point of an allocation from fresh space reopens
    (`map_mut`, same options) to an arena satisfying the concrete invariant — with the cursor where it was or at
    `want`, in range; the live extents of before the allocation are live, below the cursor, and hold the bytes they
    held before the allocation started; if the block had been reserved it is live too (leaked: nobody holds it, it
    is never handed out again). This is `C06.boundary` applied to a mid-operation image. -/
theorem crash_alloc_reopens (c : Cfg) (sh : Shared) (free : List Seg) (lives : List Ext) (r : AllocReq) (fuel : Nat)
    (h : CInv c sh.st free lives) (hro : c.ro = false) (hok : r.OK) (hfit : r.Fits sh.st) (hfuel : 0 < fuel)
    (k : Nat) (magic : Nat) (o : OpenOpts) (tail : Mem)
    (hwf : C05.WellFormedFile c sh.st magic) (ho : C05.Matches o c magic)
    (hcap : match o.cap with
      | some n => r.want sh.st.allocated ≤ n ∧ n + 8192 ≤ TWO32
      | none => (sh.st.cap + tail.size) + 8192 ≤ TWO32)
    (hr : o.sync = true → o.retries ≤ 255) :
    ∃ lives' ro fs',
      (lives' = lives ∨ lives' = (r.handle sh.st.allocated).owned :: lives) ∧
      openWritable o false
        (some (C06.crashImage c (soloSteps k sh (r.prog c sh.st.cap fuel)).1.st tail)) = (.ok ro, fs') ∧
      (ro.st.allocated = sh.st.allocated ∨ ro.st.allocated = r.want sh.st.allocated) ∧
      ro.cfg.dataOffset ≤ ro.st.allocated ∧ ro.st.allocated ≤ ro.st.cap ∧
      CInv ro.cfg ro.st free lives' ∧ CInv ro.cfg ro.st free lives ∧
      (∀ e ∈ lives, e.2 ≤ ro.st.allocated ∧ ∀ i, e.1 ≤ i → i < e.2 → ro.st.mem.rd i = sh.st.mem.rd i) := by
  obtain ⟨lives', ro, fs', hl, h1, _, h3, h4, h5, h6, h7, h8⟩ :=
    (crash_alloc c sh free lives r fuel h hro hok hfit hfuel k).reopens magic o tail hwf ho hcap hr
  refine ⟨lives', ro, fs', ?_, h1, h3, h4, h5, h6, h7, h8⟩
  rcases hl with ⟨hl, _⟩ | ⟨hl, _⟩
  · exact Or.inl hl
  · exact Or.inr hl

/-- `crash_alloc_reopens` for `alloc_bytes`, spelled out -/
theorem crash_alloc_bytes_reopens (c : Cfg) (sh : Shared) (free : List Seg) (lives : List Ext) (n fuel : Nat)
    (h : CInv c sh.st free lives) (hro : c.ro = false) (hn : n ≠ 0) (hfit : sh.st.allocated + n ≤ sh.st.cap)
    (hfuel : 0 < fuel) (k : Nat) (magic : Nat) (o : OpenOpts) (tail : Mem)
    (hwf : C05.WellFormedFile c sh.st magic) (ho : C05.Matches o c magic)
    (hcap : match o.cap with
      | some n' => sh.st.allocated + n ≤ n' ∧ n' + 8192 ≤ TWO32
      | none => (sh.st.cap + tail.size) + 8192 ≤ TWO32)
    (hr : o.sync = true → o.retries ≤ 255) :
    ∃ lives' ro fs',
      (lives' = lives ∨ lives' = (sh.st.allocated, sh.st.allocated + n) :: lives) ∧
      openWritable o false
        (some (C06.crashImage c (soloSteps k sh (allocBytesC c sh.st.cap n fuel)).1.st tail)) = (.ok ro, fs') ∧
      (ro.st.allocated = sh.st.allocated ∨ ro.st.allocated = sh.st.allocated + n) ∧
      ro.cfg.dataOffset ≤ ro.st.allocated ∧ ro.st.allocated ≤ ro.st.cap ∧
      CInv ro.cfg ro.st free lives' ∧ CInv ro.cfg ro.st free lives ∧
      (∀ e ∈ lives, e.2 ≤ ro.st.allocated ∧ ∀ i, e.1 ≤ i → i < e.2 → ro.st.mem.rd i = sh.st.mem.rd i) := by
  have hown : (Meta.new sh.st.allocated n).owned = (sh.st.allocated, sh.st.allocated + n) := by
    simp [Meta.owned, Meta.new]
  rw [← hown]
  exact crash_alloc_reopens c sh free lives (.bytes n) fuel h hro hn hfit hfuel k magic o tail hwf ho hcap hr

/-- (b) `C06.later_ops_terminate` applies to the intermediate state itself: on the arena as a crash (or a thread
    that never resumes) leaves it, an allocation terminates with an answer and never hands out a range that is
    live — nor the block the interrupted allocation had reserved -/
theorem crash_alloc_later_ops (c : Cfg) (sh : Shared) (free : List Seg) (lives : List Ext) (r : AllocReq) (fuel : Nat)
    (h : CInv c sh.st free lives) (hro : c.ro = false) (hok : r.OK) (hfit : r.Fits sh.st) (hfuel : 0 < fuel)
    (k : Nat) (n fuel' : Nat) (hn : n < TWO32) (hfuel' : free.length + 2 ≤ fuel') :
    ∃ lives' res s', (lives' = lives ∨ lives' = (r.handle sh.st.allocated).owned :: lives) ∧
      allocBytes c (soloSteps k sh (r.prog c sh.st.cap fuel)).1.st n fuel' = .ok (res, s') ∧
      match res with
      | .ok (some m') =>
        CInv c s' (((soloSteps k sh (r.prog c sh.st.cap fuel)).1.st.abs free).allocBytes c n).2.free
          (m'.owned :: lives')
      | _ => s' = (soloSteps k sh (r.prog c sh.st.cap fuel)).1.st := by
  obtain ⟨lives', hl, hinv⟩ := (crash_alloc c sh free lives r fuel h hro hok hfit hfuel k).liveSet
  obtain ⟨res, s', h1, h2⟩ := C06.later_ops_terminate c _ free lives' n fuel' hinv hn hfuel'
  refine ⟨lives', res, s', ?_, h1, h2⟩
  rcases hl with ⟨hl, _⟩ | ⟨hl, _⟩
  · exact Or.inl hl
  · exact Or.inr hl

/-- (a) + (b): on the arena REOPENED from the image taken at any point of an allocation from fresh space, an
    allocation terminates with an answer and never hands out a live range -/
theorem crash_alloc_reopened_later_ops (c : Cfg) (sh : Shared) (free : List Seg) (lives : List Ext) (r : AllocReq)
    (fuel : Nat)
    (h : CInv c sh.st free lives) (hro : c.ro = false) (hok : r.OK) (hfit : r.Fits sh.st) (hfuel : 0 < fuel)
    (k : Nat) (magic : Nat) (o : OpenOpts) (tail : Mem)
    (hwf : C05.WellFormedFile c sh.st magic) (ho : C05.Matches o c magic)
    (hcap : match o.cap with
      | some n => r.want sh.st.allocated ≤ n ∧ n + 8192 ≤ TWO32
      | none => (sh.st.cap + tail.size) + 8192 ≤ TWO32)
    (hr : o.sync = true → o.retries ≤ 255)
    (n fuel' : Nat) (hn : n < TWO32) (hfuel' : free.length + 2 ≤ fuel') :
    ∃ lives' ro fs' res s', (lives' = lives ∨ lives' = (r.handle sh.st.allocated).owned :: lives) ∧
      openWritable o false
        (some (C06.crashImage c (soloSteps k sh (r.prog c sh.st.cap fuel)).1.st tail)) = (.ok ro, fs') ∧
      CInv ro.cfg ro.st free lives' ∧
      allocBytes ro.cfg ro.st n fuel' = .ok (res, s') ∧
      match res with
      | .ok (some m') => CInv ro.cfg s' ((ro.st.abs free).allocBytes ro.cfg n).2.free (m'.owned :: lives')
      | _ => s' = ro.st := by
  obtain ⟨lives', ro, fs', hl, hopen, _, _, _, hinv, _, _⟩ :=
    crash_alloc_reopens c sh free lives r fuel h hro hok hfit hfuel k magic o tail hwf ho hcap hr
  obtain ⟨res, s', h1, h2⟩ := C06.later_ops_terminate ro.cfg ro.st free lives' n fuel' hinv hn hfuel'
  exact ⟨lives', ro, fs', res, s', hl, hopen, hinv, h1, h2⟩

/-! ### a request that does NOT fit the fresh space, `Freelist::None`: the slow path makes no write -/

theorem soloI_bump_none {I : St → Prop} (sh : Shared) (s : St) (fn : String) (want : Nat → M (Option Nat))
    (fuel : Nat) (h : want s.allocated = .ok none) (hi : I s) :
    SoloI I (withSt sh s) (bumpLoopC fn want (fuel + 1) s.allocated) none (withSt sh s) := by
  simp only [bumpLoopC]
  exact SoloI.bind' (soloI_liftM h hi) (SoloI.ret _ _ hi)

theorem soloI_remaining {I : St → Prop} (sh : Shared) (hi : I sh.st) : SoloI I sh remainingC () sh :=
  SoloI.bind' (soloI_load (l := .alloc) (v := sh.st.allocated) rfl hi) (SoloI.ret _ _ hi)

/-- `Freelist::None`: the slow path reads the cursor once more (`remaining()`, for the error value) and gives up -/
theorem soloI_retry_none {I : St → Prop} (sh : Shared) (c : Cfg) (size fuel : Nat) (post : Meta → M Meta) (n : Nat)
    (hk : c.kind = .none) (hi : I sh.st) :
    SoloI I sh (retryLoopC c size fuel post (n + 1) 0) (.error .insufficient) sh := by
  simp only [retryLoopC, slowPathC, hk]
  refine SoloI.bind' (SoloI.bind' (soloI_remaining sh hi) (SoloI.ret _ _ hi)) ?_
  exact SoloI.ret _ _ hi

/-- the run of a request that does not fit, `Freelist::None`: two loads of the cursor, no write -/
theorem AllocReq.nofit_soloI {I : St → Prop} (c : Cfg) (sh : Shared) (free : List Seg) (lives : List Ext)
    (r : AllocReq) (fuel : Nat)
    (h : CInv c sh.st free lives) (hro : c.ro = false) (hok : r.OK) (hnf : ¬ r.Fits sh.st) (hk : c.kind = .none)
    (hfuel : 0 < fuel) (hi : I sh.st) :
    SoloI I sh (r.prog c sh.st.cap fuel) (.error .insufficient) sh := by
  obtain ⟨f, rfl⟩ : ∃ f, fuel = f + 1 := ⟨fuel - 1, by omega⟩
  have hcap : sh.st.cap + 8192 ≤ TWO32 := h.capGuard
  have hal : sh.st.allocated ≤ sh.st.cap := h.wf.hi
  cases r with
  | bytes n =>
    simp only [AllocReq.OK] at hok
    simp only [AllocReq.Fits, AllocReq.want] at hnf
    simp only [AllocReq.prog, allocBytesC, hro, hok, Bool.false_eq_true, if_false]
    refine SoloI.bind' (soloI_load (l := .alloc) (v := sh.st.allocated) rfl hi) ?_
    refine SoloI.bind' (soloI_bump_none sh sh.st _ _ f (congrArg Except.ok (checkedAdd_filter_none _ _ _ hnf)) hi) ?_
    exact soloI_retry_none sh c _ _ _ 299 hk hi
  | typed ts ta =>
    obtain ⟨⟨hta, htm, hts⟩, h0⟩ := hok
    simp only [AllocReq.Fits, AllocReq.want] at hnf
    have h1 := alignUp_ge ta sh.st.allocated hta
    have h2 := alignUp_lt ta sh.st.allocated hta
    have hab := okAlignment_bounds hta
    have hao : alignOffset ta sh.st.allocated = .ok (alignUp ta sh.st.allocated) :=
      alignOffset_ok _ _ (by unfold TWO32 at *; omega)
    have hadd : addU32 "aligned+size" (alignUp ta sh.st.allocated) ts = .ok (alignUp ta sh.st.allocated + ts) :=
      addU32_ok _ _ _ (by unfold TWO32 at *; omega)
    simp only [AllocReq.prog, allocTC, hro, h0, Bool.false_eq_true, if_false]
    refine SoloI.bind' (soloI_load (l := .alloc) (v := sh.st.allocated) rfl hi) ?_
    refine SoloI.bind' (soloI_bump_none sh sh.st _ _ f ?_ hi) ?_
    · simp only [hao, hadd, ok_bind, if_neg hnf]; rfl
    exact soloI_retry_none sh c _ _ _ 299 hk hi
  | aligned ts ta ex =>
    obtain ⟨⟨hta, htm, hts⟩, hz⟩ := hok
    simp only [AllocReq.Fits, AllocReq.want] at hnf
    have h1 := alignUp_ge ta sh.st.allocated hta
    have h2 := alignUp_lt ta sh.st.allocated hta
    have hab := okAlignment_bounds hta
    have hao : alignOffset ta sh.st.allocated = .ok (alignUp ta sh.st.allocated) :=
      alignOffset_ok _ _ (by unfold TWO32 at *; omega)
    have hadd : addU32 "aligned+size" (alignUp ta sh.st.allocated) ts = .ok (alignUp ta sh.st.allocated + ts) :=
      addU32_ok _ _ _ (by unfold TWO32 at *; omega)
    simp only [AllocReq.prog, allocAlignedC, hro, hz, Bool.false_eq_true, if_false]
    refine SoloI.bind' (soloI_load (l := .alloc) (v := sh.st.allocated) rfl hi) ?_
    refine SoloI.bind' (soloI_bump_none sh sh.st _ _ f ?_ hi) ?_
    · simp only [hao, hadd, ok_bind]
      exact congrArg Except.ok (checkedAdd_filter_none _ _ _ hnf)
    dsimp only
    cases hp : checkedAddU32 (pad ts ta) ex with
    | none => exact SoloI.bind' (soloI_remaining sh hi) (SoloI.ret _ _ hi)
    | some padded => exact soloI_retry_none sh c _ _ _ 299 hk hi

/-- MID-OPERATION CRASH THEOREM, request that does not fit the fresh space, `Freelist::None`: the state never
    changes (the operation only loads the cursor), so the image at any crash point is the image of the initial
    state -/
theorem crash_alloc_nofit_none (c : Cfg) (sh : Shared) (free : List Seg) (lives : List Ext) (r : AllocReq)
    (fuel : Nat)
    (h : CInv c sh.st free lives) (hro : c.ro = false) (hok : r.OK) (hnf : ¬ r.Fits sh.st) (hk : c.kind = .none)
    (hfuel : 0 < fuel) (k : Nat) :
    (soloSteps k sh (r.prog c sh.st.cap fuel)).1.st = sh.st :=
  (r.nofit_soloI (I := fun s => s = sh.st) c sh free lives fuel h hro hok hnf hk hfuel rfl).steps k

theorem crash_alloc_nofit_none_global (c : Cfg) (sh : Shared) (free : List Seg) (lives : List Ext) (r : AllocReq)
    (fuel : Nat)
    (h : CInv c sh.st free lives) (hro : c.ro = false) (hok : r.OK) (hnf : ¬ r.Fits sh.st) (hk : c.kind = .none)
    (hfuel : 0 < fuel) (k : Nat) :
    (Global.run ⟨sh, [r.prog c sh.st.cap fuel]⟩ (List.replicate k (0, false))).1.sh.st = sh.st := by
  rw [soloSteps_global]
  exact crash_alloc_nofit_none c sh free lives r fuel h hro hok hnf hk hfuel k

/-- … and the thread ends with `InsufficientSpace`, the shared state being the initial one -/
theorem crash_alloc_nofit_none_completes (c : Cfg) (sh : Shared) (free : List Seg) (lives : List Ext) (r : AllocReq)
    (fuel : Nat)
    (h : CInv c sh.st free lives) (hro : c.ro = false) (hok : r.OK) (hnf : ¬ r.Fits sh.st) (hk : c.kind = .none)
    (hfuel : 0 < fuel) :
    ∃ K, ∀ k, K ≤ k → soloSteps k sh (r.prog c sh.st.cap fuel) = (sh, .ret (.error .insufficient)) :=
  (r.nofit_soloI (I := fun _ => True) c sh free lives fuel h hro hok hnf hk hfuel trivial).steps_final

/-! ### non-vacuity: a 96-byte file-backed arena (any free-list kind, list empty), one live allocation `[32,40)`
    holding the byte `0xAB`, cursor at 40 -/

namespace CrashAllocEx

def axC (kd : Kind) : Cfg :=
  { sync := true, kind := kd, ro := false, retries := 5, dataOffset := 32, reserved := 0, unify := true,
    fileBacked := true }
def axMem (kd : Kind) : Mem := (writeSanity (Array.replicate 96 0) 0 kd 7).fill 32 8 171
def axStOf (m : Mem) : St := { mem := m, sentinel := SENTINEL_WORD, allocated := 40, minSeg := 8, discarded := 0 }
def axSh (kd : Kind) : Shared := { st := axStOf (axMem kd), refs := 1 }
def axLives : List Ext := [(32, 40)]
def axOpen (kd : Kind) : OpenOpts :=
  { sync := true, kind := kd, reserved := 0, cap := none, minSeg := 8, retries := 5, magic := 7, create := false,
    createNew := false }

theorem axSize (kd : Kind) : (axMem kd).size = 96 := by simp [axMem, writeSanity]

theorem axSan (kd : Kind) : sanityCheck (axMem kd) 0 (some kd) 7 = .ok kd := by
  unfold axMem
  rw [C05.sanityCheck_congr _ (writeSanity (Array.replicate 96 0) 0 kd 7) 0 _ _
    (fun i h1 h2 => by rw [Mem.rd_fill, if_neg (by omega)])]
  exact C05.sanity_writeSanity _ 0 kd 7 (by simp) (by omega)

theorem axCInvOf (kd : Kind) (m : Mem) (hsz : m.size = 96) : CInv (axC kd) (axStOf m) [] axLives := by
  have h1 : ((axStOf m).abs []).allocated = 40 := rfl
  have h2 : (axC kd).dataOffset = 32 := rfl
  refine ⟨⟨(fun g hg => by cases hg), ?_, ?_, ?_, ?_, ?_, ?_, fun _ => rfl, ?_⟩, trivial, rfl, ?_, ?_, fun _ => ?_⟩
  · show sortedBy kd []
    cases kd
    · trivial
    · exact List.Pairwise.nil
    · exact List.Pairwise.nil
  · show List.Pairwise disj [(32, 40)]
    decide
  · intro e he
    rw [h1, h2]
    simp only [axLives, List.mem_singleton] at he
    subst he
    omega
  · rw [h2]; omega
  · rw [h1, h2]; omega
  · show 40 ≤ m.size
    omega
  · show (0 : Nat) < TWO32
    decide
  · show m.size + 8192 ≤ TWO32
    rw [hsz]; decide
  · show (8 : Nat) < TWO32
    decide
  · show (5 : Nat) ≤ 255
    omega

-- keep the elaborator from evaluating the 96-byte array when it compares states (the kernel still does, below)
attribute [irreducible] axMem

/-- the hypotheses of the theorems are satisfiable: the state satisfies the concrete invariant … -/
theorem axCInv (kd : Kind) : CInv (axC kd) (axSh kd).st [] axLives := axCInvOf kd (axMem kd) (axSize kd)

/-- … is a well-formed file (magic version 7), and the options of the reopening match -/
theorem axWF (kd : Kind) : C05.WellFormedFile (axC kd) (axSh kd).st 7 :=
  ⟨rfl, show (32 : Nat) = dataOffsetUnify 0 from rfl, axSan kd⟩

theorem axMatches (kd : Kind) : C05.Matches (axOpen kd) (axC kd) 7 := ⟨rfl, rfl, rfl, rfl⟩

theorem axCap (kd : Kind) : ((axSh kd).st.cap + (#[] : Mem).size) + 8192 ≤ TWO32 := by
  show ((axMem kd).size + (#[] : Mem).size) + 8192 ≤ TWO32
  rw [axSize]
  decide

theorem axFitBytes (kd : Kind) : (axSh kd).st.allocated + 16 ≤ (axSh kd).st.cap := by
  show 40 + 16 ≤ (axMem kd).size
  rw [axSize]; decide

/-- `alloc_bytes(16)` on the optimistic arena: at EVERY crash point `MidAlloc` holds for the handle `[40,56)` -/
example (k : Nat) : MidAlloc (axC .opt) (axSh .opt).st [] axLives (Meta.new 40 16) 56
    (Global.run ⟨axSh .opt, [allocBytesC (axC .opt) (axSh .opt).st.cap 16 50]⟩ (List.replicate k (0, false))).1.sh.st :=
  crash_alloc_bytes_global (axC .opt) (axSh .opt) [] axLives 16 50 (axCInv .opt) rfl (by decide) (axFitBytes .opt)
    (by decide) k

/-- typed `alloc::<u64>()` on the pessimistic arena: the handle `[40,48)` -/
example (k : Nat) : MidAlloc (axC .pess) (axSh .pess).st [] axLives ⟨40, 8, 40, 8⟩ 48
    (soloSteps k (axSh .pess) (allocTC (axC .pess) (axSh .pess).st.cap 8 8 50)).1.st :=
  crash_alloc_t (axC .pess) (axSh .pess) [] axLives 8 8 50 (axCInv .pess) rfl
    ⟨Or.inr (Or.inr (Or.inr (Or.inl rfl))), by decide, by decide⟩ (by decide)
    (by show alignUp 8 40 + 8 ≤ (axMem .pess).size; rw [axSize]; decide) (by decide) k

/-- the crash points computed: before the CAS the cursor is 40, after it 56 and `[40,56)` reads zero while the
    live byte at 39 still is `0xAB` -/
example : ((Global.run ⟨axSh .opt, [allocBytesC (axC .opt) 96 16 50]⟩ (List.replicate 1 (0, false))).1.sh.st.allocated,
    (Global.run ⟨axSh .opt, [allocBytesC (axC .opt) 96 16 50]⟩ (List.replicate 2 (0, false))).1.sh.st.allocated,
    [39, 40, 55].map (Global.run ⟨axSh .opt, [allocBytesC (axC .opt) 96 16 50]⟩
      (List.replicate 2 (0, false))).1.sh.st.mem.rd) = (40, 56, [171, 0, 0]) := by
  decide +kernel

/-- the image taken right after the CAS (the handle has not been returned) reopens with the invariant -/
example : ∃ lives' ro fs',
    (lives' = axLives ∨ lives' = (40, 56) :: axLives) ∧
    openWritable (axOpen .opt) false (some (C06.crashImage (axC .opt)
      (soloSteps 2 (axSh .opt) (allocBytesC (axC .opt) (axSh .opt).st.cap 16 50)).1.st #[])) = (.ok ro, fs') ∧
    (ro.st.allocated = 40 ∨ ro.st.allocated = 56) ∧ CInv ro.cfg ro.st [] lives' := by
  obtain ⟨lives', ro, fs', h1, h2, h3, _, _, h6, _, _⟩ :=
    crash_alloc_bytes_reopens (axC .opt) (axSh .opt) [] axLives 16 50 (axCInv .opt) rfl (by decide)
      (axFitBytes .opt) (by decide) 2 7 (axOpen .opt) #[] (axWF .opt) (axMatches .opt) (axCap .opt)
      (fun _ => by decide)
  exact ⟨lives', ro, fs', h1, h2, h3, h6⟩

/-- a request that does not fit (`alloc_bytes(100)`, 40 + 100 > 96) on the arena without free list: the state
    never changes -/
example (k : Nat) : (soloSteps k (axSh .none) (allocBytesC (axC .none) (axSh .none).st.cap 100 50)).1.st =
    (axSh .none).st :=
  crash_alloc_nofit_none (axC .none) (axSh .none) [] axLives (.bytes 100) 50 (axCInv .none) rfl (by show (100 : Nat) ≠ 0; decide)
    (by show ¬ 40 + 100 ≤ (axMem .none).size; rw [axSize]; decide) rfl (by decide) k

end CrashAllocEx

end Rarena.Conc

/- OPEN (not covered by this file; nothing below is used above):
   * Allocations from the FREE LIST of an optimistic / pessimistic arena (request does not fit the fresh space):
     crash points between the mark CAS and the unlink CAS are the KNOWN FINDING F15 (the reopened arena's traversal
     does not terminate) — the analogue of `crash_alloc` is FALSE there; the other crash points of the slow path
     (after the unlink; inside the `freelistDeallocC` of the remainder, which is `crash_dealloc`'s insertion path;
     the zero-fill) are not treated either.
   * Crash points of an allocation that runs CONCURRENTLY with other threads (the cursor CAS may then fail and the
     loop retries with the observed value). For `Freelist::None` this is Proofs/CrashNone.lean; for the other kinds
     the project has no concurrent invariant yet. Only the thread running alone is treated here.
   * `alloc_bytes(0)`, `alloc::<ZST>()`, a read-only arena: the entry point returns without any atomic access
     (excluded by `AllocReq.OK` / `c.ro = false`); there is no crash point inside them.
   * `MidAlloc` speaks about `Shared.st` only; `AllocReq.grants` shows in addition that `Shared.refs` and
     `Shared.released` are unchanged (`withSt`).
   * The non-atomic zero-fill is one step of the machine; its intermediate images are covered through
     `crash_alloc_torn` (any bytes inside the accessible range of the new handle), not as states of the machine. -/
