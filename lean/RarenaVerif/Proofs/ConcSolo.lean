/-
  Proofs.ConcSolo — the concurrent step machine run by ONE thread alone computes exactly what the sequential
  model of the sync flavour (`Core` with `c.sync = true`) computes: whenever the `Core` function returns
  normally, the `Conc` program terminates (finite derivation of `Solo`) with the same answer and the same
  final state. (all statements proved; helper lemmas precede the theorems that use them)
-/
import RarenaVerif.Model.Conc

namespace Rarena.Conc

open Rarena

/-- big-step solo execution: program `p` started in `sh` terminates with answer `a` in `sh'` when no other
    thread takes a step (a weak CAS never fails spuriously) -/
inductive Solo {α : Type} : Shared → Prog α → α → Shared → Prop where
  | ret (sh : Shared) (a : α) : Solo sh (.ret a) a sh
  | na (sh sh1 sh2 : Shared) (e : NA) (k : Unit → Prog α) (a : α) :
      sh.applyNA e = .ok sh1 → Solo sh1 (k ()) a sh2 → Solo sh (.na e k) a sh2
  | acc (sh sh1 sh2 : Shared) (p p1 : Prog α) (ev : Event) (a : α) :
      stepAccess sh p false = .ok (sh1, p1, ev) → Solo sh1 p1 a sh2 → Solo sh p a sh2

/-- the shared state with allocator state `s` -/
def withSt (sh : Shared) (s : St) : Shared := { sh with st := s }

theorem bind_ok {α β : Type} {x : M α} {f : α → M β} {b : β} (h : (x >>= f) = .ok b) :
    ∃ a, x = .ok a ∧ f a = .ok b := by
  cases x with
  | error e => cases h
  | ok a => exact ⟨a, rfl, h⟩

theorem ok_bind {α β : Type} (a : α) (f : α → M β) : ((Except.ok a : M α) >>= f) = f a := rfl

theorem stepAccess_bind {α β : Type} {sh sh1 : Shared} {p p1 : Prog α} {ev : Event} (f : α → Prog β) {sp : Bool}
    (h : stepAccess sh p sp = .ok (sh1, p1, ev)) : stepAccess sh (p.bind f) sp = .ok (sh1, p1.bind f, ev) := by
  cases p with
  | ret a => cases h
  | trap s => cases h
  | diverge => cases h
  | na e k => cases h
  | load l s k =>
    simp only [stepAccess, Prog.bind] at h ⊢
    obtain ⟨v, hv, h⟩ := bind_ok h
    simp only [hv]
    cases h; rfl
  | store l v s k =>
    simp only [stepAccess, Prog.bind] at h ⊢
    obtain ⟨v, hv, h⟩ := bind_ok h
    obtain ⟨v', hv', h⟩ := bind_ok h
    simp only [hv, hv']
    cases h; rfl
  | cas l e n w s k =>
    simp only [stepAccess, Prog.bind] at h ⊢
    obtain ⟨v, hv, h⟩ := bind_ok h
    simp only [hv]
    show (if w = true ∧ sp = true then _ else _) = _
    change (if w = true ∧ sp = true then _ else _) = _ at h
    split
    · rename_i hc; rw [if_pos hc] at h; cases h; rfl
    · rename_i hc; rw [if_neg hc] at h
      split
      · rename_i hc2; rw [if_pos hc2] at h
        obtain ⟨v', hv', h⟩ := bind_ok h
        simp only [hv']
        cases h; rfl
      · rename_i hc2; rw [if_neg hc2] at h; cases h; rfl
  | rmw l v sb s k =>
    simp only [stepAccess, Prog.bind] at h ⊢
    obtain ⟨v, hv, h⟩ := bind_ok h
    obtain ⟨v', hv', h⟩ := bind_ok h
    simp only [hv, ok_bind, hv']
    cases h; rfl

theorem Solo.bind {α β : Type} {sh sh1 sh2 : Shared} {p : Prog α} {f : α → Prog β} {a : α} {b : β}
    (h1 : Solo sh p a sh1) (h2 : Solo sh1 (f a) b sh2) : Solo sh (p.bind f) b sh2 := by
  induction h1 with
  | ret sh a => exact h2
  | na sh sh1 sh2' e k a hna _ ih => exact Solo.na _ _ _ _ _ _ hna (ih h2)
  | acc sh sh1 sh2' p p1 ev a hstep _ ih => exact Solo.acc _ _ _ _ _ _ _ (stepAccess_bind f hstep) (ih h2)

theorem Solo.det {α : Type} {sh sh1 sh2 : Shared} {p : Prog α} {a1 a2 : α}
    (h1 : Solo sh p a1 sh1) (h2 : Solo sh p a2 sh2) : a1 = a2 ∧ sh1 = sh2 := by
  induction h1 generalizing a2 sh2 with
  | ret sh a =>
    cases h2 with
    | ret => exact ⟨rfl, rfl⟩
    | acc _ _ _ _ _ _ _ hs _ => cases hs
  | na sh sh1 sh2' e k a hna _ ih =>
    cases h2 with
    | na _ _ _ _ _ _ hna' h' => rw [hna] at hna'; cases hna'; exact ih h'
    | acc _ _ _ _ _ _ _ hs _ => cases hs
  | acc sh sh1 sh2' p p1 ev a hstep hsolo ih =>
    cases h2 with
    | ret => cases hstep
    | na _ _ _ _ _ _ hna' h' => cases hstep
    | acc _ _ _ _ _ _ _ hs h' => rw [hstep] at hs; cases hs; exact ih h'

/-! ### primitives -/

theorem Solo.bind' {α β : Type} {sh sh1 sh2 : Shared} {p : Prog α} {f : α → Prog β} {a : α} {b : β}
    (h1 : Solo sh p a sh1) (h2 : Solo sh1 (f a) b sh2) : Solo sh (p >>= f) b sh2 := Solo.bind h1 h2

theorem solo_pure {α : Type} (sh : Shared) (a : α) : Solo sh (pure a : Prog α) a sh := Solo.ret sh a

theorem solo_liftM {α : Type} {sh : Shared} {x : M α} {a : α} (h : x = .ok a) : Solo sh (liftM' x) a sh := by
  subst h; exact Solo.ret _ _

theorem solo_load {sh : Shared} {l : ALoc} {fn : String} {i v : Nat} (h : sh.read l = .ok v) :
    Solo sh (load l fn i) v sh := by
  refine Solo.acc sh sh sh _ (.ret v) ⟨.ld, l, ⟨fn, i⟩, v, v, true⟩ v ?_ (Solo.ret _ _)
  simp only [load, stepAccess, h, ok_bind]; rfl

theorem solo_na {sh sh1 : Shared} {e : NA} (h : sh.applyNA e = .ok sh1) : Solo sh (na e) () sh1 :=
  Solo.na _ _ _ _ _ _ h (Solo.ret _ _)

theorem withSt_st (sh : Shared) : withSt sh sh.st = sh := rfl
theorem withSt_withSt (sh : Shared) (s1 s2 : St) : withSt (withSt sh s1) s2 = withSt sh s2 := rfl

theorem read_locOf (sh : Shared) (s : St) (loc : Loc) : (withSt sh s).read (locOf loc) = s.readLoc loc := by
  cases loc <;> rfl

theorem write_locOf {sh : Shared} {s s' : St} {loc : Loc} {v : Nat} (h : s.writeLoc loc v = .ok s') :
    (withSt sh s).write (locOf loc) v = .ok (withSt sh s') := by
  cases loc with
  | hdr => cases h; rfl
  | node off =>
    simp only [St.writeLoc] at h
    obtain ⟨m, hm, h⟩ := bind_ok h
    cases h
    simp only [locOf, Shared.write, withSt, hm, ok_bind]; rfl

theorem solo_load_node {sh : Shared} {s : St} {off v : Nat} {fn : String} {i : Nat}
    (h : s.mem.readWord? off = .ok v) : Solo (withSt sh s) (load (.node off) fn i) v (withSt sh s) :=
  solo_load (l := .node off) h

theorem solo_load_sent {sh : Shared} {s : St} {fn : String} {i : Nat} :
    Solo (withSt sh s) (load .sent fn i) s.sentinel (withSt sh s) := solo_load (l := .sent) rfl

theorem solo_load_minseg {sh : Shared} {s : St} {fn : String} {i : Nat} :
    Solo (withSt sh s) (load .minseg fn i) s.minSeg (withSt sh s) := solo_load (l := .minseg) rfl

theorem solo_load_alloc {sh : Shared} {s : St} {fn : String} {i : Nat} :
    Solo (withSt sh s) (load .alloc fn i) s.allocated (withSt sh s) := solo_load (l := .alloc) rfl

theorem solo_remaining (sh : Shared) : Solo sh remainingC () sh :=
  Solo.bind' (solo_load (v := sh.st.allocated) rfl) (Solo.ret _ _)

theorem solo_casLoc {sh : Shared} {s s' : St} {loc : Loc} {e n : Nat} {ok : Bool} (fn : String) (i : Nat)
    (h : s.casLoc loc e n = .ok (s', ok)) :
    ∃ old, Solo (withSt sh s) (cas (locOf loc) e n fn i) (old, ok) (withSt sh s') := by
  simp only [St.casLoc] at h
  obtain ⟨old, hr, h⟩ := bind_ok h
  refine ⟨old, ?_⟩
  by_cases hc : old = e
  · rw [if_pos hc] at h
    obtain ⟨s1, hw, h⟩ := bind_ok h
    cases h
    refine Solo.acc _ (withSt sh s') _ _ (.ret (old, true)) ⟨.cas, locOf loc, ⟨fn, i⟩, old, n, true⟩ _ ?_ (Solo.ret _ _)
    simp only [cas, stepAccess, read_locOf, hr, ok_bind]
    simp [hc, write_locOf hw]; rfl
  · rw [if_neg hc] at h
    cases h
    refine Solo.acc _ (withSt sh s) _ _ (.ret (old, false)) ⟨.cas, locOf loc, ⟨fn, i⟩, old, old, false⟩ _ ?_ (Solo.ret _ _)
    simp only [cas, stepAccess, read_locOf, hr, ok_bind]
    simp [hc]; rfl

theorem solo_cas_alloc (sh : Shared) (s : St) (e n : Nat) (w : Bool) (site : Site) :
    Solo (withSt sh s) (.cas .alloc e n w site .ret) (s.allocated, decide (s.allocated = e))
      (withSt sh (if s.allocated = e then { s with allocated := n } else s)) := by
  by_cases hc : s.allocated = e
  · refine Solo.acc _ _ _ _ (.ret _) ⟨if w then .casw else .cas, .alloc, site, s.allocated, n, true⟩ _ ?_ (Solo.ret _ _)
    simp [stepAccess, Shared.read, Shared.write, withSt, hc]; rfl
  · refine Solo.acc _ _ _ _ (.ret _) ⟨if w then .casw else .cas, .alloc, site, s.allocated, s.allocated, false⟩ _ ?_ (Solo.ret _ _)
    simp [stepAccess, Shared.read, Shared.write, withSt, hc]; rfl

theorem solo_store_node {sh : Shared} {s : St} {off v : Nat} {mem : Mem} (fn : String) (i : Nat)
    (h : s.mem.writeWord? off v = .ok mem) :
    Solo (withSt sh s) (store (.node off) v fn i) () (withSt sh { s with mem := mem }) := by
  have hr : ∃ old, s.mem.readWord? off = .ok old := by
    unfold Mem.writeWord? at h
    unfold Mem.readWord?
    split at h
    · rename_i hc; rw [if_pos hc]; exact ⟨_, rfl⟩
    · cases h
  obtain ⟨old, hr⟩ := hr
  refine Solo.acc _ _ _ _ (.ret ()) ⟨.st, .node off, ⟨fn, i⟩, old, v, true⟩ _ ?_ (Solo.ret _ _)
  simp only [store, stepAccess, Shared.read, Shared.write, withSt, hr, h, ok_bind]; rfl

theorem solo_incDiscarded (sh : Shared) (s : St) (c : Cfg) (n : Nat) :
    Solo (withSt sh s) (incDiscardedC c n) () (withSt sh (s.incDiscarded c n)) := by
  unfold incDiscardedC St.incDiscarded
  by_cases hc : c.ro = true
  · rw [if_pos hc, if_pos hc]; exact Solo.ret _ _
  · rw [if_neg hc, if_neg hc]
    refine Solo.bind' (a := s.discarded) ?_ (Solo.ret _ _)
    refine Solo.acc _ _ _ _ (.ret _) ⟨.faa, .disc, ⟨"increase_discarded", 0⟩, s.discarded, (s.discarded + n) % TWO32, true⟩ _ ?_ (Solo.ret _ _)
    simp [faa, stepAccess, Shared.read, Shared.write, withSt, ALoc.modulus]; rfl

theorem solo_clearMeta {sh : Shared} {s s' : St} {m : Meta} (h : s.clearMeta m = .ok s') :
    Solo (withSt sh s) (na (.zero m.ptrOff m.ptrSize)) () (withSt sh s') := by
  apply solo_na
  simp only [St.clearMeta] at h
  obtain ⟨mem, hm, h⟩ := bind_ok h
  cases h
  simp only [Shared.applyNA, withSt, hm, ok_bind]; rfl


/-! ### the functions -/

set_option hygiene false in
/-- split the leading `if` of the hypothesis `h` and rewrite the same `if` in the goal -/
macro "ifboth" : tactic =>
  `(tactic| (split at h <;> rename_i hc <;> first | rw [if_pos hc] | rw [if_neg hc]))

theorem findPosition_solo (sh : Shared) (s : St) (val : Nat) (cmp : Nat → Nat → Bool) :
    ∀ (fuel : Nat) (loc : Loc) (cur : Nat) (r : Nat × Loc), findPosS s val cmp fuel loc cur = .ok r →
      Solo (withSt sh s) (findPositionC val cmp fuel loc cur) r (withSt sh s) := by
  intro fuel
  induction fuel with
  | zero => intro loc cur r h; cases h
  | succ fuel ih =>
    intro loc cur r h
    simp only [findPosS] at h
    simp only [findPositionC]
    ifboth
    · cases h; exact Solo.ret _ _
    ifboth
    · cases h; exact Solo.ret _ _
    ifboth
    · obtain ⟨cur', h1, h⟩ := bind_ok h
      exact Solo.bind' (solo_load (by rw [read_locOf]; exact h1)) (ih _ _ _ h)
    ifboth
    · cases h; exact Solo.ret _ _
    obtain ⟨nw, h1, h⟩ := bind_ok h
    refine Solo.bind' (solo_load_node h1) ?_
    ifboth
    · exact Solo.bind' (solo_load_sent) (ih _ _ _ h)
    ifboth
    · cases h; exact Solo.ret _ _
    exact ih _ _ _ h

theorem findPositionTop_solo (sh : Shared) (s : St) (val : Nat) (cmp : Nat → Nat → Bool) (fuel : Nat) (r : Nat × Loc)
    (h : findPosS s val cmp fuel .hdr s.sentinel = .ok r) :
    Solo (withSt sh s) (findPositionTop val cmp fuel) r (withSt sh s) :=
  Solo.bind' (solo_load_sent) (findPosition_solo sh s val cmp _ _ _ _ h)

theorem findPrevNext_solo (sh : Shared) (s : St) (val : Nat) (cmp : Nat → Nat → Bool) :
    ∀ (fuel : Nat) (loc : Loc) (cur : Nat) (r : PrevNext), findPrevNextS s val cmp fuel loc cur = .ok r →
      Solo (withSt sh s) (findPrevNextC val cmp fuel loc cur) r (withSt sh s) := by
  intro fuel
  induction fuel with
  | zero => intro loc cur r h; cases h
  | succ fuel ih =>
    intro loc cur r h
    simp only [findPrevNextS] at h
    simp only [findPrevNextC]
    ifboth
    · cases h; exact Solo.ret _ _
    ifboth
    · cases h; exact Solo.ret _ _
    ifboth
    · ifboth
      · cases h; exact Solo.ret _ _
      obtain ⟨cur', h1, h⟩ := bind_ok h
      exact Solo.bind' (solo_load_node h1) (ih _ _ _ h)
    ifboth
    · cases h; exact Solo.ret _ _
    obtain ⟨nw, h1, h⟩ := bind_ok h
    refine Solo.bind' (solo_load_node h1) ?_
    ifboth
    · ifboth
      · exact ih _ _ _ h
      · cases h; exact Solo.ret _ _
    exact ih _ _ _ h

theorem findPrevNextTop_solo (sh : Shared) (s : St) (val : Nat) (cmp : Nat → Nat → Bool) (fuel : Nat) (r : PrevNext)
    (h : findPrevNextS s val cmp fuel .hdr s.sentinel = .ok r) :
    Solo (withSt sh s) (findPrevNextTop val cmp fuel) r (withSt sh s) :=
  Solo.bind' (solo_load_sent) (findPrevNext_solo sh s val cmp _ _ _ _ h)

theorem validateSegment_solo (sh : Shared) (s : St) (off size : Nat) (b : Bool)
    (h : validateSegment s off size = .ok b) :
    Solo (withSt sh s) (validateSegmentC off size) b (withSt sh s) := by
  simp only [validateSegment] at h
  simp only [validateSegmentC]
  ifboth
  · cases h; exact Solo.ret _ _
  obtain ⟨a, ha, h⟩ := bind_ok h
  refine Solo.bind' (solo_liftM ha) ?_
  ifboth
  · cases h; exact Solo.ret _ _
  refine Solo.bind' (solo_load_minseg) ?_
  have hb : b = decide (¬ size - (a - off + NODE) < s.minSeg) := by
    split at h <;> cases h <;> simp [*]
  rw [hb]; exact Solo.ret _ _

theorem tryNewSegment_solo (sh : Shared) (c : Cfg) (s : St) (off size : Nat) (r : Option SegRef) (s' : St)
    (h : tryNewSegment c s off size = .ok (r, s')) :
    Solo (withSt sh s) (tryNewSegmentC c off size) r (withSt sh s') := by
  simp only [tryNewSegment] at h
  simp only [tryNewSegmentC]
  ifboth
  · cases h; exact Solo.ret _ _
  obtain ⟨a, ha, h⟩ := bind_ok h
  refine Solo.bind' (solo_liftM ha) ?_
  ifboth
  · cases h; exact Solo.bind' (solo_incDiscarded _ _ _ _) (Solo.ret _ _)
  refine Solo.bind' (solo_load_minseg) ?_
  ifboth
  · cases h; exact Solo.bind' (solo_incDiscarded _ _ _ _) (Solo.ret _ _)
  cases h; exact Solo.ret _ _

theorem solo_casLoc_k {β : Type} {sh sh2 : Shared} {s s' : St} {loc : Loc} {e n : Nat} {ok : Bool} {fn : String} {i : Nat}
    {f : Nat × Bool → Prog β} {b : β}
    (h : s.casLoc loc e n = .ok (s', ok)) (hk : ∀ old, Solo (withSt sh s') (f (old, ok)) b sh2) :
    Solo (withSt sh s) (cas (locOf loc) e n fn i >>= f) b sh2 := by
  obtain ⟨old, ho⟩ := solo_casLoc (sh := sh) fn i h
  exact Solo.bind' ho (hk old)

theorem solo_casNode_k {β : Type} {sh sh2 : Shared} {s s' : St} {off : Nat} {e n : Nat} {ok : Bool} {fn : String} {i : Nat}
    {f : Nat × Bool → Prog β} {b : β}
    (h : s.casLoc (.node off) e n = .ok (s', ok)) (hk : ∀ old, Solo (withSt sh s') (f (old, ok)) b sh2) :
    Solo (withSt sh s) (cas (.node off) e n fn i >>= f) b sh2 := solo_casLoc_k (loc := .node off) h hk

theorem solo_casSent_k {β : Type} {sh sh2 : Shared} {s s' : St} {e n : Nat} {ok : Bool} {fn : String} {i : Nat}
    {f : Nat × Bool → Prog β} {b : β}
    (h : s.casLoc .hdr e n = .ok (s', ok)) (hk : ∀ old, Solo (withSt sh s') (f (old, ok)) b sh2) :
    Solo (withSt sh s) (cas .sent e n fn i >>= f) b sh2 := solo_casLoc_k (loc := .hdr) h hk

theorem insertLoop_solo (sh : Shared) (c : Cfg) (hsync : c.sync = true) (seg : SegRef) (fuel : Nat) :
    ∀ (tries : Nat) (s s' : St), insertLoop c seg fuel tries s = .ok s' →
      Solo (withSt sh s) (insertLoopC c seg fuel tries) true (withSt sh s') := by
  intro tries
  induction tries with
  | zero => intro s s' h; cases h
  | succ tries ih =>
    intro s s' h
    simp only [insertLoop, findPos, hsync, if_true, true_and, true_or] at h
    simp only [insertLoopC]
    obtain ⟨⟨cur, loc⟩, h1, h⟩ := bind_ok h
    refine Solo.bind' (findPositionTop_solo sh s _ _ _ _ h1) ?_
    dsimp only at h ⊢
    ifboth
    · exact ih _ _ h
    ifboth
    · exact ih _ _ h
    obtain ⟨mem, hw, h⟩ := bind_ok h
    refine Solo.bind' (solo_store_node _ _ hw) ?_
    obtain ⟨⟨s2, ok⟩, hcas, h⟩ := bind_ok h
    refine solo_casLoc_k hcas (fun old => ?_)
    dsimp only at h ⊢
    cases ok with
    | false =>
      simp only [Bool.false_eq_true, if_false] at h ⊢
      exact ih _ _ h
    | true =>
      simp only [if_true] at h ⊢
      cases h
      exact Solo.bind' (solo_incDiscarded _ _ _ _) (Solo.ret _ _)

theorem freelistDealloc_solo (sh : Shared) (c : Cfg) (hsync : c.sync = true) (s : St) (off size fuel : Nat) (b : Bool) (s' : St)
    (h : freelistDealloc c s off size fuel = .ok (b, s')) :
    Solo (withSt sh s) (freelistDeallocC c off size fuel) b (withSt sh s') := by
  simp only [freelistDealloc] at h
  simp only [freelistDeallocC]
  obtain ⟨⟨seg?, s1⟩, h1, h⟩ := bind_ok h
  refine Solo.bind' (tryNewSegment_solo sh c s off size _ _ h1) ?_
  cases seg? with
  | none => cases h; exact Solo.ret _ _
  | some seg =>
    dsimp only at h ⊢
    obtain ⟨s2, h2, h⟩ := bind_ok h
    cases h
    exact insertLoop_solo sh c hsync seg fuel fuel _ _ h2

theorem dealloc_solo' (sh : Shared) (c : Cfg) (hsync : c.sync = true) (s : St) (off size fuel : Nat) (b : Bool) (s' : St)
    (h : dealloc c s off size fuel = .ok (b, s')) : Solo (withSt sh s) (deallocC c off size fuel) b (withSt sh s') := by
  simp only [dealloc] at h
  simp only [deallocC]
  obtain ⟨top, h1, h⟩ := bind_ok h
  refine Solo.bind' (solo_liftM h1) ?_
  refine Solo.bind' (solo_cas_alloc sh s top off false _) ?_
  dsimp only
  by_cases hc : s.allocated = top
  · rw [if_pos hc] at h
    cases h
    simp only [hc, decide_true, if_true]
    exact Solo.ret _ _
  · rw [if_neg hc] at h
    simp only [hc, decide_false, Bool.false_eq_true, if_false]
    cases hk : c.kind with
    | none =>
      simp only [hk] at h ⊢
      cases h
      exact Solo.bind' (solo_incDiscarded _ _ _ _) (Solo.ret _ _)
    | opt =>
      simp only [hk] at h ⊢
      exact freelistDealloc_solo sh c hsync s off size fuel b s' h
    | pess =>
      simp only [hk] at h ⊢
      exact freelistDealloc_solo sh c hsync s off size fuel b s' h

theorem finishSlow_solo (sh : Shared) (c : Cfg) (hsync : c.sync = true) (s : St) (off nodeSize size fuel : Nat)
    (r : AllocRes) (s' : St) (h : finishSlow c s off nodeSize size fuel = .ok (r, s')) :
    Solo (withSt sh s) (finishSlowC c off nodeSize size fuel) r (withSt sh s') := by
  simp only [finishSlow] at h
  simp only [finishSlowC]
  obtain ⟨data, h1, h⟩ := bind_ok h
  refine Solo.bind' (solo_liftM h1) ?_
  obtain ⟨dataEnd, h2, h⟩ := bind_ok h
  refine Solo.bind' (solo_liftM h2) ?_
  obtain ⟨split, h3, h⟩ := bind_ok h
  refine Solo.bind' (validateSegment_solo sh s _ _ _ h3) ?_
  cases split with
  | false =>
    simp only [Bool.false_eq_true, if_false] at h ⊢
    obtain ⟨x, hx, h⟩ := bind_ok h
    cases hx
    refine Solo.bind' (Solo.ret _ _) ?_
    obtain ⟨s2, h6, h⟩ := bind_ok h
    cases h
    exact Solo.bind' (solo_clearMeta h6) (Solo.ret _ _)
  | true =>
    simp only [if_true] at h ⊢
    obtain ⟨⟨x, s1⟩, h5, h⟩ := bind_ok h
    obtain ⟨y, hy, h⟩ := bind_ok h
    cases hy
    refine Solo.bind' (Solo.bind' (freelistDealloc_solo sh c hsync s _ _ fuel _ _ h5) (Solo.ret _ _)) ?_
    obtain ⟨s2, h6, h⟩ := bind_ok h
    cases h
    exact Solo.bind' (solo_clearMeta h6) (Solo.ret _ _)

theorem slowOpt_solo (sh : Shared) (c : Cfg) (hsync : c.sync = true) (size fuel : Nat) :
    ∀ (tries : Nat) (s : St) (r : AllocRes) (s' : St), slowOpt c size fuel tries s = .ok (r, s') →
      Solo (withSt sh s) (slowOptC c size fuel tries) r (withSt sh s') := by
  intro tries
  induction tries with
  | zero => intro s r s' h; cases h
  | succ tries ih =>
    intro s r s' h
    simp only [slowOpt, hsync, if_true, true_and] at h
    simp only [slowOptC]
    ifboth
    · cases h; exact Solo.ret _ _
    refine Solo.bind' solo_load_sent ?_
    ifboth
    · cases h; exact Solo.bind' (solo_remaining _) (Solo.ret _ _)
    ifboth
    · exact ih _ _ _ h
    obtain ⟨hw, h1, h⟩ := bind_ok h
    refine Solo.bind' (solo_load_node h1) ?_
    ifboth
    · exact ih _ _ _ h
    ifboth
    · cases h; exact Solo.ret _ _
    obtain ⟨⟨s1, ok1⟩, hc1, h⟩ := bind_ok h
    refine solo_casNode_k hc1 (fun _ => ?_)
    dsimp only at h ⊢
    cases ok1 with
    | false =>
      simp only [Bool.not_false, if_true] at h ⊢
      exact ih _ _ _ h
    | true =>
      simp only [Bool.not_true, Bool.false_eq_true, if_false] at h ⊢
      obtain ⟨⟨s2, ok2⟩, hc2, h⟩ := bind_ok h
      refine solo_casSent_k hc2 (fun _ => ?_)
      dsimp only at h ⊢
      cases ok2 with
      | true =>
        simp only [if_true] at h ⊢
        exact finishSlow_solo sh c hsync _ _ _ _ _ _ _ h
      | false =>
        simp only [Bool.false_eq_true, if_false] at h ⊢
        obtain ⟨⟨s3, ok3⟩, hc3, h⟩ := bind_ok h
        refine solo_casNode_k hc3 (fun _ => ?_)
        exact ih _ _ _ h

theorem slowPess_solo (sh : Shared) (c : Cfg) (hsync : c.sync = true) (size fuel : Nat) :
    ∀ (tries : Nat) (s : St) (r : AllocRes) (s' : St), slowPess c size fuel tries s = .ok (r, s') →
      Solo (withSt sh s) (slowPessC c size fuel tries) r (withSt sh s') := by
  intro tries
  induction tries with
  | zero => intro s r s' h; cases h
  | succ tries ih =>
    intro s r s' h
    simp only [slowPess, findPrevNext, hsync, if_true, true_and] at h
    simp only [slowPessC]
    ifboth
    · cases h; exact Solo.ret _ _
    obtain ⟨pn, h1, h⟩ := bind_ok h
    refine Solo.bind' (findPrevNextTop_solo sh s _ _ _ _ h1) ?_
    match pn with
    | none =>
      dsimp only at h ⊢
      cases h; exact Solo.bind' (solo_remaining _) (Solo.ret _ _)
    | some (pw, ploc, nw, noff) =>
      dsimp only at h ⊢
      ifboth
      · exact ih _ _ _ h
      ifboth
      · exact ih _ _ _ h
      obtain ⟨⟨s1, ok1⟩, hc1, h⟩ := bind_ok h
      refine solo_casNode_k hc1 (fun _ => ?_)
      dsimp only at h ⊢
      cases ok1 with
      | false =>
        simp only [Bool.not_false, if_true] at h ⊢
        exact ih _ _ _ h
      | true =>
        simp only [Bool.not_true, Bool.false_eq_true, if_false] at h ⊢
        obtain ⟨⟨s2, ok2⟩, hc2, h⟩ := bind_ok h
        refine solo_casLoc_k hc2 (fun _ => ?_)
        dsimp only at h ⊢
        cases ok2 with
        | true =>
          simp only [if_true] at h ⊢
          obtain ⟨x, hx, h⟩ := bind_ok h
          refine Solo.bind' (solo_liftM hx) ?_
          exact finishSlow_solo sh c hsync _ _ _ _ _ _ _ h
        | false =>
          simp only [Bool.false_eq_true, if_false] at h ⊢
          obtain ⟨⟨s3, ok3⟩, hc3, h⟩ := bind_ok h
          refine solo_casNode_k hc3 (fun _ => ?_)
          exact ih _ _ _ h

theorem slowPath_solo (sh : Shared) (c : Cfg) (hsync : c.sync = true) (s : St) (size fuel : Nat)
    (r : AllocRes) (s' : St) (h : slowPath c s size fuel = .ok (r, s')) :
    Solo (withSt sh s) (slowPathC c size fuel) r (withSt sh s') := by
  cases hk : c.kind with
  | none =>
    simp only [slowPath, hk] at h
    simp only [slowPathC, hk]
    cases h; exact Solo.bind' (solo_remaining _) (Solo.ret _ _)
  | opt =>
    simp only [slowPath, hk] at h
    simp only [slowPathC, hk]
    exact slowOpt_solo sh c hsync size fuel fuel s r s' h
  | pess =>
    simp only [slowPath, hk] at h
    simp only [slowPathC, hk]
    exact slowPess_solo sh c hsync size fuel fuel s r s' h

theorem retryLoop_solo (sh : Shared) (c : Cfg) (hsync : c.sync = true) (size fuel : Nat) (post : Meta → M Meta) :
    ∀ (n i : Nat) (s : St) (rs : AllocRes × St), retryLoop c size fuel post n i s = .ok rs →
      Solo (withSt sh s) (retryLoopC c size fuel post n i) (liftRes rs).1 (withSt sh (liftRes rs).2) := by
  intro n
  induction n with
  | zero => intro i s rs h; cases h
  | succ n ih =>
    intro i s rs h
    simp only [retryLoop] at h
    simp only [retryLoopC]
    obtain ⟨⟨r, s1⟩, h1, h⟩ := bind_ok h
    refine Solo.bind' (slowPath_solo sh c hsync s size fuel r s1 h1) ?_
    cases r with
    | ok m =>
      dsimp only at h ⊢
      obtain ⟨m', hm, h⟩ := bind_ok h
      cases h
      exact Solo.bind' (solo_liftM hm) (Solo.ret _ _)
    | error e =>
      dsimp only at h ⊢
      ifboth
      · cases h; exact Solo.ret _ _
      ifboth
      · cases h; exact Solo.ret _ _
      obtain ⟨u, hu, h⟩ := bind_ok h
      by_cases hc : i + 1 < 256
      · rw [if_pos hc]; exact ih _ _ _ h
      · rw [if_neg hc] at hu; cases hu

theorem bump_solo_some (sh : Shared) (s : St) (fn : String) (want : Nat → M (Option Nat)) (fuel wnt : Nat)
    (h : want s.allocated = .ok (some wnt)) :
    Solo (withSt sh s) (bumpLoopC fn want (fuel + 1) s.allocated) (some (s.allocated, wnt))
      (withSt sh { s with allocated := wnt }) := by
  simp only [bumpLoopC]
  refine Solo.bind' (solo_liftM h) ?_
  dsimp only
  refine Solo.bind' (solo_cas_alloc sh s s.allocated wnt true _) ?_
  simp only [decide_true, if_true]
  exact Solo.ret _ _

theorem bump_solo_none (sh : Shared) (s : St) (fn : String) (want : Nat → M (Option Nat)) (fuel : Nat)
    (h : want s.allocated = .ok none) :
    Solo (withSt sh s) (bumpLoopC fn want (fuel + 1) s.allocated) none (withSt sh s) := by
  simp only [bumpLoopC]
  refine Solo.bind' (solo_liftM h) ?_
  exact Solo.ret _ _

theorem slowEntry_solo (sh : Shared) (c : Cfg) (hsync : c.sync = true) (s : St) (size fuel : Nat) (post : Meta → M Meta)
    (r : AllocOut) (s' : St)
    (h : (do let r ← slowEntry c s size fuel post; pure (liftRes r)) = .ok (r, s')) :
    Solo (withSt sh s) (retryLoopC c size fuel post 300 0) r (withSt sh s') := by
  simp only [slowEntry, hsync, if_true] at h
  obtain ⟨rs, h1, h⟩ := bind_ok h
  have h' : liftRes rs = (r, s') := Except.ok.inj h
  have e1 : r = (liftRes rs).1 := by rw [h']
  have e2 : s' = (liftRes rs).2 := by rw [h']
  rw [e1, e2]
  exact retryLoop_solo sh c hsync size fuel post 300 0 s rs h1

theorem allocBytes_solo' (sh : Shared) (c : Cfg) (hsync : c.sync = true) (s : St) (n fuel : Nat) (hf : 0 < fuel)
    (r : AllocOut) (s' : St) (h : allocBytes c s n fuel = .ok (r, s')) :
    Solo (withSt sh s) (allocBytesC c s.cap n fuel) r (withSt sh s') := by
  obtain ⟨fuel', rfl⟩ : ∃ k, fuel = k + 1 := ⟨fuel - 1, by omega⟩
  simp only [allocBytes] at h
  simp only [allocBytesC]
  ifboth
  · cases h; exact Solo.ret _ _
  ifboth
  · cases h; exact Solo.ret _ _
  refine Solo.bind' solo_load_alloc ?_
  cases hw : (checkedAddU32 s.allocated n).filter (· ≤ s.cap) with
  | some wnt =>
    simp only [hw] at h
    refine Solo.bind' (bump_solo_some sh s _ _ fuel' wnt (congrArg Except.ok hw)) ?_
    dsimp only
    obtain ⟨s1, hcl, h⟩ := bind_ok h
    cases h
    exact Solo.bind' (solo_clearMeta hcl) (Solo.ret _ _)
  | none =>
    simp only [hw] at h
    refine Solo.bind' (bump_solo_none sh s _ _ fuel' (congrArg Except.ok hw)) ?_
    dsimp only
    exact slowEntry_solo sh c hsync s n _ pure r s' h

theorem allocT_solo' (sh : Shared) (c : Cfg) (hsync : c.sync = true) (s : St) (ts ta fuel : Nat) (hf : 0 < fuel)
    (r : AllocOut) (s' : St) (h : allocT c s ts ta fuel = .ok (r, s')) :
    Solo (withSt sh s) (allocTC c s.cap ts ta fuel) r (withSt sh s') := by
  obtain ⟨fuel', rfl⟩ : ∃ k, fuel = k + 1 := ⟨fuel - 1, by omega⟩
  simp only [allocT] at h
  simp only [allocTC]
  ifboth
  · cases h; exact Solo.ret _ _
  ifboth
  · cases h; exact Solo.ret _ _
  refine Solo.bind' solo_load_alloc ?_
  obtain ⟨aligned, ha, h⟩ := bind_ok h
  obtain ⟨wnt, hb, h⟩ := bind_ok h
  by_cases hc : wnt ≤ s.cap
  · rw [if_pos hc] at h
    refine Solo.bind' (bump_solo_some sh s _ _ fuel' wnt ?_) ?_
    · simp only [ha, hb, ok_bind, if_pos hc]; rfl
    dsimp only
    obtain ⟨m, hm, h⟩ := bind_ok h
    refine Solo.bind' (solo_liftM hm) ?_
    obtain ⟨s1, hcl, h⟩ := bind_ok h
    cases h
    exact Solo.bind' (solo_clearMeta hcl) (Solo.ret _ _)
  · rw [if_neg hc] at h
    refine Solo.bind' (bump_solo_none sh s _ _ fuel' ?_) ?_
    · simp only [ha, hb, ok_bind, if_neg hc]; rfl
    dsimp only
    exact slowEntry_solo sh c hsync s _ _ _ r s' h

theorem allocAligned_solo' (sh : Shared) (c : Cfg) (hsync : c.sync = true) (s : St) (ts ta ex fuel : Nat) (hf : 0 < fuel)
    (r : AllocOut) (s' : St) (h : allocAligned c s ts ta ex fuel = .ok (r, s')) :
    Solo (withSt sh s) (allocAlignedC c s.cap ts ta ex fuel) r (withSt sh s') := by
  simp only [allocAligned] at h
  simp only [allocAlignedC]
  ifboth
  · cases h; exact Solo.ret _ _
  ifboth
  · exact allocBytes_solo' sh c hsync s ex fuel hf r s' h
  obtain ⟨fuel', rfl⟩ : ∃ k, fuel = k + 1 := ⟨fuel - 1, by omega⟩
  refine Solo.bind' solo_load_alloc ?_
  obtain ⟨aligned, ha, h⟩ := bind_ok h
  obtain ⟨base, hb, h⟩ := bind_ok h
  cases hw : (checkedAddU32 base ex).filter (· ≤ s.cap) with
  | some wnt =>
    simp only [hw] at h
    refine Solo.bind' (bump_solo_some sh s _ _ fuel' wnt ?_) ?_
    · simp only [ha, hb, ok_bind]; exact congrArg Except.ok hw
    dsimp only
    obtain ⟨m, hm, h⟩ := bind_ok h
    cases h
    exact Solo.bind' (solo_liftM hm) (Solo.ret _ _)
  | none =>
    simp only [hw] at h
    refine Solo.bind' (bump_solo_none sh s _ _ fuel' ?_) ?_
    · simp only [ha, hb, ok_bind]; exact congrArg Except.ok hw
    dsimp only
    cases hp : checkedAddU32 (pad ts ta) ex with
    | none =>
      simp only [hp] at h ⊢
      cases h; exact Solo.bind' (solo_remaining _) (Solo.ret _ _)
    | some padded =>
      simp only [hp] at h ⊢
      exact slowEntry_solo sh c hsync s _ _ _ r s' h

theorem discardLoop_solo (sh : Shared) (c : Cfg) (hsync : c.sync = true) :
    ∀ (fuel acc : Nat) (s : St) (n : Nat) (s' : St), discardLoop c fuel acc s = .ok (n, s') →
      Solo (withSt sh s) (discardLoopC c fuel acc) n (withSt sh s') := by
  intro fuel
  induction fuel with
  | zero => intro acc s n s' h; cases h
  | succ fuel ih =>
    intro acc s n s' h
    simp only [discardLoop, hsync, if_true, true_and] at h
    simp only [discardLoopC]
    refine Solo.bind' solo_load_sent ?_
    ifboth
    · cases h; exact Solo.ret _ _
    ifboth
    · exact ih _ _ _ _ h
    obtain ⟨hw, h1, h⟩ := bind_ok h
    refine Solo.bind' (solo_load_node h1) ?_
    ifboth
    · exact ih _ _ _ _ h
    obtain ⟨⟨s1, ok1⟩, hc1, h⟩ := bind_ok h
    refine solo_casNode_k hc1 (fun _ => ?_)
    dsimp only at h ⊢
    cases ok1 with
    | false =>
      simp only [Bool.not_false, if_true] at h ⊢
      exact ih _ _ _ _ h
    | true =>
      simp only [Bool.not_true, Bool.false_eq_true, if_false] at h ⊢
      obtain ⟨⟨s2, ok2⟩, hc2, h⟩ := bind_ok h
      refine solo_casSent_k hc2 (fun _ => ?_)
      dsimp only at h ⊢
      cases ok2 with
      | true =>
        simp only [if_true] at h ⊢
        obtain ⟨acc', ha, h⟩ := bind_ok h
        refine Solo.bind' (solo_incDiscarded _ _ _ _) ?_
        refine Solo.bind' (solo_liftM ha) ?_
        exact ih _ _ _ _ h
      | false =>
        simp only [Bool.false_eq_true, if_false] at h ⊢
        obtain ⟨⟨s3, ok3⟩, hc3, h⟩ := bind_ok h
        refine solo_casNode_k hc3 (fun _ => ?_)
        exact ih _ _ _ _ h

theorem discardFreelist_solo' (sh : Shared) (c : Cfg) (hsync : c.sync = true) (s : St) (fuel : Nat)
    (r : Except Err Nat) (s' : St) (h : discardFreelist c s fuel = .ok (r, s')) :
    Solo (withSt sh s) (discardFreelistC c fuel) r (withSt sh s') := by
  simp only [discardFreelist] at h
  simp only [discardFreelistC]
  ifboth
  · cases h; exact Solo.ret _ _
  cases hk : c.kind with
  | none =>
    simp only [hk] at h ⊢
    cases h; exact Solo.ret _ _
  | opt =>
    simp only [hk] at h ⊢
    obtain ⟨⟨n, s1⟩, h1, h⟩ := bind_ok h
    cases h
    exact Solo.bind' (discardLoop_solo sh c hsync fuel 0 s n _ h1) (Solo.ret _ _)
  | pess =>
    simp only [hk] at h ⊢
    obtain ⟨⟨n, s1⟩, h1, h⟩ := bind_ok h
    cases h
    exact Solo.bind' (discardLoop_solo sh c hsync fuel 0 s n _ h1) (Solo.ret _ _)

theorem dealloc_solo (c : Cfg) (hsync : c.sync = true) (sh : Shared) (off size fuel : Nat) (b : Bool) (s' : St)
    (h : dealloc c sh.st off size fuel = .ok (b, s')) : Solo sh (deallocC c off size fuel) b (withSt sh s') :=
  dealloc_solo' sh c hsync sh.st off size fuel b s' h

theorem allocBytes_solo (c : Cfg) (hsync : c.sync = true) (sh : Shared) (n fuel : Nat) (hf : 0 < fuel) (r : AllocOut) (s' : St)
    (h : allocBytes c sh.st n fuel = .ok (r, s')) : Solo sh (allocBytesC c sh.st.cap n fuel) r (withSt sh s') :=
  allocBytes_solo' sh c hsync sh.st n fuel hf r s' h

theorem allocT_solo (c : Cfg) (hsync : c.sync = true) (sh : Shared) (ts ta fuel : Nat) (hf : 0 < fuel) (r : AllocOut) (s' : St)
    (h : allocT c sh.st ts ta fuel = .ok (r, s')) : Solo sh (allocTC c sh.st.cap ts ta fuel) r (withSt sh s') :=
  allocT_solo' sh c hsync sh.st ts ta fuel hf r s' h

theorem allocAligned_solo (c : Cfg) (hsync : c.sync = true) (sh : Shared) (ts ta ex fuel : Nat) (hf : 0 < fuel) (r : AllocOut) (s' : St)
    (h : allocAligned c sh.st ts ta ex fuel = .ok (r, s')) :
    Solo sh (allocAlignedC c sh.st.cap ts ta ex fuel) r (withSt sh s') :=
  allocAligned_solo' sh c hsync sh.st ts ta ex fuel hf r s' h

theorem discardFreelist_solo (c : Cfg) (hsync : c.sync = true) (sh : Shared) (fuel : Nat) (r : Except Err Nat) (s' : St)
    (h : discardFreelist c sh.st fuel = .ok (r, s')) : Solo sh (discardFreelistC c fuel) r (withSt sh s') :=
  discardFreelist_solo' sh c hsync sh.st fuel r s' h

end Rarena.Conc
