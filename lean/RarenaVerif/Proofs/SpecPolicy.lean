/-
  Proofs.SpecPolicy — the documented free-list policy (C10) and the accounting of discarded bytes (C20)
  at the abstract level. (all statements proved)
-/
import RarenaVerif.Proofs.ListLemmas

namespace Rarena

/-! ### order -/

theorem sorted_opt_head_max (g : Seg) (rest : List Seg) (h : sortedBy .opt (g :: rest)) :
    ∀ x ∈ g :: rest, x.size ≤ g.size := by
  simp only [sortedBy, List.pairwise_cons] at h
  intro x hx
  rcases List.mem_cons.1 hx with rfl | hx
  · exact Nat.le_refl _
  · exact h.1 x hx

theorem sorted_pess_head_min (g : Seg) (rest : List Seg) (h : sortedBy .pess (g :: rest)) :
    ∀ x ∈ g :: rest, g.size ≤ x.size := by
  simp only [sortedBy, List.pairwise_cons] at h
  intro x hx
  rcases List.mem_cons.1 hx with rfl | hx
  · exact Nat.le_refl _
  · exact h.1 x hx

/-- a new segment is placed in front of the segments of equal size -/
theorem insertSeg_before_equal (k : Kind) (hk : k ≠ .none) (seg : Seg) (l : List Seg) :
    ∃ pre post, insertSeg k seg l = pre ++ seg :: post ∧ l = pre ++ post ∧ ∀ g ∈ pre, g.size ≠ seg.size := by
  obtain ⟨pre, post, h1, h2, h3, _⟩ := insertSeg_split k seg l
  refine ⟨pre, post, h2, h1, ?_⟩
  intro g hg he
  have := h3 g hg
  cases k with
  | none => exact hk rfl
  | opt => simp [cmpInsert] at this; omega
  | pess => simp [cmpInsert] at this; omega

/-! ### Optimistic: largest first -/

theorem sp_tryNew_of_validate (c : Cfg) (a : A) (off size : Nat) (h : a.validate off size = true) :
    a.tryNew c off size = (some ⟨alignUp 8 off, size - ((alignUp 8 off - off) + NODE)⟩, a) := by
  unfold A.validate at h
  unfold A.tryNew
  split at h
  · simp at h
  · rename_i h0
    rw [if_neg h0]
    simp only at h ⊢
    split at h
    · simp at h
    · rename_i h1
      rw [if_neg h1]
      split at h
      · simp at h
      · rename_i h2
        rw [if_neg h2]

theorem sp_finishSlow_eq (c : Cfg) (a : A) (g : Seg) (size : Nat) :
    a.finishSlow c g size =
      if a.validate (g.off + NODE + size) (g.size - size) then
        (⟨g.off, g.size - (g.size - size), g.off + NODE, size⟩,
          ({ a with free := insertSeg c.kind ⟨alignUp 8 (g.off + NODE + size),
              (g.size - size) - ((alignUp 8 (g.off + NODE + size) - (g.off + NODE + size)) + NODE)⟩ a.free }).incDiscarded c NODE)
      else (⟨g.off, g.size, g.off + NODE, size⟩, a) := by
  unfold A.finishSlow
  simp only
  by_cases hv : a.validate (g.off + NODE + size) (g.size - size) = true
  · rw [if_pos hv, if_pos hv]
    simp only [A.freelistDealloc, sp_tryNew_of_validate c a _ _ hv]
  · rw [if_neg hv, if_neg hv]

/-- fails iff the list is empty or the largest segment is too small (equivalently: no segment fits) -/
theorem slow_opt_fails_iff (c : Cfg) (a : A) (size : Nat) (hk : c.kind = .opt) (hro : c.ro = false)
    (hs : sortedBy .opt a.free) :
    (a.slow c size).1 = .error .insufficient ↔ ∀ g ∈ a.free, g.size < size := by
  unfold A.slow
  simp only [hro, hk]
  cases hf : a.free with
  | nil => simp
  | cons g rest =>
    rw [hf] at hs
    have hmax := sorted_opt_head_max g rest hs
    simp only
    by_cases hc : size > g.size
    · rw [if_pos hc]
      refine ⟨fun _ => ?_, fun _ => rfl⟩
      intro x hx
      have := hmax x hx
      omega
    · rw [if_neg hc]
      rcases hfs : A.finishSlow c { a with free := rest } g size with ⟨m, a1⟩
      constructor
      · intro h; simp at h
      · intro h
        have := h g (List.mem_cons_self)
        omega

/-- when it succeeds it serves from the head, which is a largest segment, and removes it -/
theorem slow_opt_serves_head (c : Cfg) (a a' : A) (size : Nat) (m : Meta) (hk : c.kind = .opt)
    (hs : sortedBy .opt a.free) (h : a.slow c size = (.ok m, a')) :
    ∃ g rest, a.free = g :: rest ∧ m.memOff = g.off ∧ m.ptrOff = g.off + NODE ∧ m.ptrSize = size ∧
      size ≤ g.size ∧ (∀ x ∈ a.free, x.size ≤ g.size) ∧
      (a' = { a with free := rest } ∨
        ∃ seg, a' = ({ a with free := insertSeg .opt seg rest }).incDiscarded c NODE) := by
  unfold A.slow at h
  by_cases hro : c.ro = true
  · rw [if_pos hro] at h; simp at h
  · rw [if_neg hro] at h
    simp only [hk] at h
    cases hf : a.free with
    | nil => rw [hf] at h; simp at h
    | cons g rest =>
      rw [hf] at h hs
      have hmax := sorted_opt_head_max g rest hs
      simp only at h
      by_cases hc : size > g.size
      · rw [if_pos hc] at h; simp at h
      · rw [if_neg hc, sp_finishSlow_eq] at h
        refine ⟨g, rest, rfl, ?_⟩
        split at h
        · simp only [Prod.mk.injEq, Except.ok.injEq] at h
          obtain ⟨rfl, rfl⟩ := h
          refine ⟨rfl, rfl, rfl, by omega, hmax, Or.inr ?_⟩
          rw [hk]
          exact ⟨_, rfl⟩
        · simp only [Prod.mk.injEq, Except.ok.injEq] at h
          obtain ⟨rfl, rfl⟩ := h
          exact ⟨rfl, rfl, rfl, by omega, hmax, Or.inl rfl⟩

/-! ### Pessimistic: smallest that fits -/

theorem slow_pess_fails_iff (c : Cfg) (a : A) (size : Nat) (hk : c.kind = .pess) (hro : c.ro = false) :
    (a.slow c size).1 = .error .insufficient ↔ ∀ g ∈ a.free, g.size < size := by
  unfold A.slow
  simp only [hro, hk, Bool.false_eq_true, ↓reduceIte]
  cases ht : takeFirst (fun g => decide (size ≤ g.size)) a.free with
  | none =>
    simp only [true_iff]
    intro x hx
    have := takeFirst_none _ _ ht x hx
    simp at this
    omega
  | some p =>
    obtain ⟨g, rest⟩ := p
    obtain ⟨pre, post, h1, h2, h3, h4⟩ := takeFirst_some _ _ _ _ ht
    simp only
    rcases hfs : A.finishSlow c { a with free := rest } g size with ⟨m, a1⟩
    constructor
    · intro h; simp at h
    · intro h
      have := h g (by rw [h1]; simp)
      simp at h3
      omega

theorem slow_pess_serves_min_fit (c : Cfg) (a a' : A) (size : Nat) (m : Meta) (hk : c.kind = .pess)
    (hs : sortedBy .pess a.free) (h : a.slow c size = (.ok m, a')) :
    ∃ g pre post, a.free = pre ++ g :: post ∧ m.memOff = g.off ∧ m.ptrOff = g.off + NODE ∧ m.ptrSize = size ∧
      size ≤ g.size ∧ (∀ x ∈ a.free, size ≤ x.size → g.size ≤ x.size) ∧ (∀ x ∈ pre, x.size < size) ∧
      (a' = { a with free := pre ++ post } ∨
        ∃ seg, a' = ({ a with free := insertSeg .pess seg (pre ++ post) }).incDiscarded c NODE) := by
  unfold A.slow at h
  by_cases hro : c.ro = true
  · rw [if_pos hro] at h; simp at h
  · rw [if_neg hro] at h
    simp only [hk] at h
    cases ht : takeFirst (fun g => decide (size ≤ g.size)) a.free with
    | none => rw [ht] at h; simp at h
    | some p =>
      obtain ⟨g, rest⟩ := p
      rw [ht] at h
      obtain ⟨pre, post, h1, h2, h3, h4⟩ := takeFirst_some _ _ _ _ ht
      subst h2
      simp only [decide_eq_true_eq] at h3
      have hpre : ∀ x ∈ pre, x.size < size := by
        intro x hx
        have := h4 x hx
        simp at this
        omega
      have hmin : ∀ x ∈ a.free, size ≤ x.size → g.size ≤ x.size := by
        intro x hx hsx
        rw [h1] at hx hs
        simp only [sortedBy, List.pairwise_append, List.pairwise_cons] at hs
        rcases List.mem_append.1 hx with hx | hx
        · have := hpre x hx; omega
        · rcases List.mem_cons.1 hx with rfl | hx
          · exact Nat.le_refl _
          · exact hs.2.1.1 x hx
      simp only [sp_finishSlow_eq] at h
      refine ⟨g, pre, post, h1, ?_⟩
      split at h
      · simp only [Prod.mk.injEq, Except.ok.injEq] at h
        obtain ⟨rfl, rfl⟩ := h
        refine ⟨rfl, rfl, rfl, h3, hmin, hpre, Or.inr ?_⟩
        rw [hk]
        exact ⟨_, rfl⟩
      · simp only [Prod.mk.injEq, Except.ok.injEq] at h
        obtain ⟨rfl, rfl⟩ := h
        exact ⟨rfl, rfl, rfl, h3, hmin, hpre, Or.inl rfl⟩

/-! ### remainder rule -/

theorem sp_incDiscarded_free (c : Cfg) (a : A) (n : Nat) : (a.incDiscarded c n).free = a.free := by
  unfold A.incDiscarded; split <;> rfl

theorem sp_validate_iff (a : A) (off size : Nat) :
    a.validate off size = true ↔
      off ≠ 0 ∧ size ≠ 0 ∧ (alignUp 8 off - off) + NODE < size ∧ a.minSeg ≤ size - ((alignUp 8 off - off) + NODE) := by
  unfold A.validate
  by_cases h0 : off = 0 ∨ size = 0
  · rw [if_pos h0]
    constructor
    · intro h; simp at h
    · intro h; omega
  · rw [if_neg h0]
    simp only
    by_cases h1 : (alignUp 8 off - off) + NODE ≥ size
    · rw [if_pos h1]
      constructor
      · intro h; simp at h
      · intro h; omega
    · rw [if_neg h1]
      by_cases h2 : size - ((alignUp 8 off - off) + NODE) < a.minSeg
      · rw [if_pos h2]
        constructor
        · intro h; simp at h
        · intro h; omega
      · rw [if_neg h2]
        simp only [true_iff]
        omega

set_option linter.unusedVariables false in
/-- the tail of a served segment goes back to the list iff, after aligning its start to 8, it can hold a
    node word plus at least one byte and at least the minimum segment size -/
theorem finishSlow_remainder_rule (c : Cfg) (a : A) (g : Seg) (size : Nat) (hsz : size ≤ g.size) (hk : c.kind ≠ .none) :
    let dataEnd := g.off + NODE + size
    let rem := g.size - size
    let padding := alignUp 8 dataEnd - dataEnd
    let r := a.finishSlow c g size
    (r.2.free = insertSeg c.kind ⟨alignUp 8 dataEnd, rem - padding - NODE⟩ a.free ∧ r.1.memSize = size ∧
        padding + NODE < rem ∧ a.minSeg ≤ rem - padding - NODE)
    ∨ (r.2 = a ∧ r.1.memSize = g.size ∧ ¬ (padding + NODE < rem ∧ a.minSeg ≤ rem - padding - NODE)) := by
  intro dataEnd rem padding r
  have hr : r = a.finishSlow c g size := rfl
  rw [sp_finishSlow_eq] at hr
  by_cases hv : a.validate (g.off + NODE + size) (g.size - size) = true
  · rw [if_pos hv] at hr
    left
    rw [hr]
    simp only [sp_incDiscarded_free]
    rw [sp_validate_iff] at hv
    simp only [dataEnd, rem, padding, NODE] at *
    refine ⟨?_, by omega, by omega, by omega⟩
    congr 2
  · rw [if_neg hv] at hr
    right
    rw [hr]
    refine ⟨rfl, rfl, ?_⟩
    intro hh
    apply hv
    rw [sp_validate_iff]
    simp only [dataEnd, rem, padding, NODE] at *
    omega

/-! ### Freelist::None never reuses -/

theorem none_slow_fails (c : Cfg) (a : A) (size : Nat) (hk : c.kind = .none) (hro : c.ro = false) :
    a.slow c size = (.error .insufficient, a) := by
  unfold A.slow
  simp [hro, hk]

theorem none_dealloc (c : Cfg) (a : A) (off size : Nat) (hk : c.kind = .none) :
    (a.dealloc c off size).2 = (if a.allocated = off + size then { a with allocated := off } else a.incDiscarded c size) := by
  unfold A.dealloc
  split
  · rfl
  · simp only [hk]

/-! ### accounting (C20) -/

theorem incDiscarded_val (c : Cfg) (a : A) (n : Nat) (hro : c.ro = false) :
    (a.incDiscarded c n).discarded = (a.discarded + n) % TWO32 ∧ (a.incDiscarded c n).free = a.free ∧
    (a.incDiscarded c n).allocated = a.allocated := by
  unfold A.incDiscarded
  simp [hro]

theorem sp_le_alignUp8 (x : Nat) : x ≤ alignUp 8 x := by unfold alignUp; omega

/-- a release that is not on top: either it is too small to become a segment (then `discarded` grows by its
    whole size and the list is unchanged — the bytes are never reused), or it becomes a segment and
    `discarded` grows by the 8 header bytes -/
theorem freelistDealloc_accounting (c : Cfg) (a : A) (off size : Nat) (hro : c.ro = false) (h0 : off ≠ 0) (hs : size ≠ 0) :
    let r := a.freelistDealloc c off size
    (r.1 = false ∧ r.2.free = a.free ∧ r.2.discarded = (a.discarded + size) % TWO32) ∨
    (r.1 = true ∧ r.2.discarded = (a.discarded + NODE) % TWO32 ∧
      ∃ seg, r.2.free = insertSeg c.kind seg a.free ∧ off ≤ seg.off ∧ seg.hi = off + size) := by
  intro r
  have hr : r = a.freelistDealloc c off size := rfl
  have hal := sp_le_alignUp8 off
  unfold A.freelistDealloc A.tryNew at hr
  rw [if_neg (by omega)] at hr
  simp only at hr
  by_cases h1 : (alignUp 8 off - off) + NODE ≥ size
  · rw [if_pos h1] at hr
    simp only at hr
    left
    rw [hr]
    have := incDiscarded_val c a size hro
    exact ⟨rfl, this.2.1, this.1⟩
  · rw [if_neg h1] at hr
    by_cases h2 : size - ((alignUp 8 off - off) + NODE) < a.minSeg
    · rw [if_pos h2] at hr
      simp only at hr
      left
      rw [hr]
      have := incDiscarded_val c a size hro
      exact ⟨rfl, this.2.1, this.1⟩
    · rw [if_neg h2] at hr
      simp only at hr
      right
      rw [hr]
      have := incDiscarded_val c { a with free := insertSeg c.kind ⟨alignUp 8 off, size - ((alignUp 8 off - off) + NODE)⟩ a.free } NODE hro
      refine ⟨rfl, this.1, _, this.2.1, ?_, ?_⟩
      · exact hal
      · simp only [Seg.hi, NODE] at *
        omega

theorem sp_foldl_disc (l : List Seg) (d : Nat) (hd : d < TWO32) :
    l.foldl (fun d g => (d + g.size) % TWO32) d = (d + (l.map (·.size)).sum) % TWO32 := by
  induction l generalizing d with
  | nil => simp only [List.foldl_nil, List.map_nil, List.sum_nil, Nat.add_zero]; rw [Nat.mod_eq_of_lt hd]
  | cons g rest ih =>
    simp only [List.foldl_cons, List.map_cons, List.sum_cons]
    rw [ih _ (Nat.mod_lt _ (by unfold TWO32; omega))]
    unfold TWO32
    omega

theorem discardFreelist_spec (c : Cfg) (a : A) (hro : c.ro = false) (hk : c.kind ≠ .none) :
    let total := (a.free.map (·.size)).sum
    a.discardFreelist c = (.ok total, { a with free := [], discarded := (a.discarded + total) % TWO32 }) ∨
    a.discarded ≥ TWO32 := by
  intro total
  by_cases hd : a.discarded ≥ TWO32
  · exact Or.inr hd
  · left
    have hf := sp_foldl_disc a.free a.discarded (by omega)
    unfold A.discardFreelist
    simp only [hro, Bool.false_eq_true, ↓reduceIte]
    cases hkk : c.kind with
    | none => exact absurd hkk hk
    | opt => simp only [hf, total]
    | pess => simp only [hf, total]

theorem discardFreelist_ro (c : Cfg) (a : A) (hro : c.ro = true) : a.discardFreelist c = (.error .readOnly, a) := by
  unfold A.discardFreelist
  simp [hro]

theorem sp_discardFreelist_free (c : Cfg) (a : A) (hro : c.ro = false) :
    c.kind = .none ∨ (a.discardFreelist c).2.free = [] := by
  unfold A.discardFreelist
  simp only [hro, Bool.false_eq_true, ↓reduceIte]
  cases hkk : c.kind with
  | none => exact Or.inl rfl
  | opt => exact Or.inr rfl
  | pess => exact Or.inr rfl

/-- after `discard_freelist` only fresh space can serve a request -/
theorem after_discard_only_fresh (c : Cfg) (a : A) (size : Nat) (hro : c.ro = false) :
    ((a.discardFreelist c).2.slow c size).1 = .error .insufficient := by
  rcases sp_discardFreelist_free c a hro with hk | hf
  · rw [none_slow_fails c _ size hk hro]
  · unfold A.slow
    simp only [hro, Bool.false_eq_true, ↓reduceIte, hf]
    cases hkk : c.kind with
    | none => rfl
    | opt => rfl
    | pess => rfl

/-- `discarded` either is unchanged or has been reduced modulo 2^32 -/
def DOk (a a' : A) : Prop := a'.discarded = a.discarded ∨ a'.discarded < TWO32

theorem DOk.refl (a : A) : DOk a a := Or.inl rfl

theorem DOk.trans {a b d : A} (h1 : DOk a b) (h2 : DOk b d) : DOk a d := by
  unfold DOk at *
  rcases h2 with h2 | h2
  · rw [h2]; exact h1
  · exact Or.inr h2

theorem DOk_of_disc_eq {a b : A} (h : b.discarded = a.discarded) : DOk a b := Or.inl h

theorem incDiscarded_DOk (c : Cfg) (a : A) (n : Nat) : DOk a (a.incDiscarded c n) := by
  unfold A.incDiscarded DOk
  split
  · exact Or.inl rfl
  · right
    exact Nat.mod_lt _ (by unfold TWO32; omega)

theorem tryNew_DOk (c : Cfg) (a : A) (off size : Nat) : DOk a (a.tryNew c off size).2 := by
  unfold A.tryNew
  split
  · exact DOk.refl a
  · simp only
    split
    · exact incDiscarded_DOk c a size
    · split
      · exact incDiscarded_DOk c a size
      · exact DOk.refl a

theorem freelistDealloc_DOk (c : Cfg) (a : A) (off size : Nat) : DOk a (a.freelistDealloc c off size).2 := by
  unfold A.freelistDealloc
  have h := tryNew_DOk c a off size
  rcases hr : a.tryNew c off size with ⟨_ | seg, a1⟩ <;> rw [hr] at h
  · exact h
  · exact h.trans ((DOk_of_disc_eq (a := a1) rfl).trans (incDiscarded_DOk c _ NODE))

theorem dealloc_DOk (c : Cfg) (a : A) (off size : Nat) : DOk a (a.dealloc c off size).2 := by
  unfold A.dealloc
  split
  · exact DOk_of_disc_eq rfl
  · split
    · exact incDiscarded_DOk c a size
    · exact freelistDealloc_DOk c a off size

theorem finishSlow_DOk (c : Cfg) (a : A) (g : Seg) (size : Nat) : DOk a (a.finishSlow c g size).2 := by
  unfold A.finishSlow
  simp only
  split
  · exact freelistDealloc_DOk c a _ _
  · exact DOk.refl a

theorem slow_DOk (c : Cfg) (a : A) (size : Nat) : DOk a (a.slow c size).2 := by
  unfold A.slow
  split
  · exact DOk.refl a
  · split
    · exact DOk.refl a
    · split
      · exact DOk.refl a
      · split
        · exact DOk.refl a
        · rename_i g rest _ _
          exact (DOk_of_disc_eq (a := a) (b := { a with free := rest }) rfl).trans (finishSlow_DOk c _ g size)
    · split
      · exact DOk.refl a
      · rename_i g rest _
        exact (DOk_of_disc_eq (a := a) (b := { a with free := rest }) rfl).trans (finishSlow_DOk c _ g size)

theorem slowEntry_DOk (c : Cfg) (a : A) (size : Nat) (post : Meta → Meta) : DOk a (a.slowEntry c size post).2 := by
  unfold A.slowEntry
  have h := slow_DOk c a size
  rcases hr : a.slow c size with ⟨_ | m, a1⟩ <;> rw [hr] at h <;> exact h

theorem allocBytes_DOk (c : Cfg) (a : A) (n : Nat) : DOk a (a.allocBytes c n).2 := by
  unfold A.allocBytes
  split
  · exact DOk.refl a
  · split
    · exact DOk.refl a
    · split
      · exact DOk_of_disc_eq rfl
      · exact slowEntry_DOk c a _ _

theorem allocAligned_DOk (c : Cfg) (a : A) (ts ta ex : Nat) : DOk a (a.allocAligned c ts ta ex).2 := by
  unfold A.allocAligned
  split
  · exact DOk.refl a
  · split
    · exact allocBytes_DOk c a ex
    · simp only
      split
      · exact DOk_of_disc_eq rfl
      · split
        · exact slowEntry_DOk c a _ _
        · exact DOk.refl a

theorem allocT_DOk (c : Cfg) (a : A) (ts ta : Nat) : DOk a (a.allocT c ts ta).2 := by
  unfold A.allocT
  split
  · exact DOk.refl a
  · split
    · exact DOk.refl a
    · simp only
      split
      · exact DOk_of_disc_eq rfl
      · exact slowEntry_DOk c a _ _

theorem foldl_DOk (ro : Bool) (l : List Seg) (d : Nat) :
    l.foldl (fun d g => if ro then d else (d + g.size) % TWO32) d = d ∨
    l.foldl (fun d g => if ro then d else (d + g.size) % TWO32) d < TWO32 := by
  induction l generalizing d with
  | nil => exact Or.inl rfl
  | cons g rest ih =>
    simp only [List.foldl_cons]
    cases ro with
    | true => simpa using ih d
    | false =>
      rcases ih ((d + g.size) % TWO32) with h | h
      · right
        simp only [Bool.false_eq_true, ↓reduceIte] at h ⊢
        rw [h]
        exact Nat.mod_lt _ (by unfold TWO32; omega)
      · exact Or.inr h

theorem discardFreelist_DOk (c : Cfg) (a : A) : DOk a (a.discardFreelist c).2 := by
  unfold A.discardFreelist
  split
  · exact DOk.refl a
  · split
    · exact DOk.refl a
    · have := foldl_DOk false a.free a.discarded
      simpa [DOk] using this

theorem step_DOk (c : Cfg) (h : HState) (op : HOp) : DOk h.a (h.step c op).a := by
  cases op with
  | allocBytes n =>
    simp only [HState.step]
    have := allocBytes_DOk c h.a n
    split <;> simp_all
  | allocAligned ts ta ex =>
    simp only [HState.step]
    have := allocAligned_DOk c h.a ts ta ex
    split <;> simp_all
  | allocT ts ta =>
    simp only [HState.step]
    have := allocT_DOk c h.a ts ta
    split <;> simp_all
  | release i =>
    simp only [HState.step]
    split
    · exact DOk.refl _
    · exact dealloc_DOk c h.a _ _
  | detach i =>
    simp only [HState.step]
    split <;> exact DOk.refl _
  | setMinSeg n =>
    simp only [HState.step]
    split
    · exact DOk.refl _
    · exact DOk_of_disc_eq rfl
  | incDiscarded n => exact incDiscarded_DOk c h.a n
  | discardFreelist => exact discardFreelist_DOk c h.a
  | clear =>
    simp only [HState.step]
    split
    · exact DOk.refl _
    · right
      show (0 : Nat) < TWO32
      unfold TWO32; omega
  | truncate n =>
    simp only [HState.step]
    split
    · exact DOk.refl _
    · exact DOk_of_disc_eq rfl

theorem sp_mod_reach (x y : Nat) (hx : x < TWO32) : ∃ d, x = (y + d) % TWO32 := by
  refine ⟨x + (TWO32 - y % TWO32), ?_⟩
  unfold TWO32 at *
  omega

/-- every step of a history changes `discarded` by adding a non-negative amount modulo 2^32 -/
theorem step_discarded (c : Cfg) (h : HState) (op : HOp) :
    ∃ d, (h.step c op).a.discarded = (h.a.discarded + d) % TWO32 ∨ (h.step c op).a.discarded = h.a.discarded := by
  rcases step_DOk c h op with he | hlt
  · exact ⟨0, Or.inr he⟩
  · obtain ⟨d, hd⟩ := sp_mod_reach _ h.a.discarded hlt
    exact ⟨d, Or.inl hd⟩

end Rarena
