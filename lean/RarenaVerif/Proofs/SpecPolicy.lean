/-
  Proofs.SpecPolicy — the documented free-list policy (C10) and the accounting of discarded bytes (C20)
  at the abstract level. (statement file: every `sorry` below is a proof obligation)
-/
import RarenaVerif.Proofs.ListLemmas

namespace Rarena

/-! ### order -/

theorem sorted_opt_head_max (g : Seg) (rest : List Seg) (h : sortedBy .opt (g :: rest)) :
    ∀ x ∈ g :: rest, x.size ≤ g.size := by
  sorry

theorem sorted_pess_head_min (g : Seg) (rest : List Seg) (h : sortedBy .pess (g :: rest)) :
    ∀ x ∈ g :: rest, g.size ≤ x.size := by
  sorry

/-- a new segment is placed in front of the segments of equal size -/
theorem insertSeg_before_equal (k : Kind) (hk : k ≠ .none) (seg : Seg) (l : List Seg) :
    ∃ pre post, insertSeg k seg l = pre ++ seg :: post ∧ l = pre ++ post ∧ ∀ g ∈ pre, g.size ≠ seg.size := by
  sorry

/-! ### Optimistic: largest first -/

/-- fails iff the list is empty or the largest segment is too small (equivalently: no segment fits) -/
theorem slow_opt_fails_iff (c : Cfg) (a : A) (size : Nat) (hk : c.kind = .opt) (hro : c.ro = false)
    (hs : sortedBy .opt a.free) :
    (a.slow c size).1 = .error .insufficient ↔ ∀ g ∈ a.free, g.size < size := by
  sorry

/-- when it succeeds it serves from the head, which is a largest segment, and removes it -/
theorem slow_opt_serves_head (c : Cfg) (a a' : A) (size : Nat) (m : Meta) (hk : c.kind = .opt)
    (hs : sortedBy .opt a.free) (h : a.slow c size = (.ok m, a')) :
    ∃ g rest, a.free = g :: rest ∧ m.memOff = g.off ∧ m.ptrOff = g.off + NODE ∧ m.ptrSize = size ∧
      size ≤ g.size ∧ (∀ x ∈ a.free, x.size ≤ g.size) ∧
      (a' = { a with free := rest } ∨
        ∃ seg, a' = ({ a with free := insertSeg .opt seg rest }).incDiscarded c NODE) := by
  sorry

/-! ### Pessimistic: smallest that fits -/

theorem slow_pess_fails_iff (c : Cfg) (a : A) (size : Nat) (hk : c.kind = .pess) (hro : c.ro = false) :
    (a.slow c size).1 = .error .insufficient ↔ ∀ g ∈ a.free, g.size < size := by
  sorry

theorem slow_pess_serves_min_fit (c : Cfg) (a a' : A) (size : Nat) (m : Meta) (hk : c.kind = .pess)
    (hs : sortedBy .pess a.free) (h : a.slow c size = (.ok m, a')) :
    ∃ g pre post, a.free = pre ++ g :: post ∧ m.memOff = g.off ∧ m.ptrOff = g.off + NODE ∧ m.ptrSize = size ∧
      size ≤ g.size ∧ (∀ x ∈ a.free, size ≤ x.size → g.size ≤ x.size) ∧ (∀ x ∈ pre, x.size < size) ∧
      (a' = { a with free := pre ++ post } ∨
        ∃ seg, a' = ({ a with free := insertSeg .pess seg (pre ++ post) }).incDiscarded c NODE) := by
  sorry

/-! ### remainder rule -/

/-- the tail of a served segment goes back to the list iff, after aligning its start to 8, it can hold a
    node word plus at least one byte and at least the minimum segment size -/
theorem finishSlow_remainder_rule (c : Cfg) (a : A) (g : Seg) (size : Nat) (hsz : size ≤ g.size) (hk : c.kind ≠ .none) :
    let dataEnd := g.off + NODE + size
    let rem := g.size - size
    let padding := alignUp 8 dataEnd - dataEnd
    let r := a.finishSlow c g size
    (r.2.free = insertSeg c.kind ⟨alignUp 8 dataEnd, rem - padding - NODE⟩ a.free ∧ r.1.memSize = size ∧
        padding + NODE < rem ∧ a.minSeg ≤ rem - padding - NODE)
    ∨ (r.2 = a ∧ r.1.memSize = g.size ∧ ¬ (padding + NODE < rem ∧ a.minSeg ≤ rem - padding - NODE)) := by
  sorry

/-! ### Freelist::None never reuses -/

theorem none_slow_fails (c : Cfg) (a : A) (size : Nat) (hk : c.kind = .none) (hro : c.ro = false) :
    a.slow c size = (.error .insufficient, a) := by
  sorry

theorem none_dealloc (c : Cfg) (a : A) (off size : Nat) (hk : c.kind = .none) :
    (a.dealloc c off size).2 = (if a.allocated = off + size then { a with allocated := off } else a.incDiscarded c size) := by
  sorry

/-! ### accounting (C20) -/

theorem incDiscarded_val (c : Cfg) (a : A) (n : Nat) (hro : c.ro = false) :
    (a.incDiscarded c n).discarded = (a.discarded + n) % TWO32 ∧ (a.incDiscarded c n).free = a.free ∧
    (a.incDiscarded c n).allocated = a.allocated := by
  sorry

/-- a release that is not on top: either it is too small to become a segment (then `discarded` grows by its
    whole size and the list is unchanged — the bytes are never reused), or it becomes a segment and
    `discarded` grows by the 8 header bytes -/
theorem freelistDealloc_accounting (c : Cfg) (a : A) (off size : Nat) (hro : c.ro = false) (h0 : off ≠ 0) (hs : size ≠ 0) :
    let r := a.freelistDealloc c off size
    (r.1 = false ∧ r.2.free = a.free ∧ r.2.discarded = (a.discarded + size) % TWO32) ∨
    (r.1 = true ∧ r.2.discarded = (a.discarded + NODE) % TWO32 ∧
      ∃ seg, r.2.free = insertSeg c.kind seg a.free ∧ off ≤ seg.off ∧ seg.hi = off + size) := by
  sorry

theorem discardFreelist_spec (c : Cfg) (a : A) (hro : c.ro = false) (hk : c.kind ≠ .none) :
    let total := (a.free.map (·.size)).sum
    a.discardFreelist c = (.ok total, { a with free := [], discarded := (a.discarded + total) % TWO32 }) ∨
    a.discarded ≥ TWO32 := by
  sorry

theorem discardFreelist_ro (c : Cfg) (a : A) (hro : c.ro = true) : a.discardFreelist c = (.error .readOnly, a) := by
  sorry

/-- after `discard_freelist` only fresh space can serve a request -/
theorem after_discard_only_fresh (c : Cfg) (a : A) (size : Nat) (hro : c.ro = false) :
    ((a.discardFreelist c).2.slow c size).1 = .error .insufficient := by
  sorry

/-- every step of a history changes `discarded` by adding a non-negative amount modulo 2^32 -/
theorem step_discarded (c : Cfg) (h : HState) (op : HOp) :
    ∃ d, (h.step c op).a.discarded = (h.a.discarded + d) % TWO32 ∨ (h.step c op).a.discarded = h.a.discarded := by
  sorry

end Rarena
